\* G06: one daemon connection x every one of the 126 scripts (header class x fd class x end), 2 Accept calls, 1 Close
SPECIFICATION Spec
CONSTANTS
  Mode = "listener"
  Origins = {"listen", "adopt"}
  MaxD = 1
  MaxAcc = 2
  MaxClose = 1
  Scripts <- AllScripts
  Shapes <- NoShapes
  ErrClasses = {}
  Bug = {}
INVARIANTS ListenerTypeOK ExactlyOnce OnlyWellFormed NeverKills AfterCloseErr ClosedClean NoLeak SocketFile
CHECK_DEADLOCK FALSE
