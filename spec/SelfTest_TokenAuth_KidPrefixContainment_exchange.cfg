\* non-vacuity self-test (handshake only): with the known-wrong design "KidPrefixContainment"
\* (containment of the resolved key path tested by string prefix) TLC must report ServerOkImpliesKeyHeld violated
SPECIFICATION Spec
CONSTANTS
  Bug = {"KidPrefixContainment"}
  Kinds <- AllKinds
  VKinds = {}
INVARIANTS TypeOK ServerOkImpliesKeyHeld
CHECK_DEADLOCK FALSE
