\* non-vacuity: with Bug = {"NoWatcherAtStep"} TLC must report CancelledLeadsToReturned violated
SPECIFICATION LiveSpec
CONSTANTS
  Ns = {1, 2, 3}
  Kinds = {"cancel", "deadline", "background"}
  Bug = {"NoWatcherAtStep"}
PROPERTY CancelledLeadsToReturned
CHECK_DEADLOCK FALSE
