\* C01 (ii-a2): every way the typed layer can cut a message of 1..5 bytes (Put + explicit FlushFrame), whole-message reads
SPECIFICATION GenSpec
CONSTANTS
  Max = 1048576
  FlushAt = 4096
  Target = 16384
  Tag = 16
  IVLen = 16
  Hdr = 5
  Encs = {TRUE, FALSE}
  SendApis = {"typed"}
  RecvApis = {"complete", "startread", "typed"}
  WriteSizes = {1, 2, 3, 4, 5, 6}
  StrSizes = {}
  StrBytesSizes = {}
  ReadSizes = {0}
  MaxMsgs = 1
  MaxWrites = 6
  MaxReads = 1
  MaxLen = 5
  PairFirst = {}
  TypedFlush = {TRUE}
  Interleave = FALSE
  MaxAbandon = 0
  Bug = {}
INVARIANT EmitTrace
CHECK_DEADLOCK FALSE
