SPECIFICATION GenSpec
CONSTANTS
  Tags = {"none"}
  Addrs = {"s1"}
  Cmds = {"c1"}
  ValidCmds = {"c1"}
  MaxSid = 3
  MaxTime = 5
  Duration = 2
  Lease = 1
  ImportOn = TRUE
  MaxRec = 2
  Bug = {}
  GenMode = "C06walk"
  GenDepth = 0
  LifeDepth = 7
  Canon = FALSE
INVARIANT EmitTrace
CHECK_DEADLOCK FALSE
