------------------------ MODULE StreamEndpoint_Trace ------------------------
(***************************************************************************)
(* Trace validation (code -> spec) for single stream objects.  The trace   *)
(* file (ndjson, IOEnv.TRACE_FILE) holds the events of many objects, one   *)
(* object after the other, separated by {"ev":"Reset"} lines; every event  *)
(* carries the object's projected state AFTER the step.  Each line must be *)
(* explained by one StreamEndpoint action whose predicted post-state       *)
(* equals the logged one; TraceAccepted holds iff every line was consumed. *)
(***************************************************************************)
EXTENDS StreamEndpoint, Json, IOUtils

Trace == ndJsonDeserialize(IOEnv.TRACE_FILE)

VARIABLE l
tvars == <<evars, l>>

Ev == Trace[l]
Is(e) == l <= Len(Trace) /\ Ev.ev = e /\ l' = l + 1

\* logged post-state equals the predicted post-state
PostMatches ==
  /\ keyed' = Ev.keyed /\ sctr' = Ev.sctr /\ rctr' = Ev.rctr
  /\ sfirst' = Ev.sfirst /\ rfirst' = Ev.rfirst
  /\ (keyed' => kfp' = Ev.k)

TInit == EInit /\ l = 1

TReset == Is("Reset") /\ keyed' = FALSE /\ kfp' = "" /\ sctr' = 0 /\ rctr' = 0 /\ sfirst' = TRUE /\ rfirst' = TRUE

TSetKey == Is("SetKey") /\ ESetKey(Ev.k) /\ PostMatches

TImport == Is("Imported") /\ EImport(Ev.k, Ev.sctr, Ev.rctr, Ev.sfirst, Ev.rfirst) /\ PostMatches

TSend == Is("FrameSent") /\ ESend(Ev.enc, Ev.plen, Ev.wlen) /\ PostMatches

\* FrameIn followed by FrameAccepted of the same object: two lines, one action each;
\* the acceptance decision is bound at the FrameAccepted line using the FrameIn before it.
TFrameIn == Is("FrameIn") /\ UNCHANGED evars

TAccept ==
  /\ Is("FrameAccepted") /\ l > 1 /\ Trace[l - 1].ev = "FrameIn"
  /\ EAccept(Trace[l - 1].enc, Trace[l - 1].wlen, Ev.plen, Trace[l - 1].ann)
  /\ PostMatches

TExport == Is("Exported") /\ EExport(Ev.enc, Ev.inmsg, Ev.rbuf, Ev.sbuf, Ev.seom) /\ PostMatches

TNext == TReset \/ TSetKey \/ TImport \/ TSend \/ TFrameIn \/ TAccept \/ TExport

TraceSpec == TInit /\ [][TNext]_tvars

TraceAccepted == TLCGet("stats").diameter - 1 = Len(Trace)
=============================================================================
