\* C06 exhaustive (quick, second run): one session that is negotiated OR imported, clock 0..3
SPECIFICATION Spec06
CONSTANTS
  Tags = {"none"}
  Addrs = {"s1"}
  Cmds = {"c1"}
  ValidCmds = {"c1"}
  MaxSid = 1
  MaxTime = 3
  Duration = 2
  Lease = 1
  ImportOn = TRUE
  MaxRec = 1
  Bug = {}
CONSTRAINT LegitOnly
VIEW McView
INVARIANTS TypeOK ResumeOnlyKeyed AllBytesAfterReplyProtected NoKeyNoAcceptedByte NoKeyNoReadableByte DeadStaysDead ToldWhenAsked ResumedStateEqualsOriginal
CHECK_DEADLOCK FALSE
