\* non-vacuity: with Bug = {"RestartKeepsBuffer"} (StartMessage leaves an abandoned draft in the
\* send buffer) TLC must report an invariant violated
SPECIFICATION Spec
CONSTANTS
  Max = 1048576
  FlushAt = 4096
  Target = 16384
  Tag = 16
  IVLen = 16
  Hdr = 5
  Encs = {TRUE, FALSE}
  SendApis = {"buffered"}
  RecvApis = {"complete"}
  WriteSizes = {1, 3}
  StrSizes = {}
  StrBytesSizes = {}
  ReadSizes = {0}
  MaxMsgs = 1
  MaxWrites = 2
  MaxReads = 1
  MaxLen = 8
  PairFirst = {}
  TypedFlush = {FALSE}
  Interleave = FALSE
  MaxAbandon = 1
  Bug = {"RestartKeepsBuffer"}
INVARIANTS DeliveredIsPrefixOfSent WireOK NoSpuriousMessage
CHECK_DEADLOCK FALSE
