\* G07 client life cycle (quick): 3 calls
SPECIFICATION LiveC
CONSTANTS
  Hows = {"new", "ca"}
  Routes = {"direct", "shared", "ccb"}
  Secs = {"none", "sec"}
  EnvsNew = {"absent", "dialstall", "close", "stall", "serve"}
  EnvsCA = {"absent", "dialstall", "close", "stall", "garbage", "serve", "reject"}
  Ctxs = {"live", "pre", "during"}
  MaxCalls = 3
  MaxSock = 3
  MaxConn = 0
  Kinds = {}
  Bug = {}
INVARIANTS TypeOKC ConnectedIffOpen NoOrphan NegIffAuth SuccessMeansStream NothingWithoutClient TablesOK
PROPERTIES CtxHonoured CloseUnblocks
CHECK_DEADLOCK FALSE
