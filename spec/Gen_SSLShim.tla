---------------------------- MODULE Gen_SSLShim ----------------------------
(***************************************************************************)
(* Behaviour generator for SSLShim (G04): one behaviour per configuration. *)
(* The two roles are deterministic step machines coupled only by the two   *)
(* FIFO directions of the connection, so what each role sends and receives *)
(* (its projection of the behaviour) does not depend on the interleaving;  *)
(* the generator therefore fixes one schedule (the client steps whenever   *)
(* it can).  The interleavings themselves are covered the other way round: *)
(* the message sequences recorded from the real endpoints are validated    *)
(* against SSLShim_Trace.                                                  *)
(* The log records every step's event (role, send / recv / local, the      *)
(* message's shape, status class and content class) and, at the end, how   *)
(* each role ended, the two status variables and whether the keys agree.   *)
(***************************************************************************)
EXTENDS SSLShim, Json

VARIABLES log
gvars == <<vars, log>>

GenInit == Init /\ log = << [ev |-> "cfg", cfg |-> cfg, valid |-> CertValid(cfg)] >>

GenNext ==
  /\ IF ENABLED CNext THEN CNext ELSE SNext
  /\ log' = Append(log, StepEvent)

GenSpec == GenInit /\ [][GenNext]_gvars

Done == ~ENABLED Next

Final == [ev |-> "final", c |-> Outcome("c"), s |-> Outcome("s"),
          own |-> own, view |-> view, keysAgree |-> (key["c"] = key["s"] /\ key["c"] # "none"),
          stray |-> (Len(inbox["c"]) + Len(inbox["s"]))]

EmitTrace == Done => PrintT(ToJson([trace |-> Append(log, Final)]))
=============================================================================
