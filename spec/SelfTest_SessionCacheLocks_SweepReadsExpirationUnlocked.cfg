\* non-vacuity: with Bug = {"SweepReadsExpirationUnlocked"} TLC must report LocksetDiscipline violated
SPECIFICATION Spec
CONSTANTS
  Gor = {"g1", "g2", "g3"}
  Nobody = Nobody
  Ids = {"i1", "i2"}
  MaxOps = 2
  MaxOpsOf <- LimitsAll
  MaxVer = 1
  OpsOf <- RolesQuick
  InitKinds = {"live", "dead"}
  StoreExp = {"live"}
  Bug = {"SweepReadsExpirationUnlocked"}
INVARIANTS LocksetDiscipline
CHECK_DEADLOCK FALSE
