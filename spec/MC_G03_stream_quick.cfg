\* G03 quick: 2 keys, log of 3 changes, 2 connections, 2 cuts, 7 events emitted
SPECIFICATION Spec
CONSTANTS
  Mode = "stream"
  AdTypes = {"", "plain", "quoted"}
  Constraints = {"", "expr", "exprQuoted"}
  ByteVals = {"nil", "empty", "b1", "bnul"}
  Kinds <- KindsAll
  Damages = {"dropKind", "kindNotInt", "badKey", "badCursor", "dropType", "typeNotString", "keyNotString", "cursorNotString", "constraintNotString"}
  Keys = {1, 2}
  MaxLog = 3
  MaxConns = 2
  MaxCuts = 2
  MaxEmit = 7
  Bug = {}
INVARIANTS NoPartialEvent DeliveredInOrder ViewMatchesCursor ResumeContinues ByeEndsConnection
CHECK_DEADLOCK FALSE
