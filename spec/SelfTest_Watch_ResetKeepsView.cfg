\* non-vacuity: with Bug = {"ResetKeepsView"} TLC must report ViewMatchesCursor violated
SPECIFICATION Spec
CONSTANTS
  Mode = "stream"
  AdTypes = {"", "plain", "quoted"}
  Constraints = {"", "expr", "exprQuoted"}
  ByteVals = {"nil", "empty", "b1", "bnul"}
  Kinds <- KindsAll
  Damages = {"dropKind", "kindNotInt", "badKey", "badCursor", "dropType", "typeNotString", "keyNotString", "cursorNotString", "constraintNotString"}
  Keys = {1, 2}
  MaxLog = 3
  MaxConns = 3
  MaxCuts = 2
  MaxEmit = 7
  Bug = {"ResetKeepsView"}
INVARIANTS ViewMatchesCursor
CHECK_DEADLOCK FALSE
