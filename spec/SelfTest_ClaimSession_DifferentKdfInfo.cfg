\* self-test: with Bug = {DifferentKdfInfo} TLC must report an invariant violated
SPECIFICATION Spec
CONSTANTS
  Tier = "quick"
  SecretRels = {"same", "diff"}
  Bug = {"DifferentKdfInfo"}
INVARIANTS TypeOK SameSession ResumesBothWays ResumesByCommand WrongSecretFails PublicFormHidesSecret PolicyRoundTrips
CHECK_DEADLOCK FALSE
