\* non-vacuity: with Bug = {"TwoFrames"} TLC must report RequestShape violated
SPECIFICATION Spec
CONSTANTS
  Mode = "route"
  Origins = {"listen"}
  MaxD = 1
  MaxAcc = 1
  MaxClose = 1
  Scripts <- QuickScripts
  Shapes <- RouteShapesQuick
  ErrClasses = {}
  Bug = {"TwoFrames"}
INVARIANTS RequestShape
CHECK_DEADLOCK FALSE
