\* non-vacuity: with the known wrong design "SecretNotCharged" TLC must report CapHonoured violated
SPECIFICATION Spec
CONSTANTS
  Bug = {"SecretNotCharged"}
  Families = {"ad"}
  Modes = {"plain","enc"}
  ExprMax = 1
  TokLen = 3
INVARIANTS TypeOK NoPanic Bounded CapHonoured CapFails
CHECK_DEADLOCK FALSE
