---------------------------- MODULE Server_Trace ----------------------------
(***************************************************************************)
(* Trace validation for C05 (code -> spec).  The harness drives a real     *)
(* server.Server with the input scripts generated from Gen_Server and      *)
(* records, per script, what really happened: the handshake outcome as     *)
(* established from the harness's own ground truth (did an authentication  *)
(* exchange cross the wire; is the server's stream really encrypting),     *)
(* every handler invocation, every close.  Each recorded trace is replayed *)
(* here against the PERMISSIVE Server specification: an event is accepted  *)
(* iff the corresponding Server action is enabled with the observed        *)
(* arguments.  A handler invocation the specification does not allow (the  *)
(* session was not really authenticated / encrypted as the command's       *)
(* current policy demands, the identity is not authorized now, wrong path, *)
(* after a refusal) is rejected and reported with the failing conjunct.    *)
(*                                                                         *)
(* Input: ndjson file IOEnv.TRACE_FILE, one trace per line:                *)
(*   {"id": n, "init": {"ptab": 1, "atab": 0}, "ev": [ event, ... ]}       *)
(* event = {"e","cmd","kind","want","user","ok","authReal","encReal",      *)
(*          "sid","t","reg"} (all fields always present).                  *)
(* All traces are checked in one run: the state is reset between traces;   *)
(* the behaviour is a single chain, so TLC visits one state per event.     *)
(* Output: one JSON line {"trace": {"n": .., "rejected": [..]}} printed    *)
(* when the last trace has been consumed.                                  *)
(***************************************************************************)
EXTENDS Server, Json, IOUtils

Traces == ndJsonDeserialize(IOEnv.TRACE_FILE)
NT == Len(Traces)

VARIABLES ti, ei, rejected

tvars == <<vars, ti, ei, rejected>>

ResetTo(i) ==
  /\ ptab' = IF i <= NT THEN Traces[i].init.ptab ELSE 1
  /\ atab' = IF i <= NT THEN Traces[i].init.atab ELSE 0
  /\ sessions' = << >>
  /\ conn' = Idle("none")
  /\ nconn' = 0
  /\ log' = << >>
  /\ refused' = {}

TInit ==
  /\ ti = 1 /\ ei = 1 /\ rejected = << >>
  /\ ptab = IF NT >= 1 THEN Traces[1].init.ptab ELSE 1
  /\ atab = IF NT >= 1 THEN Traces[1].init.atab ELSE 0
  /\ sessions = << >> /\ conn = Idle("none") /\ nconn = 0 /\ log = << >> /\ refused = {}

\* the Server action an observed event stands for, with the observed arguments
TStep(ev) ==
  CASE ev.e = "Connect" ->
         Connect(ev.cmd, ev.kind, ev.want, ev.user,
                 Out(ev.ok, ev.authReal, ev.encReal, ev.authReal, ev.encReal))
    [] ev.e = "Resume" ->
         ReconnectResume(ev.sid, ev.cmd, [ok |-> ev.ok, encReal |-> ev.encReal])
    [] ev.e = "Raw" -> RawCommand(ev.cmd)
    [] ev.e = "FollowOn" ->
         \* a command int written to a connection the server already closed is no action
         IF conn.st = "open" /\ conn.pending = None /\ conn.via # "raw"
         THEN FollowOn(ev.cmd) ELSE UNCHANGED vars
    [] ev.e = "Handler" ->
         /\ conn.pending = ev.cmd
         /\ IF ev.reg = "auth" THEN Run ELSE RunRaw
    [] ev.e = "Closed" ->
         IF conn.pending # None THEN Refuse ELSE (conn.st # "open" /\ UNCHANGED vars)
    [] ev.e = "ChangePolicy" -> IF ev.t = ptab THEN UNCHANGED vars ELSE ChangePolicy(ev.t)
    [] ev.e = "ChangeAuthorizer" -> IF ev.t = atab THEN UNCHANGED vars ELSE ChangeAuthorizer(ev.t)
    [] OTHER -> FALSE     \* "NoClose": a refused command left the connection open

Reason(ev) ==
  IF ev.e = "NoClose" THEN [why |-> "refused-not-closed", lacks |-> "close"]
  ELSE IF ev.e = "Handler" THEN
    IF conn.st # "open" \/ conn.pending # ev.cmd
    THEN [why |-> IF nconn \in refused THEN "handler-after-refusal" ELSE "obs-unexpected-handler",
          lacks |-> "pending"]
    ELSE IF ev.reg = "raw"
    THEN [why |-> IF conn.via # "raw" THEN "raw-handler-via-auth-path" ELSE "obs-raw", lacks |-> "registration"]
    ELSE IF conn.via = "raw"
    THEN [why |-> "auth-handler-via-raw-path", lacks |-> "registration"]
    ELSE [why |-> "inadequate-session", lacks |-> Lacks(ev.cmd, conn.neg)]
  ELSE [why |-> "obs-impossible-event", lacks |-> ev.e]

TNext ==
  /\ ti <= NT
  /\ IF ei > Len(Traces[ti].ev)
     THEN /\ ResetTo(ti + 1) /\ ti' = ti + 1 /\ ei' = 1 /\ UNCHANGED rejected
     ELSE LET ev == Traces[ti].ev[ei] IN
          IF ENABLED TStep(ev)
          THEN /\ TStep(ev) /\ ei' = ei + 1 /\ UNCHANGED <<ti, rejected>>
          ELSE /\ rejected' = Append(rejected,
                     [id |-> Traces[ti].id, step |-> ei, reason |-> Reason(ev),
                      via |-> conn.via, kind |-> conn.kind, ptab |-> ptab, atab |-> atab])
               /\ ResetTo(ti + 1) /\ ti' = ti + 1 /\ ei' = 1

TSpec == TInit /\ [][TNext]_tvars

\* pseudo-invariant: prints the verdict once every trace has been consumed
EmitVerdict ==
  (ti > NT) => PrintT(ToJson([trace |-> [n |-> NT, rejected |-> rejected]]))
=============================================================================
