\* non-vacuity: with Bug = {"AllocSplit"} TLC must report NoForeignReplace violated
SPECIFICATION Spec
CONSTANTS
  H = {h1, h2, h3}
  Bug = {"AllocSplit"}
INVARIANTS NoForeignReplace
CHECK_DEADLOCK FALSE
