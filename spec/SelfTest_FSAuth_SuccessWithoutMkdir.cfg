\* non-vacuity: with Bug = {"SuccessWithoutMkdir"} TLC must report ResultMatchesEffect violated
SPECIFICATION Spec
CONSTANTS
  MaxLen = 3
  ConnFams = {4, 6}
  Faults = {"none", "sendFail", "verdictLost"}
  Roles = {"client", "server"}
  Bug = {"SuccessWithoutMkdir"}
INVARIANTS ResultMatchesEffect
CHECK_DEADLOCK FALSE
