\* G04: the same configurations with the known deviations of today's cedar roles switched on
\* (used only to recognise a difference from the intended protocol as a KNOWN observation)
SPECIFICATION GenSpec
CONSTANTS
  Bug = {"ServerNeverHolding", "SilentInitFailure", "IgnorePeerQuitting"}
  CStyles = {"cedar", "htcondor"}
  SStyles = {"cedar", "htcondor"}
  Faults = {"none", "c_err_init", "s_err_init", "c_quit_mid", "s_quit_mid", "c_quit_conf", "s_quit_conf"}
INVARIANT EmitTrace
CHECK_DEADLOCK FALSE
