\* non-vacuity: with Bug = {"DieOnMalformed"} TLC must report NeverKills violated
SPECIFICATION Spec
CONSTANTS
  Mode = "listener"
  Origins = {"listen", "adopt"}
  MaxD = 2
  MaxAcc = 2
  MaxClose = 2
  Scripts <- MixScriptsTwo
  Shapes <- NoShapes
  ErrClasses = {}
  Bug = {"DieOnMalformed"}
INVARIANTS NeverKills
CHECK_DEADLOCK FALSE
