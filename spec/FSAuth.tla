------------------------------- MODULE FSAuth -------------------------------
(***************************************************************************)
(* Filesystem (FS) authentication of cedar's security package, property    *)
(* C18: "filesystem authentication cannot be steered outside its           *)
(* directory".                                                             *)
(*                                                                         *)
(* Client exchange (security/fs_auth.go performFSAuthenticationClient),    *)
(* one action per step of the code:                                        *)
(*   ServerSendsPath   the (possibly hostile) server's message: a path     *)
(*   ClientReceives    GetStringWithMaxSize (an over-long message aborts)  *)
(*   ClientValidates   validateFSAuthPath / fsAddrLeaf /                   *)
(*                     verifyFSPathEndpoint                                *)
(*   ClientMkdir       os.OpenRoot(base).Mkdir(leaf)                       *)
(*   ClientSendsResult the result code message (may fail: SendFails)       *)
(*   ClientGetsVerdict the server's verification result (may be lost; the  *)
(*                     server may or may not have removed the directory),  *)
(*                     then the deferred Root.Remove(leaf) and return      *)
(* A path is an absolute/relative flag plus a sequence of COMPONENT        *)
(* CLASSES; the Go side concretises every class (several concrete strings  *)
(* per class) and classifies mutated strings back into these classes.      *)
(*                                                                         *)
(* Server verification (performFSAuthenticationServer): the object the     *)
(* client left at the server's path is one of Objects; ServerChecks is     *)
(* the lstat test; the identity recorded is the owner of the directory.    *)
(*                                                                         *)
(* The property is one-sided for the client ("creates AT MOST one          *)
(* directory and ONLY one whose path ..."), so Verdict distinguishes       *)
(*   "create"  the design creates the directory (shape of this mode),      *)
(*   "either"  a recognised shape the statement allows but does not ask    *)
(*             for (FS_REMOTE_ name on a local exchange),                  *)
(*   "reject"  anything else: no filesystem change, failure reply.         *)
(***************************************************************************)
EXTENDS Integers, Sequences, FiniteSets, TLC

CONSTANTS
  MaxLen,    \* longest component sequence
  ConnFams,  \* subset of {4, 6}: address family of the live connection
  Faults,    \* subset of {"none", "sendFail", "verdictLost"}
  Roles,     \* subset of {"client", "server"}
  Bug        \* names of known wrong designs (empty = intended design)

Dirs    == {"B", "O", "S"}   \* the base directory name, another existing directory, a symlink to the base
Dots    == {"U", "D", "E"}   \* "..", ".", empty component (doubled or trailing slash)
LeafLocal  == {"Lloc"}       \* FS_<1..16 alnum>
LeafRemote == {"Lrem"}       \* FS_REMOTE_<host>_<pid>_<1..16 alnum>
LeafAddr   == {"La4", "La6"} \* FS_<ip>_<port>_<sfx>, ip = the IPv4 / IPv6 loopback, port = the live port
LeafBad == {"La4port",       \* address-qualified, right address, other port
            "La4ip",         \* address-qualified, other address, right port
            "Lhost",         \* host NAME in the address field (not a recognised local shape)
            "NM",            \* near misses: fs_, FS, FS_-, FS_x., trailing blank, 17-char suffix ...
            "OL",            \* over-long field (hundreds of characters)
            "CT",            \* control bytes in the name
            "NA"}            \* non-ASCII bytes in the name
(* ADDRESS SPELLING classes: address-qualified names whose address field is some   *)
(* other way of writing the LIVE peer endpoint (right port, recognised suffix).     *)
(* The documented grammar of the address field (fs_auth.go, fsAddrLeaf) is "an IP   *)
(* address: IPv4 dotted quad or IPv6", compared with the connection's peer by       *)
(* ADDRESS equality.  So:                                                           *)
(*   recognised, design creates:  the canonical text of the peer (La4 / La6);       *)
(*   recognised, may be created:  another valid IPv6 text of the SAME address --    *)
(*       LaMap  v4-mapped IPv6 text of an IPv4 peer (::ffff:a.b.c.d, ::FFFF:..,      *)
(*              0:0:0:0:0:ffff:a.b.c.d, ::ffff:7f00:1),                             *)
(*       LaAlt  expanded / zero-padded text of an IPv6 peer (0:0:0:0:0:0:0:1);      *)
(*   NOT recognised (no IP address of that grammar; must be refused):               *)
(*       LaZone any of the above with an IPv6 zone suffix %<anything> (a zone is    *)
(*              not part of the grammar and may carry arbitrary bytes: alnum,       *)
(*              punctuation, control, non-ASCII, hundreds of characters),           *)
(*       LaOdd  non-canonical numerals: leading zeros, hex / octal / decimal /      *)
(*              short forms, brackets, trailing dot, blanks, address:port.          *)
(* They are enumerated as the LAST component of paths of at most two components     *)
(* (every parent class x every spelling class); elsewhere a name is only a          *)
(* directory name and the canonical classes stand for it.                           *)
LeafSpellMay == {"LaMap", "LaAlt"}
LeafSpellBad == {"LaZone", "LaOdd"}
Spell   == LeafSpellMay \cup LeafSpellBad
Leaves  == LeafLocal \cup LeafRemote \cup LeafAddr \cup LeafBad
Comp    == Dirs \cup Dots \cup Leaves

Objects == {"absent", "file", "symlinkToDir", "dir700", "dir755", "dirExtraLinks", "dirOtherUid"}

VARIABLES
  role,     \* "client" | "server": which half of the property this behaviour exercises
  phase,
  \* ---- client exchange
  abs,      \* BOOLEAN: path starts with "/"
  path,     \* Seq(Comp)
  huge,     \* BOOLEAN: the message exceeds the 4096-byte limit of the client
  fam,      \* 4 | 6
  fault,    \* which network fault this behaviour contains
  remover,  \* "server" | "nobody": does the SERVER remove the directory while it verifies?
            \*   cedar's own same-host server does; a C++ peer, a server on another host that
            \*   shares the filesystem, or a hostile server does not
  verdict,  \* "any" | "accept" | "refuse": the verification result such a server sends
  accepted, \* outcome of ClientValidates
  created,  \* set of [at : {"base","elsewhere"}, leaf : Comp]: directories that exist because of the client
  result,   \* "unset" | "ok" | "fail" | "none" : the result code the client put on the wire
  ret,      \* "unset" | "nil" | "error" : return value of the client exchange
  \* ---- server verification
  obj,      \* object at the server's path when the server checks
  cres,     \* "ok" | "fail": result code the client reported
  sres,     \* "unset" | "accept" | "reject"
  ident     \* "none" | "self" | "other": recorded identity (owner class of the object)

cvars == <<abs, path, huge, fam, fault, remover, verdict, accepted, created, result, ret>>
svars == <<obj, cres, sres, ident>>
vars  == <<role, phase, cvars, svars>>

-----------------------------------------------------------------------------
(* The validator of the intended design.                                   *)
Last(p) == p[Len(p)]
Canonical(p) == \A i \in 1..Len(p) : p[i] \notin Dots
ParentIsBase(p) == Len(p) = 2 /\ p[1] = "B"        \* textual parent = the base; a symlink to it is not
EndpointOK(l, f) == (l = "La4" /\ f = 4) \/ (l = "La6" /\ f = 6)

\* shapes the statement recognises (for the connection at hand)
SpellingMay(l, f) == (l = "LaMap" /\ f = 4) \/ (l = "LaAlt" /\ f = 6)
Recognised(l, f) == l \in LeafLocal \cup LeafRemote \/ EndpointOK(l, f) \/ SpellingMay(l, f)
\* shapes a LOCAL exchange (the only one reachable through the public API) creates
ShapeOfMode(l, f) == l \in LeafLocal \/ EndpointOK(l, f)

Valid(a, p, f) == a /\ Canonical(p) /\ ParentIsBase(p) /\ Recognised(Last(p), f)

Verdict(a, p, h, f) ==
  IF h \/ ~Valid(a, p, f) THEN "reject"
  ELSE IF ShapeOfMode(Last(p), f) THEN "create" ELSE "either"

(* filepath.Clean on component classes (used only by the SkipClean bug).   *)
RECURSIVE CleanUp(_, _)
CleanUp(p, acc) ==
  IF p = <<>> THEN acc
  ELSE LET c == Head(p) IN
       IF c \in {"D", "E"} THEN CleanUp(Tail(p), acc)
       ELSE IF c = "U" THEN CleanUp(Tail(p), IF acc = <<>> THEN acc ELSE SubSeq(acc, 1, Len(acc) - 1))
       ELSE CleanUp(Tail(p), Append(acc, c))

(* What the (possibly buggy) implementation accepts.                       *)
ImplLeafOK(l, f) ==
  \/ ShapeOfMode(l, f)
  \/ "PrefixOnlyLeaf" \in Bug /\ l \in Leaves \cup Spell   \* every class here starts with FS_ in some concretisation
  \/ "SkipEndpoint" \in Bug /\ l \in LeafAddr \cup {"La4port", "La4ip"} \cup LeafSpellMay
  \* known wrong design: the address field is canonicalised by a parser that admits a zone
  \* suffix and drops it (netip.ParseAddr + Unmap): a v4-mapped text of the peer with ANY
  \* bytes after '%' compares equal to the peer
  \/ "ZoneSuffixAccepted" \in Bug /\ l = "LaZone" /\ f = 4
ImplAccepts ==
  LET p == IF "SkipClean" \in Bug THEN CleanUp(path, <<>>) ELSE path IN
  /\ ~huge
  /\ abs \/ "RelativeOK" \in Bug
  /\ "SkipClean" \in Bug \/ Canonical(path)
  /\ Len(p) = 2
  /\ p[1] = "B" \/ ("FollowSymlinkParent" \in Bug /\ p[1] = "S") \/ ("AnyParent" \in Bug /\ p[1] \in Dirs)
  /\ ImplLeafOK(Last(p), fam)

WhereCreated ==
  LET p == IF "SkipClean" \in Bug THEN CleanUp(path, <<>>) ELSE path IN
  [at |-> IF abs /\ p[1] \in {"B", "S"} THEN "base" ELSE "elsewhere", leaf |-> Last(p)]

-----------------------------------------------------------------------------
Paths == UNION {[1..n -> Comp] : n \in 0..MaxLen}
           \cup {<<l>> : l \in Spell} \cup {<<c, l>> : c \in Comp, l \in Spell}

Init ==
  /\ role \in Roles
  /\ phase = "start"
  /\ IF role = "client"
     THEN /\ abs \in BOOLEAN /\ path \in Paths /\ fam \in ConnFams /\ fault \in Faults
          /\ (IF abs \/ Len(path) = 0 THEN TRUE ELSE path[1] # "E")   \* a leading empty component IS the absolute form
          /\ huge \in {FALSE} \cup (IF path = <<"B", "Lloc">> /\ abs THEN {TRUE} ELSE {})
          \* who removes is an environment choice; it is observable only where a directory
          \* may exist at all, so it is made for the paths the design accepts
          /\ remover \in IF fault = "none" /\ ~huge /\ Valid(abs, path, fam) THEN {"server", "nobody"} ELSE {"server"}
          /\ verdict \in IF remover = "nobody" THEN {"accept", "refuse"} ELSE {"any"}
          /\ obj = "absent" /\ cres = "fail"
     ELSE /\ abs = TRUE /\ path = <<>> /\ fam = 4 /\ fault = "none" /\ huge = FALSE
          /\ remover = "server" /\ verdict = "any"
          /\ obj \in Objects /\ cres \in {"ok", "fail"}
  /\ accepted = FALSE /\ created = {} /\ result = "unset" /\ ret = "unset"
  /\ sres = "unset" /\ ident = "none"

\* ---------------------------------------------------------------- client
ServerSendsPath ==
  /\ role = "client" /\ phase = "start"
  /\ phase' = "sent"
  /\ UNCHANGED <<role, cvars, svars>>

ClientReceives ==
  /\ role = "client" /\ phase = "sent"
  /\ IF huge
     THEN \* the message is larger than the client is willing to read: abort, nothing was done
          /\ phase' = "done" /\ ret' = "error" /\ result' = "none"
          /\ UNCHANGED <<abs, path, huge, fam, fault, remover, verdict, accepted, created>>
     ELSE /\ phase' = "received"
          /\ UNCHANGED cvars
  /\ UNCHANGED <<role, svars>>

ClientValidates ==
  /\ role = "client" /\ phase = "received"
  /\ accepted' = ImplAccepts
  /\ phase' = "validated"
  /\ UNCHANGED <<role, abs, path, huge, fam, fault, remover, verdict, created, result, ret, svars>>

ClientMkdir ==
  /\ role = "client" /\ phase = "validated"
  /\ IF accepted
     THEN /\ created' = IF "SuccessWithoutMkdir" \in Bug THEN {}
                        ELSE IF "MkdirParents" \in Bug THEN {WhereCreated, [at |-> "base", leaf |-> "O"]}
                        ELSE {WhereCreated}
          /\ result' = "ok"
     ELSE created' = {} /\ result' = IF "SuccessOnInvalid" \in Bug THEN "ok" ELSE "fail"
  /\ phase' = "made"
  /\ UNCHANGED <<role, abs, path, huge, fam, fault, remover, verdict, accepted, ret, svars>>

ClientSendsResult ==
  /\ role = "client" /\ phase = "made"
  /\ IF fault = "sendFail"
     THEN \* the connection broke: nothing reached the wire; the client returns at once
          /\ result' = "none" /\ ret' = "error" /\ phase' = "done"
          /\ created' = IF "CleanupAfterSend" \in Bug \/ "NoRemoval" \in Bug THEN created ELSE {}
     ELSE /\ phase' = "replied" /\ UNCHANGED <<result, ret, created>>
  /\ UNCHANGED <<role, abs, path, huge, fam, fault, remover, verdict, accepted, svars>>

ClientGetsVerdict ==
  /\ role = "client" /\ phase = "replied"
  \* A hostile server answers what it likes, so the return value is constrained
  \* only when the verdict never arrives or the behaviour fixes it.
  /\ ret' \in IF fault = "verdictLost" \/ verdict = "refuse" THEN {"error"}
              ELSE IF verdict = "accept" THEN {"nil"}
              ELSE {"nil", "error"}
  \* The CLIENT removes what it created, whatever the verdict and whoever else may have
  \* removed it already.  Known wrong design: after a success verdict the client assumes
  \* that the server removed the directory.
  /\ created' = IF "NoRemoval" \in Bug THEN created
                ELSE IF "ClientTrustsServerRemoval" \in Bug /\ ret' = "nil" /\ remover = "nobody" THEN created
                ELSE {}
  /\ phase' = "done"
  /\ UNCHANGED <<role, abs, path, huge, fam, fault, remover, verdict, accepted, result, svars>>

\* ---------------------------------------------------------------- server
Owner(o) == IF o = "dirOtherUid" THEN "other" ELSE "self"
RealOwnerOnlyDir(o) == o \in {"dir700", "dirOtherUid", "dirExtraLinks"}
ImplServerAccepts(o) ==
  \/ o \in {"dir700", "dirOtherUid"}
  \/ "ServerFollowsSymlink" \in Bug /\ o = "symlinkToDir"
  \/ "ServerIgnoresMode" \in Bug /\ o = "dir755"
  \/ "ServerAcceptsFile" \in Bug /\ o = "file"

ServerChecks ==
  /\ role = "server" /\ phase = "start"
  /\ \/ /\ cres = "ok" /\ ImplServerAccepts(obj)
        /\ sres' = "accept"
        /\ ident' = IF "IdentityNotOwner" \in Bug THEN "self" ELSE Owner(obj)
     \/ /\ ~(cres = "ok" /\ ImplServerAccepts(obj))
        /\ sres' = "reject" /\ ident' = "none"
     \* the link-count test is stricter than the statement: either outcome is allowed
     \/ /\ cres = "ok" /\ obj = "dirExtraLinks"
        /\ sres' = "accept" /\ ident' = Owner(obj)
  /\ phase' = "done"
  /\ UNCHANGED <<role, cvars, obj, cres>>

ServerExpect(o, c) ==
  IF c = "ok" /\ o \in {"dir700", "dirOtherUid"} THEN "accept"
  ELSE IF o = "dirExtraLinks" /\ c = "ok" THEN "either"
  ELSE "reject"

Next ==
  \/ ServerSendsPath \/ ClientReceives \/ ClientValidates \/ ClientMkdir
  \/ ClientSendsResult \/ ClientGetsVerdict \/ ServerChecks

Spec == Init /\ [][Next]_vars

-----------------------------------------------------------------------------
(* The property.                                                           *)
TypeOK ==
  /\ role \in {"client", "server"}
  /\ phase \in {"start", "sent", "received", "validated", "made", "replied", "done"}
  /\ result \in {"unset", "ok", "fail", "none"}
  /\ ret \in {"unset", "nil", "error"}
  /\ sres \in {"unset", "accept", "reject"}
  /\ ident \in {"none", "self", "other"}

\* only directly under the base, only with a recognised name, only for a valid path
CreatedOnlyUnderBase ==
  \A l \in created : /\ l.at = "base"
                     /\ Valid(abs, path, fam) /\ ~huge
                     /\ l.leaf = Last(path)
AtMostOneCreated == Cardinality(created) <= 1
\* whatever was created is gone once the exchange is over, however it ended
RemovedWhenComplete == phase = "done" => created = {}
\* any other path: no change and a clean failure reply (a MESSAGE beyond the size
\* limit is refused by abandoning the exchange: on the wire that is indistinguishable
\* from a reply, so only the filesystem is constrained there)
CleanFailure ==
  (role = "client" /\ phase \in {"replied", "done"} /\ ~Valid(abs, path, fam) /\ fault # "sendFail")
     => /\ created = {}
        /\ huge \/ result = "fail"
\* success is reported only for a directory that exists
ResultMatchesEffect == (result = "ok" /\ phase = "replied") => created # {}

ServerAcceptsOnlyOwnerOnlyDir ==
  sres = "accept" => /\ cres = "ok"
                     /\ RealOwnerOnlyDir(obj)
                     /\ ident = Owner(obj)
=============================================================================
