\* non-vacuity: with the known wrong design "NoVersionGate" TLC must report V2VersionGate violated
SPECIFICATION Spec
CONSTANTS
  MaxAttrs = 2
  AttrClasses = {"pubA", "pubB", "prefix", "claimid"}
  Spellings = {"lower", "mixed"}
  OptWords = {0, 1, 2, 32, 34}
  Whitelists = {"none", "priv", "pub"}
  Versions = {"unset", "below", "atleast"}
  StreamStates = {"nokey", "enc", "keyedClear"}
  TypeModes = {"both"}
  CutPlans = {"one", "split"}
  Bug = {"NoVersionGate"}
INVARIANTS V2VersionGate
CHECK_DEADLOCK FALSE
