\* non-vacuity: with the known-wrong design "ServerNeverHolding" switched on TLC must report HonestNeverFails violated
SPECIFICATION Spec
CONSTANTS
  Bug = {"ServerNeverHolding"}
  CStyles = {"cedar"}
  SStyles = {"cedar"}
  Faults = {"none"}
INVARIANTS TypeOK HonestNeverFails
CHECK_DEADLOCK FALSE
