\* C10 quick: as MC_C10.cfg with the command mode fixed (no transition of the model reads cfg.cmd, so the
\* two command modes have isomorphic state graphs): 262 144 configurations, every interleaving.
\* One TLC process per client authentication level (environment C10_CAUTH; C10_SAUTH="*").
SPECIFICATION GenSpec
CONSTANTS
  CAuth = {"REQUIRED", "PREFERRED", "OPTIONAL", "NEVER"}
  SAuth = {"REQUIRED", "PREFERRED", "OPTIONAL", "NEVER"}
  CEnc = {"REQUIRED", "PREFERRED", "OPTIONAL", "NEVER"}
  SEnc = {"REQUIRED", "PREFERRED", "OPTIONAL", "NEVER"}
  CMethods <- Lists8
  SMethods <- Lists8
  CCiphers <- Ciphers4
  SCiphers <- Ciphers4
  CmdModes = {TRUE}
  Shapes = {"full"}
  SameLists = FALSE
  RelayBudget = 0
  AllowAbort = FALSE
  Bug = {}
  GenMode = "mc"
INVARIANTS TypeOK FailsExactlyWhen DenialIsExplicit BothAgree FollowsTable CanTalkBothWays
CHECK_DEADLOCK FALSE
