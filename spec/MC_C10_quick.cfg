\* C10 quick: every interleaving of the two ends over 4^4 levels x 8x8 method-list shapes x 2x2 cipher lists
\* (one usable cipher, one not), command mode fixed: 65 536 configurations.  Measured throughput of this
\* specification is 3-4 k states/s per worker, so the whole 524 288-configuration product (MC_C10.cfg) is
\* left to the thorough tier; no transition reads cfg.cmd and the cipher lists act only through
\* CommonCipher, so the reduced product reaches every transition of the model.  The configurations that
\* are REPLAYED in the quick tier (all cipher-list pairs, both command modes) get their expectations and
\* the same invariants from Gen_C10_rows.cfg.
\* One TLC process per client authentication level (environment C10_CAUTH; C10_SAUTH="*").
SPECIFICATION GenSpec
CONSTANTS
  CAuth = {"REQUIRED", "PREFERRED", "OPTIONAL", "NEVER"}
  SAuth = {"REQUIRED", "PREFERRED", "OPTIONAL", "NEVER"}
  CEnc = {"REQUIRED", "PREFERRED", "OPTIONAL", "NEVER"}
  SEnc = {"REQUIRED", "PREFERRED", "OPTIONAL", "NEVER"}
  CMethods <- Lists8
  SMethods <- Lists8
  CCiphers <- Ciphers2
  SCiphers <- Ciphers2
  CmdModes = {TRUE}
  Shapes = {"full"}
  SameLists = FALSE
  RelayBudget = 0
  AllowAbort = FALSE
  Bug = {}
  GenMode = "mc"
INVARIANTS TypeOK FailsExactlyWhen DenialIsExplicit BothAgree FollowsTable CanTalkBothWays
CHECK_DEADLOCK FALSE
