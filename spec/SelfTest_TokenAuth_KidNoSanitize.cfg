\* non-vacuity self-test: with the known-wrong design "KidNoSanitize" TLC must report an invariant violated
SPECIFICATION Spec
CONSTANTS
  Bug = {"KidNoSanitize"}
  Kinds <- AllKinds
  VKinds <- AllVKinds
INVARIANTS TypeOK ServerOkImpliesClientKnewSig ServerOkImpliesKeyHeld ServerOkImpliesTokenCurrent ServerIdentityIsSubject
           ClientOkImpliesServerKnewSig VerifyAcceptsExactly HonestRunSucceeds PoolRuleSucceeds
CHECK_DEADLOCK FALSE
