\* C11: one TLC run checks the invariants of TokenAuth on every behaviour AND prints
\* each complete behaviour (EmitTrace) for the replay against the real code
SPECIFICATION Spec
CONSTANTS
  Bug = {}
  Kinds <- AllKinds
  VKinds <- AllVKinds
INVARIANTS TypeOK ServerOkImpliesClientKnewSig ServerOkImpliesKeyHeld ServerOkImpliesTokenCurrent ServerIdentityIsSubject
           ClientOkImpliesServerKnewSig VerifyAcceptsExactly HonestRunSucceeds PoolRuleSucceeds EmitTrace
CHECK_DEADLOCK FALSE
