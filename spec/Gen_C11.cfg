SPECIFICATION Spec
CONSTANTS
  Bug = {}
  Kinds <- AllKinds
  VKinds <- AllVKinds
INVARIANT EmitTrace
CHECK_DEADLOCK FALSE
