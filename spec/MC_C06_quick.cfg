\* C06 exhaustive (quick): one server, 2 sessions (keyed / key-less, authenticated / anonymous), clock 0..3
SPECIFICATION Spec06
CONSTANTS
  Tags = {"none"}
  Addrs = {"s1"}
  Cmds = {"c1"}
  ValidCmds = {"c1"}
  MaxSid = 2
  MaxTime = 2
  Duration = 2
  Lease = 1
  ImportOn = FALSE
  MaxRec = 1
  Bug = {}
CONSTRAINT LegitOnly
VIEW McView
INVARIANTS TypeOK ResumeOnlyKeyed AllBytesAfterReplyProtected NoKeyNoAcceptedByte NoKeyNoReadableByte DeadStaysDead ToldWhenAsked ResumedStateEqualsOriginal
CHECK_DEADLOCK FALSE
