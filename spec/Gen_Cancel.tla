----------------------------- MODULE Gen_Cancel -----------------------------
(***************************************************************************)
(* Behaviour generator for Cancel (C19).  Same actions as Cancel; GenNext  *)
(* only restricts the ORDER in which they are taken, so every generated    *)
(* behaviour is a behaviour of Cancel:                                     *)
(*   - the context fires at most at the points the binding can realise     *)
(*     deterministically on the real code, each of which represents a      *)
(*     class of equivalent instants (the `timing` class):                  *)
(*       before_call             pc = idle  (same outcome as: before the   *)
(*                               first entry check)                        *)
(*       between_steps           after stop() of step J succeeded, before  *)
(*                               the entry check of step J+1               *)
(*       in_step_then_completes  step J /= k in flight with its watcher    *)
(*                               armed, the I/O still completes (same as:  *)
(*                               fired after completion, before stop())    *)
(*       in_step_then_closed     the same, but the watcher closes the conn *)
(*                               before the I/O completes                  *)
(*       during_stall            step J = k is blocked                     *)
(*       after_return            the call has returned                     *)
(*       never                                                             *)
(*   - a fired watcher runs either while the step is still blocked or      *)
(*     after the call has returned (the two ends of its window).           *)
(* A behaviour is complete when the call has returned and no watcher is    *)
(* pending, or when it is stuck in the stalled step with a live context    *)
(* (returns = FALSE: the run the property says nothing about).  Each       *)
(* complete behaviour is printed as one JSON line; the Go side groups the  *)
(* behaviours by their inputs (kind, stalled?, timing, J is the last step) *)
(* and accepts a real run iff its projection (error class, closed) equals  *)
(* the projection of SOME behaviour of the group.                          *)
(***************************************************************************)
EXTENDS Cancel, Sequences, Json

VARIABLES hist,    \* action names, in order
          timing,  \* timing class of the Fire action ("never" until it happens)
          jfire    \* step the Fire action is attached to (0: none)

gvars == <<vars, hist, timing, jfire>>

Log(a) == hist' = Append(hist, a)

GenInit == Init /\ hist = <<>> /\ timing = "never" /\ jfire = 0

FirePoint ==
  CASE pc = "idle" -> "before_call"
    [] pc = "entry" /\ s > 1 -> "between_steps"
    [] pc = "blocked" /\ s = k -> "during_stall"
    [] pc = "blocked" /\ s # k /\ hasW -> "in_step"
    [] pc = "returned" /\ watcher # "fired" -> "after_return"
    [] OTHER -> "no"

GFire ==
  /\ FirePoint # "no"
  /\ (Cancel \/ DeadlineFires \/ ParentCancel)
  /\ timing' = FirePoint
  /\ jfire' = CASE FirePoint = "between_steps" -> s - 1
                [] FirePoint \in {"during_stall", "in_step"} -> s
                [] OTHER -> 0
  /\ Log("Fire")

Keep == UNCHANGED <<timing, jfire>>

GenNext ==
  \/ Call /\ Log("Call") /\ Keep
  \/ EntryCheck /\ Log("EntryCheck") /\ Keep
  \/ PeerCompletes /\ Log("PeerCompletes") /\ UNCHANGED jfire
       /\ timing' = IF timing = "in_step" THEN "in_step_then_completes" ELSE timing
  \/ IOFailsClosed /\ Log("IOFailsClosed") /\ UNCHANGED jfire
       /\ timing' = IF timing = "in_step" THEN "in_step_then_closed" ELSE timing
  \/ StepReturn /\ Log("StepReturn") /\ Keep
  \/ GFire
  \/ pc \in {"blocked", "returned"} /\ WatcherRuns /\ Log("WatcherRuns") /\ Keep

GenSpec == GenInit /\ [][GenNext]_gvars

Stuck == pc = "blocked" /\ s = k /\ ctx = "live"

Done ==
  \/ pc = "returned" /\ watcher # "fired"
  \/ Stuck

Summary ==
  [kind |-> kind, n |-> n, K |-> k, timing |-> timing, J |-> jfire,
   returns |-> (pc = "returned"), ret |-> ret, closed |-> (conn = "closed"),
   done |-> done, acts |-> hist]

\* pseudo-invariant: prints every complete behaviour as one JSON line
EmitTrace == Done => PrintT(ToJson([scn |-> Summary]))
=============================================================================
