\* non-vacuity: with Bug = {"MkdirParents"} TLC must report AtMostOneCreated violated
SPECIFICATION Spec
CONSTANTS
  MaxLen = 3
  ConnFams = {4, 6}
  Faults = {"none", "sendFail", "verdictLost"}
  Roles = {"client", "server"}
  Bug = {"MkdirParents"}
INVARIANTS AtMostOneCreated
CHECK_DEADLOCK FALSE
