\* C01 (ii-c): sequences of two short messages (0..2 bytes, zero-length writes and frames included)
SPECIFICATION GenSpec
CONSTANTS
  Max = 1048576
  FlushAt = 4096
  Target = 16384
  Tag = 16
  IVLen = 16
  Hdr = 5
  Encs = {TRUE, FALSE}
  SendApis = {"frames", "buffered", "typed"}
  RecvApis = {"complete", "startread", "typed"}
  WriteSizes = {0, 1, 2}
  StrSizes = {}
  StrBytesSizes = {}
  ReadSizes = {0, 1}
  MaxMsgs = 2
  MaxWrites = 2
  MaxReads = 1
  MaxLen = 2
  PairFirst = {0, 1, 2}
  TypedFlush = {FALSE}
  Interleave = FALSE
  MaxAbandon = 0
  Bug = {}
INVARIANT EmitTrace
CHECK_DEADLOCK FALSE
