----------------------- MODULE Gen_SessionCacheLocks -----------------------
(***************************************************************************)
(* Scenario generator for C17: the CONFLICT RELATION of the lock model.     *)
(* Two goroutines run one operation each (every interleaving); a history    *)
(* variable collects the field accesses of each; at the end the pair of     *)
(* operations is emitted iff their critical sections touched a common       *)
(* field and one of the accesses was a write.  The harness hammers every    *)
(* emitted pair on the real cache under the race detector: these are the    *)
(* only places where a missing lock can show.                               *)
(***************************************************************************)
EXTENDS SessionCacheLocks, Json

VARIABLES hist     \* [Gor -> [op, acc : set of <<field, kind>>]]

gvars == <<vars, hist>>

GInit == Init /\ hist = [g \in Gor |-> [op |-> "-", acc |-> {}]]

GNext == \E g \in Gor :
  /\ Step(g)
  /\ hist' = [hist EXCEPT ![g] =
        [op  |-> IF th[g].pc = "idle" THEN th'[g].op ELSE @.op,
         acc |-> IF IsAccessPc(th[g].pc) THEN @.acc \cup {<<AccField(g), AccKind(g)>>} ELSE @.acc]]

GenSpec == GInit /\ [][GNext]_gvars

Done == \A g \in Gor : th[g].pc = "idle" /\ th[g].n = MaxOpsOf[g]

Conflicts(a, b) == {x[1][1][1] : x \in {y \in a \X b : y[1][1] = y[2][1] /\ (y[1][2] = "w" \/ y[2][2] = "w")}}

EmitTrace ==
  Done => LET c == Conflicts(hist["g1"].acc, hist["g2"].acc) IN
          IF c = {} THEN TRUE
          ELSE PrintT(ToJson([scn |-> [a |-> hist["g1"].op, b |-> hist["g2"].op, fields |-> c]]))
=============================================================================
