\* non-vacuity: with Bug = {"ReturnOnSuccessReply"} TLC must report ReturnedPresentedFreshId violated
SPECIFICATION Spec
CONSTANTS
  NB = 1
  MaxRogue = 1
  RogueKinds = {"wrongId", "emptyId", "staleId", "otherId", "garbage", "close"}
  MaxMsgs = 2
  Mode = "standard"
  Bug = {"ReturnOnSuccessReply"}
INVARIANTS ReturnedPresentedFreshId
CHECK_DEADLOCK FALSE
