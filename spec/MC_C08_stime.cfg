\* C08: the ServerTime dimension: option on/off x the ad carries its own ServerTime attribute
\* (lower / upper / mixed case) or not, three stream states, with and without type names, two cut plans
SPECIFICATION Spec
CONSTANTS
  MaxAttrs = 2
  AttrClasses = {"pubA", "stime"}
  Spellings = {"lower", "upper", "mixed"}
  OptWords = {0, 4, 5, 36}
  Whitelists = {"none"}
  Versions = {"unset"}
  StreamStates = {"nokey", "enc", "keyedClear"}
  TypeModes = {"both"}
  CutPlans = {"one", "each"}
  Bug = {}
INVARIANTS TypeOK CountIsItems SameConsumption MaxSizeAllOrNothing AttrSetPreserved ReceiverReassembles SecretsOnlyInsideEncryptedFrames
CHECK_DEADLOCK FALSE
