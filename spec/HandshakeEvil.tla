---------------------------- MODULE HandshakeEvil ----------------------------
(***************************************************************************)
(* C03 - REQUIRED means required, and the reported handshake outcome is    *)
(* what happened.                                                          *)
(*                                                                         *)
(* One endpoint under test E (role client or server, own policy, own       *)
(* method list) runs the CEDAR security handshake against a SCRIPTED peer  *)
(* that may deviate from the protocol.  The peer's moves are separate      *)
(* actions, each enabled at the protocol phase it belongs to; E's moves    *)
(* follow the structure of security/auth.go (one action per decision:      *)
(* evaluate the other side's ad, offer / select a method, run it, install  *)
(* the key, post-auth ad, return).                                         *)
(*                                                                         *)
(* E is the INTENDED design as far as the property speaks and permissive   *)
(* where it is silent: E may abort at any step; where the statement does   *)
(* not fix a decision E may take either branch.  The known wrong designs   *)
(* are the members of Bug (only for the non-vacuity self-tests).           *)
(*                                                                         *)
(* Wire-level facts (what an observer of the connection sees) are separate *)
(* from what E reports: ran (the authentication exchange that completed),  *)
(* keyE (E protects everything it sends / accepts from now on), postAuth   *)
(* (how the post-auth ad travelled).                                       *)
(*                                                                         *)
(* Abstract methods: Runnable = exchanges the peer can complete; the other *)
(* members of AllMethods can be listed, offered and selected but never     *)
(* complete.  Cryptography is symbolic: E can compute a session key iff    *)
(* the peer's public key is a curve point and a common cipher exists; the  *)
(* peer holds the same key iff the point was its own ("valid").            *)
(***************************************************************************)
EXTENDS Integers, Sequences, FiniteSets, TLC

CONSTANTS
  Roles,        \* roles of E: subset of {"client","server"}
  AuthLevels,   \* E's authentication levels to enumerate
  EncLevels,    \* E's encryption levels to enumerate
  IntegChoices, \* subset of {"SAME","REQUIRED"}: Integrity = Encryption, or REQUIRED
  MethodLists,  \* set of sequences over AllMethods: E's own method list
  AllMethods,   \* universe of method names
  Runnable,     \* methods whose exchange the peer can complete
  PeerLevels,   \* honest peer's own policy level (both for auth and enc)
  Modes,        \* subset of {"fresh","resumed"}
  PolicySources,\* subset of {"base","hook"}: E = server takes its policy from its own config, or from
                \* the per-command hook (ServerConfigForCommand) laid over a weaker base config
  IntegScope,   \* "all" | "serverFresh": where integrity-only REQUIRED is enumerated
  EstChoices,   \* how a resumed session came about: "Honest" or the establishing peer's deviation
  Deviations,   \* the part of the catalogue to enumerate
  MaxDev,       \* at most this many deviation switches per behaviour ...
  Composites,   \* ... except these sets of ad-phase switches, allowed in full
  Bug           \* known wrong designs of E (self-test only)

Level == {"REQUIRED", "PREFERRED", "OPTIONAL", "NEVER"}

SetOf(s) == {s[i] : i \in 1..Len(s)}

\* all non-empty duplicate-free sequences over S
Orders(S) == UNION {{s \in [1..n -> S] : \A i, j \in 1..n : i # j => s[i] # s[j]} : n \in 1..Cardinality(S)}

\* named values for the configuration files
ListsQuick == {<<"P", "C">>, <<"P">>, <<"K">>}   \* the first listed method is one the peer cannot complete; K is usable by E (it is offered) but not runnable by the peer
ListsTwo   == Orders({"C", "P"})
ListsAll   == Orders({"C", "P", "K"})
\* thorough tier: every order of every subset of {C, P}, and lists with a third method
ListsEight == ListsTwo \cup {<<"K">>, <<"C", "K">>, <<"K", "C">>, <<"P", "C", "K">>}

Conflict(a, b) == (a = "REQUIRED" /\ b = "NEVER") \/ (a = "NEVER" /\ b = "REQUIRED")
Want(a, b, avail) == IF a = "REQUIRED" \/ b = "REQUIRED" THEN TRUE
                     ELSE IF a = "NEVER" \/ b = "NEVER" THEN FALSE
                     ELSE IF a = "PREFERRED" \/ b = "PREFERRED" THEN avail
                     ELSE FALSE

FirstIn(seq, S) ==
  IF \E i \in 1..Len(seq) : seq[i] \in S
  THEN seq[CHOOSE i \in 1..Len(seq) : seq[i] \in S /\ \A j \in 1..(i-1) : seq[j] \notin S]
  ELSE "NONE"

\* ---------------------------------------------------------------- catalogue
KeyDevs  == {"OmitECDH", "TruncateECDH", "RandomECDH", "ForeignECDH"}
AdDevs   == {"AnswerAuthNo", "AnswerEncNo", "NoCommonCipher"} \cup KeyDevs
SelDevs  == {"SelectUnofferedBit", "SelectSeveralBits", "SelectZero"}
PostDevs == {"PostAuthInClear", "PostAuthDenied"}
NoEncDevs == {"AnswerEncNo", "NoCommonCipher", "ResumeKeyless", "ReplyWithoutKey"} \cup KeyDevs

VARIABLES
  cfg,      \* [role, auth, enc, integ, methods, peerLvl, mode, sess, est, estEnc, src]
  phase,
  devs,     \* deviation switches the peer has used so far
  denied,   \* the peer (or its honest policy) reported DENIED / SID_NOT_FOUND
  ansAuth,  \* the server side's answer Authentication = YES
  pAuth, pEnc,  \* levels claimed in the client peer's ad (role = server)
  keyMat,   \* peer's ECDH material: "valid" | "none" | "bad" | "foreign"
  cipherOK, \* a common cipher exists
  offered,  \* methods whose bits the client side offered
  sel,      \* the server side's answer: a method, "zero", "several", "NONE"
  ran,      \* WIRE: the exchange that completed ("NONE" if none)
  keyE,     \* WIRE: E protects its stream from now on
  postAuth, \* WIRE: "none" | "sealed" | "clear"
  postDenied,
  policyAuth, \* (Bug TrustAnswerNo) E skipped the exchange but keeps its own decision
  encClaim,   \* (Bug ContinueWithoutEnc) E gave up on the key but keeps the flag
  outcome   \* [done, ok, auth, method, enc, resumed]

vars == <<cfg, phase, devs, denied, ansAuth, pAuth, pEnc, keyMat, cipherOK, offered, sel,
          ran, keyE, postAuth, postDenied, policyAuth, encClaim, outcome>>

EncReq(c) == c.enc = "REQUIRED" \/ c.integ = "REQUIRED"
\* what E itself takes for its requirement when it installs the key (differs from
\* EncReq only in a wrong design: the per-command policy's integrity level is lost)
EncReqE(c) == c.enc = "REQUIRED"
              \/ (c.integ = "REQUIRED" /\ ~("PerCommandIntegrityDropped" \in Bug /\ c.src = "hook"))

NoSess == [authd |-> FALSE, keyed |-> FALSE]
Sessions == [authd : BOOLEAN, keyed : BOOLEAN]

\* The cached session of a resumed handshake.  sess holds the WIRE facts of the
\* handshake that established it (an exchange ran? a key was agreed?), est says
\* whether that handshake ran against an honest peer or one that kept the key
\* from being agreed, estEnc is E's own encryption level at that time.  The
\* authentication policy is the same on both connections (resumption across
\* authentication policies is C05 / C06); the encryption level of the resuming
\* handshake may be stricter (REQUIRED) than that of the establishing one.
EstDevs == {"OmitECDH", "TruncateECDH", "NoCommonCipher"}

SessionConsistent(c) ==
  /\ c.auth = "REQUIRED" => c.sess.authd
  /\ c.auth = "NEVER" => ~c.sess.authd
  /\ c.estEnc = "REQUIRED" => c.sess.keyed       \* that is what REQUIRED meant back then
  /\ c.est # "Honest" => (~c.sess.keyed /\ c.estEnc # "REQUIRED")
  /\ \/ c.estEnc = c.enc
     \/ (c.estEnc \in {"PREFERRED", "OPTIONAL"} /\ c.enc = "REQUIRED")
  /\ c.integ = "REQUIRED" => (c.sess.keyed /\ c.est = "Honest" /\ c.estEnc = c.enc)

Configs ==
  {c \in [role : Roles, auth : AuthLevels, enc : EncLevels, integ : IntegChoices,
          methods : MethodLists, peerLvl : PeerLevels, mode : Modes, sess : Sessions,
          est : EstChoices, estEnc : EncLevels, src : PolicySources] :
     /\ (c.integ = "REQUIRED" => c.enc # "REQUIRED")
     /\ (c.integ = "REQUIRED" /\ IntegScope = "serverFresh" => (c.role = "server" /\ c.mode = "fresh"))
     \* quick tier: the two extra server dimensions are enumerated with one method list
     /\ ((c.integ = "REQUIRED" \/ c.src = "hook") /\ IntegScope = "serverFresh" => c.methods = <<"P", "C">>)
     \* only a fresh server handshake consults the per-command hook
     /\ (c.src = "hook" => (c.role = "server" /\ c.mode = "fresh"))
     /\ (c.mode = "fresh" => (c.sess = NoSess /\ c.est = "Honest" /\ c.estEnc = c.enc))
     /\ (c.mode = "resumed" => SessionConsistent(c))}

NotDone == [done |-> FALSE, ok |-> FALSE, auth |-> FALSE, method |-> "NONE", enc |-> FALSE, resumed |-> FALSE]

Init ==
  /\ cfg \in Configs
  /\ phase = IF cfg.mode = "fresh"
             THEN (IF cfg.role = "client" THEN "c_hello" ELSE "p_hello")
             ELSE (IF cfg.role = "client" THEN "c_resreq" ELSE "p_resreq")
  /\ devs = {} /\ denied = FALSE /\ ansAuth = FALSE
  /\ pAuth = "OPTIONAL" /\ pEnc = "OPTIONAL"
  /\ keyMat = "valid" /\ cipherOK = TRUE
  /\ offered = {} /\ sel = "NONE" /\ ran = "NONE" /\ keyE = FALSE
  /\ postAuth = "none" /\ postDenied = FALSE /\ policyAuth = FALSE /\ encClaim = FALSE
  /\ outcome = NotDone

\* the peer may use the switches D now
MayUse(D) ==
  /\ D \subseteq Deviations
  /\ \/ Cardinality(devs \cup D) <= MaxDev
     \/ (devs = {} /\ D \in Composites)
  /\ Cardinality(D \cap KeyDevs) <= 1

KeyMatOf(D) == IF "OmitECDH" \in D THEN "none"
               ELSE IF D \cap {"TruncateECDH", "RandomECDH"} # {} THEN "bad"
               ELSE IF "ForeignECDH" \in D THEN "foreign" ELSE "valid"

\* the peer holds the session key and uses it
PeerKey == keyMat = "valid" /\ cipherOK /\ devs \cap NoEncDevs = {}
\* E is able to compute a session key
CanKeyE == keyMat \in {"valid", "foreign"} /\ cipherOK

Finish(o) == /\ outcome' = o /\ phase' = "done"

Fail == [NotDone EXCEPT !.done = TRUE]

\* E may give up at any point (timeouts, parse errors, its own checks ...)
Abort ==
  /\ phase # "done"
  /\ Finish(Fail)
  /\ UNCHANGED <<cfg, devs, denied, ansAuth, pAuth, pEnc, keyMat, cipherOK, offered, sel, ran, keyE,
                 postAuth, postDenied, policyAuth, encClaim>>

Success ==
  Finish([done |-> TRUE, ok |-> TRUE,
          auth |-> (ran # "NONE") \/ policyAuth,
          method |-> IF ran = "NONE" /\ policyAuth THEN cfg.methods[1] ELSE ran,
          enc |-> keyE \/ encClaim, resumed |-> FALSE])

SuccessResumed(k, claim) ==
  Finish([done |-> TRUE, ok |-> TRUE, auth |-> cfg.sess.authd, method |-> "ANY",
          enc |-> k \/ claim, resumed |-> TRUE])

\* ================================================================ E = client
ClientHello ==
  /\ phase = "c_hello"
  /\ phase' = "p_ad"
  /\ UNCHANGED <<cfg, devs, denied, ansAuth, pAuth, pEnc, keyMat, cipherOK, offered, sel, ran, keyE,
                 postAuth, postDenied, policyAuth, encClaim, outcome>>

\* the server peer answers (honestly per the policy table, or deviating)
PeerServerAd(D) ==
  /\ phase = "p_ad"
  /\ D \subseteq (AdDevs \cup {"ReportDenied"})
  /\ MayUse(D)
  /\ devs' = devs \cup D
  /\ denied' = (Conflict(cfg.auth, cfg.peerLvl) \/ Conflict(cfg.enc, cfg.peerLvl) \/ "ReportDenied" \in D)
  /\ ansAuth' = IF "AnswerAuthNo" \in D THEN FALSE ELSE Want(cfg.auth, cfg.peerLvl, TRUE)
  /\ keyMat' = KeyMatOf(D)
  /\ cipherOK' = ("NoCommonCipher" \notin D)
  /\ phase' = "c_eval"
  /\ UNCHANGED <<cfg, pAuth, pEnc, offered, sel, ran, keyE, postAuth, postDenied, policyAuth, encClaim, outcome>>

\* E reads the server's ad.  The peer stops after a denial, so E can only abort.
\* REQUIRED authentication and a server that answers NO: E must fail.
ClientEval ==
  /\ phase = "c_eval"
  /\ ~denied
  /\ \/ /\ ansAuth
        /\ phase' = "c_offer" /\ UNCHANGED policyAuth
     \/ /\ ~ansAuth /\ cfg.auth # "REQUIRED"
        /\ phase' = "key" /\ UNCHANGED policyAuth
     \/ /\ ~ansAuth /\ cfg.auth = "REQUIRED" /\ "TrustAnswerNo" \in Bug
        /\ phase' = "key" /\ policyAuth' = TRUE
  /\ UNCHANGED <<cfg, devs, denied, ansAuth, pAuth, pEnc, keyMat, cipherOK, offered, sel, ran, keyE,
                 postAuth, postDenied, encClaim, outcome>>

ClientOffer ==
  /\ phase = "c_offer"
  /\ offered' = SetOf(cfg.methods)
  /\ phase' = "p_select"
  /\ UNCHANGED <<cfg, devs, denied, ansAuth, pAuth, pEnc, keyMat, cipherOK, sel, ran, keyE,
                 postAuth, postDenied, policyAuth, encClaim, outcome>>

PeerSelect(d) ==
  /\ phase = "p_select"
  /\ d \in SelDevs \cup {"Honest"}
  /\ d # "Honest" => MayUse({d})
  /\ devs' = IF d = "Honest" THEN devs ELSE devs \cup {d}
  /\ sel' = CASE d = "Honest" -> (IF FirstIn(cfg.methods, Runnable) # "NONE" THEN FirstIn(cfg.methods, Runnable) ELSE "zero")
              [] d = "SelectZero" -> "zero"
              [] d = "SelectSeveralBits" -> "several"
              [] d = "SelectUnofferedBit" ->
                   (IF Runnable \ offered # {} THEN CHOOSE m \in Runnable \ offered : TRUE ELSE "otherbit")
  /\ phase' = "c_run"
  /\ UNCHANGED <<cfg, denied, ansAuth, pAuth, pEnc, keyMat, cipherOK, offered, ran, keyE,
                 postAuth, postDenied, policyAuth, encClaim, outcome>>

\* The exchange completes only if the peer can run the selected method.  When
\* authentication is REQUIRED, E must refuse a method it did not offer (the
\* statement demands that a method E ITSELF LISTED ran); otherwise the
\* statement only demands that E reports what really ran, so running it is
\* tolerated here.  Everything else ends in Abort.
\* A multi-bit answer ("several") names no single method: E may refuse it (Abort) or
\* resolve it to one of the methods - the statement then only demands what it demands
\* of any run: under REQUIRED the method E ran is one E itself offered.
ClientRun ==
  /\ phase = "c_run"
  /\ \E m \in Runnable :
       /\ sel = m \/ sel = "several"
       /\ m \in offered \/ cfg.auth # "REQUIRED" \/ "RunsUnoffered" \in Bug
       /\ ran' = m
  /\ phase' = "key"
  /\ UNCHANGED <<cfg, devs, denied, ansAuth, pAuth, pEnc, keyMat, cipherOK, offered, sel, keyE,
                 postAuth, postDenied, policyAuth, encClaim, outcome>>

\* ================================================================ E = server
PeerClientHello(D) ==
  /\ phase = "p_hello"
  /\ D \subseteq AdDevs
  /\ MayUse(D)
  /\ devs' = devs \cup D
  /\ pAuth' = IF "AnswerAuthNo" \in D THEN "NEVER" ELSE cfg.peerLvl
  /\ pEnc' = IF "AnswerEncNo" \in D THEN "NEVER" ELSE cfg.peerLvl
  /\ keyMat' = KeyMatOf(D)
  /\ cipherOK' = ("NoCommonCipher" \notin D)
  /\ phase' = "s_eval"
  /\ UNCHANGED <<cfg, denied, ansAuth, offered, sel, ran, keyE, postAuth, postDenied, policyAuth, encClaim, outcome>>

\* E reconciles the two policies.  C03 only fixes that REQUIRED authentication
\* means the exchange is demanded; whether a REQUIRED / NEVER conflict is denied
\* is C10's table (E may always Abort), and a client whose "no" comes in a form
\* E does not recognise as NEVER is no conflict at all.
ServerEval ==
  /\ phase = "s_eval"
  /\ \E b \in BOOLEAN :
       /\ cfg.auth = "REQUIRED" => b
       /\ b => Runnable \cap SetOf(cfg.methods) # {}   \* the honest client lists what it can run
       /\ ansAuth' = b
       /\ phase' = IF b THEN "p_offer" ELSE "key"
  /\ UNCHANGED <<cfg, devs, denied, pAuth, pEnc, keyMat, cipherOK, offered, sel, ran, keyE,
                 postAuth, postDenied, policyAuth, encClaim, outcome>>

PeerOffer(d) ==
  /\ phase = "p_offer"
  /\ "AnswerAuthNo" \notin devs          \* that peer skips the exchange: E waits in vain
  /\ d \in SelDevs \cup {"Honest"}
  /\ d # "Honest" => MayUse({d})
  /\ devs' = IF d = "Honest" THEN devs ELSE devs \cup {d}
  /\ offered' = CASE d = "Honest" -> Runnable
                  [] d = "SelectZero" -> {}
                  [] d = "SelectSeveralBits" -> AllMethods
                  [] d = "SelectUnofferedBit" -> AllMethods \ Runnable
  /\ phase' = "s_select"
  /\ UNCHANGED <<cfg, denied, ansAuth, pAuth, pEnc, keyMat, cipherOK, sel, ran, keyE,
                 postAuth, postDenied, policyAuth, encClaim, outcome>>

\* E selects from ITS OWN list; the exchange completes if the peer can run it.
ServerSelectRun ==
  /\ phase = "s_select"
  \* (E picks the first method of ITS list that the peer offered; since fix 6278097
  \* it only picks among the methods the peer also NAMED in its ad - the peer names
  \* what it can run - so both readings are admitted)
  /\ \E cand \in {FirstIn(cfg.methods, offered), FirstIn(cfg.methods, offered \cap Runnable)} :
       /\ cand \in Runnable
       /\ sel' = cand /\ ran' = cand
  /\ phase' = "key"
  /\ UNCHANGED <<cfg, devs, denied, ansAuth, pAuth, pEnc, keyMat, cipherOK, offered, keyE,
                 postAuth, postDenied, policyAuth, encClaim, outcome>>

\* ================================================================ both roles
\* Key installation after the authentication phase.  REQUIRED encryption or
\* integrity and no key: E must fail.
KeyStep ==
  /\ phase = "key"
  /\ \/ /\ CanKeyE /\ keyE' = TRUE /\ UNCHANGED encClaim
     \/ /\ ~EncReqE(cfg) /\ keyE' = FALSE /\ UNCHANGED encClaim
     \/ /\ ~CanKeyE /\ EncReqE(cfg) /\ "ContinueWithoutEnc" \in Bug
        /\ keyE' = FALSE /\ encClaim' = TRUE
  /\ phase' = IF cfg.role = "client" THEN "p_post" ELSE "s_post"
  /\ UNCHANGED <<cfg, devs, denied, ansAuth, pAuth, pEnc, keyMat, cipherOK, offered, sel, ran,
                 postAuth, postDenied, policyAuth, outcome>>

PeerPostAuth(d) ==
  /\ phase = "p_post"
  /\ d \in PostDevs \cup {"Honest"}
  /\ d # "Honest" => MayUse({d})
  /\ d = "PostAuthInClear" => PeerKey      \* otherwise it is the honest move
  /\ devs' = IF d = "Honest" THEN devs ELSE devs \cup {d}
  /\ postAuth' = IF PeerKey /\ d # "PostAuthInClear" THEN "sealed" ELSE "clear"
  /\ postDenied' = (d = "PostAuthDenied")
  /\ phase' = "c_post"
  /\ UNCHANGED <<cfg, denied, ansAuth, pAuth, pEnc, keyMat, cipherOK, offered, sel, ran, keyE,
                 policyAuth, encClaim, outcome>>

\* E can read the post-auth ad only in the form its stream state dictates: once
\* the key is installed a cleartext frame is not acceptable traffic.
ClientPostAuth ==
  /\ phase = "c_post"
  /\ (keyE /\ postAuth = "sealed") \/ (~keyE /\ postAuth = "clear")
  /\ Success
  /\ UNCHANGED <<cfg, devs, denied, ansAuth, pAuth, pEnc, keyMat, cipherOK, offered, sel, ran, keyE,
                 postAuth, postDenied, policyAuth, encClaim>>

ServerPostAuth ==
  /\ phase = "s_post"
  /\ postAuth' = IF keyE THEN "sealed" ELSE "clear"
  /\ Success
  /\ UNCHANGED <<cfg, devs, denied, ansAuth, pAuth, pEnc, keyMat, cipherOK, offered, sel, ran, keyE,
                 postDenied, policyAuth, encClaim>>

\* ================================================================ resumption
ClientResumeRequest ==
  /\ phase = "c_resreq"
  /\ phase' = "p_resreply"
  /\ UNCHANGED <<cfg, devs, denied, ansAuth, pAuth, pEnc, keyMat, cipherOK, offered, sel, ran, keyE,
                 postAuth, postDenied, policyAuth, encClaim, outcome>>

PeerResumeReply(d) ==
  /\ phase = "p_resreply"
  /\ d \in {"Honest", "ReplyWithoutKey", "ReportDenied"}
  /\ d # "Honest" => MayUse({d})
  /\ devs' = IF d = "Honest" THEN devs ELSE devs \cup {d}
  /\ denied' = (d = "ReportDenied")
  /\ phase' = "c_reskey"
  /\ UNCHANGED <<cfg, ansAuth, pAuth, pEnc, keyMat, cipherOK, offered, sel, ran, keyE,
                 postAuth, postDenied, policyAuth, encClaim, outcome>>

PeerResumeRequest(d) ==
  /\ phase = "p_resreq"
  /\ d \in {"Honest", "ResumeKeyless"}
  /\ d # "Honest" => MayUse({d})
  /\ devs' = IF d = "Honest" THEN devs ELSE devs \cup {d}
  /\ phase' = "s_resume"
  /\ UNCHANGED <<cfg, denied, ansAuth, pAuth, pEnc, keyMat, cipherOK, offered, sel, ran, keyE,
                 postAuth, postDenied, policyAuth, encClaim, outcome>>

\* E re-installs the cached key if the session has one.  A session without a key
\* cannot be resumed under REQUIRED encryption / integrity (only Abort is left).  The statement demands
\* it only under REQUIRED encryption / integrity (whether every keyed session
\* must come back protected is C06's business), so E may also leave it out.
ResumeInstall ==
  /\ phase \in {"c_reskey", "s_resume"}
  /\ ~denied
  /\ \E k \in BOOLEAN : /\ k => cfg.sess.keyed
                        /\ EncReq(cfg) => (k \/ "ResumeKeylessUnderRequired" \in Bug)
                        /\ keyE' = k
  /\ encClaim' = ("ResumeFlagWithoutKey" \in Bug /\ ~cfg.sess.keyed)
  /\ SuccessResumed(keyE', encClaim')
  /\ UNCHANGED <<cfg, devs, denied, ansAuth, pAuth, pEnc, keyMat, cipherOK, offered, sel, ran,
                 postAuth, postDenied, policyAuth>>

Next ==
  \/ Abort
  \/ ClientHello \/ ClientEval \/ ClientOffer \/ ClientRun \/ ClientPostAuth
  \/ ServerEval \/ ServerSelectRun \/ ServerPostAuth
  \/ KeyStep
  \/ \E D \in SUBSET (AdDevs \cup {"ReportDenied"}) : PeerServerAd(D) \/ PeerClientHello(D)
  \/ \E d \in SelDevs \cup PostDevs \cup {"Honest", "ReplyWithoutKey", "ReportDenied", "ResumeKeyless"} :
        PeerSelect(d) \/ PeerOffer(d) \/ PeerPostAuth(d) \/ PeerResumeReply(d) \/ PeerResumeRequest(d)
  \/ ClientResumeRequest \/ ResumeInstall

Spec == Init /\ [][Next]_vars

\* ================================================================ properties
TypeOK ==
  /\ cfg \in Configs
  /\ devs \subseteq Deviations
  /\ ran \in AllMethods \cup {"NONE"}
  /\ keyE \in BOOLEAN
  /\ postAuth \in {"none", "sealed", "clear"}
  /\ outcome.done <=> phase = "done"

\* success and own authentication REQUIRED: a method E itself listed has run,
\* or the resumed session was an authenticated one
RequiredAuthRan ==
  outcome.ok /\ cfg.auth = "REQUIRED" =>
     IF outcome.resumed THEN cfg.sess.authd ELSE ran \in SetOf(cfg.methods)

\* success and own encryption / integrity REQUIRED: the stream is protected
RequiredEncOn == outcome.ok /\ EncReq(cfg) => keyE

\* the reported encryption flag is the stream's real state
ReportedEncTruthful == outcome.ok => outcome.enc = keyE

\* full handshake: reported authentication flag and method are what ran
ReportedAuthTruthful ==
  outcome.ok /\ ~outcome.resumed =>
     /\ outcome.auth = (ran # "NONE")
     /\ outcome.auth => outcome.method = ran

\* "protected from then on": once the key is installed E accepts no cleartext
NoClearAfterKey == outcome.ok /\ keyE => postAuth # "clear"

=============================================================================
