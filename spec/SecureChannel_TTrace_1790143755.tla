---- MODULE SecureChannel_TTrace_1790143755 ----
EXTENDS Sequences, TLCExt, Toolbox, Naturals, TLC, SecureChannel

_expression ==
    LET SecureChannel_TEExpression == INSTANCE SecureChannel_TEExpression
    IN SecureChannel_TEExpression!expression
----

_trace ==
    LET SecureChannel_TETrace == INSTANCE SecureChannel_TETrace
    IN SecureChannel_TETrace!trace
----

_inv ==
    ~(
        TLCGet("level") = Len(_TETrace)
        /\
        cur = ([ab |-> [kind |-> "none", k |-> 0], ba |-> [kind |-> "none", k |-> 0]])
        /\
        reuse = (FALSE)
        /\
        sndErr = ([ab |-> FALSE, ba |-> FALSE])
        /\
        seom = ([a |-> FALSE, b |-> FALSE])
        /\
        sentLog = ([ab |-> <<1>>, ba |-> <<>>])
        /\
        delivered = ([ab |-> <<<<<<1, 1>>>>>>, ba |-> <<>>])
        /\
        rFirst = ([ab |-> FALSE, ba |-> TRUE])
        /\
        used = ({<<"ab", 1, 0>>})
        /\
        rstate = ([ab |-> "idle", ba |-> "idle"])
        /\
        faults = (0)
        /\
        ivNext = (3)
        /\
        sbuf = ([a |-> FALSE, b |-> FALSE])
        /\
        lost = ([ab |-> FALSE, ba |-> FALSE])
        /\
        sCtr = ([ab |-> 1, ba |-> 0])
        /\
        rapi = ([ab |-> "secret", ba |-> "none"])
        /\
        rIV = ([ab |-> 1, ba |-> 0])
        /\
        rpart = ([ab |-> <<>>, ba |-> <<>>])
        /\
        sIV = ([ab |-> 1, ba |-> 2])
        /\
        pre = ([ab |-> 0, ba |-> 0])
        /\
        baseEnc = (FALSE)
        /\
        wire = ([ab |-> <<>>, ba |-> <<>>])
        /\
        handoffs = (0)
        /\
        lastHandoff = ("none")
        /\
        sFirst = ([ab |-> FALSE, ba |-> TRUE])
        /\
        closed = ([ab |-> FALSE, ba |-> FALSE])
        /\
        rCtr = ([ab |-> 1, ba |-> 0])
        /\
        sentKind = ()
    )
----

_init ==
    /\ baseEnc = _TETrace[1].baseEnc
    /\ rapi = _TETrace[1].rapi
    /\ rCtr = _TETrace[1].rCtr
    /\ wire = _TETrace[1].wire
    /\ cur = _TETrace[1].cur
    /\ rIV = _TETrace[1].rIV
    /\ handoffs = _TETrace[1].handoffs
    /\ delivered = _TETrace[1].delivered
    /\ rFirst = _TETrace[1].rFirst
    /\ sentLog = _TETrace[1].sentLog
    /\ sndErr = _TETrace[1].sndErr
    /\ faults = _TETrace[1].faults
    /\ reuse = _TETrace[1].reuse
    /\ sentKind = _TETrace[1].sentKind
    /\ pre = _TETrace[1].pre
    /\ used = _TETrace[1].used
    /\ sIV = _TETrace[1].sIV
    /\ lastHandoff = _TETrace[1].lastHandoff
    /\ sbuf = _TETrace[1].sbuf
    /\ lost = _TETrace[1].lost
    /\ ivNext = _TETrace[1].ivNext
    /\ seom = _TETrace[1].seom
    /\ rpart = _TETrace[1].rpart
    /\ sCtr = _TETrace[1].sCtr
    /\ closed = _TETrace[1].closed
    /\ rstate = _TETrace[1].rstate
    /\ sFirst = _TETrace[1].sFirst
----

_next ==
    /\ \E i,j \in DOMAIN _TETrace:
        /\ \/ /\ j = i + 1
              /\ i = TLCGet("level")
        /\ baseEnc  = _TETrace[i].baseEnc
        /\ baseEnc' = _TETrace[j].baseEnc
        /\ rapi  = _TETrace[i].rapi
        /\ rapi' = _TETrace[j].rapi
        /\ rCtr  = _TETrace[i].rCtr
        /\ rCtr' = _TETrace[j].rCtr
        /\ wire  = _TETrace[i].wire
        /\ wire' = _TETrace[j].wire
        /\ cur  = _TETrace[i].cur
        /\ cur' = _TETrace[j].cur
        /\ rIV  = _TETrace[i].rIV
        /\ rIV' = _TETrace[j].rIV
        /\ handoffs  = _TETrace[i].handoffs
        /\ handoffs' = _TETrace[j].handoffs
        /\ delivered  = _TETrace[i].delivered
        /\ delivered' = _TETrace[j].delivered
        /\ rFirst  = _TETrace[i].rFirst
        /\ rFirst' = _TETrace[j].rFirst
        /\ sentLog  = _TETrace[i].sentLog
        /\ sentLog' = _TETrace[j].sentLog
        /\ sndErr  = _TETrace[i].sndErr
        /\ sndErr' = _TETrace[j].sndErr
        /\ faults  = _TETrace[i].faults
        /\ faults' = _TETrace[j].faults
        /\ reuse  = _TETrace[i].reuse
        /\ reuse' = _TETrace[j].reuse
        /\ sentKind  = _TETrace[i].sentKind
        /\ sentKind' = _TETrace[j].sentKind
        /\ pre  = _TETrace[i].pre
        /\ pre' = _TETrace[j].pre
        /\ used  = _TETrace[i].used
        /\ used' = _TETrace[j].used
        /\ sIV  = _TETrace[i].sIV
        /\ sIV' = _TETrace[j].sIV
        /\ lastHandoff  = _TETrace[i].lastHandoff
        /\ lastHandoff' = _TETrace[j].lastHandoff
        /\ sbuf  = _TETrace[i].sbuf
        /\ sbuf' = _TETrace[j].sbuf
        /\ lost  = _TETrace[i].lost
        /\ lost' = _TETrace[j].lost
        /\ ivNext  = _TETrace[i].ivNext
        /\ ivNext' = _TETrace[j].ivNext
        /\ seom  = _TETrace[i].seom
        /\ seom' = _TETrace[j].seom
        /\ rpart  = _TETrace[i].rpart
        /\ rpart' = _TETrace[j].rpart
        /\ sCtr  = _TETrace[i].sCtr
        /\ sCtr' = _TETrace[j].sCtr
        /\ closed  = _TETrace[i].closed
        /\ closed' = _TETrace[j].closed
        /\ rstate  = _TETrace[i].rstate
        /\ rstate' = _TETrace[j].rstate
        /\ sFirst  = _TETrace[i].sFirst
        /\ sFirst' = _TETrace[j].sFirst

\* Uncomment the ASSUME below to write the states of the error trace
\* to the given file in Json format. Note that you can pass any tuple
\* to `JsonSerialize`. For example, a sub-sequence of _TETrace.
    \* ASSUME
    \*     LET J == INSTANCE Json
    \*         IN J!JsonSerialize("SecureChannel_TTrace_1790143755.json", _TETrace)

=============================================================================

 Note that you can extract this module `SecureChannel_TEExpression`
  to a dedicated file to reuse `expression` (the module in the 
  dedicated `SecureChannel_TEExpression.tla` file takes precedence 
  over the module `SecureChannel_TEExpression` below).

---- MODULE SecureChannel_TEExpression ----
EXTENDS Sequences, TLCExt, Toolbox, Naturals, TLC, SecureChannel

expression == 
    [
        \* To hide variables of the `SecureChannel` spec from the error trace,
        \* remove the variables below.  The trace will be written in the order
        \* of the fields of this record.
        baseEnc |-> baseEnc
        ,rapi |-> rapi
        ,rCtr |-> rCtr
        ,wire |-> wire
        ,cur |-> cur
        ,rIV |-> rIV
        ,handoffs |-> handoffs
        ,delivered |-> delivered
        ,rFirst |-> rFirst
        ,sentLog |-> sentLog
        ,sndErr |-> sndErr
        ,faults |-> faults
        ,reuse |-> reuse
        ,sentKind |-> sentKind
        ,pre |-> pre
        ,used |-> used
        ,sIV |-> sIV
        ,lastHandoff |-> lastHandoff
        ,sbuf |-> sbuf
        ,lost |-> lost
        ,ivNext |-> ivNext
        ,seom |-> seom
        ,rpart |-> rpart
        ,sCtr |-> sCtr
        ,closed |-> closed
        ,rstate |-> rstate
        ,sFirst |-> sFirst
        
        \* Put additional constant-, state-, and action-level expressions here:
        \* ,_stateNumber |-> _TEPosition
        \* ,_baseEncUnchanged |-> baseEnc = baseEnc'
        
        \* Format the `baseEnc` variable as Json value.
        \* ,_baseEncJson |->
        \*     LET J == INSTANCE Json
        \*     IN J!ToJson(baseEnc)
        
        \* Lastly, you may build expressions over arbitrary sets of states by
        \* leveraging the _TETrace operator.  For example, this is how to
        \* count the number of times a spec variable changed up to the current
        \* state in the trace.
        \* ,_baseEncModCount |->
        \*     LET F[s \in DOMAIN _TETrace] ==
        \*         IF s = 1 THEN 0
        \*         ELSE IF _TETrace[s].baseEnc # _TETrace[s-1].baseEnc
        \*             THEN 1 + F[s-1] ELSE F[s-1]
        \*     IN F[_TEPosition - 1]
    ]

=============================================================================



Parsing and semantic processing can take forever if the trace below is long.
 In this case, it is advised to uncomment the module below to deserialize the
 trace from a generated binary file.

\*
\*---- MODULE SecureChannel_TETrace ----
\*EXTENDS IOUtils, TLC, SecureChannel
\*
\*trace == IODeserialize("SecureChannel_TTrace_1790143755.bin", TRUE)
\*
\*=============================================================================
\*

---- MODULE SecureChannel_TETrace ----
EXTENDS TLC, SecureChannel

trace == 
    <<
    ([cur |-> [ab |-> [kind |-> "none", k |-> 0], ba |-> [kind |-> "none", k |-> 0]],reuse |-> FALSE,sndErr |-> [ab |-> FALSE, ba |-> FALSE],seom |-> [a |-> FALSE, b |-> FALSE],sentLog |-> [ab |-> <<>>, ba |-> <<>>],delivered |-> [ab |-> <<>>, ba |-> <<>>],rFirst |-> [ab |-> TRUE, ba |-> TRUE],used |-> {},rstate |-> [ab |-> "idle", ba |-> "idle"],faults |-> 0,ivNext |-> 3,sbuf |-> [a |-> FALSE, b |-> FALSE],lost |-> [ab |-> FALSE, ba |-> FALSE],sCtr |-> [ab |-> 0, ba |-> 0],rapi |-> [ab |-> "none", ba |-> "none"],rIV |-> [ab |-> 0, ba |-> 0],rpart |-> [ab |-> <<>>, ba |-> <<>>],sIV |-> [ab |-> 1, ba |-> 2],pre |-> [ab |-> 0, ba |-> 0],baseEnc |-> FALSE,wire |-> [ab |-> <<>>, ba |-> <<>>],handoffs |-> 0,lastHandoff |-> "none",sFirst |-> [ab |-> TRUE, ba |-> TRUE],closed |-> [ab |-> FALSE, ba |-> FALSE],rCtr |-> [ab |-> 0, ba |-> 0],sentKind |-> [ab |-> <<>>, ba |-> <<>>]]),
    ([cur |-> [ab |-> [kind |-> "none", k |-> 0], ba |-> [kind |-> "none", k |-> 0]],reuse |-> FALSE,sndErr |-> [ab |-> FALSE, ba |-> FALSE],seom |-> [a |-> FALSE, b |-> FALSE],sentLog |-> [ab |-> <<1>>, ba |-> <<>>],delivered |-> [ab |-> <<>>, ba |-> <<>>],rFirst |-> [ab |-> TRUE, ba |-> TRUE],used |-> {<<"ab", 1, 0>>},rstate |-> [ab |-> "idle", ba |-> "idle"],faults |-> 0,ivNext |-> 3,sbuf |-> [a |-> FALSE, b |-> FALSE],lost |-> [ab |-> FALSE, ba |-> FALSE],sCtr |-> [ab |-> 1, ba |-> 0],rapi |-> [ab |-> "none", ba |-> "none"],rIV |-> [ab |-> 0, ba |-> 0],rpart |-> [ab |-> <<>>, ba |-> <<>>],sIV |-> [ab |-> 1, ba |-> 2],pre |-> [ab |-> 0, ba |-> 0],baseEnc |-> FALSE,wire |-> [ab |-> <<[id |-> <<1, 1>>, end |-> 1, prot |-> TRUE, hasIV |-> TRUE, iv |-> 1, ctr |-> 0, dig |-> TRUE, digv |-> <<0, 0>>, ok |-> TRUE, forged |-> "no", flip |-> "none", okButHeader |-> FALSE]>>, ba |-> <<>>],handoffs |-> 0,lastHandoff |-> "none",sFirst |-> [ab |-> FALSE, ba |-> TRUE],closed |-> [ab |-> FALSE, ba |-> FALSE],rCtr |-> [ab |-> 0, ba |-> 0],sentKind |-> [ab |-> <<"secret">>, ba |-> <<>>]]),
    ([cur |-> [ab |-> [kind |-> "none", k |-> 0], ba |-> [kind |-> "none", k |-> 0]],reuse |-> FALSE,sndErr |-> [ab |-> FALSE, ba |-> FALSE],seom |-> [a |-> FALSE, b |-> FALSE],sentLog |-> [ab |-> <<1>>, ba |-> <<>>],delivered |-> [ab |-> <<>>, ba |-> <<>>],rFirst |-> [ab |-> TRUE, ba |-> TRUE],used |-> {<<"ab", 1, 0>>},rstate |-> [ab |-> "busy", ba |-> "idle"],faults |-> 0,ivNext |-> 3,sbuf |-> [a |-> FALSE, b |-> FALSE],lost |-> [ab |-> FALSE, ba |-> FALSE],sCtr |-> [ab |-> 1, ba |-> 0],rapi |-> [ab |-> "secret", ba |-> "none"],rIV |-> [ab |-> 0, ba |-> 0],rpart |-> [ab |-> <<>>, ba |-> <<>>],sIV |-> [ab |-> 1, ba |-> 2],pre |-> [ab |-> 0, ba |-> 0],baseEnc |-> FALSE,wire |-> [ab |-> <<[id |-> <<1, 1>>, end |-> 1, prot |-> TRUE, hasIV |-> TRUE, iv |-> 1, ctr |-> 0, dig |-> TRUE, digv |-> <<0, 0>>, ok |-> TRUE, forged |-> "no", flip |-> "none", okButHeader |-> FALSE]>>, ba |-> <<>>],handoffs |-> 0,lastHandoff |-> "none",sFirst |-> [ab |-> FALSE, ba |-> TRUE],closed |-> [ab |-> FALSE, ba |-> FALSE],rCtr |-> [ab |-> 0, ba |-> 0],sentKind |-> [ab |-> <<"secret">>, ba |-> <<>>]]),
    ([cur |-> [ab |-> [kind |-> "none", k |-> 0], ba |-> [kind |-> "none", k |-> 0]],reuse |-> FALSE,sndErr |-> [ab |-> FALSE, ba |-> FALSE],seom |-> [a |-> FALSE, b |-> FALSE],sentLog |-> [ab |-> <<1>>, ba |-> <<>>],delivered |-> [ab |-> <<<<<<1, 1>>>>>>, ba |-> <<>>],rFirst |-> [ab |-> FALSE, ba |-> TRUE],used |-> {<<"ab", 1, 0>>},rstate |-> [ab |-> "idle", ba |-> "idle"],faults |-> 0,ivNext |-> 3,sbuf |-> [a |-> FALSE, b |-> FALSE],lost |-> [ab |-> FALSE, ba |-> FALSE],sCtr |-> [ab |-> 1, ba |-> 0],rapi |-> [ab |-> "secret", ba |-> "none"],rIV |-> [ab |-> 1, ba |-> 0],rpart |-> [ab |-> <<>>, ba |-> <<>>],sIV |-> [ab |-> 1, ba |-> 2],pre |-> [ab |-> 0, ba |-> 0],baseEnc |-> FALSE,wire |-> [ab |-> <<>>, ba |-> <<>>],handoffs |-> 0,lastHandoff |-> "none",sFirst |-> [ab |-> FALSE, ba |-> TRUE],closed |-> [ab |-> FALSE, ba |-> FALSE],rCtr |-> [ab |-> 1, ba |-> 0],sentKind |-> ])
    >>
----


=============================================================================

---- CONFIG SecureChannel_TTrace_1790143755 ----
CONSTANTS
    MaxMsgsAB = 2
    MaxMsgsBA = 1
    MaxFrames = 2
    MaxCtr = 9
    StartCtrs = { 0 }
    PreFrames = { 0 }
    BaseEncs = { TRUE , FALSE }
    MaxFaults = 0
    MaxHandoffs = 1
    Bug = { }

INVARIANT
    _inv

CHECK_DEADLOCK
    \* CHECK_DEADLOCK off because of PROPERTY or INVARIANT above.
    FALSE

INIT
    _init

NEXT
    _next

CONSTANT
    _TETrace <- _trace

ALIAS
    _expression
=============================================================================
\* Generated on Wed Sep 23 06:09:32 UTC 2026