\* non-vacuity: with Bug = {"RawKey"} TLC must report RoundTrip violated
SPECIFICATION Spec
CONSTANTS
  Mode = "codec"
  AdTypes = {"", "plain", "quoted"}
  Constraints = {"", "expr", "exprQuoted"}
  ByteVals = {"nil", "empty", "b1", "bnul"}
  Kinds <- KindsAll
  Damages = {"dropKind", "kindNotInt", "badKey", "badCursor", "dropType", "typeNotString", "keyNotString", "cursorNotString", "constraintNotString"}
  Keys = {1, 2}
  MaxLog = 3
  MaxConns = 3
  MaxCuts = 2
  MaxEmit = 7
  Bug = {"RawKey"}
INVARIANTS RoundTrip
CHECK_DEADLOCK FALSE
