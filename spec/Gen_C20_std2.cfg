\* C20 generator (standard mode, 2 broker(s), <= 2 rogue connections, <= 0 broker messages, <= 4 environment steps)
SPECIFICATION GenSpec
CONSTANTS
  NB = 2
  MaxRogue = 2
  RogueKinds = {"wrongId", "otherId", "badGreeting", "close"}
  MaxMsgs = 0
  Mode = "standard"
  MaxEnv = 4
  Bug = {}
INVARIANT EmitTrace
CHECK_DEADLOCK FALSE
