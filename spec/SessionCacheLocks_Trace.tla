---------------------- MODULE SessionCacheLocks_Trace ----------------------
(***************************************************************************)
(* C17, code -> spec: linearizability of recorded call / return histories   *)
(* of the real security.SessionCache against SessionCacheSeq.               *)
(*                                                                          *)
(* The trace file (IOEnv.TRACE_FILE, ndjson) holds one EPISODE per line:    *)
(*   [ng, ids, objs, ev], ev = the call ("c") and return ("r") events of    *)
(*   <= 4 goroutines in the order of a global counter.  Each goroutine has  *)
(*   at most one operation in flight.                                       *)
(* An operation takes effect at a point chosen NONDETERMINISTICALLY between *)
(* its call and its return (action Lin; several points, one per entry, for  *)
(* InvalidateExpired and DebugDump, see SessionCacheSeq); the return event  *)
(* is consumed only if the result recorded from the real code equals the    *)
(* result the sequential specification gave at that point.  An episode is   *)
(* accepted iff some choice consumes all its events: TLC searches.          *)
(* Episodes are checked one after the other in one run (NextEpisode); the   *)
(* high-water mark of the episode index is kept in TLC register 1 and the   *)
(* POSTCONDITION says that it passed the last episode.                      *)
(***************************************************************************)
EXTENDS Integers, Sequences, FiniteSets, TLC, Json, IOUtils, SessionCacheSeq

Trace == ndJsonDeserialize(IOEnv.TRACE_FILE)
NEp == Len(Trace)

VARIABLES ep,     \* index of the episode being validated (NEp + 1 = all accepted)
          i,      \* next event of the episode
          abs,    \* state of the sequential specification
          pend    \* per goroutine: the operation in flight

tvars == <<ep, i, abs, pend>>

Range(s) == {s[k] : k \in 1..Len(s)}
IdsOf(e)  == Range(e.ids)
ObjsOf(e) == Range(e.objs)

EmptyAbs(e) == [map |-> [x \in IdsOf(e) |-> NoObj],
                cmd |-> [x \in IdsOf(e) |-> FALSE],
                exp |-> [o \in ObjsOf(e) |-> "live"]]

NoOp == [st |-> "none", op |-> "-", id |-> "-", o |-> NoObj, e |-> "-", res |-> "-",
         rem |-> {}, snap |-> <<>>, dmp |-> {}, dc |-> {}]

Start(k) == IF k <= NEp THEN [a |-> EmptyAbs(Trace[k]), p |-> [g \in 1..Trace[k].ng |-> NoOp]]
            ELSE [a |-> <<>>, p |-> <<>>]

Init == /\ ep = 1 /\ i = 1
        /\ abs = Start(1).a /\ pend = Start(1).p
        /\ TLCSet(1, 1)

Ev == Trace[ep].ev

(* consume a call event *)
CallEv ==
  /\ ep <= NEp /\ i <= Len(Ev) /\ Ev[i].k = "c"
  /\ LET e == Ev[i] IN
     /\ pend[e.g].st = "none"
     /\ pend' = [pend EXCEPT ![e.g] = [NoOp EXCEPT !.st = "called", !.op = e.op, !.id = e.id, !.o = e.o, !.e = e.e]]
  /\ i' = i + 1
  /\ UNCHANGED <<ep, abs>>

Str(b) == IF b THEN "true" ELSE "false"

(* the single linearization point of the simple operations *)
LinSimple(g) ==
  LET p == pend[g] IN
  /\ p.st = "called"
  /\ p.op \in {"Store", "Lookup", "LookupNE", "LookupCmd", "MapCmd", "Invalidate", "Size", "Clear", "Renew", "IsExpired"}
  /\ LET r == CASE p.op = "Store"      -> [st |-> SeqStore(abs, p.id, p.o, p.e), res |-> "ok"]
                [] p.op = "Lookup"     -> [st |-> abs, res |-> SeqLookup(abs, p.id)]
                [] p.op = "LookupNE"   -> SeqLookupNE(abs, p.id)
                [] p.op = "LookupCmd"  -> [st |-> abs, res |-> SeqLookupCmd(abs, p.id)]
                [] p.op = "MapCmd"     -> [st |-> SeqMapCmd(abs, p.id), res |-> "ok"]
                [] p.op = "Invalidate" -> [st |-> SeqInvalidate(abs, p.id).st, res |-> Str(SeqInvalidate(abs, p.id).res)]
                [] p.op = "Size"       -> [st |-> abs, res |-> ToString(SeqSize(abs))]
                [] p.op = "Clear"      -> [st |-> SeqClear(abs), res |-> "ok"]
                [] p.op = "Renew"      -> [st |-> SeqRenew(abs, p.o), res |-> "ok"]
                [] p.op = "IsExpired"  -> [st |-> abs, res |-> Str(SeqIsExpired(abs, p.o))]
     IN /\ abs' = r.st
        /\ pend' = [pend EXCEPT ![g].st = "done", ![g].res = r.res]
  /\ UNCHANGED <<ep, i>>

(* InvalidateExpired: one point per id, then the command-map clean-up *)
SweepStart(g) ==
  /\ pend[g].st = "called" /\ pend[g].op = "Sweep"
  /\ pend' = [pend EXCEPT ![g].st = "scan", ![g].rem = DOMAIN abs.map, ![g].res = 0]
  /\ UNCHANGED <<ep, i, abs>>
SweepOne(g) ==
  /\ pend[g].st = "scan" /\ pend[g].op = "Sweep"
  /\ \E x \in pend[g].rem :
       /\ abs' = SeqSweepOne(abs, x).st
       /\ pend' = [pend EXCEPT ![g].rem = @ \ {x}, ![g].res = @ + SeqSweepOne(abs, x).removed]
  /\ UNCHANGED <<ep, i>>
SweepEnd(g) ==
  /\ pend[g].st = "scan" /\ pend[g].op = "Sweep" /\ pend[g].rem = {}
  /\ abs' = SeqSweepFinish(abs)
  /\ pend' = [pend EXCEPT ![g].st = "done", ![g].res = ToString(@)]
  /\ UNCHANGED <<ep, i>>

(* DebugDump: the set of entries and command keys is one snapshot (the map    *)
(* lock is held), the expiry of each entry is read at its own point           *)
DumpSnap(g) ==
  /\ pend[g].st = "called" /\ pend[g].op = "Dump"
  /\ pend' = [pend EXCEPT ![g].st = "scan", ![g].snap = abs.map,
                          ![g].rem = {x \in DOMAIN abs.map : abs.map[x] # NoObj},
                          ![g].dc = {x \in DOMAIN abs.cmd : abs.cmd[x]}]
  /\ UNCHANGED <<ep, i, abs>>
DumpOne(g) ==
  /\ pend[g].st = "scan" /\ pend[g].op = "Dump"
  /\ \E x \in pend[g].rem :
       pend' = [pend EXCEPT ![g].rem = @ \ {x},
                            ![g].dmp = @ \cup {<<x, pend[g].snap[x], SeqDumpOne(abs, pend[g].snap[x])>>}]
  /\ UNCHANGED <<ep, i, abs>>
DumpEnd(g) ==
  /\ pend[g].st = "scan" /\ pend[g].op = "Dump" /\ pend[g].rem = {}
  /\ pend' = [pend EXCEPT ![g].st = "done", ![g].res = "dump"]
  /\ UNCHANGED <<ep, i, abs>>

(* consume a return event: the real result must be the specification's *)
RetEv ==
  /\ ep <= NEp /\ i <= Len(Ev) /\ Ev[i].k = "r"
  /\ LET e == Ev[i]
         p == pend[e.g] IN
     /\ p.st = "done"
     /\ IF p.op = "Dump"
        THEN /\ Range(e.dmp) = p.dmp
             /\ Range(e.dc) = p.dc
        ELSE e.res = p.res
     /\ pend' = [pend EXCEPT ![e.g] = NoOp]
  /\ i' = i + 1
  /\ UNCHANGED <<ep, abs>>

(* all events of the episode consumed: next episode *)
NextEpisode ==
  /\ ep <= NEp /\ i = Len(Ev) + 1
  /\ ep' = ep + 1 /\ i' = 1
  /\ abs' = Start(ep + 1).a /\ pend' = Start(ep + 1).p
  /\ TLCSet(1, IF TLCGet(1) > ep + 1 THEN TLCGet(1) ELSE ep + 1)

Next ==
  \/ CallEv \/ RetEv \/ NextEpisode
  \/ /\ ep <= NEp
     /\ \E g \in DOMAIN pend :
          LinSimple(g) \/ SweepStart(g) \/ SweepOne(g) \/ SweepEnd(g) \/ DumpSnap(g) \/ DumpOne(g) \/ DumpEnd(g)

TraceSpec == Init /\ [][Next]_tvars

\* POSTCONDITION: every episode was accepted. The rejected episode is printed.
TraceAccepted ==
  IF TLCGet(1) > NEp THEN TRUE
  ELSE /\ PrintT(<<"C17-REJECTED-EPISODE", TLCGet(1)>>)
       /\ FALSE
=============================================================================
