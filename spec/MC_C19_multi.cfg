\* C19: two calls on one connection (duplex / reuse), every stall position of either call, both contexts for b
SPECIFICATION LiveSpec
CONSTANTS
  Ns = {1, 2, 3}
  Modes = {"duplex", "reuse"}
  Bug = {}
INVARIANTS TypeOK CancelledReturnClosesConn ErrorIdentity SuccessMeansAllDone FreshCtxNoCtxErr LiveCtxKeepsConnOpen
PROPERTIES ACancelledReturns ReuseFailsFast DuplexOtherReturns
CHECK_DEADLOCK FALSE
