\* non-vacuity: with Bug = {"AllocSplit"} TLC must report UniqueIds violated
SPECIFICATION Spec
CONSTANTS
  H = {h1, h2, h3}
  Bug = {"AllocSplit"}
INVARIANTS UniqueIds
CHECK_DEADLOCK FALSE
