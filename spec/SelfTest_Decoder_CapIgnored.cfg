\* non-vacuity: with the known wrong design "CapIgnored" TLC must report CapHonoured violated
SPECIFICATION Spec
CONSTANTS
  Bug = {"CapIgnored"}
  Families = {"typed"}
  Modes = {"plain","enc"}
  ExprMax = 1
  TokLen = 3
INVARIANTS TypeOK NoPanic Bounded CapHonoured CapFails
CHECK_DEADLOCK FALSE
