\* C20 generator (proxy mode, 2 broker(s), <= 0 rogue connections, <= 2 broker messages, <= 2 environment steps)
SPECIFICATION GenSpec
CONSTANTS
  NB = 2
  MaxRogue = 0
  RogueKinds = {}
  MaxMsgs = 2
  Mode = "proxy"
  MaxEnv = 2
  Bug = {}
INVARIANT EmitTrace
CHECK_DEADLOCK FALSE
