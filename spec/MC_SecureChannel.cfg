\* exhaustive: intended design, one fault, one hand-off
SPECIFICATION Spec
CONSTANTS
  MaxMsgs = 2
  MaxFrames = 2
  MaxCtr = 6
  StartCtrs = {0}
  PreFrames = {0}
  BaseEncs = {TRUE}
  MaxFaults = 1
  MaxHandoffs = 1
  Bug = {}
INVARIANTS TypeOK DeliveredPrefix NoSpuriousError NonceFresh FrameFormat
PROPERTY RefuseAtWrap
CHECK_DEADLOCK FALSE
