\* G07 generator, accept loop (thorough): 3 connections, 5 environment steps + cancellation
SPECIFICATION GenSpecS
CONSTANTS
  Hows = {"new"}
  Routes = {"direct"}
  Secs = {"none"}
  EnvsNew = {}
  EnvsCA = {}
  Ctxs = {}
  MaxCalls = 0
  MaxSock = 0
  MaxConn = 3
  Kinds = {"ok", "err", "panic", "block", "keepopen", "unknown"}
  MaxEnvS = 5
  Bug = {"TempAcceptFatal"}
INVARIANT EmitS
CHECK_DEADLOCK FALSE
