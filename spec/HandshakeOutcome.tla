-------------------------- MODULE HandshakeOutcome --------------------------
(***************************************************************************)
(* What properties C03 and C05 say about a single successful handshake     *)
(* outcome and a single handler dispatch, written as predicates over the   *)
(* records the guarded hooks emit (security/verif_on.go: AuthRan,          *)
(* HandshakeDone; server/verif_on.go: Dispatch).  Used by                  *)
(* HandshakeOutcome_Trace.tla to validate traces recorded from the real    *)
(* code (the repository's own tests and the harness's drivers).            *)
(***************************************************************************)
EXTENDS Integers, Sequences, TLC

Member(x, seq) == \E i \in 1..Len(seq) : seq[i] = x

\* ran = the method whose exchange completed successfully in this handshake, "" if none
\* d = a HandshakeDone record

\* C03: the encryption flag reported equals the stream's real state
ReportedEncTruthful(d) == d.enc = d.streamEnc

\* C03: own policy marks encryption or integrity REQUIRED => the stream is protected
RequiredEncOn(d) == (d.polEnc = "REQUIRED" \/ d.polInt = "REQUIRED") => d.streamEnc

\* C03: own policy marks authentication REQUIRED => a method this endpoint listed ran
\* to successful completion (full handshake), or the resumed session was authenticated
RequiredAuthRan(d, ran) ==
  \* (whether a RESUMED session was an authenticated one is not observable from the
  \* outcome record alone - the client side does not restore the flag - so the
  \* resumed case is decided by the session-cache checks, C06/C07, not here)
  (d.polAuth = "REQUIRED" /\ d.full) => (ran # "" /\ Member(ran, d.methods))

\* C03: what a full handshake reports about authentication is what ran on the wire
\* (when it reports "not authenticated" the method field carries no claim)
ReportedAuthTruthful(d, ran) ==
  d.full => /\ d.auth = (ran # "")
            /\ d.auth => d.method = ran

\* C06: a resumed session carries a key and the stream is protected by it
ResumedIsKeyed(d) == ~d.full => (d.entryKeyed /\ d.streamEnc)

HandshakeOK(d, ran) ==
  /\ ReportedEncTruthful(d) /\ RequiredEncOn(d)
  /\ RequiredAuthRan(d, ran) /\ ReportedAuthTruthful(d, ran)

\* C05: a handler runs only on a session that REALLY meets the command's policy
DispatchOK(x) ==
  IF x.path = "raw" THEN x.registered /\ x.raw
  ELSE /\ x.registered /\ ~x.raw
       /\ (x.reqAuth = "REQUIRED" => x.auth)
       /\ ((x.reqEnc = "REQUIRED" \/ x.reqInt = "REQUIRED") => x.streamEnc)
       /\ (x.authorizer => x.authorizedNow)
=============================================================================
