\* non-vacuity: with the known wrong design FiledUnderEmptyTag TLC must report ResumeOnlySameTriple violated
SPECIFICATION Spec07
CONSTANTS
  Tags = {"none", "A", "B"}
  Addrs = {"s1", "s2"}
  Cmds = {"c1", "c2", "c3"}
  ValidCmds = {"c1", "c2"}
  MaxSid = 2
  MaxTime = 0
  Duration = 1
  Lease = 1
  ImportOn = FALSE
  MaxRec = 0
  Bug = {"FiledUnderEmptyTag"}
INVARIANTS ResumeOnlySameTriple
CHECK_DEADLOCK FALSE
