\* non-vacuity: with the known wrong design "QuoteEndsString" TLC must report ShortcutSound violated
SPECIFICATION Spec
CONSTANTS
  MaxLen = 5
  Bug = {"QuoteEndsString"}
INVARIANTS ShortcutSound
CHECK_DEADLOCK FALSE
