\* C01: a draft of which nothing has left is given up and the message started over
\* (StartMessage / a new Message), once per behaviour, anywhere in a 1..2 message history
SPECIFICATION GenSpec
CONSTANTS
  Max = 1048576
  FlushAt = 4096
  Target = 16384
  Tag = 16
  IVLen = 16
  Hdr = 5
  Encs = {TRUE, FALSE}
  SendApis = {"buffered", "typed"}
  RecvApis = {"complete", "typed"}
  WriteSizes = {1, 3, 4095}
  StrSizes = {}
  StrBytesSizes = {}
  ReadSizes = {0}
  MaxMsgs = 2
  MaxWrites = 2
  MaxReads = 1
  MaxLen = 4200
  PairFirst = {1, 2, 3, 4}
  TypedFlush = {FALSE}
  Interleave = FALSE
  MaxAbandon = 1
  Bug = {}
INVARIANT EmitTrace
CHECK_DEADLOCK FALSE
