\* C20 (standard mode, 2 broker(s), <= 1 rogue connections / <= 0 broker messages)
SPECIFICATION Spec
CONSTANTS
  NB = 2
  MaxRogue = 1
  RogueKinds = {"wrongId", "otherId", "badGreeting", "close"}
  MaxMsgs = 0
  Mode = "standard"
  Bug = {}
INVARIANTS TypeOK ReturnedPresentedFreshId AtMostOneReturned OthersClosed BrokerFailureEndsAttempt
CHECK_DEADLOCK FALSE
