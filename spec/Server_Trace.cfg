\* C05 trace validation against the permissive specification
SPECIFICATION TSpec
CONSTANTS
  MaxConns = 64
  MaxCmds = 64
  PolicyTabs = {1, 2}
  AuthzTabs = {0, 1, 2}
  InitAuthz = {0, 1, 2}
  InitPtab = {1, 2}
  Users = {"alice", "bob"}
  Permissive = TRUE
  Bug = {}
INVARIANTS EmitVerdict HandlerOnlyOnAdequateSession RawAuthSeparated RefusedClosesWithoutHandler
CHECK_DEADLOCK FALSE
