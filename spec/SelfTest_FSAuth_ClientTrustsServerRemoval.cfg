\* non-vacuity: with Bug = {"ClientTrustsServerRemoval"} TLC must report RemovedWhenComplete violated
SPECIFICATION Spec
CONSTANTS
  MaxLen = 3
  ConnFams = {4, 6}
  Faults = {"none", "sendFail", "verdictLost"}
  Roles = {"client", "server"}
  Bug = {"ClientTrustsServerRemoval"}
INVARIANTS RemovedWhenComplete
CHECK_DEADLOCK FALSE
