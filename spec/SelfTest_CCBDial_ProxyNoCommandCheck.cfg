\* non-vacuity: proxy mode, with Bug = {"NoCommandCheck"} TLC must report ReturnedPresentedFreshId violated
SPECIFICATION Spec
CONSTANTS
  NB = 1
  MaxRogue = 1
  RogueKinds = {"wrongId", "badGreeting", "close"}
  MaxMsgs = 2
  Mode = "proxy"
  Bug = {"NoCommandCheck"}
INVARIANTS ReturnedPresentedFreshId
CHECK_DEADLOCK FALSE
