-------------------------- MODULE Gen_SessionCache --------------------------
(***************************************************************************)
(* Behaviour generator for SessionCache: the same actions plus a history   *)
(* `hist` recording every step with its arguments, the model's observation *)
(* (`last`) and the projection of the post-state that the replayer compares *)
(* with the real caches.  GenNext only restricts the ORDER of SessionCache's*)
(* actions, so every generated behaviour is a behaviour of SessionCache.    *)
(*                                                                          *)
(*  mode "C06": life-cycle steps (Establish, Import, Tick, Renew, SrvInvalidate,    *)
(*     SrvSweep, legitimate Resume) up to LifeDepth, then ONE attacking     *)
(*     connection (any Resume variant, any Replay) which ends the behaviour.*)
(*  mode "C06walk": the attack only after exactly LifeDepth life-cycle steps *)
(*     (long random histories with -simulate).                              *)
(*  mode "C07": any Next07 step up to GenDepth; every prefix is printed.     *)
(*  mode "C07walk": the same, printed at length GenDepth only (-simulate).   *)
(*                                                                          *)
(* With VIEW GenView (history hidden, pre-state and last step included) TLC *)
(* visits every EDGE of the bounded behaviour graph once and prints one     *)
(* path ending in it: the printed paths are an edge cover.  Without the     *)
(* VIEW every behaviour is printed (thorough tier).                         *)
(* Canon: tags / addresses / valid commands are introduced in a fixed order *)
(* (the replayer applies the permutations), a symmetry reduction.           *)
(***************************************************************************)
EXTENDS SessionCache, Json, SequencesExt

CONSTANTS GenMode, GenDepth, LifeDepth, Canon

ASSUME Bug = {}   \* behaviours of the intended design only

VARIABLES hist, prev, used, phase

gvars == <<vars, hist, prev, used, phase>>

TripleSeq == SetToSeq(Triples)
A1 == CHOOSE a \in Addrs : TRUE

\* projection of the post-state -----------------------------------------------
SrvAlive == [s \in 1..(nextSid' - 1) |-> s \in DOMAIN srv'[A1] /\ now' <= srv'[A1][s].exp]
SrvPresent == [s \in 1..(nextSid' - 1) |-> s \in DOMAIN srv'[A1]]
\* the expiry the lease mechanism defines (virtual time; -1 = not cached): the replayer reads
\* SessionEntry.Expiration() back after every real step and compares
SrvExp == [s \in 1..(nextSid' - 1) |-> IF s \in DOMAIN srv'[A1] THEN srv'[A1][s].exp ELSE -1]
CliLook  == [s \in 1..(nextSid' - 1) |-> CliAliveOf(cli', now', s)]
\* the generator runs the intended design (Bug = {}): Route(k) is then cli.map[k] for
\* the keys whose session is still cached and alive; one pass over the map
LiveKeys == {k \in DOMAIN cli'.map : CliAliveOf(cli', now', cli'.map[k])}
Routes   == {<<k[1], k[2], k[3], cli'.map[k]>> : k \in LiveKeys}
Allowed  == {<<k[1], k[2], k[3], mayReuse'[k]>> : k \in DOMAIN mayReuse'}

Log06 == hist' = Append(hist, [step |-> last', now |-> now', alive |-> SrvAlive, present |-> SrvPresent, exp |-> SrvExp, recs |-> recs'])
Log07 == hist' = Append(hist, [step |-> last', look |-> CliLook, routes |-> Routes, allowed |-> Allowed,
                               gone |-> gone', brk |-> brk'])

\* canonical introduction order ------------------------------------------------
TagOrder  == <<"A", "B">>
AddrOrder == <<"s1", "s2">>
CmdOrder  == <<"c1", "c2">>
Intro(order) == {order[i] : i \in {j \in 1..Len(order) : \A k \in 1..(j - 1) : order[k] \in used}}
OkName(x, order) == ~Canon \/ x \notin {order[i] : i \in 1..Len(order)} \/ x \in Intro(order)

IsAttack ==
  \/ last'.act = "Replay"
  \/ last'.act = "Resume" /\ ~(last'.proof = "key" /\ last'.idv = "exact" /\ last'.from = "same")

C06Next ==
  /\ phase = "life"
  /\ Next06
  /\ last'.act = "Resume" => (last'.from = "same" \/ last'.res = "resumed" \/ ~last'.perm)  \* one branch of the permissive choice
  /\ IF IsAttack THEN ((GenMode = "C06walk" => Len(hist) = LifeDepth) /\ phase' = "done")
                 ELSE (Len(hist) < LifeDepth /\ phase' = "life")
  /\ Log06
  /\ prev' = core
  /\ UNCHANGED used

C07Next ==
  /\ Len(hist) < GenDepth
  /\ Next07
  /\ last'.act = "Handshake" => /\ OkName(last'.tag, TagOrder)
                                /\ OkName(last'.addr, AddrOrder)
                                /\ OkName(last'.cmd, CmdOrder)
  /\ used' = IF last'.act = "Handshake" THEN used \cup {last'.tag, last'.addr, last'.cmd} ELSE used
  /\ Log07
  /\ prev' = core
  /\ UNCHANGED phase

GenInit ==
  /\ Init
  /\ hist = <<>>
  /\ prev = core
  /\ used = {}
  /\ phase = "life"

GenNext == IF GenMode \in {"C06", "C06walk"} THEN C06Next ELSE C07Next
GenSpec == GenInit /\ [][GenNext]_gvars

\* every edge once: the pre-state, the step and the post-state identify it
GenView == <<core, last, prev, used, phase>>
\* C06: every reachable (state, step) once
GenView06 == <<core, last, phase>>

Done == IF GenMode \in {"C06", "C06walk"} THEN phase = "done"
        ELSE IF GenMode = "C07walk" THEN Len(hist) = GenDepth   \* -simulate: only complete walks
        ELSE Len(hist) >= 1
EmitTrace == Done => PrintT(ToJson([trace |-> [h |-> hist, triples |-> TripleSeq, dur |-> Duration, lease |-> Lease]]))
=============================================================================
