\* non-vacuity: with Bug = {"ForgetCookieOnDrop"} TLC must report PresentsLastCookie violated
SPECIFICATION Spec
CONSTANTS
  NB = 1
  MaxConn = 2
  MaxReq = 2
  MaxTick = 1
  MaxMsg = 1
  RegAnswers = {"fresh", "same", "refuse", "hangup"}
  Targets = {"accept", "refuse"}
  Msgs = {"malformed"}
  Bug = {"ForgetCookieOnDrop"}
INVARIANTS PresentsLastCookie
CHECK_DEADLOCK FALSE
