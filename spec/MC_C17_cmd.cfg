\* C17 thorough (2): command mappings, Clear, LookupNonExpired, IsExpired, Size
SPECIFICATION Spec
CONSTANTS
  Gor = {"g1", "g2", "g3"}
  Nobody = Nobody
  Ids = {"i1", "i2"}
  MaxOps = 2
  MaxOpsOf <- LimitsAll
  MaxVer = 1
  OpsOf <- RolesCmd
  InitKinds = {"live", "dead"}
  StoreExp = {"live"}
  Bug = {}
INVARIANTS TypeOK LocksetDiscipline AccessRelationRespected NoTornExpiry NoLostInvalidate RefinesSeq Linearizable HandshakeUndisturbed
CHECK_DEADLOCK FALSE
