\* G06 thorough: the endpoint listener, 3 daemon connections x every script, 3 Accept calls, 2 Close calls, both origins
SPECIFICATION Spec
CONSTANTS
  Mode = "listener"
  Origins = {"listen", "adopt"}
  MaxD = 3
  MaxAcc = 3
  MaxClose = 2
  Scripts <- MixScripts
  Shapes <- NoShapes
  ErrClasses = {}
  Bug = {}
INVARIANTS ListenerTypeOK ExactlyOnce OnlyWellFormed NeverKills AfterCloseErr ClosedClean NoLeak SocketFile
CHECK_DEADLOCK FALSE
