---- MODULE CedarConn_TTrace_1790136247 ----
EXTENDS Sequences, TLCExt, CedarConn, Toolbox, Naturals, TLC

_expression ==
    LET CedarConn_TEExpression == INSTANCE CedarConn_TEExpression
    IN CedarConn_TEExpression!expression
----

_trace ==
    LET CedarConn_TETrace == INSTANCE CedarConn_TETrace
    IN CedarConn_TETrace!trace
----

_inv ==
    ~(
        TLCGet("level") = Len(_TETrace)
        /\
        sDisp = (0)
        /\
        sKeyed = (FALSE)
        /\
        wantAuth = (TRUE)
        /\
        repEncC = (TRUE)
        /\
        cHs = (1)
        /\
        curCmd = ("lax")
        /\
        cRan = ("")
        /\
        sRan = ("")
        /\
        cKeyed = (FALSE)
        /\
        cMust = (TRUE)
        /\
        repEncS = (TRUE)
        /\
        encOffS = (FALSE)
        /\
        sHs = (1)
        /\
        phase = ("dispatch")
        /\
        wantEnc = (TRUE)
        /\
        sMust = (FALSE)
        /\
        cfg = ([cAuth |-> "REQUIRED", sAuth |-> "REQUIRED", cEnc |-> "REQUIRED", sEnc |-> "PREFERRED", method |-> TRUE, cipher |-> TRUE, ecdh |-> FALSE, cmd |-> "lax"])
        /\
        followOns = (0)
        /\
        okC = (FALSE)
        /\
        cLR = ("no")
        /\
        authOK = (TRUE)
        /\
        cLS = ("no")
        /\
        sSrv = (TRUE)
        /\
        cDisp = (0)
        /\
        okS = (FALSE)
        /\
        sLR = ("no")
        /\
        cSrv = (FALSE)
        /\
        sLS = ("no")
    )
----

_init ==
    /\ cSrv = _TETrace[1].cSrv
    /\ cRan = _TETrace[1].cRan
    /\ wantEnc = _TETrace[1].wantEnc
    /\ sMust = _TETrace[1].sMust
    /\ cHs = _TETrace[1].cHs
    /\ sHs = _TETrace[1].sHs
    /\ wantAuth = _TETrace[1].wantAuth
    /\ curCmd = _TETrace[1].curCmd
    /\ cLR = _TETrace[1].cLR
    /\ cLS = _TETrace[1].cLS
    /\ sLR = _TETrace[1].sLR
    /\ sLS = _TETrace[1].sLS
    /\ cfg = _TETrace[1].cfg
    /\ cDisp = _TETrace[1].cDisp
    /\ sSrv = _TETrace[1].sSrv
    /\ sDisp = _TETrace[1].sDisp
    /\ okC = _TETrace[1].okC
    /\ okS = _TETrace[1].okS
    /\ phase = _TETrace[1].phase
    /\ sRan = _TETrace[1].sRan
    /\ cKeyed = _TETrace[1].cKeyed
    /\ authOK = _TETrace[1].authOK
    /\ repEncC = _TETrace[1].repEncC
    /\ repEncS = _TETrace[1].repEncS
    /\ followOns = _TETrace[1].followOns
    /\ encOffS = _TETrace[1].encOffS
    /\ sKeyed = _TETrace[1].sKeyed
    /\ cMust = _TETrace[1].cMust
----

_next ==
    /\ \E i,j \in DOMAIN _TETrace:
        /\ \/ /\ j = i + 1
              /\ i = TLCGet("level")
        /\ cSrv  = _TETrace[i].cSrv
        /\ cSrv' = _TETrace[j].cSrv
        /\ cRan  = _TETrace[i].cRan
        /\ cRan' = _TETrace[j].cRan
        /\ wantEnc  = _TETrace[i].wantEnc
        /\ wantEnc' = _TETrace[j].wantEnc
        /\ sMust  = _TETrace[i].sMust
        /\ sMust' = _TETrace[j].sMust
        /\ cHs  = _TETrace[i].cHs
        /\ cHs' = _TETrace[j].cHs
        /\ sHs  = _TETrace[i].sHs
        /\ sHs' = _TETrace[j].sHs
        /\ wantAuth  = _TETrace[i].wantAuth
        /\ wantAuth' = _TETrace[j].wantAuth
        /\ curCmd  = _TETrace[i].curCmd
        /\ curCmd' = _TETrace[j].curCmd
        /\ cLR  = _TETrace[i].cLR
        /\ cLR' = _TETrace[j].cLR
        /\ cLS  = _TETrace[i].cLS
        /\ cLS' = _TETrace[j].cLS
        /\ sLR  = _TETrace[i].sLR
        /\ sLR' = _TETrace[j].sLR
        /\ sLS  = _TETrace[i].sLS
        /\ sLS' = _TETrace[j].sLS
        /\ cfg  = _TETrace[i].cfg
        /\ cfg' = _TETrace[j].cfg
        /\ cDisp  = _TETrace[i].cDisp
        /\ cDisp' = _TETrace[j].cDisp
        /\ sSrv  = _TETrace[i].sSrv
        /\ sSrv' = _TETrace[j].sSrv
        /\ sDisp  = _TETrace[i].sDisp
        /\ sDisp' = _TETrace[j].sDisp
        /\ okC  = _TETrace[i].okC
        /\ okC' = _TETrace[j].okC
        /\ okS  = _TETrace[i].okS
        /\ okS' = _TETrace[j].okS
        /\ phase  = _TETrace[i].phase
        /\ phase' = _TETrace[j].phase
        /\ sRan  = _TETrace[i].sRan
        /\ sRan' = _TETrace[j].sRan
        /\ cKeyed  = _TETrace[i].cKeyed
        /\ cKeyed' = _TETrace[j].cKeyed
        /\ authOK  = _TETrace[i].authOK
        /\ authOK' = _TETrace[j].authOK
        /\ repEncC  = _TETrace[i].repEncC
        /\ repEncC' = _TETrace[j].repEncC
        /\ repEncS  = _TETrace[i].repEncS
        /\ repEncS' = _TETrace[j].repEncS
        /\ followOns  = _TETrace[i].followOns
        /\ followOns' = _TETrace[j].followOns
        /\ encOffS  = _TETrace[i].encOffS
        /\ encOffS' = _TETrace[j].encOffS
        /\ sKeyed  = _TETrace[i].sKeyed
        /\ sKeyed' = _TETrace[j].sKeyed
        /\ cMust  = _TETrace[i].cMust
        /\ cMust' = _TETrace[j].cMust

\* Uncomment the ASSUME below to write the states of the error trace
\* to the given file in Json format. Note that you can pass any tuple
\* to `JsonSerialize`. For example, a sub-sequence of _TETrace.
    \* ASSUME
    \*     LET J == INSTANCE Json
    \*         IN J!JsonSerialize("CedarConn_TTrace_1790136247.json", _TETrace)

=============================================================================

 Note that you can extract this module `CedarConn_TEExpression`
  to a dedicated file to reuse `expression` (the module in the 
  dedicated `CedarConn_TEExpression.tla` file takes precedence 
  over the module `CedarConn_TEExpression` below).

---- MODULE CedarConn_TEExpression ----
EXTENDS Sequences, TLCExt, CedarConn, Toolbox, Naturals, TLC

expression == 
    [
        \* To hide variables of the `CedarConn` spec from the error trace,
        \* remove the variables below.  The trace will be written in the order
        \* of the fields of this record.
        cSrv |-> cSrv
        ,cRan |-> cRan
        ,wantEnc |-> wantEnc
        ,sMust |-> sMust
        ,cHs |-> cHs
        ,sHs |-> sHs
        ,wantAuth |-> wantAuth
        ,curCmd |-> curCmd
        ,cLR |-> cLR
        ,cLS |-> cLS
        ,sLR |-> sLR
        ,sLS |-> sLS
        ,cfg |-> cfg
        ,cDisp |-> cDisp
        ,sSrv |-> sSrv
        ,sDisp |-> sDisp
        ,okC |-> okC
        ,okS |-> okS
        ,phase |-> phase
        ,sRan |-> sRan
        ,cKeyed |-> cKeyed
        ,authOK |-> authOK
        ,repEncC |-> repEncC
        ,repEncS |-> repEncS
        ,followOns |-> followOns
        ,encOffS |-> encOffS
        ,sKeyed |-> sKeyed
        ,cMust |-> cMust
        
        \* Put additional constant-, state-, and action-level expressions here:
        \* ,_stateNumber |-> _TEPosition
        \* ,_cSrvUnchanged |-> cSrv = cSrv'
        
        \* Format the `cSrv` variable as Json value.
        \* ,_cSrvJson |->
        \*     LET J == INSTANCE Json
        \*     IN J!ToJson(cSrv)
        
        \* Lastly, you may build expressions over arbitrary sets of states by
        \* leveraging the _TETrace operator.  For example, this is how to
        \* count the number of times a spec variable changed up to the current
        \* state in the trace.
        \* ,_cSrvModCount |->
        \*     LET F[s \in DOMAIN _TETrace] ==
        \*         IF s = 1 THEN 0
        \*         ELSE IF _TETrace[s].cSrv # _TETrace[s-1].cSrv
        \*             THEN 1 + F[s-1] ELSE F[s-1]
        \*     IN F[_TEPosition - 1]
    ]

=============================================================================



Parsing and semantic processing can take forever if the trace below is long.
 In this case, it is advised to uncomment the module below to deserialize the
 trace from a generated binary file.

\*
\*---- MODULE CedarConn_TETrace ----
\*EXTENDS IOUtils, CedarConn, TLC
\*
\*trace == IODeserialize("CedarConn_TTrace_1790136247.bin", TRUE)
\*
\*=============================================================================
\*

---- MODULE CedarConn_TETrace ----
EXTENDS CedarConn, TLC

trace == 
    <<
    ([sDisp |-> 0,sKeyed |-> FALSE,wantAuth |-> FALSE,repEncC |-> FALSE,cHs |-> 0,curCmd |-> "lax",cRan |-> "",sRan |-> "",cKeyed |-> FALSE,cMust |-> FALSE,repEncS |-> FALSE,encOffS |-> FALSE,sHs |-> 0,phase |-> "hello",wantEnc |-> FALSE,sMust |-> FALSE,cfg |-> [cAuth |-> "REQUIRED", sAuth |-> "REQUIRED", cEnc |-> "REQUIRED", sEnc |-> "PREFERRED", method |-> TRUE, cipher |-> TRUE, ecdh |-> FALSE, cmd |-> "lax"],followOns |-> 0,okC |-> TRUE,cLR |-> "none",authOK |-> FALSE,cLS |-> "none",sSrv |-> FALSE,cDisp |-> 0,okS |-> TRUE,sLR |-> "none",cSrv |-> FALSE,sLS |-> "none"]),
    ([sDisp |-> 0,sKeyed |-> FALSE,wantAuth |-> FALSE,repEncC |-> FALSE,cHs |-> 0,curCmd |-> "lax",cRan |-> "",sRan |-> "",cKeyed |-> FALSE,cMust |-> FALSE,repEncS |-> FALSE,encOffS |-> FALSE,sHs |-> 0,phase |-> "negotiate",wantEnc |-> FALSE,sMust |-> FALSE,cfg |-> [cAuth |-> "REQUIRED", sAuth |-> "REQUIRED", cEnc |-> "REQUIRED", sEnc |-> "PREFERRED", method |-> TRUE, cipher |-> TRUE, ecdh |-> FALSE, cmd |-> "lax"],followOns |-> 0,okC |-> TRUE,cLR |-> "none",authOK |-> FALSE,cLS |-> "no",sSrv |-> FALSE,cDisp |-> 0,okS |-> TRUE,sLR |-> "no",cSrv |-> FALSE,sLS |-> "none"]),
    ([sDisp |-> 0,sKeyed |-> FALSE,wantAuth |-> TRUE,repEncC |-> FALSE,cHs |-> 0,curCmd |-> "lax",cRan |-> "",sRan |-> "",cKeyed |-> FALSE,cMust |-> FALSE,repEncS |-> FALSE,encOffS |-> FALSE,sHs |-> 0,phase |-> "auth",wantEnc |-> TRUE,sMust |-> FALSE,cfg |-> [cAuth |-> "REQUIRED", sAuth |-> "REQUIRED", cEnc |-> "REQUIRED", sEnc |-> "PREFERRED", method |-> TRUE, cipher |-> TRUE, ecdh |-> FALSE, cmd |-> "lax"],followOns |-> 0,okC |-> TRUE,cLR |-> "no",authOK |-> FALSE,cLS |-> "no",sSrv |-> FALSE,cDisp |-> 0,okS |-> TRUE,sLR |-> "no",cSrv |-> FALSE,sLS |-> "no"]),
    ([sDisp |-> 0,sKeyed |-> FALSE,wantAuth |-> TRUE,repEncC |-> FALSE,cHs |-> 0,curCmd |-> "lax",cRan |-> "M",sRan |-> "M",cKeyed |-> FALSE,cMust |-> FALSE,repEncS |-> FALSE,encOffS |-> FALSE,sHs |-> 0,phase |-> "key",wantEnc |-> TRUE,sMust |-> FALSE,cfg |-> [cAuth |-> "REQUIRED", sAuth |-> "REQUIRED", cEnc |-> "REQUIRED", sEnc |-> "PREFERRED", method |-> TRUE, cipher |-> TRUE, ecdh |-> FALSE, cmd |-> "lax"],followOns |-> 0,okC |-> TRUE,cLR |-> "no",authOK |-> TRUE,cLS |-> "no",sSrv |-> FALSE,cDisp |-> 0,okS |-> TRUE,sLR |-> "no",cSrv |-> FALSE,sLS |-> "no"]),
    ([sDisp |-> 0,sKeyed |-> FALSE,wantAuth |-> TRUE,repEncC |-> TRUE,cHs |-> 0,curCmd |-> "lax",cRan |-> "M",sRan |-> "M",cKeyed |-> FALSE,cMust |-> FALSE,repEncS |-> TRUE,encOffS |-> FALSE,sHs |-> 0,phase |-> "postauth",wantEnc |-> TRUE,sMust |-> FALSE,cfg |-> [cAuth |-> "REQUIRED", sAuth |-> "REQUIRED", cEnc |-> "REQUIRED", sEnc |-> "PREFERRED", method |-> TRUE, cipher |-> TRUE, ecdh |-> FALSE, cmd |-> "lax"],followOns |-> 0,okC |-> TRUE,cLR |-> "no",authOK |-> TRUE,cLS |-> "no",sSrv |-> FALSE,cDisp |-> 0,okS |-> TRUE,sLR |-> "no",cSrv |-> FALSE,sLS |-> "no"]),
    ([sDisp |-> 0,sKeyed |-> FALSE,wantAuth |-> TRUE,repEncC |-> TRUE,cHs |-> 0,curCmd |-> "lax",cRan |-> "M",sRan |-> "M",cKeyed |-> FALSE,cMust |-> FALSE,repEncS |-> TRUE,encOffS |-> FALSE,sHs |-> 0,phase |-> "done",wantEnc |-> TRUE,sMust |-> FALSE,cfg |-> [cAuth |-> "REQUIRED", sAuth |-> "REQUIRED", cEnc |-> "REQUIRED", sEnc |-> "PREFERRED", method |-> TRUE, cipher |-> TRUE, ecdh |-> FALSE, cmd |-> "lax"],followOns |-> 0,okC |-> TRUE,cLR |-> "no",authOK |-> TRUE,cLS |-> "no",sSrv |-> FALSE,cDisp |-> 0,okS |-> TRUE,sLR |-> "no",cSrv |-> FALSE,sLS |-> "no"]),
    ([sDisp |-> 0,sKeyed |-> FALSE,wantAuth |-> TRUE,repEncC |-> TRUE,cHs |-> 1,curCmd |-> "lax",cRan |-> "",sRan |-> "",cKeyed |-> FALSE,cMust |-> TRUE,repEncS |-> TRUE,encOffS |-> FALSE,sHs |-> 1,phase |-> "dispatch",wantEnc |-> TRUE,sMust |-> FALSE,cfg |-> [cAuth |-> "REQUIRED", sAuth |-> "REQUIRED", cEnc |-> "REQUIRED", sEnc |-> "PREFERRED", method |-> TRUE, cipher |-> TRUE, ecdh |-> FALSE, cmd |-> "lax"],followOns |-> 0,okC |-> FALSE,cLR |-> "no",authOK |-> TRUE,cLS |-> "no",sSrv |-> TRUE,cDisp |-> 0,okS |-> FALSE,sLR |-> "no",cSrv |-> FALSE,sLS |-> "no"])
    >>
----


=============================================================================

---- CONFIG CedarConn_TTrace_1790136247 ----
CONSTANTS
    Levels = { "REQUIRED" , "PREFERRED" , "OPTIONAL" , "NEVER" }
    Bug = { "TrustReportedEnc" , "ContinueWithoutEnc" }
    MaxFollowOns = 2

INVARIANT
    _inv

CHECK_DEADLOCK
    \* CHECK_DEADLOCK off because of PROPERTY or INVARIANT above.
    FALSE

INIT
    _init

NEXT
    _next

CONSTANT
    _TETrace <- _trace

ALIAS
    _expression
=============================================================================
\* Generated on Wed Sep 23 04:04:15 UTC 2026