\* G05 generator, quick
SPECIFICATION GenSpec
CONSTANTS
  Tier = "quick"
  SecretRels = {"same", "diff"}
  Bug = {}
INVARIANT EmitTrace
CHECK_DEADLOCK FALSE
