\* C16: pairwise cover + grammar-edge configurations x {importer holds the secret, importer holds a corrupted secret}
SPECIFICATION Spec
CONSTANTS
  Tier = "quick"
  SecretRels = {"same", "diff"}
  Bug = {}
INVARIANTS TypeOK SameSession ResumesBothWays ResumesByCommand WrongSecretFails PublicFormHidesSecret PolicyRoundTrips
CHECK_DEADLOCK FALSE
