------------------------- MODULE SessionCacheLocks -------------------------
(***************************************************************************)
(* C17 - the session cache and its entries under concurrency.              *)
(*                                                                          *)
(* Every public method of security.SessionCache / SessionEntry is          *)
(* transcribed (from /repo/security/session_cache.go) as the sequence of   *)
(* its critical-section steps:                                              *)
(*     acquire c.mu (R or W) ; map accesses ; [acquire e.mu ; accesses of  *)
(*     entry.expiration ; release e.mu]* ; release c.mu                     *)
(* one TLC action per step, all interleavings of the steps of Gor          *)
(* goroutines running up to MaxOps operations each over the ids Ids.       *)
(*                                                                          *)
(* Shared memory (the "fields" of the field-access relation):               *)
(*   <<"map", _>>    c.sessions and c.commandMap (always accessed together  *)
(*                   inside one c.mu region; one field class)               *)
(*   <<"exp", o>>    entry.expiration of entry object o.  time.Time is      *)
(*                   wider than a machine word, so a write is two steps     *)
(*                   (wexp1, wexp2) and a read is two steps (rexp1, rexp2); *)
(*                   a reader that runs between the halves of a write sees  *)
(*                   a torn value.                                          *)
(*   <<"cfg", _>>    SecurityConfig.ECDHPublicKey of a configuration object  *)
(*                   shared by concurrent handshakes (operation Handshake)  *)
(* The immutable entry fields (id, addr, tag, lease, keyInfo, policy) are   *)
(* written before the entry is published and only read afterwards; they     *)
(* are not modelled.                                                        *)
(*                                                                          *)
(* The module describes the INTENDED discipline:                            *)
(*   * map is read under c.mu (R or W) and written under c.mu W;            *)
(*   * expiration is read and written only under the entry's own e.mu       *)
(*     (the map write lock is NOT enough: RenewLease runs on a pointer a    *)
(*     goroutine kept from an earlier lookup and takes e.mu only).          *)
(* Known-wrong designs are members of Bug:                                  *)
(*   "DumpReadsExpirationUnlocked"   DebugDump reads entry.expiration under *)
(*                                   c.mu R only   (today's code)           *)
(*   "SweepReadsExpirationUnlocked"  InvalidateExpired reads it under       *)
(*                                   c.mu W only   (today's code)           *)
(*   "RenewWithoutEntryLock"         RenewLease writes without e.mu         *)
(*   "InvalidateUnderReadLock"       Invalidate deletes under c.mu R        *)
(*   "SweepSwapsMapSnapshot"         InvalidateExpired filters a snapshot   *)
(*                                   taken under R and swaps it in under W  *)
(*                                   (resurrects an invalidated id)         *)
(*   "HandshakeWritesSharedConfig"   a client handshake stores its ECDH key *)
(*                                   in the configuration object it shares  *)
(*                                   with the other connections (today's    *)
(*                                   client.ConnectAndAuthenticateWithConfig)*)
(***************************************************************************)
EXTENDS Integers, Sequences, FiniteSets, TLC, SessionCacheSeq

CONSTANTS Gor,        \* goroutines (strings "g1", "g2", ...)
          Nobody,     \* model value: lock not held
          Ids,        \* session ids (strings)
          MaxOps,     \* operations per goroutine (upper bound)
          MaxOpsOf,   \* [Gor -> operations of that goroutine] (cfg: MaxOpsOf <- LimitsAll / LimitsQuick)
          MaxVer,     \* Store may create objects <<id,1>> .. <<id,MaxVer>>
          OpsOf,      \* [Gor -> set of operations the goroutine may choose] (cfg: OpsOf <- Roles...)
          InitKinds,  \* initial state of each id: subset of {"absent","live","dead"}
          StoreExp,   \* expiry class of stored entries: subset of {"live","dead"}
          Bug

VARIABLES map, cmd, exp,      \* the real memory: c.sessions, c.commandMap, entry.expiration (two halves)
          nextVer,            \* next object version per id
          cmuW, cmuR, emu,    \* c.mu writer / readers, e.mu holder per object
          th,                 \* per goroutine: current operation and program counter
          cfgKey,             \* SecurityConfig.ECDHPublicKey of the ONE configuration object the handshakes share
          abs,                \* ghost: state of the sequential specification
          dead                \* ghost: id has been invalidated and not stored since

vars == <<map, cmd, exp, nextVer, cmuW, cmuR, emu, th, cfgKey, abs, dead>>

Objs  == Ids \X (0..MaxVer)
MapF  == <<"map", <<"-", 0>>>>
ExpF(o) == <<"exp", o>>
CfgF  == <<"cfg", <<"-", 0>>>>

CacheOpsId  == {"Store", "Lookup", "LookupNE", "LookupCmd", "MapCmd", "Invalidate"}
CacheOpsAll == {"Sweep", "Dump", "Size", "Clear"}
EntryOps    == {"Renew", "IsExpired"}
OtherOps    == {"Handshake"}

Idle(n) == [op |-> "-", id |-> "-", o |-> NoObj, pc |-> "idle", scan |-> {}, snap |-> [i \in Ids |-> NoObj], rm |-> {},
            tmp |-> <<"live", "live">>, key |-> "-", res |-> "-", ares |-> "-", n |-> n]

SwapMode(t) == t.op = "Sweep" /\ "SweepSwapsMapSnapshot" \in Bug
Class(t) == IF t[1] = "live" /\ t[2] = "live" THEN "live" ELSE "dead"
Torn(t)  == t[1] # t[2]

Published == {o \in Objs : o[2] < nextVer[o[1]]}
PresentIds == {i \in Ids : map[i] # NoObj}

Init ==
  /\ \E k \in [Ids -> InitKinds] :
       /\ map = [i \in Ids |-> IF k[i] = "absent" THEN NoObj ELSE <<i, 0>>]
       /\ exp = [o \in Objs |-> IF o[2] = 0 /\ k[o[1]] = "dead" THEN <<"dead", "dead">> ELSE <<"live", "live">>]
       /\ nextVer = [i \in Ids |-> IF k[i] = "absent" THEN 0 ELSE 1]
       /\ abs = [map |-> [i \in Ids |-> IF k[i] = "absent" THEN NoObj ELSE <<i, 0>>],
                 cmd |-> [i \in Ids |-> FALSE],
                 exp |-> [o \in Objs |-> IF o[2] = 0 /\ k[o[1]] = "dead" THEN "dead" ELSE "live"]]
  /\ cmd = [i \in Ids |-> FALSE]
  /\ cmuW = Nobody /\ cmuR = {} /\ emu = [o \in Objs |-> Nobody]
  /\ th = [g \in Gor |-> Idle(0)]
  /\ dead = [i \in Ids |-> FALSE]
  /\ cfgKey = "-"

-----------------------------------------------------------------------------
(* locks *)
CanW == cmuW = Nobody /\ cmuR = {}
CanR == cmuW = Nobody
Held(g) == (IF cmuW = g THEN {<<"cmuW", <<"-", 0>>>>} ELSE {})
           \cup (IF g \in cmuR THEN {<<"cmuR", <<"-", 0>>>>} ELSE {})
           \cup {<<"emu", o>> : o \in {x \in Objs : emu[x] = g}}
\* two lock sets exclude each other iff they share an exclusive lock
Exclusive(a, b) ==
  \/ <<"cmuW", <<"-", 0>>>> \in a /\ (<<"cmuW", <<"-", 0>>>> \in b \/ <<"cmuR", <<"-", 0>>>> \in b)
  \/ <<"cmuW", <<"-", 0>>>> \in b /\ <<"cmuR", <<"-", 0>>>> \in a
  \/ \E l \in a \cap b : l[1] = "emu"

(* which lock an operation takes first (transcribed) *)
FirstLock(op) ==
  CASE op \in {"Store", "LookupNE", "MapCmd", "Clear"} -> "W"
    [] op = "Invalidate" -> IF "InvalidateUnderReadLock" \in Bug THEN "R" ELSE "W"
    [] op = "Sweep"      -> IF "SweepSwapsMapSnapshot" \in Bug THEN "R" ELSE "W"
    [] op \in {"Lookup", "LookupCmd", "Dump", "Size"} -> "R"
    [] op = "Renew"      -> IF "RenewWithoutEntryLock" \in Bug THEN "none" ELSE "E"
    [] op = "IsExpired"  -> "E"
    [] op = "Handshake"  -> "none"
FirstPc(op) ==
  CASE op \in {"Store", "MapCmd", "Invalidate", "Clear"} -> "wmap"
    [] op \in {"Lookup", "LookupCmd", "LookupNE", "Size", "Sweep", "Dump"} -> "rmap"
    [] op = "Renew" -> "wexp1"
    [] op = "IsExpired" -> "rexp1"
    [] op = "Handshake" -> "hcopy"

\* does this operation read the expiry of an entry under the entry lock?
EntryLocked(op) ==
  CASE op = "Dump"  -> "DumpReadsExpirationUnlocked" \notin Bug
    [] op = "Sweep" -> "SweepReadsExpirationUnlocked" \notin Bug
    [] OTHER -> TRUE

-----------------------------------------------------------------------------
(* Begin: call + first lock acquisition (blocks until the lock is free) *)
Begin(g) ==
  /\ th[g].pc = "idle" /\ th[g].n < MaxOpsOf[g]
  /\ \E op \in OpsOf[g] :
       /\ \E i \in (IF op \in CacheOpsId THEN Ids ELSE {"-"}),
             o \in (IF op \in EntryOps THEN Published ELSE {NoObj}) :
            /\ op = "Store" => nextVer[i] <= MaxVer
            /\ LET l == FirstLock(op) IN
               /\ l = "W" => CanW
               /\ l = "R" => CanR
               /\ l = "E" => emu[o] = Nobody
               /\ cmuW' = IF l = "W" THEN g ELSE cmuW
               /\ cmuR' = IF l = "R" THEN cmuR \cup {g} ELSE cmuR
               /\ emu'  = IF l = "E" THEN [emu EXCEPT ![o] = g] ELSE emu
            /\ th' = [th EXCEPT ![g] = [Idle(th[g].n) EXCEPT !.op = op, !.id = i, !.o = o, !.pc = FirstPc(op)]]
  /\ UNCHANGED <<map, cmd, exp, nextVer, abs, dead, cfgKey>>

(* the single map write of Store / MapCommand / Invalidate / Clear *)
WMap(g) ==
  LET t == th[g] IN
  /\ t.pc = "wmap"
  /\ \/ /\ t.op = "Store"
        /\ \E e \in StoreExp :
             LET o == <<t.id, nextVer[t.id]>> IN
             /\ map' = [map EXCEPT ![t.id] = o]
             /\ exp' = [exp EXCEPT ![o] = <<e, e>>]    \* written by NewSessionEntry before publication
             /\ nextVer' = [nextVer EXCEPT ![t.id] = @ + 1]
             /\ abs' = SeqStore(abs, t.id, o, e)
             /\ dead' = [dead EXCEPT ![t.id] = FALSE]
             /\ cmd' = cmd
             /\ th' = [th EXCEPT ![g].pc = "rel", ![g].res = "ok", ![g].ares = "ok"]
     \/ /\ t.op = "MapCmd"
        /\ cmd' = [cmd EXCEPT ![t.id] = TRUE]
        /\ abs' = SeqMapCmd(abs, t.id)
        /\ th' = [th EXCEPT ![g].pc = "rel", ![g].res = "ok", ![g].ares = "ok"]
        /\ UNCHANGED <<map, exp, nextVer, dead>>
     \/ /\ t.op = "Invalidate"
        /\ LET was == map[t.id] # NoObj IN
           /\ map' = [map EXCEPT ![t.id] = NoObj]
           /\ cmd' = IF was THEN [cmd EXCEPT ![t.id] = FALSE] ELSE cmd
           /\ abs' = SeqInvalidate(abs, t.id).st
           /\ dead' = [dead EXCEPT ![t.id] = TRUE]
           /\ th' = [th EXCEPT ![g].pc = "rel", ![g].res = was, ![g].ares = SeqInvalidate(abs, t.id).res]
        /\ UNCHANGED <<exp, nextVer>>
     \/ /\ t.op = "Clear"
        /\ map' = [i \in Ids |-> NoObj]
        /\ cmd' = [i \in Ids |-> FALSE]
        /\ abs' = SeqClear(abs)
        /\ dead' = [i \in Ids |-> TRUE]
        /\ th' = [th EXCEPT ![g].pc = "rel", ![g].res = "ok", ![g].ares = "ok"]
        /\ UNCHANGED <<exp, nextVer>>
  /\ UNCHANGED <<cmuW, cmuR, emu, cfgKey>>

\* thread record after the current entry of a scan (Sweep / Dump) is finished
Advance(t) ==
  IF t.scan = {} THEN [t EXCEPT !.pc = "fin"]
  ELSE LET i == CHOOSE x \in t.scan : TRUE IN
       [t EXCEPT !.id = i, !.o = (IF SwapMode(t) THEN t.snap[i] ELSE map[i]), !.scan = @ \ {i},
                 !.pc = IF EntryLocked(t.op) THEN "acqE" ELSE "rexp1"]

(* the map read that starts Lookup* / Size / InvalidateExpired / DebugDump *)
RMap(g) ==
  LET t == th[g] IN
  /\ t.pc = "rmap"
  /\ \/ /\ t.op \in {"Lookup", "LookupNE"}
        /\ th' = [th EXCEPT ![g] = IF map[t.id] = NoObj
                                  THEN [t EXCEPT !.pc = "rel", !.res = NoObj, !.ares = SeqLookup(abs, t.id)]
                                  ELSE [t EXCEPT !.pc = "acqE", !.o = map[t.id]]]
     \/ /\ t.op = "LookupCmd"
        /\ th' = [th EXCEPT ![g] = IF ~cmd[t.id] \/ map[t.id] = NoObj
                                  THEN [t EXCEPT !.pc = "rel", !.res = NoObj, !.ares = SeqLookupCmd(abs, t.id)]
                                  ELSE [t EXCEPT !.pc = "acqE", !.o = map[t.id]]]
     \/ /\ t.op = "Size"
        /\ th' = [th EXCEPT ![g].pc = "rel", ![g].res = Cardinality(PresentIds), ![g].ares = SeqSize(abs)]
     \/ /\ t.op \in {"Sweep", "Dump"}
        /\ th' = [th EXCEPT ![g] = Advance([t EXCEPT !.scan = PresentIds,
                                                    !.snap = IF SwapMode(t) THEN map ELSE t.snap,
                                                    !.res = IF t.op = "Sweep" THEN 0 ELSE {},
                                                    !.ares = IF t.op = "Sweep" THEN 0 ELSE {}])]
  /\ UNCHANGED <<map, cmd, exp, nextVer, cmuW, cmuR, emu, abs, dead, cfgKey>>

AcqE(g) ==
  /\ th[g].pc = "acqE" /\ emu[th[g].o] = Nobody
  /\ emu' = [emu EXCEPT ![th[g].o] = g]
  /\ th' = [th EXCEPT ![g].pc = "rexp1"]
  /\ UNCHANGED <<map, cmd, exp, nextVer, cmuW, cmuR, abs, dead, cfgKey>>

(* first half of the expiry read: the linearization point of the reading operations *)
RExp1(g) ==
  LET t == th[g] IN
  /\ t.pc = "rexp1"
  /\ LET sweepNow == t.op = "Sweep" /\ "SweepSwapsMapSnapshot" \notin Bug
         neNow    == t.op = "LookupNE" IN
     /\ abs' = IF sweepNow THEN SeqSweepOne(abs, t.id).st
               ELSE IF neNow THEN SeqLookupNE(abs, t.id).st ELSE abs
     /\ th' = [th EXCEPT ![g].pc = "rexp2", ![g].tmp = <<exp[t.o][1], "?">>,
                         ![g].ares = CASE t.op = "Lookup"    -> SeqLookup(abs, t.id)
                                       [] t.op = "LookupNE"  -> SeqLookupNE(abs, t.id).res
                                       [] t.op = "LookupCmd" -> SeqLookupCmd(abs, t.id)
                                       [] t.op = "IsExpired" -> SeqIsExpired(abs, t.o)
                                       [] t.op = "Dump"      -> t.ares \cup {<<t.id, SeqDumpOne(abs, t.o)>>}
                                       [] t.op = "Sweep"     -> IF sweepNow THEN t.ares + SeqSweepOne(abs, t.id).removed ELSE t.ares]
  /\ UNCHANGED <<map, cmd, exp, nextVer, cmuW, cmuR, emu, dead, cfgKey>>

RExp2(g) ==
  LET t == th[g] IN
  /\ t.pc = "rexp2"
  /\ th' = [th EXCEPT ![g].pc = "relE", ![g].tmp = <<t.tmp[1], exp[t.o][2]>>]
  /\ UNCHANGED <<map, cmd, exp, nextVer, cmuW, cmuR, emu, abs, dead, cfgKey>>

WExp1(g) ==
  LET t == th[g] IN
  /\ t.pc = "wexp1"
  /\ exp' = [exp EXCEPT ![t.o] = <<"live", @[2]>>]
  /\ abs' = SeqRenew(abs, t.o)
  /\ th' = [th EXCEPT ![g].pc = "wexp2"]
  /\ UNCHANGED <<map, cmd, nextVer, cmuW, cmuR, emu, dead, cfgKey>>

WExp2(g) ==
  LET t == th[g] IN
  /\ t.pc = "wexp2"
  /\ exp' = [exp EXCEPT ![t.o] = <<@[1], "live">>]
  /\ th' = [th EXCEPT ![g].pc = "relE", ![g].res = "ok", ![g].ares = "ok"]
  /\ UNCHANGED <<map, cmd, nextVer, cmuW, cmuR, emu, abs, dead, cfgKey>>

(* release of e.mu (if held) and the decision taken on the value read *)
RelE(g) ==
  LET t == th[g]
      live == Class(t.tmp) = "live" IN
  /\ t.pc = "relE"
  /\ emu' = [o \in Objs |-> IF emu[o] = g THEN Nobody ELSE emu[o]]
  /\ th' = [th EXCEPT ![g] =
       CASE t.op \in {"Lookup", "LookupCmd"} -> [t EXCEPT !.pc = "rel", !.res = IF live THEN t.o ELSE NoObj]
         [] t.op = "LookupNE"  -> IF live THEN [t EXCEPT !.pc = "rel", !.res = t.o]
                                          ELSE [t EXCEPT !.pc = "del", !.res = NoObj]
         [] t.op = "Sweep"     -> IF live THEN Advance(t)
                                  ELSE IF SwapMode(t) THEN Advance([t EXCEPT !.rm = @ \cup {t.id}, !.res = @ + 1])
                                  ELSE [t EXCEPT !.pc = "del"]
         [] t.op = "Dump"      -> Advance([t EXCEPT !.res = @ \cup {<<t.id, Class(t.tmp)>>}])
         [] t.op = "IsExpired" -> Idle(t.n + 1)
         [] t.op = "Renew"     -> Idle(t.n + 1)]
  /\ UNCHANGED <<map, cmd, exp, nextVer, cmuW, cmuR, abs, dead, cfgKey>>

(* delete of an expired entry (LookupNonExpired, InvalidateExpired) *)
Del(g) ==
  LET t == th[g] IN
  /\ t.pc = "del"
  /\ map' = [map EXCEPT ![t.id] = NoObj]
  /\ th' = [th EXCEPT ![g] = IF t.op = "LookupNE" THEN [t EXCEPT !.pc = "rel"]
                             ELSE Advance([t EXCEPT !.res = @ + 1])]
  /\ UNCHANGED <<cmd, exp, nextVer, cmuW, cmuR, emu, abs, dead, cfgKey>>

(* end of a scan *)
Fin(g) ==
  LET t == th[g] IN
  /\ t.pc = "fin"
  /\ \/ /\ t.op = "Dump"
        /\ th' = [th EXCEPT ![g].pc = "rel"]
        /\ UNCHANGED <<cmd, abs, cmuR>>
     \/ /\ t.op = "Sweep" /\ ~SwapMode(t)          \* command mappings of deleted sessions (same W region)
        /\ cmd' = [i \in Ids |-> cmd[i] /\ map[i] # NoObj]
        /\ abs' = SeqSweepFinish(abs)
        /\ th' = [th EXCEPT ![g].pc = "rel"]
        /\ UNCHANGED cmuR
     \/ /\ SwapMode(t)          \* Bug SweepSwapsMapSnapshot: drop R, come back with W
        /\ cmuR' = cmuR \ {g}
        /\ th' = [th EXCEPT ![g].pc = "acqW2"]
        /\ UNCHANGED <<cmd, abs>>
  /\ UNCHANGED <<map, exp, nextVer, cmuW, emu, dead, cfgKey>>

AcqW2(g) ==
  /\ th[g].pc = "acqW2" /\ CanW
  /\ cmuW' = g
  /\ th' = [th EXCEPT ![g].pc = "swap"]
  /\ UNCHANGED <<map, cmd, exp, nextVer, cmuR, emu, abs, dead, cfgKey>>

Swap(g) ==
  LET t == th[g]
      sweepAll[S \in SUBSET Ids] ==      \* what a sweep does to the sequential state
        IF S = {} THEN [st |-> abs, n |-> 0]
        ELSE LET i == CHOOSE x \in S : TRUE
                 r == sweepAll[S \ {i}]
                 one == SeqSweepOne(r.st, i) IN [st |-> one.st, n |-> r.n + one.removed] IN
  /\ t.pc = "swap"
  /\ map' = [i \in Ids |-> IF i \in t.rm THEN NoObj ELSE t.snap[i]]
  /\ cmd' = [i \in Ids |-> cmd[i] /\ map'[i] # NoObj]
  /\ abs' = SeqSweepFinish(sweepAll[Ids].st)
  /\ th' = [th EXCEPT ![g].pc = "rel", ![g].ares = sweepAll[Ids].n]
  /\ UNCHANGED <<exp, nextVer, cmuW, cmuR, emu, dead, cfgKey>>

(* release c.mu and return *)
Rel(g) ==
  /\ th[g].pc = "rel"
  /\ cmuW' = IF cmuW = g THEN Nobody ELSE cmuW
  /\ cmuR' = cmuR \ {g}
  /\ th' = [th EXCEPT ![g] = Idle(th[g].n + 1)]
  /\ UNCHANGED <<map, cmd, exp, nextVer, emu, abs, dead, cfgKey>>

(* A client handshake that was given the shared configuration object         *)
(* (client.ConnectAndAuthenticateWithConfig -> security.NewAuthenticator).     *)
(* Intended: it reads the shared object once (per-connection copy) and keeps   *)
(* its ephemeral ECDH public key in the copy. Bug "HandshakeWritesSharedConfig" *)
(* (today's client code): NewAuthenticator stores the key in the shared object *)
(* and the handshake reads it back from there when it builds its ClassAd.      *)
SharedCfgBug == "HandshakeWritesSharedConfig" \in Bug
HCopy(g) ==
  /\ th[g].pc = "hcopy"
  /\ th' = [th EXCEPT ![g].pc = "hwkey"]
  /\ UNCHANGED <<map, cmd, exp, nextVer, cmuW, cmuR, emu, cfgKey, abs, dead>>
HWKey(g) ==
  /\ th[g].pc = "hwkey"
  /\ cfgKey' = IF SharedCfgBug THEN g ELSE cfgKey
  /\ th' = [th EXCEPT ![g].pc = "hrkey", ![g].key = g]
  /\ UNCHANGED <<map, cmd, exp, nextVer, cmuW, cmuR, emu, abs, dead>>
HRKey(g) ==
  /\ th[g].pc = "hrkey"
  /\ th' = [th EXCEPT ![g].pc = "hret", ![g].res = IF SharedCfgBug THEN cfgKey ELSE th[g].key, ![g].ares = g]
  /\ UNCHANGED <<map, cmd, exp, nextVer, cmuW, cmuR, emu, cfgKey, abs, dead>>
HRet(g) ==
  /\ th[g].pc = "hret"
  /\ th' = [th EXCEPT ![g] = Idle(th[g].n + 1)]
  /\ UNCHANGED <<map, cmd, exp, nextVer, cmuW, cmuR, emu, cfgKey, abs, dead>>

Step(g) == \/ Begin(g) \/ WMap(g) \/ RMap(g) \/ AcqE(g) \/ RExp1(g) \/ RExp2(g)
           \/ WExp1(g) \/ WExp2(g) \/ RelE(g) \/ Del(g) \/ Fin(g) \/ AcqW2(g) \/ Swap(g) \/ Rel(g)
           \/ HCopy(g) \/ HWKey(g) \/ HRKey(g) \/ HRet(g)
Next == \E g \in Gor : Step(g)
Spec == Init /\ [][Next]_vars

(* operation budgets and role assignments used by the configurations *)
LimitsAll   == [g \in Gor |-> MaxOps]
LimitsQuick == [g \in Gor |-> IF g = "g3" THEN 1 ELSE MaxOps]     \* the maintenance goroutine runs one operation

AllOps == CacheOpsId \cup CacheOpsAll \cup EntryOps \cup OtherOps
RolesAll  == [g \in Gor |-> AllOps]
RolesCore == [g \in Gor |-> {"Store", "Lookup", "Invalidate", "Sweep", "Dump", "Renew"}]
\* quick: a writer of the map, a user of entries, a maintenance goroutine
RolesQuick == [g \in Gor |-> CASE g = "g1" -> {"Store", "Invalidate", "Sweep"}
                               [] g = "g2" -> {"Renew", "Lookup", "LookupNE"}
                               [] OTHER    -> {"Dump", "Sweep", "Renew", "Size"}]
\* handshakes sharing one configuration object next to cache maintenance
RolesHandshake == [g \in Gor |-> IF g = "g3" THEN {"Sweep", "Dump", "Renew"} ELSE {"Handshake", "Lookup", "Renew"}]
\* thorough, second configuration: command mappings and the remaining methods
RolesCmd == [g \in Gor |-> CASE g = "g1" -> {"MapCmd", "Invalidate", "Clear", "Store"}
                             [] g = "g2" -> {"LookupCmd", "LookupNE", "IsExpired", "Renew"}
                             [] OTHER    -> {"Sweep", "LookupCmd", "Size", "Dump"}]

-----------------------------------------------------------------------------
(* the field-access relation: the access a goroutine is about to perform *)
IsAccessPc(p) == \/ p \in {"wmap", "rmap", "del", "swap", "rexp1", "rexp2", "wexp1", "wexp2", "hcopy"}
                 \/ p \in {"hwkey", "hrkey"} /\ SharedCfgBug
AccField(g) == IF th[g].pc \in {"wmap", "rmap", "del", "swap"} THEN MapF
               ELSE IF th[g].pc \in {"hcopy", "hwkey", "hrkey"} THEN CfgF ELSE ExpF(th[g].o)
AccKind(g)  == IF th[g].pc \in {"wmap", "del", "swap", "wexp1", "wexp2", "hwkey"} THEN "w" ELSE "r"

\* no two concurrent accesses to one field, one of them a write, without a common (exclusive) lock
LocksetDiscipline ==
  \A g1, g2 \in Gor :
    (g1 # g2 /\ IsAccessPc(th[g1].pc) /\ IsAccessPc(th[g2].pc)
       /\ AccField(g1) = AccField(g2) /\ (AccKind(g1) = "w" \/ AccKind(g2) = "w"))
    => Exclusive(Held(g1), Held(g2))

\* the static form of the same rule: which lock must be held at each access
AccessRelationRespected ==
  \A g \in Gor : IsAccessPc(th[g].pc) =>
    IF AccField(g) = MapF
    THEN IF AccKind(g) = "w" THEN cmuW = g ELSE (cmuW = g \/ g \in cmuR)
    ELSE IF AccField(g) = CfgF THEN AccKind(g) = "r"      \* the shared configuration is read-only
    ELSE emu[th[g].o] = g

\* a completed read of the expiry saw both halves of one write
NoTornExpiry == \A g \in Gor : th[g].pc = "relE" /\ th[g].op # "Renew" => ~Torn(th[g].tmp)

\* an invalidated id is not in the map (and no command mapping leads to it) until it is stored again
NoLostInvalidate ==
  cmuW = Nobody => \A i \in Ids : dead[i] => map[i] = NoObj

\* the memory is the state of the sequential specification whenever no writer is inside
RefinesSeq ==
  /\ cmuW = Nobody => (map = abs.map /\ cmd = abs.cmd)
  /\ \A o \in Objs : (emu[o] = Nobody /\ \A g \in Gor : ~(th[g].pc = "wexp2" /\ th[g].o = o))
                        => exp[o] = <<abs.exp[o], abs.exp[o]>>

\* every result is the one the sequential specification gives at the linearization point
Linearizable == \A g \in Gor : th[g].pc = "rel" => th[g].res = th[g].ares

\* handshakes sharing one configuration do not disturb one another: each sends its own key
HandshakeUndisturbed == \A g \in Gor : th[g].pc = "hret" => th[g].res = th[g].ares

\* no deadlock: somebody can move unless everybody is finished
Progress == (\A g \in Gor : th[g].pc = "idle" /\ th[g].n = MaxOpsOf[g]) \/ ENABLED Next

TypeOK ==
  /\ cmuW \in Gor \cup {Nobody} /\ cmuR \subseteq Gor
  /\ cmuW # Nobody => cmuR = {}
  /\ \A i \in Ids : map[i] \in Objs \cup {NoObj} /\ nextVer[i] \in 0..(MaxVer + 1)
  /\ \A g \in Gor : th[g].n \in 0..MaxOps
=============================================================================
