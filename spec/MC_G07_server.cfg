\* G07 accept loop: 3 connections, every handler kind
SPECIFICATION LiveS
CONSTANTS
  Hows = {"new"}
  Routes = {"direct"}
  Secs = {"none"}
  EnvsNew = {}
  EnvsCA = {}
  Ctxs = {}
  MaxCalls = 0
  MaxSock = 0
  MaxConn = 3
  Kinds = {"ok", "err", "panic", "block", "keepopen", "unknown"}
  Bug = {}
INVARIANTS TypeOKS LoopSurvives PortReleased NoLateHandler HandlerOnce KeptOnlyIfKeepOpen
PROPERTIES ServeReturns CancelClosesIdle AcceptedAnyway
CHECK_DEADLOCK FALSE
