\* non-vacuity: with Bug = {"NoReplyOnDialFail"} TLC must report EveryRequestAnswered violated
SPECIFICATION Spec
CONSTANTS
  NB = 1
  MaxConn = 2
  MaxReq = 2
  MaxTick = 1
  MaxMsg = 1
  RegAnswers = {"fresh", "same", "refuse", "hangup"}
  Targets = {"accept", "refuse"}
  Msgs = {"malformed"}
  Bug = {"NoReplyOnDialFail"}
INVARIANTS EveryRequestAnswered
CHECK_DEADLOCK FALSE
