\* non-vacuity: with the known-wrong design "NoAlert" switched on TLC must report NoStuck violated
SPECIFICATION Spec
CONSTANTS
  Bug = {"NoAlert"}
  CStyles = {"cedar"}
  SStyles = {"cedar"}
  Faults = {"none"}
INVARIANTS TypeOK NoStuck
CHECK_DEADLOCK FALSE
