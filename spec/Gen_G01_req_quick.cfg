\* G01 generator (quick), request servicing: two requests (sequential / concurrent), every target, drops and cancellation in flight
SPECIFICATION GenSpec
CONSTANTS
  NB = 1
  MaxConn = 2
  MaxReq = 2
  MaxTick = 0
  MaxMsg = 1
  RegAnswers = {"fresh", "same"}
  Targets = {"accept", "refuse", "noaddr"}
  Msgs = {"alive", "unknown", "malformed"}
  MaxEnv = 4
  Bug = {}
INVARIANT EmitTrace
CHECK_DEADLOCK FALSE
