\* non-vacuity: with Bug = {"CloseLeavesSocket"} TLC must report CloseUnblocks violated
SPECIFICATION LiveC
CONSTANTS
  Hows = {"new", "ca"}
  Routes = {"direct", "shared", "ccb"}
  Secs = {"none", "sec"}
  EnvsNew = {"absent", "dialstall", "stall"}
  EnvsCA = {"absent", "dialstall", "close", "stall", "serve", "reject"}
  Ctxs = {"live", "pre", "during"}
  MaxCalls = 3
  MaxSock = 2
  MaxConn = 0
  Kinds = {}
  Bug = {"CloseLeavesSocket"}
PROPERTY CloseUnblocks
CHECK_DEADLOCK FALSE
