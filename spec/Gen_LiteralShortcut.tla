------------------------- MODULE Gen_LiteralShortcut -------------------------
(***************************************************************************)
(* Enumerates every text of LiteralShortcut (all token sequences of length *)
(* 1..MaxLen) and prints it with the model's prediction: the grammar class *)
(* (c), the fast-path branch of the intended design (f), and whether the   *)
(* text is a malformed number outside the statement (o).  Every text is a  *)
(* distinct state, so breadth-first search prints each exactly once.       *)
(***************************************************************************)
EXTENDS LiteralShortcut, Json

Row == [t |-> text, c |-> Class(text), f |-> Fast(text), o |-> Outside(text)]

EmitTrace == Len(text) >= 1 => PrintT(ToJson([scn |-> Row]))
=============================================================================
