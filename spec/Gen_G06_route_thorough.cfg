\* G06 generator: the routing rows of the thorough shape grid (lists of up to three parameters)
SPECIFICATION GenSpec
CONSTANTS
  Mode = "route"
  Origins = {"listen"}
  MaxD = 1
  MaxAcc = 1
  MaxClose = 1
  Scripts <- QuickScripts
  Shapes <- RouteShapesThorough
  ErrClasses = {}
  MaxEnv = 1
  Bug = {}
INVARIANTS EmitTrace InvalidNeverSent ServerClean SockIsParam ParsersAgree CCBLastHash HostPortLastColon RequestShape CtxHonoured
CHECK_DEADLOCK FALSE
