\* non-vacuity: with Bug = {"PreallocAnnounced"} TLC must report BoundedAlloc violated
SPECIFICATION Spec
CONSTANTS
  Chunk = 65536
  Max = 1048576
  Tag = 16
  IVLen = 16
  MarkerVal = 666
  Encs = {TRUE, FALSE}
  Plans <- PlansMix
  Sizes = {0, 1, 65536, 65537}
  LaterSizes = {0, 1}
  MsgLens = {10}
  MsgSplits = {FALSE}
  Devs = {"announceMore", "announceFewer", "negSize", "wrongMarkerVal", "wrongMarkerLen", "noMarker", "splitSize", "splitChunk", "splitMarker", "emptyFrame"}
  MoreDeltas = {1, 65536, 1073741824}
  FewerDeltas = {1, 65536}
  CutHows = {"boundary", "hdr", "body"}
  MaxFaults = 1
  Interleave = FALSE
  Bug = {"PreallocAnnounced"}
INVARIANTS BoundedAlloc
CHECK_DEADLOCK FALSE
