\* G07 client life cycle: every route / security / environment / context, 4 calls
SPECIFICATION LiveC
CONSTANTS
  Hows = {"new", "ca"}
  Routes = {"direct", "shared", "ccb"}
  Secs = {"none", "sec"}
  EnvsNew = {"absent", "dialstall", "close", "stall", "serve"}
  EnvsCA = {"absent", "dialstall", "close", "stall", "garbage", "serve", "reject"}
  Ctxs = {"live", "pre", "during", "deadline"}
  MaxCalls = 4
  MaxSock = 3
  MaxConn = 0
  Kinds = {}
  Bug = {}
INVARIANTS TypeOKC ConnectedIffOpen NoOrphan NegIffAuth SuccessMeansStream NothingWithoutClient TablesOK
PROPERTIES CtxHonoured CloseUnblocks
CHECK_DEADLOCK FALSE
