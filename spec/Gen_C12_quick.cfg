SPECIFICATION GenSpec
CONSTANTS
  MaxMsgsAB = 6
  MaxMsgsBA = 4
  MaxFrames = 2
  MaxCtr = 6
  StartCtrs = {0, 4}
  PreFrames = {0, 1, 2}
  BaseEncs = {TRUE, FALSE}
  MaxFaults = 0
  MaxHandoffs = 0
  Bug = {}
  GenMode = "script"
  GenDepth = 0
  HandoffEnds = {"a", "b"}
  ScriptIds = {2, 4, 5, 7}
INVARIANT EmitTrace
CHECK_DEADLOCK FALSE
