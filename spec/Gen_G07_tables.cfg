\* G07 generator, tables
SPECIFICATION GenSpecT
CONSTANTS
  Hows = {"new"}
  Routes = {"direct"}
  Secs = {"none"}
  EnvsNew = {}
  EnvsCA = {}
  Ctxs = {}
  MaxCalls = 0
  MaxSock = 0
  MaxConn = 0
  Kinds = {}
  MaxEnvS = 0
  Bug = {}
INVARIANT EmitT
CHECK_DEADLOCK FALSE
