\* non-vacuity: with Bug = {"AcceptAnyHello"} TLC must report ReturnedPresentedFreshId violated
SPECIFICATION Spec
CONSTANTS
  NB = 1
  MaxRogue = 1
  RogueKinds = {"wrongId", "emptyId", "staleId", "otherId", "garbage", "close"}
  MaxMsgs = 2
  Mode = "standard"
  Bug = {"AcceptAnyHello"}
INVARIANTS ReturnedPresentedFreshId
CHECK_DEADLOCK FALSE
