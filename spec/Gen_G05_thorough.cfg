\* G05 generator, thorough
SPECIFICATION GenSpec
CONSTANTS
  Tier = "all"
  SecretRels = {"same", "diff"}
  Bug = {}
INVARIANT EmitTrace
CHECK_DEADLOCK FALSE
