\* C12: nonce freshness / refusal at the counter limit / frame format, both stream states,
\* counters started near the limit, cleartext prefixes, one hand-off; no adversary
SPECIFICATION Spec
CONSTANTS
  MaxMsgsAB = 2
  MaxMsgsBA = 1
  MaxFrames = 2
  MaxCtr = 5
  StartCtrs = {0, 3}
  PreFrames = {0, 1}
  BaseEncs = {TRUE, FALSE}
  MaxFaults = 0
  MaxHandoffs = 0
  Bug = {}
INVARIANTS TypeOK DeliveredPrefix NoSpuriousError NonceFresh FrameFormat
PROPERTY RefuseAtWrap
CHECK_DEADLOCK FALSE
