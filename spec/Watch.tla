------------------------------- MODULE Watch -------------------------------
(***************************************************************************)
(* Growth module G03: the watch protocol (watch/watch.go).                 *)
(*                                                                         *)
(* From the package documentation:                                         *)
(*   client -> server: command WatchAds, then a request ClassAd            *)
(*        [ WatchAdType = "StartdAd"; WatchCursor = "<base64>" ]           *)
(*        (+ WatchConstraint, optional; "" = no filter; "cursor may be nil *)
(*        for a full replay")                                              *)
(*   server -> client: a stream of events, each an event-header ClassAd    *)
(*        [ WatchKind = <0..5>; WatchKey = "<base64>"; WatchCursor = ... ] *)
(*        "immediately followed, for a WatchKind of Upsert, by the ad      *)
(*        ClassAd itself (a separate message)".                            *)
(*   "key is nil for non-keyed events (Reset/Synced/Resync); cursor is nil *)
(*   except for Synced and live events"; "A returned key/cursor is nil     *)
(*   when the corresponding attribute is absent"; empty bytes encode to "".*)
(*   Kinds: Upsert (full ad follows), Delete (no ad), Reset ("discard its  *)
(*   state; an authoritative snapshot of Upserts follows, ending at        *)
(*   KindSynced"), Synced ("end of catch-up; the client is now live. Its   *)
(*   cursor is a durable resume point"), Resync ("the live stream fell     *)
(*   behind; it must reconnect with its last persisted cursor"), GoingAway *)
(*   ("the server is shutting down ... reconnect ... with its last         *)
(*   persisted cursor").                                                   *)
(*                                                                         *)
(* The module has two parts, selected by Mode.                             *)
(*                                                                         *)
(* Mode "codec": one record shape (request or header) is encoded into an   *)
(* abstract ClassAd (attribute -> typed value; base64 is the symbolic      *)
(* constructor B64), optionally damaged on the way (an attribute dropped,  *)
(* given another type, or made invalid base64), and decoded.  Actions:     *)
(* PickRequest / PickHeader (= EncodeRequest / EncodeHeader), Damage,      *)
(* Decode (= DecodeRequest / DecodeHeader).                                *)
(*                                                                         *)
(* Mode "stream": a server holding a change log, and one client that       *)
(* subscribes, consumes the event stream message by message, applies       *)
(* events to its view, persists cursors, and reconnects after a cut /      *)
(* Resync / GoingAway with its last persisted cursor.  Actions: Change,    *)
(* Compact (server forgets old cursors), Subscribe (request), Accept,      *)
(* EmitHeader / EmitAd (one message each), SayBye(Resync | GoingAway), Cut  *)
(* (the connection ends, possibly inside the last message), ReadHeader /   *)
(* ReadAd (client consumes one message), Lost (client sees the end of the  *)
(* connection).                                                            *)
(*                                                                         *)
(* Known wrong designs (members of Bug, for non-vacuity only):             *)
(*   "RawKey"             keys travel as raw strings: a key with an        *)
(*                        embedded NUL does not survive                    *)
(*   "MissingKindIsUpsert" a header without WatchKind decodes as kind 0    *)
(*   "BadBase64Ignored"   undecodable key / cursor is treated as absent    *)
(*   "EmptyTypeAccepted"  a request without ad type is accepted            *)
(*   "DeleteHasAd"        HasAd is true for Delete: the reader swallows    *)
(*                        the next header as the ad                        *)
(*   "HeaderOnlyUpsert"   the reader delivers an Upsert whose ad never     *)
(*                        arrived                                          *)
(*   "PersistBeforeAd"    the client persists an Upsert's cursor when it   *)
(*                        has the header, before the ad                    *)
(*   "ResetKeepsView"     the client does not discard its view on Reset    *)
(*   "IgnoreResync"       the client keeps its connection after Resync     *)
(*   "ResumeSkipsOne"     the server resumes after cursor+1                *)
(***************************************************************************)
EXTENDS Integers, Sequences, FiniteSets, TLC

CONSTANTS
  Mode,        \* "codec" | "stream"
  \* codec part
  AdTypes,     \* ad type strings, "" included to probe the error
  Constraints, \* constraint strings, "" = none
  ByteVals,    \* opaque byte strings: "nil", "empty", and named non-empty values
  Kinds,       \* integers used as kinds (0..5 documented, others = unknown future kinds)
  Damages,     \* damage classes applied on the wire
  \* stream part
  Keys, MaxLog, MaxConns, MaxCuts, MaxEmit,
  Bug

VARIABLES
  \* codec part
  cstate,      \* "pick" | "wire" | "done"
  rec,         \* the record that was encoded
  ad,          \* the abstract ClassAd on the wire
  damage,      \* damage applied ("none" if intact)
  res,         \* result of decoding
  \* stream part
  log,         \* Seq([op, key]): the server's change log; cursor i = state after i entries
  floor,       \* cursors below floor can no longer be resumed
  conn,        \* connection number (0 = never connected)
  cst,         \* "down" | "requested" | "open"
  req,         \* cursor of the pending / current subscription (Nil or a log position)
  plan,        \* Seq of events the server still has to emit on this connection
  awaitAd,     \* server side: the Upsert whose header was sent and whose ad is still to be sent (NoEv: none)
  live,        \* server: position in the log up to which this subscription has been served
  queue,       \* messages in flight / not yet read: Seq([t, ev, whole])
  ended,       \* the connection will carry nothing more (cut or server closed)
  nCuts, nEmit,
  view,        \* client: key -> version (0 = absent)
  persisted,   \* client: last persisted cursor (Nil or a log position)
  pending,     \* client: header of an Upsert whose ad has not been read yet (NoEv or the event)
  inSnap,      \* client: between Reset and Synced
  delivered    \* events handed to the application on this connection

\* for the configuration files (a .cfg cannot write negative numbers)
KindsAll == {0 - 1, 0, 1, 2, 3, 4, 5, 6}

cvars == <<cstate, rec, ad, damage, res>>
svars == <<log, floor, conn, cst, req, plan, awaitAd, live, queue, ended, nCuts, nEmit,
           view, persisted, pending, inSnap, delivered>>
vars == <<cvars, svars>>

-----------------------------------------------------------------------------
(* Abstract ClassAd values and the codec                                   *)
Absent == [t |-> "absent"]
I(n) == [t |-> "int", v |-> n]
S(s) == [t |-> "str", v |-> s]
Other == [t |-> "real"]                   \* a value of some other type

\* string values that stand for encoded bytes are records [k, b]:
\*   k = "empty" (the empty string), "b64" (base64 of the non-empty bytes b),
\*   "raw" (the bytes themselves, wrong design), "bad" (not base64 at all)
EmptyStr == [k |-> "empty", b |-> ""]
B64(b)   == [k |-> "b64", b |-> b]
BadB64   == [k |-> "bad", b |-> ""]

EncB(b) == IF b \in {"nil", "empty"} THEN EmptyStr ELSE
           IF "RawKey" \in Bug THEN [k |-> "raw", b |-> b] ELSE B64(b)
\* decoding a string attribute value: [ok, v]
DecB(s) ==
  CASE s.k = "empty" -> [ok |-> TRUE, v |-> "nil"]
    [] s.k = "bad"   -> [ok |-> FALSE, v |-> "nil"]
    [] s.k = "b64"   -> [ok |-> TRUE, v |-> s.b]
    [] s.k = "raw"   -> [ok |-> TRUE, v |-> IF s.b = "bnul" THEN "btrunc" ELSE s.b]  \* stops at the first NUL

Norm(b) == IF b = "empty" THEN "nil" ELSE b

EncodeRequest(t, c, cur) ==
  [what |-> "request",
   WatchAdType |-> S(t),
   WatchConstraint |-> IF c = "" THEN Absent ELSE S(c),
   WatchCursor |-> S(EncB(cur))]

EncodeHeader(k, key, cur) ==
  [what |-> "header",
   WatchKind |-> I(k),
   WatchKey |-> IF key = "nil" THEN Absent ELSE S(EncB(key)),
   WatchCursor |-> IF cur = "nil" THEN Absent ELSE S(EncB(cur))]

Err == [ok |-> FALSE]

StrOr(a, dflt) == IF a.t = "str" THEN a.v ELSE dflt

DecodeRequest(a) ==
  LET t == StrOr(a.WatchAdType, "")
      c == StrOr(a.WatchConstraint, "")
      d == DecB(StrOr(a.WatchCursor, EmptyStr))
  IN IF t = "" /\ "EmptyTypeAccepted" \notin Bug THEN Err
     ELSE IF ~d.ok THEN (IF "BadBase64Ignored" \in Bug THEN [ok |-> TRUE, adType |-> t, constraint |-> c, cursor |-> "nil"] ELSE Err)
     ELSE [ok |-> TRUE, adType |-> t, constraint |-> c, cursor |-> d.v]

DecodeHeader(a) ==
  LET dk == DecB(StrOr(a.WatchKey, EmptyStr))
      dc == DecB(StrOr(a.WatchCursor, EmptyStr))
      k  == IF a.WatchKind.t = "int" THEN a.WatchKind.v ELSE 0
  IN IF a.WatchKind.t # "int" /\ "MissingKindIsUpsert" \notin Bug THEN Err
     ELSE IF (~dk.ok \/ ~dc.ok) /\ "BadBase64Ignored" \notin Bug THEN Err
     ELSE [ok |-> TRUE, kind |-> k, key |-> IF dk.ok THEN dk.v ELSE "nil", cursor |-> IF dc.ok THEN dc.v ELSE "nil"]

HasAd(k) == k = 0 \/ ("DeleteHasAd" \in Bug /\ k = 1)

\* damage on the wire (a deviating or broken peer)
Damaged(a, dm) ==
  CASE dm = "none"          -> a
    [] dm = "dropKind"      -> [a EXCEPT !.WatchKind = Absent]
    [] dm = "kindNotInt"    -> [a EXCEPT !.WatchKind = S("Upsert")]
    [] dm = "badKey"        -> [a EXCEPT !.WatchKey = S(BadB64)]
    [] dm = "badCursor"     -> [a EXCEPT !.WatchCursor = S(BadB64)]
    [] dm = "dropType"      -> [a EXCEPT !.WatchAdType = Absent]
    [] dm = "typeNotString" -> [a EXCEPT !.WatchAdType = Other]
    [] dm = "keyNotString"  -> [a EXCEPT !.WatchKey = Other]
    [] dm = "cursorNotString" -> [a EXCEPT !.WatchCursor = Other]
    [] dm = "constraintNotString" -> [a EXCEPT !.WatchConstraint = Other]

\* damages whose outcome the documentation fixes (an error) / leaves open
HeaderDamages  == {"dropKind", "kindNotInt", "badKey", "badCursor", "keyNotString", "cursorNotString"}
RequestDamages == {"dropType", "typeNotString", "badCursor", "cursorNotString", "constraintNotString"}
MustFail       == {"dropKind", "kindNotInt", "badKey", "badCursor", "dropType", "typeNotString"}

-----------------------------------------------------------------------------
(* Part 1: codec                                                           *)
PickRequest(t, c, cur) ==
  /\ Mode = "codec" /\ cstate = "pick"
  /\ rec' = [what |-> "request", adType |-> t, constraint |-> c, cursor |-> cur]
  /\ ad' = EncodeRequest(t, c, cur)
  /\ cstate' = "wire" /\ damage' = "none"
  /\ UNCHANGED <<res, svars>>

PickHeader(k, key, cur) ==
  /\ Mode = "codec" /\ cstate = "pick"
  /\ rec' = [what |-> "header", kind |-> k, key |-> key, cursor |-> cur]
  /\ ad' = EncodeHeader(k, key, cur)
  /\ cstate' = "wire" /\ damage' = "none"
  /\ UNCHANGED <<res, svars>>

Damage(dm) ==
  /\ Mode = "codec" /\ cstate = "wire" /\ damage = "none" /\ dm # "none"
  /\ dm \in (IF ad.what = "header" THEN HeaderDamages ELSE RequestDamages)
  /\ ad' = Damaged(ad, dm) /\ damage' = dm
  /\ UNCHANGED <<cstate, rec, res, svars>>

Decode ==
  /\ Mode = "codec" /\ cstate = "wire"
  /\ res' = IF ad.what = "header" THEN DecodeHeader(ad) ELSE DecodeRequest(ad)
  /\ cstate' = "done"
  /\ UNCHANGED <<rec, ad, damage, svars>>

CodecNext ==
  \/ \E t \in AdTypes, c \in Constraints, cur \in ByteVals : PickRequest(t, c, cur)
  \/ \E k \in Kinds, key \in ByteVals, cur \in ByteVals : PickHeader(k, key, cur)
  \/ \E dm \in Damages : Damage(dm)
  \/ Decode

(* decode(encode(x)) = x for every request / header shape ("empty" and nil
   bytes are the same value on the wire).                                     *)
RoundTrip ==
  (cstate = "done" /\ damage = "none") =>
     IF rec.what = "header"
     THEN res = [ok |-> TRUE, kind |-> rec.kind, key |-> Norm(rec.key), cursor |-> Norm(rec.cursor)]
     ELSE IF rec.adType = "" THEN ~res.ok
     ELSE res = [ok |-> TRUE, adType |-> rec.adType, constraint |-> rec.constraint, cursor |-> Norm(rec.cursor)]

(* A malformed record yields an error, never a partially filled result.       *)
MalformedIsError ==
  (cstate = "done" /\ damage \in MustFail) => ~res.ok

(* Damage the documentation does not classify: an error, or the undamaged
   fields exactly (the damaged attribute reads as absent).                    *)
OtherDamageIsHarmless ==
  (cstate = "done" /\ damage \notin MustFail /\ damage # "none" /\ res.ok) =>
     IF rec.what = "header"
     THEN /\ res.kind = rec.kind
          /\ res.key = (IF damage = "keyNotString" THEN "nil" ELSE Norm(rec.key))
          /\ res.cursor = (IF damage = "cursorNotString" THEN "nil" ELSE Norm(rec.cursor))
     ELSE /\ res.adType = rec.adType
          /\ res.constraint = (IF damage = "constraintNotString" THEN "" ELSE rec.constraint)
          /\ res.cursor = (IF damage = "cursorNotString" THEN "nil" ELSE Norm(rec.cursor))

-----------------------------------------------------------------------------
(* Part 2: event stream                                                    *)
KUpsert == 0  KDelete == 1  KReset == 2  KSynced == 3  KResync == 4  KGoingAway == 5

Nil == 0 - 1          \* no cursor
NoKey == 0            \* no key (Keys are positive integers)
NoEv == [kind |-> 0 - 9, key |-> NoKey, cursor |-> Nil, ver |-> 0]
Ev(k, key, cur, ver) == [kind |-> k, key |-> key, cursor |-> cur, ver |-> ver]

\* server state after i log entries: key -> version (index of the upsert), 0 = absent
RECURSIVE StateAt(_)
StateAt(i) ==
  IF i = 0 THEN [k \in Keys |-> 0]
  ELSE LET s == StateAt(i - 1) e == log[i] IN
       [s EXCEPT ![e.key] = IF e.op = "up" THEN i ELSE 0]

LogEvent(i) == IF log[i].op = "up" THEN Ev(KUpsert, log[i].key, i, i) ELSE Ev(KDelete, log[i].key, i, 0)

RECURSIVE LogEvents(_, _)
LogEvents(from, to) == IF from > to THEN <<>> ELSE <<LogEvent(from)>> \o LogEvents(from + 1, to)

\* snapshot of the state at head h: one Upsert per present key, no cursor
RECURSIVE SnapOf(_, _)
SnapOf(ks, st) ==
  IF ks = {} THEN <<>>
  ELSE LET k == CHOOSE x \in ks : \A y \in ks : x <= y IN
       (IF st[k] > 0 THEN <<Ev(KUpsert, k, Nil, st[k])>> ELSE <<>>) \o SnapOf(ks \ {k}, st)

Change(op, k) ==
  /\ Mode = "stream" /\ Len(log) < MaxLog
  /\ op = "del" => StateAt(Len(log))[k] > 0
  /\ log' = Append(log, [op |-> op, key |-> k])
  /\ UNCHANGED <<floor, conn, cst, req, plan, awaitAd, live, queue, ended, nCuts, nEmit,
                 view, persisted, pending, inSnap, delivered, cvars>>

Compact ==
  /\ Mode = "stream" /\ floor < Len(log)
  /\ floor' = Len(log)
  /\ UNCHANGED <<log, conn, cst, req, plan, awaitAd, live, queue, ended, nCuts, nEmit,
                 view, persisted, pending, inSnap, delivered, cvars>>

\* client: connect and send the request with the last persisted cursor
Subscribe ==
  /\ Mode = "stream" /\ cst = "down" /\ conn < MaxConns
  /\ conn' = conn + 1 /\ cst' = "requested" /\ req' = persisted
  /\ queue' = <<>> /\ ended' = FALSE /\ plan' = <<>> /\ awaitAd' = NoEv
  /\ pending' = NoEv /\ delivered' = <<>>
  /\ UNCHANGED <<log, floor, live, nCuts, nEmit, view, persisted, inSnap, cvars>>

\* server: decide between a full replay and a resume
Accept ==
  /\ Mode = "stream" /\ cst = "requested"
  /\ LET h == Len(log) IN
     /\ live' = h
     /\ plan' = IF req = Nil \/ req < floor
                THEN <<Ev(KReset, NoKey, Nil, 0)>> \o SnapOf(Keys, StateAt(h)) \o <<Ev(KSynced, NoKey, h, 0)>>
                ELSE LogEvents(req + 1 + (IF "ResumeSkipsOne" \in Bug THEN 1 ELSE 0), h) \o <<Ev(KSynced, NoKey, h, 0)>>
  /\ cst' = "open"
  /\ UNCHANGED <<log, floor, conn, req, awaitAd, queue, ended, nCuts, nEmit,
                 view, persisted, pending, inSnap, delivered, cvars>>

Msg(t, e) == [t |-> t, ev |-> e, whole |-> TRUE]

\* server: send the next header (catch-up plan first, then live log entries)
EmitHeader ==
  /\ Mode = "stream" /\ cst = "open" /\ ~ended /\ awaitAd = NoEv /\ nEmit < MaxEmit
  /\ \/ /\ plan # <<>>
        /\ queue' = Append(queue, Msg("header", Head(plan)))
        /\ awaitAd' = IF Head(plan).kind = KUpsert THEN Head(plan) ELSE NoEv
        /\ plan' = Tail(plan) /\ UNCHANGED live
     \/ /\ plan = <<>> /\ live < Len(log)
        /\ queue' = Append(queue, Msg("header", LogEvent(live + 1)))
        /\ awaitAd' = IF log[live + 1].op = "up" THEN LogEvent(live + 1) ELSE NoEv
        /\ live' = live + 1 /\ UNCHANGED plan
  /\ nEmit' = nEmit + 1
  /\ UNCHANGED <<log, floor, conn, cst, req, ended, nCuts,
                 view, persisted, pending, inSnap, delivered, cvars>>

EmitAd ==
  /\ Mode = "stream" /\ cst = "open" /\ ~ended /\ awaitAd # NoEv
  /\ queue' = Append(queue, Msg("ad", awaitAd))
  /\ awaitAd' = NoEv
  /\ UNCHANGED <<log, floor, conn, cst, req, plan, live, ended, nCuts, nEmit,
                 view, persisted, pending, inSnap, delivered, cvars>>

\* server: the subscription fell behind / the server goes away; it says so and stops
SayBye(k) ==
  /\ Mode = "stream" /\ cst = "open" /\ ~ended /\ awaitAd = NoEv /\ plan = <<>>
  /\ queue' = Append(queue, Msg("header", Ev(k, NoKey, Nil, 0)))
  /\ ended' = TRUE
  /\ UNCHANGED <<log, floor, conn, cst, req, plan, awaitAd, live, nCuts, nEmit,
                 view, persisted, pending, inSnap, delivered, cvars>>

\* network: the connection ends; the last message in flight may arrive incomplete
Cut(partial) ==
  /\ Mode = "stream" /\ cst = "open" /\ ~ended /\ nCuts < MaxCuts
  /\ partial => queue # <<>>
  /\ queue' = IF partial THEN [queue EXCEPT ![Len(queue)].whole = FALSE] ELSE queue
  /\ ended' = TRUE /\ nCuts' = nCuts + 1
  /\ UNCHANGED <<log, floor, conn, cst, req, plan, awaitAd, live, nEmit,
                 view, persisted, pending, inSnap, delivered, cvars>>

\* client side ---------------------------------------------------------------
Disconnect ==
  /\ cst' = "down" /\ queue' = <<>> /\ pending' = NoEv

Apply(e) ==
  /\ delivered' = Append(delivered, e)
  /\ view' = CASE e.kind = KUpsert -> [view EXCEPT ![e.key] = e.ver]
               [] e.kind = KDelete -> [view EXCEPT ![e.key] = 0]
               [] e.kind = KReset /\ "ResetKeepsView" \notin Bug -> [k \in Keys |-> 0]
               [] OTHER -> view
  /\ inSnap' = CASE e.kind = KReset -> TRUE [] e.kind = KSynced -> FALSE [] OTHER -> inSnap
  /\ persisted' = CASE e.kind = KReset -> Nil
                    [] e.cursor # Nil -> e.cursor
                    [] OTHER -> persisted

\* client: read one header message
ReadHeader ==
  /\ Mode = "stream" /\ cst = "open" /\ pending = NoEv /\ queue # <<>> /\ Head(queue).whole
  /\ Head(queue).t = "header"
  /\ LET e == Head(queue).ev IN
     IF HasAd(e.kind)
     THEN /\ pending' = e /\ queue' = Tail(queue)
          /\ persisted' = IF "PersistBeforeAd" \in Bug /\ e.cursor # Nil THEN e.cursor ELSE persisted
          /\ UNCHANGED <<cst, view, inSnap, delivered>>
     ELSE IF e.kind \in {KResync, KGoingAway} /\ "IgnoreResync" \notin Bug
     THEN /\ delivered' = Append(delivered, e)
          /\ Disconnect
          /\ UNCHANGED <<view, persisted, inSnap>>
     ELSE /\ Apply(e) /\ queue' = Tail(queue) /\ UNCHANGED <<cst, pending>>
  /\ UNCHANGED <<log, floor, conn, req, plan, awaitAd, live, ended, nCuts, nEmit, cvars>>

\* client: read the ad that follows an Upsert header
ReadAd ==
  /\ Mode = "stream" /\ cst = "open" /\ pending # NoEv /\ queue # <<>> /\ Head(queue).whole
  /\ IF Head(queue).t = "ad" /\ Head(queue).ev = pending
     THEN Apply(pending) /\ pending' = NoEv /\ queue' = Tail(queue) /\ UNCHANGED cst
     ELSE \* what follows is not this event's ad (only under DeleteHasAd): the reader is out of step
          /\ delivered' = Append(delivered, [pending EXCEPT !.kind = 0 - 1])
          /\ pending' = NoEv /\ queue' = Tail(queue)
          /\ UNCHANGED <<cst, view, persisted, inSnap>>
  /\ UNCHANGED <<log, floor, conn, req, plan, awaitAd, live, ended, nCuts, nEmit, cvars>>

\* client: the connection ended (cleanly between messages, or inside one)
Lost ==
  /\ Mode = "stream" /\ cst = "open" /\ ended
  /\ IF queue = <<>> THEN TRUE ELSE ~Head(queue).whole
  /\ IF pending # NoEv /\ "HeaderOnlyUpsert" \in Bug
     THEN Apply([pending EXCEPT !.ver = 0 - 1]) /\ Disconnect
     ELSE Disconnect /\ UNCHANGED <<view, persisted, inSnap, delivered>>
  /\ UNCHANGED <<log, floor, conn, req, plan, awaitAd, live, ended, nCuts, nEmit, cvars>>

StreamNext ==
  \/ \E op \in {"up", "del"}, k \in Keys : Change(op, k)
  \/ Compact
  \/ (Subscribe \/ Accept \/ EmitHeader \/ EmitAd \/ SayBye(KResync) \/ SayBye(KGoingAway)
        \/ Cut(TRUE) \/ Cut(FALSE) \/ ReadHeader \/ ReadAd \/ Lost) /\ UNCHANGED cvars

(* The application never sees a partial event: an Upsert is delivered only
   with its own ad.                                                           *)
NoPartialEvent ==
  \A i \in 1..Len(delivered) : delivered[i].kind \in {0, 1, 2, 3, 4, 5} /\ delivered[i].ver >= 0

(* What was delivered on a connection is a prefix of what the server sent on
   it, in order (nothing lost, duplicated or reordered inside a connection).  *)
DeliveredInOrder ==
  \A i \in 1..Len(delivered) : \A j \in 1..Len(delivered) :
     (i < j /\ delivered[i].cursor # Nil /\ delivered[j].cursor # Nil
        /\ delivered[i].kind \in {0, 1} /\ delivered[j].kind \in {0, 1})
     => delivered[i].cursor < delivered[j].cursor

(* Across reconnects: outside a snapshot the client's view is exactly the
   server's state at the client's persisted cursor - no event lost, none
   applied twice out of order, none half applied.                             *)
ViewMatchesCursor ==
  (Mode = "stream" /\ ~inSnap /\ persisted # Nil /\ pending = NoEv) => view = StateAt(persisted)

(* A resumed subscription continues AFTER the cursor it named: no event at
   or before it is delivered again.                                           *)
ResumeContinues ==
  \A i \in 1..Len(delivered) :
     (delivered[i].kind \in {0, 1} /\ delivered[i].cursor # Nil) => delivered[i].cursor > req

(* A client told to resync / go away does not keep reading.                   *)
ByeEndsConnection ==
  \A i \in 1..Len(delivered) : delivered[i].kind \in {4, 5} => i = Len(delivered) /\ cst = "down"

-----------------------------------------------------------------------------
Init ==
  /\ cstate = "pick" /\ rec = [what |-> "none"] /\ ad = [what |-> "none"] /\ damage = "none"
  /\ res = [ok |-> FALSE]
  /\ log = <<>> /\ floor = 0 /\ conn = 0 /\ cst = "down" /\ req = Nil /\ plan = <<>>
  /\ awaitAd = NoEv /\ live = 0 /\ queue = <<>> /\ ended = FALSE /\ nCuts = 0 /\ nEmit = 0
  /\ view = [k \in Keys |-> 0] /\ persisted = Nil /\ pending = NoEv /\ inSnap = FALSE
  /\ delivered = <<>>

Next == (CodecNext) \/ StreamNext

Spec == Init /\ [][Next]_vars
=============================================================================
