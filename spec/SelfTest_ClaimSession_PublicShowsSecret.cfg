\* self-test: with Bug = {PublicShowsSecret} TLC must report an invariant violated
SPECIFICATION Spec
CONSTANTS
  Tier = "quick"
  SecretRels = {"same", "diff"}
  Bug = {"PublicShowsSecret"}
INVARIANTS TypeOK SameSession ResumesBothWays ResumesByCommand WrongSecretFails PublicFormHidesSecret PolicyRoundTrips
CHECK_DEADLOCK FALSE
