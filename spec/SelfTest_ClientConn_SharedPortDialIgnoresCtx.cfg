\* non-vacuity: with Bug = {"SharedPortDialIgnoresCtx"} TLC must report CtxHonoured violated
SPECIFICATION LiveC
CONSTANTS
  Hows = {"new", "ca"}
  Routes = {"direct", "shared", "ccb"}
  Secs = {"none", "sec"}
  EnvsNew = {"absent", "dialstall", "stall"}
  EnvsCA = {"absent", "dialstall", "close", "stall", "serve", "reject"}
  Ctxs = {"live", "pre", "during"}
  MaxCalls = 3
  MaxSock = 2
  MaxConn = 0
  Kinds = {}
  Bug = {"SharedPortDialIgnoresCtx"}
PROPERTY CtxHonoured
CHECK_DEADLOCK FALSE
