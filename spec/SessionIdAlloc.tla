--------------------------- MODULE SessionIdAlloc ---------------------------
(***************************************************************************)
(* C17 - minting session ids while handshakes finish at the same moment.   *)
(*                                                                         *)
(* Every full (non-resuming) server handshake of one process ends with     *)
(*     id := GenerateSessionID(GetNextSessionCounter())                    *)
(*     cache.Store(NewSessionEntry(id, key, policy ...))                   *)
(* (security/auth.go createPostAuthAd / storeSession).  The id is          *)
(* host:pid:second:counter, so within one second of one process the        *)
(* counter value IS the id.  The client is told the id and later resumes   *)
(* the session under it.                                                   *)
(*                                                                         *)
(* Goroutines H each run one handshake:                                    *)
(*   AllocId   the counter step.  Intended design: ONE atomic              *)
(*             read-modify-write (atomic.AddUint64 returns the new value). *)
(*             Bug "AllocSplit": Add(1) and a separate Load() as two       *)
(*             atomic steps (no data race, but another Add may fall in     *)
(*             between).                                                   *)
(*   StoreSess the entry of this handshake is filed under its id in the    *)
(*             shared cache (SessionCacheLocks models the locking of that  *)
(*             Store; here it is one step).                                *)
(*   Resume    after its handshake the client resumes: the server looks    *)
(*             the id up and uses the key / identity of what it finds.     *)
(* Invariants (the statement: simultaneous handshakes do not disturb one   *)
(* another; no session is lost):                                           *)
(*   UniqueIds          no two handshakes of the process were given the    *)
(*                      same id                                            *)
(*   NoForeignReplace   a Store never replaces the entry of a DIFFERENT    *)
(*                      handshake                                          *)
(*   ResumesOwnSession  a resumption finds the resuming handshake's own    *)
(*                      key and identity                                   *)
(***************************************************************************)
EXTENDS Integers, FiniteSets, TLC

CONSTANTS H,      \* handshakes (goroutines), model values or strings
          Bug     \* subset of {"AllocSplit"}

VARIABLES counter,   \* the package-level session counter
          pc,        \* per handshake: "start" | "added" | "got" | "stored" | "resumed"
          id,        \* per handshake: the counter value it was given (0 = none yet)
          cache,     \* id -> owner of the stored entry (the handshake whose key / identity it carries)
          replaced,  \* ghost: some Store replaced an entry of another handshake
          found      \* per handshake: owner of the entry its resumption found

vars == <<counter, pc, id, cache, replaced, found>>

None == "none"
Ids == 1..Cardinality(H)

Init ==
  /\ counter = 0
  /\ pc = [h \in H |-> "start"]
  /\ id = [h \in H |-> 0]
  /\ cache = [i \in Ids |-> None]
  /\ replaced = FALSE
  /\ found = [h \in H |-> None]

(* intended: one atomic read-modify-write *)
AllocId(h) ==
  /\ "AllocSplit" \notin Bug
  /\ pc[h] = "start"
  /\ counter' = counter + 1
  /\ id' = [id EXCEPT ![h] = counter + 1]
  /\ pc' = [pc EXCEPT ![h] = "got"]
  /\ UNCHANGED <<cache, replaced, found>>

(* Bug AllocSplit: Add(1) ... *)
AllocAdd(h) ==
  /\ "AllocSplit" \in Bug
  /\ pc[h] = "start"
  /\ counter' = counter + 1
  /\ pc' = [pc EXCEPT ![h] = "added"]
  /\ UNCHANGED <<id, cache, replaced, found>>
(* ... and a separate Load() *)
AllocLoad(h) ==
  /\ pc[h] = "added"
  /\ id' = [id EXCEPT ![h] = counter]
  /\ pc' = [pc EXCEPT ![h] = "got"]
  /\ UNCHANGED <<counter, cache, replaced, found>>

StoreSess(h) ==
  /\ pc[h] = "got"
  /\ replaced' = (replaced \/ cache[id[h]] \notin {None, h})
  /\ cache' = [cache EXCEPT ![id[h]] = h]
  /\ pc' = [pc EXCEPT ![h] = "stored"]
  /\ UNCHANGED <<counter, id, found>>

Resume(h) ==
  /\ pc[h] = "stored"
  /\ found' = [found EXCEPT ![h] = cache[id[h]]]
  /\ pc' = [pc EXCEPT ![h] = "resumed"]
  /\ UNCHANGED <<counter, id, cache, replaced>>

Next == \E h \in H : AllocId(h) \/ AllocAdd(h) \/ AllocLoad(h) \/ StoreSess(h) \/ Resume(h)
Spec == Init /\ [][Next]_vars

TypeOK ==
  /\ counter \in 0..Cardinality(H)
  /\ \A h \in H : id[h] \in 0..Cardinality(H)
  /\ \A h \in H : pc[h] \in {"start", "added", "got", "stored", "resumed"}

UniqueIds == \A h1, h2 \in H : (h1 # h2 /\ id[h1] # 0 /\ id[h2] # 0) => id[h1] # id[h2]
NoForeignReplace == ~replaced
ResumesOwnSession == \A h \in H : pc[h] = "resumed" => found[h] = h
=============================================================================
