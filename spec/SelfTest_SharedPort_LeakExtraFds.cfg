\* non-vacuity: with Bug = {"LeakExtraFds"} TLC must report NoLeak violated
SPECIFICATION Spec
CONSTANTS
  Mode = "listener"
  Origins = {"listen", "adopt"}
  MaxD = 2
  MaxAcc = 2
  MaxClose = 2
  Scripts <- MixScriptsTwo
  Shapes <- NoShapes
  ErrClasses = {}
  Bug = {"LeakExtraFds"}
INVARIANTS NoLeak
CHECK_DEADLOCK FALSE
