\* C08 generator: prints every row of the ServerTime dimension of MC_C08_stime.cfg
SPECIFICATION GenSpec
CONSTANTS
  MaxAttrs = 2
  AttrClasses = {"pubA", "stime"}
  Spellings = {"lower", "upper", "mixed"}
  OptWords = {0, 4, 5, 36}
  Whitelists = {"none"}
  Versions = {"unset"}
  StreamStates = {"nokey", "enc", "keyedClear"}
  TypeModes = {"both"}
  CutPlans = {"one", "each"}
  Bug = {}
INVARIANTS EmitTrace
CHECK_DEADLOCK FALSE
