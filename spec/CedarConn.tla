----------------------------- MODULE CedarConn -----------------------------
(***************************************************************************)
(* Composition of the layers for ONE connection, shaped like the code path  *)
(*   client.ConnectAndAuthenticate -> Authenticator.ClientHandshake         *)
(*   server.ServeConn -> Authenticator.ServerHandshakeWithMessage -> handler *)
(* at the granularity of the events the guarded hooks emit (frames in/out   *)
(* with their protection, key installation, authentication exchanges,       *)
(* HandshakeDone, Dispatch).  Each end carries its own copy of the          *)
(* ConnLifecycle state (INSTANCE with substitution); every step performs    *)
(* the life-cycle UPDATE and conjoins the life-cycle RULE into a monitor     *)
(* variable.  The invariant RulesHold says: the intended design, composed    *)
(* across framing / secure channel / handshake / server, satisfies the       *)
(* cross-layer rules L1-L4 and the per-event rules of C03 and C05 on every   *)
(* behaviour; with a member of Bug (the defects found on the pinned tree)    *)
(* it does not.  The same rules are bound to the real code by               *)
(* ConnLifecycle_Trace (traces of the repository's tests and of the         *)
(* harness's handshakes).                                                   *)
(***************************************************************************)
EXTENDS Integers, Sequences, FiniteSets, TLC

CONSTANTS Levels, Bug, MaxFollowOns

Req(l) == l = "REQUIRED"
Conflict(a, b) == (a = "REQUIRED" /\ b = "NEVER") \/ (a = "NEVER" /\ b = "REQUIRED")

VARIABLES
  cfg,        \* policies and capabilities of this connection, fixed at Init
  phase, wantAuth, wantEnc, authOK, repEncS, repEncC,
  encOffS,    \* the server application switched encryption off (a wrong design)
  followOns, curCmd,
  okC, okS,   \* monitors: every life-cycle rule held so far at the client / server end
  \* life-cycle state of the client end
  cKeyed, cHs, cSrv, cMust, cLS, cLR, cDisp, cRan,
  \* life-cycle state of the server end
  sKeyed, sHs, sSrv, sMust, sLS, sLR, sDisp, sRan

LC == INSTANCE ConnLifecycle WITH keyed <- cKeyed, hsDone <- cHs, srvHs <- cSrv, mustProtect <- cMust,
        lastSentProt <- cLS, lastRecvProt <- cLR, dispatched <- cDisp, ran <- cRan
LS == INSTANCE ConnLifecycle WITH keyed <- sKeyed, hsDone <- sHs, srvHs <- sSrv, mustProtect <- sMust,
        lastSentProt <- sLS, lastRecvProt <- sLR, dispatched <- sDisp, ran <- sRan

cvars == <<cKeyed, cHs, cSrv, cMust, cLS, cLR, cDisp, cRan>>
svars == <<sKeyed, sHs, sSrv, sMust, sLS, sLR, sDisp, sRan>>
mvars == <<cfg, phase, wantAuth, wantEnc, authOK, repEncS, repEncC, encOffS, followOns, curCmd>>
vars == <<mvars, okC, okS, cvars, svars>>

\* per-command requirements of the two commands a client may name
CmdPol == [lax |-> [auth |-> "OPTIONAL", enc |-> "OPTIONAL"],
           strict |-> [auth |-> "REQUIRED", enc |-> "REQUIRED"]]

Init ==
  /\ cfg \in [cAuth : Levels, sAuth : Levels, cEnc : Levels, sEnc : Levels,
              method : BOOLEAN,     \* a mutually usable authentication method exists
              cipher : BOOLEAN,     \* a mutually usable cipher exists
              ecdh : BOOLEAN,       \* both ECDH public keys arrive intact
              cmd : {"lax", "strict"}]
  /\ phase = "hello" /\ wantAuth = FALSE /\ wantEnc = FALSE /\ authOK = FALSE
  /\ repEncS = FALSE /\ repEncC = FALSE /\ encOffS = FALSE /\ followOns = 0 /\ curCmd = cfg.cmd
  /\ okC = TRUE /\ okS = TRUE
  /\ LC!LInit /\ LS!LInit

\* ---- helpers: one frame crosses the wire (sender's view, receiver's view)
ProtC == cKeyed
ProtS == sKeyed /\ ~encOffS

C2S ==  \* client sends, server accepts
  /\ okC' = (okC /\ LC!FrameRule("out", ProtC)) /\ LC!FrameUpd("out", ProtC)
  /\ okS' = (okS /\ LS!FrameRule("in", ProtS)) /\ LS!FrameUpd("in", ProtS)
S2C ==
  /\ okS' = (okS /\ LS!FrameRule("out", ProtS)) /\ LS!FrameUpd("out", ProtS)
  /\ okC' = (okC /\ LC!FrameRule("in", ProtC)) /\ LC!FrameUpd("in", ProtC)

\* ---- handshake
Hello ==
  /\ phase = "hello" /\ C2S /\ phase' = "negotiate"
  /\ UNCHANGED <<cfg, wantAuth, wantEnc, authOK, repEncS, repEncC, encOffS, followOns, curCmd>>

\* the policy table (C10); where the statement is silent both outcomes are allowed
Negotiate ==
  /\ phase = "negotiate"
  /\ IF Conflict(cfg.cAuth, cfg.sAuth) \/ Conflict(cfg.cEnc, cfg.sEnc)
        \/ ((Req(cfg.cAuth) \/ Req(cfg.sAuth)) /\ ~cfg.method)
        \/ ((Req(cfg.cEnc) \/ Req(cfg.sEnc)) /\ ~cfg.cipher)
     THEN /\ S2C /\ phase' = "failed"            \* explicit denial
          /\ UNCHANGED <<wantAuth, wantEnc>>
     ELSE /\ S2C
          /\ \E a \in BOOLEAN :
               /\ (Req(cfg.cAuth) \/ Req(cfg.sAuth)) => a
               /\ (cfg.cAuth = "NEVER" \/ cfg.sAuth = "NEVER" \/ ~cfg.method) => ~a
               /\ wantAuth' = a
          /\ wantEnc' = (Req(cfg.cEnc) \/ Req(cfg.sEnc))
          /\ phase' = "auth"
  /\ UNCHANGED <<cfg, authOK, repEncS, repEncC, encOffS, followOns, curCmd>>

\* the authentication exchange: frames each way, then AuthRan at both ends
AuthRun ==
  /\ phase = "auth" /\ wantAuth
  /\ authOK' = TRUE
  /\ okC' = okC /\ okS' = okS
  /\ cRan' = "M" /\ sRan' = "M"
  /\ UNCHANGED <<cKeyed, cHs, cSrv, cMust, cLS, cLR, cDisp, sKeyed, sHs, sSrv, sMust, sLS, sLR, sDisp>>
  /\ phase' = "key"
  /\ UNCHANGED <<cfg, wantAuth, wantEnc, repEncS, repEncC, encOffS, followOns, curCmd>>
AuthSkip ==
  /\ phase = "auth" /\ ~wantAuth
  /\ authOK' = FALSE /\ phase' = "key"
  /\ UNCHANGED <<cfg, wantAuth, wantEnc, repEncS, repEncC, encOffS, followOns, curCmd, okC, okS, cvars, svars>>

\* key installation: whenever both ECDH keys and a common cipher are available
\* (the code keys the stream regardless of the negotiated level); without a key an
\* end whose own policy requires protection must fail
CanKey == cfg.ecdh /\ cfg.cipher
KeySetup ==
  /\ phase = "key"
  /\ IF CanKey
     THEN /\ cKeyed' = TRUE /\ sKeyed' = TRUE /\ repEncS' = TRUE /\ repEncC' = TRUE
          /\ phase' = "postauth"
     ELSE /\ UNCHANGED <<cKeyed, sKeyed>>
          /\ IF (Req(cfg.cEnc) \/ Req(cfg.sEnc)) /\ "ContinueWithoutEnc" \notin Bug
             THEN phase' = "failed" /\ UNCHANGED <<repEncS, repEncC>>
             ELSE /\ phase' = "postauth"
                  \* the defect: the reported flag keeps the negotiated wish
                  /\ repEncS' = ("ContinueWithoutEnc" \in Bug /\ wantEnc)
                  /\ repEncC' = ("ContinueWithoutEnc" \in Bug /\ wantEnc)
  /\ UNCHANGED <<cfg, wantAuth, wantEnc, authOK, encOffS, followOns, curCmd, okC, okS,
                 cHs, cSrv, cMust, cLS, cLR, cDisp, cRan, sHs, sSrv, sMust, sLS, sLR, sDisp, sRan>>

\* the post-authentication ad, then both ends return success
PostAuth ==
  /\ phase = "postauth" /\ S2C /\ phase' = "done"
  /\ UNCHANGED <<cfg, wantAuth, wantEnc, authOK, repEncS, repEncC, encOffS, followOns, curCmd>>

DoneRec(client, repEnc, kd) ==
  [full |-> TRUE, client |-> client, auth |-> authOK, enc |-> repEnc, streamEnc |-> kd,
   polAuth |-> IF client THEN cfg.cAuth ELSE cfg.sAuth,
   polEnc |-> IF client THEN cfg.cEnc ELSE cfg.sEnc, polInt |-> "OPTIONAL",
   methods |-> <<"M">>, method |-> IF authOK THEN "M" ELSE "",
   resumed |-> FALSE, entryKeyed |-> TRUE, strictResume |-> FALSE, user |-> "u"]

Done ==
  /\ phase = "done"
  /\ okC' = (okC /\ LC!HandshakeRule(DoneRec(TRUE, repEncC, cKeyed))) /\ LC!HandshakeUpd(DoneRec(TRUE, repEncC, cKeyed))
  /\ okS' = (okS /\ LS!HandshakeRule(DoneRec(FALSE, repEncS, sKeyed))) /\ LS!HandshakeUpd(DoneRec(FALSE, repEncS, sKeyed))
  /\ phase' = "dispatch"
  /\ UNCHANGED <<cfg, wantAuth, wantEnc, authOK, repEncS, repEncC, encOffS, followOns, curCmd>>

\* ---- command dispatch on the server (C05)
Adequate(cmd, encSeen) ==
  /\ Req(CmdPol[cmd].auth) => authOK
  /\ Req(CmdPol[cmd].enc) => encSeen

DispRec(cmd) ==
  [path |-> "auth", registered |-> TRUE, raw |-> FALSE,
   reqAuth |-> CmdPol[cmd].auth, reqEnc |-> CmdPol[cmd].enc, reqInt |-> "",
   auth |-> authOK, enc |-> repEncS, streamEnc |-> ProtS, authorizer |-> FALSE, authorizedNow |-> TRUE,
   followOn |-> followOns > 0, resumed |-> FALSE, cmd |-> 0]

Dispatch ==
  /\ phase = "dispatch"
  /\ LET seen == IF "TrustReportedEnc" \in Bug THEN repEncS ELSE ProtS IN
     IF Adequate(curCmd, seen)
     THEN /\ okS' = (okS /\ LS!DispatchRule(DispRec(curCmd))) /\ LS!DispatchUpd(DispRec(curCmd))
          /\ phase' = "handler"
     ELSE /\ phase' = "closed" /\ UNCHANGED <<okS, svars>>
  /\ UNCHANGED <<cfg, wantAuth, wantEnc, authOK, repEncS, repEncC, encOffS, followOns, curCmd, okC, cvars>>

\* the handler replies; it may keep the connection alive for a follow-on command
Handler ==
  /\ phase = "handler" /\ S2C
  /\ \/ phase' = "closed" /\ UNCHANGED <<followOns, curCmd, encOffS>>
     \/ /\ followOns < MaxFollowOns /\ followOns' = followOns + 1
        /\ \E c \in {"lax", "strict"} : curCmd' = c
        /\ encOffS' = (encOffS \/ "HandlerDropsEncryption" \in Bug)
        /\ phase' = "followon"
  /\ UNCHANGED <<cfg, wantAuth, wantEnc, authOK, repEncS, repEncC>>

FollowOn ==   \* the client sends the next command integer on the established stream
  /\ phase = "followon" /\ C2S /\ phase' = "dispatch"
  /\ UNCHANGED <<cfg, wantAuth, wantEnc, authOK, repEncS, repEncC, encOffS, followOns, curCmd>>

Next == Hello \/ Negotiate \/ AuthRun \/ AuthSkip \/ KeySetup \/ PostAuth \/ Done
        \/ Dispatch \/ Handler \/ FollowOn

Spec == Init /\ [][Next]_vars

\* ---- properties of the composition
RulesHold == okC /\ okS
BothEndsAgreeOnKey == phase \in {"done", "dispatch", "handler", "followon", "closed"} => cKeyed = sKeyed
RequiredEncMeansKeyed ==
  phase \in {"dispatch", "handler", "followon"} =>
     /\ Req(cfg.cEnc) => cKeyed
     /\ Req(cfg.sEnc) => sKeyed
=============================================================================
