\* non-vacuity: with the known wrong design "CutAtSpacedEq" TLC must report SplitAtFirstEq violated
SPECIFICATION Spec
CONSTANTS
  MaxLen = 6
  Bug = {"CutAtSpacedEq"}
INVARIANTS SplitAtFirstEq
CHECK_DEADLOCK FALSE
