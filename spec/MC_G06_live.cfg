\* G06 liveness: under weak fairness of the listener's own steps (and an application that eventually calls Close)
\* every pending Accept is answered, Close returns, every forward settles
SPECIFICATION LiveSpec
CONSTANTS
  Mode = "listener"
  Origins = {"listen"}
  MaxD = 2
  MaxAcc = 2
  MaxClose = 2
  Scripts <- MixScripts
  Shapes <- NoShapes
  ErrClasses = {}
  Bug = {}
INVARIANTS NeverKills
PROPERTIES AcceptAnswered PromptAfterClose CloseReturns ForwardSettles QueuedServed
CHECK_DEADLOCK FALSE
