\* C19 quick: every script length 1..4, every stall position, every context kind;
\* safety invariants and (fair) liveness properties, no state constraint
SPECIFICATION LiveSpec
CONSTANTS
  Ns = {1, 2, 3, 4}
  Kinds = {"cancel", "deadline", "background"}
  Bug = {}
INVARIANTS TypeOK CancelledReturnClosesConn ErrorIsContexts SuccessMeansAllDone BackgroundAddsNoFailure LiveCtxKeepsConnOpen
PROPERTIES CancelledLeadsToReturned EventuallyClosed NoStallReturns BackgroundReturns
CHECK_DEADLOCK FALSE
