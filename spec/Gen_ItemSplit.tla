---------------------------- MODULE Gen_ItemSplit ----------------------------
(* Prints every text of ItemSplit that has a non-empty name made of name        *)
(* characters only (the texts the statement speaks about) with the reference    *)
(* split and its spacing class; the replayer sends each as ONE raw item.        *)
EXTENDS ItemSplit, Json

InScope == /\ FirstEq(text) # 0 /\ Name(text) # <<>> /\ Value(text) # <<>>
           /\ \A i \in 1..Len(Name(text)) : Name(text)[i] = "n"
Row == [t |-> text, name |-> Name(text), value |-> Value(text), sp |-> Spacing(text), ev |-> EqInValue(text)]
EmitTrace == InScope => PrintT(ToJson([scn |-> Row]))
=============================================================================
