\* non-vacuity: with the known wrong design "LoneQuotePanic" TLC must report NoPanic violated
SPECIFICATION Spec
CONSTANTS
  Bug = {"LoneQuotePanic"}
  Families = {"text"}
  Modes = {"plain","enc"}
  ExprMax = 1
  TokLen = 3
INVARIANTS TypeOK NoPanic Bounded CapHonoured CapFails
CHECK_DEADLOCK FALSE
