\* non-vacuity: with Bug = {"UnlinkAdopted"} TLC must report SocketFile violated
SPECIFICATION Spec
CONSTANTS
  Mode = "listener"
  Origins = {"listen", "adopt"}
  MaxD = 2
  MaxAcc = 2
  MaxClose = 2
  Scripts <- MixScriptsTwo
  Shapes <- NoShapes
  ErrClasses = {}
  Bug = {"UnlinkAdopted"}
INVARIANTS SocketFile
CHECK_DEADLOCK FALSE
