SPECIFICATION GenSpec
CONSTANTS
  MaxMsgsAB = 4
  MaxMsgsBA = 3
  MaxFrames = 2
  MaxCtr = 100
  StartCtrs = {0}
  PreFrames = {0}
  BaseEncs = {TRUE}
  MaxFaults = 0
  MaxHandoffs = 2
  Bug = {}
  GenMode = "script"
  GenDepth = 0
  HandoffEnds = {"a"}
  ScriptIds = {6}
INVARIANT EmitTrace
CHECK_DEADLOCK FALSE
