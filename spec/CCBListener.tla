----------------------------- MODULE CCBListener -----------------------------
(***************************************************************************)
(* Growth module G01: the CCB listener, ccb/listener.go (with              *)
(* WriteControlAd / ReadControlAd / WriteReverseConnect of ccb/ccb.go).    *)
(*                                                                         *)
(* THE PROTOCOL AS IMPLEMENTED.  A daemon behind a firewall creates        *)
(* ccb.NewListener(cfg) and calls Run(ctx).  For EVERY configured broker   *)
(* an independent brokerReg.run loop does:                                 *)
(*   register   dial the broker, CEDAR client handshake with command       *)
(*              CCB_REGISTER (67), send one control ad                     *)
(*                {Command=67, Name [, CCBID=<contact>, ClaimId=<cookie>]} *)
(*              -- the two optional attributes exactly when a contact AND  *)
(*              a reconnect cookie are remembered from the last successful *)
(*              registration ("Reconnect: try to preserve our ccbid") --   *)
(*              and read one reply ad.  A reply with a non-empty CCBID is  *)
(*              a grant: contact := CCBID, cookie := ClaimId ("" if        *)
(*              absent), registered := true.  Anything else (no CCBID,     *)
(*              unreadable reply, connection closed) closes the connection *)
(*              and is an error; contact and cookie are kept.              *)
(*   back off   after an error, or after the connection dropped, sleep a   *)
(*              random time below ReconnectInterval/4, /2, /1 (1st, 2nd,   *)
(*              later consecutive failure) and register again -- for ever, *)
(*              until ctx ends ("reconnecting (preserving each ccbid via   *)
(*              its reconnect cookie) on failure").                        *)
(*   serve      read control ads from the broker until a read fails:       *)
(*              Command=CCB_REQUEST (68) starts a goroutine handleRequest, *)
(*              ALIVE (441) and every other ad are ignored; an unreadable  *)
(*              message is a read failure.  Then closeConn: close the      *)
(*              socket, registered := false (Contacts() omits the broker), *)
(*              back off, register again.                                  *)
(*   heartbeat  while serving, every HeartbeatInterval (default 1200 s,    *)
(*              never below 30 s) write {Command=441} to the broker.       *)
(*   request    handleRequest(ad): MyAddress = where to dial, ClaimId =    *)
(*              the connect id, RequestID.  Dial MyAddress (bounded by     *)
(*              DialTimeout); on failure write                             *)
(*                {ClaimId, RequestID, MyAddress, Result=false, ErrorString}*)
(*              to the broker.  On success write the reverse-connect hello *)
(*              (int CCB_REVERSE_CONNECT (69) + ad {ClaimId=<connect id>,  *)
(*              RequestID, MyAddress} in one message) on the new           *)
(*              connection, hand the connection to cfg.Handler together    *)
(*              with the CCBRoute / CCBOriginalRequester / CCBPriorHop of  *)
(*              the request ("By the time it is called the reverse-connect *)
(*              hello has been sent"), then write                          *)
(*                {ClaimId, RequestID, MyAddress, Result=true}.            *)
(*   writes     every write to the broker after registration goes through  *)
(*              writeToBroker: it takes the CURRENT stream of the          *)
(*              registration (error "not connected" if there is none) and  *)
(*              holds writeMu for the whole control ad ("serializes writes *)
(*              to the broker stream").                                    *)
(*   stop       there is no Close(): the caller cancels ctx.  Every        *)
(*              blocking step takes ctx (a cancelled read closes the       *)
(*              socket), the loops leave, closeConn runs, Run returns      *)
(*              ctx.Err() "after all broker loops have stopped".  Request  *)
(*              goroutines are not waited for; their dial and writes carry *)
(*              the same ctx.                                              *)
(*                                                                         *)
(* WHAT A USER RELIES ON (the invariants below; each is named in the       *)
(* harness' failure signatures):                                           *)
(*   RetryUntilRegistered   a registration is retried until it succeeds or *)
(*                          the context ends (NoWedge here, leads-to in    *)
(*                          MC_G01_live.cfg, bounded wait in the harness). *)
(*   PresentsLastCookie     a re-registration after a lost connection      *)
(*                          presents the contact and cookie of the last    *)
(*                          grant (nothing if that grant had no cookie or  *)
(*                          there was none); after an explicit refusal the *)
(*                          model also admits presenting nothing.          *)
(*   ContactIsGrant         Contacts() shows exactly the granted contact   *)
(*                          while registered and nothing for a broker that *)
(*                          is not currently registered.                   *)
(*   EveryRequestAnswered   a request forwarded on a connection that stays *)
(*                          up gets exactly one reply (success or failure),*)
(*   AtMostOneReply         never two, including when the dial-back fails. *)
(*   ReplyMatchesOutcome    Result=true iff the hello went out and the     *)
(*                          connection was handed to the handler.          *)
(*   HelloCarriesOwnId      the hello on a dial-back carries the connect   *)
(*                          id (and RequestID) of the request it serves,   *)
(*                          and the handler gets that request's route.     *)
(*   WritesSerialised       control ads on the broker connection never     *)
(*                          interleave (two writers are never inside       *)
(*                          WriteControlAd at once).                       *)
(*   NoWedge                a malformed message from the broker neither    *)
(*                          kills nor wedges the registration: it is       *)
(*                          skipped, or the connection is dropped and      *)
(*                          re-registered.                                 *)
(*   KeepsRegistration      the listener gives up a registration only when *)
(*                          the broker connection ended or a message was   *)
(*                          unreadable ("ignore unexpected messages").     *)
(*   StoppedClean           when Run has returned the broker connections   *)
(*                          are closed and Contacts() is empty; no         *)
(*                          registration starts after the context ended.   *)
(*   Independent            what happens on one broker's connection does   *)
(*                          not change the state of another registration.  *)
(*   HeartbeatSent          (harness only: time is not modelled) a          *)
(*                          registration at rest for a heartbeat interval  *)
(*                          -- 30 s, the floor -- sends ALIVE.             *)
(*                                                                         *)
(* PERMISSIVE WHERE CODE AND COMMENTS ARE SILENT: a request in flight when *)
(* its broker connection drops or the context ends may be finished (hello, *)
(* handler), may be abandoned, and its reply may be lost, or may turn up   *)
(* on the NEXT connection to that broker (writeToBroker uses whatever      *)
(* stream is current); heartbeats may come at any time while registered.   *)
(*                                                                         *)
(* Processes and their actions:                                            *)
(*   brokerReg.run / register   LRegister, LRegReply                       *)
(*   brokerReg.serve            LRead                                      *)
(*   handleRequest              LDial, LWriteBegin, LWriteEnd              *)
(*   heartbeatLoop              LTickBegin, LTickEnd                       *)
(*   ctx ends                   EnvCancel, LStop                           *)
(* Environment (scripted by the harness): the broker answers a             *)
(* registration (BAnswer), forwards requests (BForward), sends other       *)
(* messages (BSend), drops the connection (BDrop); the requester a request *)
(* points to accepts the dial-back, refuses it, or has no usable address.  *)
(***************************************************************************)
EXTENDS Integers, Sequences, FiniteSets, TLC

CONSTANTS
  NB,          \* brokers the listener is configured with
  MaxConn,     \* registrations (connections) per broker
  MaxReq,      \* requests a broker forwards in total
  MaxTick,     \* heartbeats per broker
  MaxMsg,      \* other messages (ALIVE, unknown command, malformed) a broker sends in total
  RegAnswers,  \* subset of {"fresh","same","nocookie","refuse","hangup","garbage"}
  Targets,     \* subset of {"accept","refuse","noaddr"}
  Msgs,        \* subset of {"alive","unknown","malformed"}
  Bug

Brokers == 1..NB
Grants  == {"fresh", "same", "nocookie"}
HB      == 0          \* the heartbeat's name among the writers

VARIABLES
  lst,         \* [Brokers -> {"idle","wait","up","stopped","dead"}] state of the run loop
  mem,         \* [Brokers -> [id, ck]] remembered contact / cookie (0 = empty; n = n-th grant of that broker)
  registered,  \* [Brokers -> BOOLEAN] what Contacts() goes by
  refused,     \* [Brokers -> BOOLEAN] the last registration ended with an explicit refusal
  conns,       \* [Brokers -> Seq(connection record)] every connection to the broker, in order
  ngrant,      \* [Brokers -> Nat] ids handed out by the broker
  inq,         \* [Brokers -> Seq(message)] unread broker->listener messages on the current connection
  req,         \* [Brokers -> Seq(request record)]
  wr,          \* [Brokers -> SUBSET (HB + request numbers)] who is inside WriteControlAd on the broker stream
  ticks,       \* [Brokers -> Nat] heartbeats written
  nmsg,        \* [Brokers -> Nat] other messages the broker has sent
  hbc,         \* [Brokers -> Nat] connection the heartbeat being written goes to (0 = none)
  cancelled    \* the caller's context ended

vars == <<lst, mem, registered, refused, conns, ngrant, inq, req, wr, ticks, nmsg, hbc, cancelled>>

Cur(b)     == Len(conns[b])
CurConn(b) == conns[b][Cur(b)]
Live(b, i) == conns[b][i].l = "open" /\ conns[b][i].br = "open"

Init ==
  /\ lst = [b \in Brokers |-> "idle"]
  /\ mem = [b \in Brokers |-> [id |-> 0, ck |-> 0]]
  /\ registered = [b \in Brokers |-> FALSE]
  /\ refused = [b \in Brokers |-> FALSE]
  /\ conns = [b \in Brokers |-> <<>>]
  /\ ngrant = [b \in Brokers |-> 0]
  /\ inq = [b \in Brokers |-> <<>>]
  /\ req = [b \in Brokers |-> <<>>]
  /\ wr = [b \in Brokers |-> {}]
  /\ ticks = [b \in Brokers |-> 0]
  /\ nmsg = [b \in Brokers |-> 0]
  /\ hbc = [b \in Brokers |-> 0]
  /\ cancelled = FALSE

-----------------------------------------------------------------------------
(* register                                                                *)
Base(b) == IF mem[b].id # 0 /\ mem[b].ck # 0 THEN "last" ELSE "none"
PresChoices(b) ==
  IF "ForgetCookieOnDrop" \in Bug THEN {"none"}
  ELSE {Base(b)} \cup (IF refused[b] THEN {"none"} ELSE {})
PresOK(b, p) == p = Base(b) \/ (refused[b] /\ p = "none")

LRegister(b) ==
  /\ ~cancelled /\ lst[b] = "idle" /\ Len(conns[b]) < MaxConn
  /\ \E p \in PresChoices(b) :
       conns' = [conns EXCEPT ![b] = Append(@, [pres |-> p, ok |-> PresOK(b, p), l |-> "open",
                                                 br |-> "open", ans |-> "none"])]
  /\ lst' = [lst EXCEPT ![b] = "wait"]
  /\ inq' = [inq EXCEPT ![b] = <<>>]
  /\ UNCHANGED <<mem, registered, refused, ngrant, req, wr, ticks, nmsg, hbc, cancelled>>

\* the broker answers the registration
BAnswer(b, a) ==
  /\ lst[b] = "wait" /\ CurConn(b).ans = "none" /\ CurConn(b).br = "open"
  /\ a \in RegAnswers
  /\ a = "same" => CurConn(b).pres = "last"
  /\ conns' = [conns EXCEPT ![b][Cur(b)].ans = a,
                            ![b][Cur(b)].br = IF a = "hangup" THEN "closed" ELSE @]
  /\ ngrant' = [ngrant EXCEPT ![b] = IF a \in {"fresh", "nocookie"} THEN @ + 1 ELSE @]
  /\ UNCHANGED <<lst, mem, registered, refused, inq, req, wr, ticks, nmsg, hbc, cancelled>>

Granted(b, a) ==
  CASE a = "fresh"    -> [id |-> ngrant[b], ck |-> ngrant[b]]
    [] a = "nocookie" -> [id |-> ngrant[b], ck |-> 0]
    [] OTHER          -> mem[b]

LRegReply(b) ==
  /\ lst[b] = "wait" /\ CurConn(b).ans # "none"
  /\ LET a == CurConn(b).ans IN
       IF a \in Grants
       THEN /\ mem' = [mem EXCEPT ![b] = Granted(b, a)]
            /\ registered' = [registered EXCEPT ![b] = TRUE]
            /\ refused' = [refused EXCEPT ![b] = FALSE]
            /\ lst' = [lst EXCEPT ![b] = "up"]
            /\ UNCHANGED conns
       ELSE /\ conns' = [conns EXCEPT ![b][Cur(b)].l = "closed"]
            /\ refused' = [refused EXCEPT ![b] = (a = "refuse")]
            /\ lst' = [lst EXCEPT ![b] = IF a = "refuse" /\ "GiveUpAfterRefuse" \in Bug THEN "dead" ELSE "idle"]
            /\ UNCHANGED <<mem, registered>>
  /\ UNCHANGED <<ngrant, inq, req, wr, ticks, nmsg, hbc, cancelled>>

-----------------------------------------------------------------------------
(* the broker, once it has granted the registration                        *)
BrokerUp(b) == lst[b] = "up" /\ CurConn(b).br = "open"

NewReq(b, t) == [conn |-> Cur(b), tgt |-> t, st |-> "sent", hello |-> "none", handed |-> FALSE,
                 nrep |-> 0, repconn |-> 0, res |-> "none", wconn |-> 0]

BForward(b, t) ==
  /\ BrokerUp(b) /\ Len(req[b]) < MaxReq /\ t \in Targets
  /\ req' = [req EXCEPT ![b] = Append(@, NewReq(b, t))]
  /\ inq' = [inq EXCEPT ![b] = Append(@, [k |-> "req", r |-> Len(req[b]) + 1])]
  /\ UNCHANGED <<lst, mem, registered, refused, conns, ngrant, wr, ticks, nmsg, hbc, cancelled>>

BSend(b, m) ==
  /\ BrokerUp(b) /\ m \in Msgs /\ nmsg[b] < MaxMsg
  /\ inq' = [inq EXCEPT ![b] = Append(@, [k |-> m, r |-> 0])]
  /\ nmsg' = [nmsg EXCEPT ![b] = @ + 1]
  /\ UNCHANGED <<lst, mem, registered, refused, conns, ngrant, req, wr, ticks, hbc, cancelled>>

BDrop(b) ==
  /\ BrokerUp(b)
  /\ conns' = [conns EXCEPT ![b][Cur(b)].br = "closed"]
  /\ inq' = [inq EXCEPT ![b] = Append(@, [k |-> "eof", r |-> 0])]
  /\ UNCHANGED <<lst, mem, registered, refused, ngrant, req, wr, ticks, nmsg, hbc, cancelled>>

-----------------------------------------------------------------------------
(* serve: one control message, or the end of the connection                *)
\* serve returned: closeConn, then the run loop backs off and registers again
DropConn(b, next) ==
  /\ conns' = IF "SharedFate" \in Bug
              THEN [o \in Brokers |-> IF Cur(o) > 0 THEN [conns[o] EXCEPT ![Cur(o)].l = "closed"] ELSE conns[o]]
              ELSE [conns EXCEPT ![b][Cur(b)].l = "closed"]
  /\ registered' = IF "ContactWhileDown" \in Bug THEN registered ELSE [registered EXCEPT ![b] = FALSE]
  /\ lst' = IF "SharedFate" \in Bug
            THEN [o \in Brokers |-> IF o = b THEN next ELSE IF lst[o] \in {"up", "wait"} THEN "idle" ELSE lst[o]]
            ELSE [lst EXCEPT ![b] = next]
  /\ inq' = [inq EXCEPT ![b] = <<>>]

LRead(b) ==
  /\ lst[b] = "up" /\ inq[b] # <<>>
  /\ LET m == Head(inq[b]) IN
       CASE m.k = "req" ->
              /\ req' = [req EXCEPT ![b][m.r].st = "run"]
              /\ inq' = [inq EXCEPT ![b] = Tail(@)]
              /\ UNCHANGED <<lst, registered, conns>>
         [] m.k \in {"alive", "unknown"} ->
              /\ UNCHANGED req
              /\ IF m.k = "unknown" /\ "DropOnUnknown" \in Bug
                 THEN DropConn(b, "idle")
                 ELSE /\ inq' = [inq EXCEPT ![b] = Tail(@)]      \* "ignore unexpected messages"
                      /\ UNCHANGED <<lst, registered, conns>>
         [] m.k = "malformed" ->
              /\ UNCHANGED req
              /\ IF "WedgeOnMalformed" \in Bug
                 THEN /\ lst' = [lst EXCEPT ![b] = "dead"]
                      /\ inq' = [inq EXCEPT ![b] = Tail(@)]
                      /\ UNCHANGED <<registered, conns>>
                 ELSE \/ /\ inq' = [inq EXCEPT ![b] = Tail(@)]         \* skipped
                         /\ UNCHANGED <<lst, registered, conns>>
                      \/ DropConn(b, "idle")                            \* read failure
         [] m.k = "eof" ->
              /\ UNCHANGED req
              /\ DropConn(b, "idle")
  /\ UNCHANGED <<mem, refused, ngrant, wr, ticks, nmsg, hbc, cancelled>>

-----------------------------------------------------------------------------
(* handleRequest                                                           *)
HelloId(b, r) ==
  IF "HelloOtherId" \in Bug /\ \E o \in DOMAIN req[b] : o # r /\ req[b][o].st # "sent"
  THEN "other" ELSE "own"

\* the connection the request came on is gone, or the context ended
Orphaned(b, r) == cancelled \/ req[b][r].conn # Cur(b) \/ ~Live(b, req[b][r].conn)

LDial(b, r) ==
  /\ r \in DOMAIN req[b] /\ req[b][r].st = "run"
  /\ \/ /\ req[b][r].tgt = "accept"
        /\ req' = [req EXCEPT ![b][r].st = "dialed", ![b][r].hello = HelloId(b, r),
                              ![b][r].handed = TRUE, ![b][r].res = "ok"]
     \/ /\ req[b][r].tgt # "accept"
        /\ req' = [req EXCEPT ![b][r].st = IF "NoReplyOnDialFail" \in Bug THEN "done" ELSE "nodial",
                              ![b][r].res = IF "OkWithoutHello" \in Bug THEN "ok" ELSE "fail"]
     \/ /\ Orphaned(b, r)                            \* abandoned (the statement is silent)
        /\ req' = [req EXCEPT ![b][r].st = "aborted"]
  /\ UNCHANGED <<lst, mem, registered, refused, conns, ngrant, inq, wr, ticks, nmsg, hbc, cancelled>>

\* writeToBroker: the current stream, then writeMu
LWriteBegin(b, r) ==
  /\ r \in DOMAIN req[b] /\ req[b][r].st \in {"dialed", "nodial"}
  /\ \/ /\ lst[b] = "up"
        /\ wr[b] = {} \/ "NoWriteLock" \in Bug
        /\ wr' = [wr EXCEPT ![b] = @ \cup {r}]
        /\ req' = [req EXCEPT ![b][r].st = "writing", ![b][r].wconn = Cur(b)]
     \/ /\ lst[b] # "up" \/ cancelled               \* "not connected" / context ended: the reply is lost
        /\ req' = [req EXCEPT ![b][r].st = "done"]
        /\ UNCHANGED wr
  /\ UNCHANGED <<lst, mem, registered, refused, conns, ngrant, inq, ticks, nmsg, hbc, cancelled>>

LWriteEnd(b, r) ==
  /\ r \in DOMAIN req[b] /\ req[b][r].st = "writing"
  /\ wr' = [wr EXCEPT ![b] = @ \ {r}]
  /\ LET w == req[b][r].wconn IN
       \/ /\ Live(b, w)
          /\ req' = [req EXCEPT ![b][r].st = "done", ![b][r].repconn = w,
                                ![b][r].nrep = @ + (IF "DoubleReply" \in Bug THEN 2 ELSE 1)]
       \/ /\ ~Live(b, w) \/ Orphaned(b, r)          \* written into a dead connection, or abandoned
          /\ req' = [req EXCEPT ![b][r].st = "done"]
  /\ UNCHANGED <<lst, mem, registered, refused, conns, ngrant, inq, ticks, nmsg, hbc, cancelled>>

-----------------------------------------------------------------------------
(* heartbeatLoop (time is not modelled: a heartbeat may come whenever the  *)
(* registration is up); it is written to the connection that was current   *)
(* when the write began and reaches the broker if that one is still alive  *)
TickDelivered(b) == HB \in wr[b] /\ hbc[b] > 0 /\ Live(b, hbc[b])
LTickBegin(b) ==
  /\ lst[b] = "up" /\ ticks[b] < MaxTick /\ HB \notin wr[b]
  /\ wr[b] = {} \/ "NoWriteLock" \in Bug
  /\ wr' = [wr EXCEPT ![b] = @ \cup {HB}]
  /\ hbc' = [hbc EXCEPT ![b] = Cur(b)]
  /\ UNCHANGED <<lst, mem, registered, refused, conns, ngrant, inq, req, ticks, nmsg, cancelled>>

LTickEnd(b) ==
  /\ HB \in wr[b]
  /\ wr' = [wr EXCEPT ![b] = @ \ {HB}]
  /\ ticks' = [ticks EXCEPT ![b] = @ + 1]
  /\ hbc' = [hbc EXCEPT ![b] = 0]
  /\ UNCHANGED <<lst, mem, registered, refused, conns, ngrant, inq, req, nmsg, cancelled>>

-----------------------------------------------------------------------------
(* the caller's context ends                                               *)
EnvCancel ==
  /\ ~cancelled
  /\ cancelled' = TRUE
  /\ UNCHANGED <<lst, mem, registered, refused, conns, ngrant, inq, req, wr, ticks, nmsg, hbc>>

LStop(b) ==
  /\ cancelled /\ lst[b] # "stopped"
  /\ conns' = IF Cur(b) > 0 /\ "KeepConnOnCancel" \notin Bug
              THEN [conns EXCEPT ![b][Cur(b)].l = "closed"] ELSE conns
  /\ registered' = [registered EXCEPT ![b] = FALSE]
  /\ lst' = [lst EXCEPT ![b] = "stopped"]
  /\ inq' = [inq EXCEPT ![b] = <<>>]
  /\ UNCHANGED <<mem, refused, ngrant, req, wr, ticks, nmsg, hbc, cancelled>>

-----------------------------------------------------------------------------
Listener(b) ==
  \/ LRegister(b) \/ LRegReply(b) \/ LRead(b) \/ LTickBegin(b) \/ LTickEnd(b) \/ LStop(b)
  \/ \E r \in 1..MaxReq : LDial(b, r) \/ LWriteBegin(b, r) \/ LWriteEnd(b, r)

Broker(b) ==
  \/ \E a \in RegAnswers : BAnswer(b, a)
  \/ \E t \in Targets : BForward(b, t)
  \/ \E m \in Msgs : BSend(b, m)
  \/ BDrop(b)

Next == EnvCancel \/ \E b \in Brokers : Listener(b) \/ Broker(b)

Spec == Init /\ [][Next]_vars

\* liveness: the listener's own steps are taken when they stay possible
LiveSpec == Spec /\ \A b \in Brokers : WF_vars(Listener(b))

-----------------------------------------------------------------------------
(* The invariants.                                                         *)
TypeOK ==
  /\ \A b \in Brokers :
       /\ lst[b] \in {"idle", "wait", "up", "stopped", "dead"}
       /\ Len(conns[b]) <= MaxConn /\ Len(req[b]) <= MaxReq /\ ticks[b] <= MaxTick /\ nmsg[b] <= MaxMsg
       /\ \A i \in DOMAIN conns[b] : conns[b][i].l \in {"open", "closed"} /\ conns[b][i].br \in {"open", "closed"}
       /\ \A r \in DOMAIN req[b] :
            req[b][r].st \in {"sent", "run", "dialed", "nodial", "writing", "done", "aborted"}
  /\ cancelled \in BOOLEAN

\* what Contacts() shows for broker b (0 = omitted)
Shown(b) == IF registered[b] THEN mem[b].id ELSE 0

PresentsLastCookie == \A b \in Brokers : \A i \in DOMAIN conns[b] : conns[b][i].ok

ContactIsGrant ==
  \A b \in Brokers :
    /\ Shown(b) # 0 => lst[b] = "up"
    /\ lst[b] = "up" => (Shown(b) # 0 /\ Shown(b) = mem[b].id)
    /\ (lst[b] = "up" /\ CurConn(b).ans \in {"fresh", "nocookie"}) => mem[b].id = ngrant[b]

HelloCarriesOwnId ==
  \A b \in Brokers : \A r \in DOMAIN req[b] :
    /\ req[b][r].hello \in {"none", "own"}
    /\ req[b][r].handed <=> req[b][r].hello # "none"

AtMostOneReply == \A b \in Brokers : \A r \in DOMAIN req[b] : req[b][r].nrep <= 1

ReplyMatchesOutcome ==
  \A b \in Brokers : \A r \in DOMAIN req[b] :
    req[b][r].nrep >= 1 =>
      /\ req[b][r].res = "ok" <=> (req[b][r].hello # "none" /\ req[b][r].handed)
      /\ req[b][r].res = "ok" => req[b][r].tgt = "accept"

\* a request whose handler has finished without a reply lost its connection (or the context ended)
EveryRequestAnswered ==
  \A b \in Brokers : \A r \in DOMAIN req[b] :
    (req[b][r].st = "done" /\ req[b][r].nrep = 0) => Orphaned(b, r)

\* a reply goes to the connection the request came on, or (orphans) to a later one
ReplyOnOwnOrLaterConn ==
  \A b \in Brokers : \A r \in DOMAIN req[b] :
    req[b][r].nrep >= 1 => req[b][r].repconn >= req[b][r].conn

WritesSerialised == \A b \in Brokers : Cardinality(wr[b]) <= 1

NoWedge == \A b \in Brokers : lst[b] # "dead"

StoppedClean ==
  \A b \in Brokers : lst[b] = "stopped" =>
    /\ Shown(b) = 0
    /\ \A i \in DOMAIN conns[b] : conns[b][i].l = "closed"

\* at most one listener-side connection per broker is open at a time
OneConnPerBroker ==
  \A b \in Brokers : \A i \in DOMAIN conns[b] : (conns[b][i].l = "open") => i = Cur(b)

\* the listener gives up a registration only when the broker's connection ended, a message
\* was unreadable, or the context ended -- never because of a well-formed message
KeepsRegistration ==
  [][\A b \in Brokers :
       (lst[b] = "up" /\ lst'[b] \notin {"up", "stopped"}) =>
          (inq[b] # <<>> /\ Head(inq[b]).k \in {"eof", "malformed"})]_vars

BVars(b) == <<lst[b], mem[b], registered[b], refused[b], conns[b], ngrant[b], inq[b], req[b], wr[b], ticks[b], nmsg[b], hbc[b]>>
Independent == [][\E b \in Brokers : \A o \in Brokers \ {b} : BVars(o)' = BVars(o)]_vars

\* a registration is retried until it succeeds or the context ends (MaxConn bounds the model)
RetryUntilRegistered ==
  \A b \in Brokers :
    (lst[b] = "idle") ~> (lst[b] \in {"wait", "up", "stopped"} \/ Len(conns[b]) = MaxConn)
\* ... and a refused / failed attempt always leads back to a new one
FailureLeadsToRetry ==
  \A b \in Brokers :
    (lst[b] = "wait" /\ CurConn(b).ans \in {"refuse", "hangup", "garbage"})
       ~> (lst[b] \in {"idle", "stopped"})
=============================================================================
