\* non-vacuity: with the known-wrong design "StatusOnlyConfirm" switched on TLC must report RecordShape violated
SPECIFICATION Spec
CONSTANTS
  Bug = {"StatusOnlyConfirm"}
  CStyles = {"cedar"}
  SStyles = {"cedar"}
  Faults = {"none"}
INVARIANTS TypeOK RecordShape
CHECK_DEADLOCK FALSE
