\* C17: session-id allocation of 4 handshakes finishing at the same moment, every interleaving
SPECIFICATION Spec
CONSTANTS
  H = {h1, h2, h3, h4}
  Bug = {}
INVARIANTS TypeOK UniqueIds NoForeignReplace ResumesOwnSession
CHECK_DEADLOCK FALSE
