\* G06: the routing rules over the whole shape grid (frame grid + lists of up to two parameters)
SPECIFICATION Spec
CONSTANTS
  Mode = "route"
  Origins = {"listen"}
  MaxD = 1
  MaxAcc = 1
  MaxClose = 1
  Scripts <- QuickScripts
  Shapes <- RouteShapesQuick
  ErrClasses = {}
  Bug = {}
INVARIANTS InvalidNeverSent ServerClean SockIsParam ParsersAgree CCBLastHash HostPortLastColon RequestShape CtxHonoured
CHECK_DEADLOCK FALSE
