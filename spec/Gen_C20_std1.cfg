\* C20 generator (standard mode, 1 broker(s), <= 3 rogue connections, <= 0 broker messages, <= 5 environment steps)
SPECIFICATION GenSpec
CONSTANTS
  NB = 1
  MaxRogue = 3
  RogueKinds = {"wrongId", "emptyId", "staleId", "badGreeting", "garbage", "close", "stall"}
  MaxMsgs = 0
  Mode = "standard"
  MaxEnv = 5
  Bug = {}
INVARIANT EmitTrace
CHECK_DEADLOCK FALSE
