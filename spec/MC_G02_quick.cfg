\* G02 quick: plans of <= 4 items, all size classes for the first file, every deviation / cut; the sender runs to completion, then the receiver
SPECIFICATION Spec
CONSTANTS
  Chunk = 65536
  Max = 1048576
  Tag = 16
  IVLen = 16
  MarkerVal = 666
  Encs = {TRUE, FALSE}
  Plans <- PlansAll
  Sizes = {0, 1, 65535, 65536, 65537, 131072, 196609}
  LaterSizes = {0, 65537}
  MsgLens = {10}
  MsgSplits = {FALSE, TRUE}
  Devs = {"announceMore", "announceFewer", "negSize", "wrongMarkerVal", "wrongMarkerLen", "noMarker", "splitSize", "splitChunk", "splitMarker", "emptyFrame"}
  MoreDeltas = {1, 65536, 1073741824}
  FewerDeltas = {1, 65536}
  CutHows = {"boundary", "hdr", "body"}
  MaxFaults = 1
  Interleave = FALSE
  Bug = {}
INVARIANTS TypeOK HonestRoundTrip SuccessIsExact MessageIsExact DeviationYieldsError CutYieldsError NoHangAfterClose BoundedAlloc HonestWire
CHECK_DEADLOCK FALSE
