SPECIFICATION Spec
CONSTANTS
  Levels = {"REQUIRED", "PREFERRED", "OPTIONAL", "NEVER"}
  Bug = {"TrustReportedEnc", "ContinueWithoutEnc"}
  MaxFollowOns = 2
INVARIANTS RulesHold BothEndsAgreeOnKey RequiredEncMeansKeyed
CHECK_DEADLOCK FALSE
