--------------------------- MODULE SessionCacheSeq ---------------------------
(***************************************************************************)
(* Sequential specification of security.SessionCache (abstract map          *)
(* semantics), the reference against which C17 checks linearizability.      *)
(*                                                                          *)
(* A cache state is a record                                                *)
(*   map : [id  -> object or NoObj]   c.sessions                            *)
(*   cmd : [id  -> BOOLEAN]           c.commandMap: the command key of id   *)
(*                                    (one key per id) is mapped to id      *)
(*   exp : [obj -> "live" | "dead"]   the entry's expiration field relative *)
(*                                    to the (frozen) clock; an entry that  *)
(*                                    never expires counts as "live"        *)
(* Objects are entry pointers: Store replaces the object filed under an id, *)
(* a goroutine may keep using an object that is no longer in the map.       *)
(* Every operator is a pure function state -> (state, result); the          *)
(* operators only say what the statement of C17 needs (what is reachable    *)
(* after which operation) and nothing about timing.                         *)
(*                                                                          *)
(* InvalidateExpired and DebugDump are deliberately NOT atomic over all     *)
(* entries: the code holds the map lock for the whole call but looks at one *)
(* entry after the other while RenewLease (entry lock only) may run in      *)
(* between, and the property does not ask for more.  They are therefore     *)
(* given as one step per entry (SeqSweepOne / SeqDumpOne).                  *)
(***************************************************************************)
EXTENDS Integers, FiniteSets

NoObj == <<"none", 0>>   \* same shape as an object <<id, version>>

Present(s, id) == s.map[id] # NoObj
Alive(s, id)   == Present(s, id) /\ s.exp[s.map[id]] = "live"

\* Store(entry): file object o (expiry class e) under id
SeqStore(s, id, o, e) == [s EXCEPT !.map[id] = o, !.exp[o] = e]

\* Lookup(id) / LookupByCommand(key of id): result only
SeqLookup(s, id)    == IF Alive(s, id) THEN s.map[id] ELSE NoObj
SeqLookupCmd(s, id) == IF s.cmd[id] /\ Alive(s, id) THEN s.map[id] ELSE NoObj

\* LookupNonExpired(id): an expired entry is removed from the session map
\* (its command mappings stay until the next sweep / Invalidate)
SeqLookupNE(s, id) ==
  [res |-> SeqLookup(s, id),
   st  |-> IF Present(s, id) /\ ~Alive(s, id) THEN [s EXCEPT !.map[id] = NoObj] ELSE s]

SeqMapCmd(s, id) == [s EXCEPT !.cmd[id] = TRUE]

\* Invalidate(id): TRUE iff it was present; then the id and its command
\* mappings are gone
SeqInvalidate(s, id) ==
  [res |-> Present(s, id),
   st  |-> IF Present(s, id) THEN [s EXCEPT !.map[id] = NoObj, !.cmd[id] = FALSE] ELSE s]

\* one step of InvalidateExpired: look at the entry filed under id
SeqSweepOne(s, id) ==
  [removed |-> IF Present(s, id) /\ ~Alive(s, id) THEN 1 ELSE 0,
   st      |-> IF Present(s, id) /\ ~Alive(s, id) THEN [s EXCEPT !.map[id] = NoObj] ELSE s]
\* last step of InvalidateExpired: command mappings of absent sessions go
SeqSweepFinish(s) == [s EXCEPT !.cmd = [i \in DOMAIN s.cmd |-> s.cmd[i] /\ Present(s, i)]]

\* one step of DebugDump: the expiry class printed for the entry under id
SeqDumpOne(s, o) == s.exp[o]

\* entry methods (need only the entry lock)
SeqRenew(s, o)     == [s EXCEPT !.exp[o] = "live"]
SeqIsExpired(s, o) == s.exp[o] = "dead"

SeqSize(s)  == Cardinality({i \in DOMAIN s.map : Present(s, i)})
SeqClear(s) == [s EXCEPT !.map = [i \in DOMAIN s.map |-> NoObj],
                         !.cmd = [i \in DOMAIN s.cmd |-> FALSE]]
=============================================================================
