\* C05 generator (single): intended design (Permissive = FALSE), inputs + expected log
SPECIFICATION GenSpec
CONSTANTS
  MaxConns = 1
  MaxCmds = 3
  PolicyTabs = {1, 2}
  AuthzTabs = {0, 1, 2}
  InitAuthz = {0, 1, 2}
  InitPtab = {1, 2}
  Users = {"alice", "bob"}
  Permissive = FALSE
  Bug = {}
  GenMode = "single"
  FollowCmds = {"R", "W", "A", "I", "X", "U"}
  MaxChanges = 0
INVARIANT EmitTrace
CHECK_DEADLOCK FALSE
