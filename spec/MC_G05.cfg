\* G05: every well-formed single triple and all the other scenarios x every direction / mode x {parent holds the secret, parent holds another}
SPECIFICATION Spec
CONSTANTS
  Tier = "all"
  SecretRels = {"same", "diff"}
  Bug = {}
INVARIANTS TypeOK ParseMatchesIntent RoundTrips NoPartialEntry KeyDerived IdentityRight ExpiryHonoured PolicyCopied EntryIsOneTriple MappingExact EnvCleared ResumeAsIntended
CHECK_DEADLOCK FALSE
