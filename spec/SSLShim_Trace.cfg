\* code -> spec against the INTENDED protocol
SPECIFICATION TraceSpec
CONSTANTS
  Bug = {}
  CStyles = {"cedar", "htcondor"}
  SStyles = {"cedar", "htcondor"}
  Faults = {"none", "c_err_init", "s_err_init", "c_quit_mid", "s_quit_mid", "c_quit_conf", "s_quit_conf"}
POSTCONDITION TraceAccepted
CHECK_DEADLOCK FALSE
