\* non-vacuity: with Bug = {"NegDropped"} TLC must report NegIffAuth violated
SPECIFICATION SpecC
CONSTANTS
  Hows = {"new", "ca"}
  Routes = {"direct", "shared", "ccb"}
  Secs = {"none", "sec"}
  EnvsNew = {"absent", "dialstall", "stall"}
  EnvsCA = {"absent", "dialstall", "close", "stall", "serve", "reject"}
  Ctxs = {"live", "pre", "during"}
  MaxCalls = 3
  MaxSock = 2
  MaxConn = 0
  Kinds = {}
  Bug = {"NegDropped"}
INVARIANTS NegIffAuth
CHECK_DEADLOCK FALSE
