\* G06 generator: the hint decision table
SPECIFICATION GenSpec
CONSTANTS
  Mode = "hint"
  Origins = {"listen"}
  MaxD = 1
  MaxAcc = 1
  MaxClose = 1
  Scripts <- QuickScripts
  Shapes <- SmallShapes
  ErrClasses <- HintErrClasses
  MaxEnv = 1
  Bug = {}
INVARIANTS EmitTrace HintOnlyForResetOnSharedPort NeverHides
CHECK_DEADLOCK FALSE
