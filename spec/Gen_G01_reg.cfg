\* G01 generator, registration life cycle: every answer to a registration, drops, malformed messages, one request
SPECIFICATION GenSpec
CONSTANTS
  NB = 1
  MaxConn = 3
  MaxReq = 1
  MaxTick = 0
  MaxMsg = 1
  RegAnswers = {"fresh", "same", "nocookie", "refuse", "hangup", "garbage"}
  Targets = {"accept"}
  Msgs = {"malformed"}
  MaxEnv = 5
  Bug = {}
INVARIANT EmitTrace
CHECK_DEADLOCK FALSE
