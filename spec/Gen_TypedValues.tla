-------------------------- MODULE Gen_TypedValues --------------------------
(***************************************************************************)
(* Behaviour generator for TypedValues (C14).  A behaviour is fixed by its *)
(* initial state (value sequence, encryption mode, cut set); it is printed *)
(* when the reader has decoded every value, with the model's byte layout   *)
(* of every value, the frames and the decoded values.                      *)
(***************************************************************************)
EXTENDS TypedValues, Json

Tok(v) ==
  CASE v.t = "char"   -> [t |-> "char", v |-> v.v, b |-> <<>>, s |-> <<>>, frac |-> 0, exp |-> 0]
    [] v.t = "int"    -> [t |-> "int", v |-> v.v, b |-> <<>>, s |-> <<>>, frac |-> 0, exp |-> 0]
    [] v.t = "wide"   -> [t |-> "wide", v |-> 0, b |-> v.b, s |-> <<>>, frac |-> 0, exp |-> 0]
    [] v.t = "double" -> [t |-> "double", v |-> 0, b |-> <<>>, s |-> <<>>, frac |-> v.frac, exp |-> v.exp]
    [] v.t = "string" -> [t |-> "string", v |-> 0, b |-> <<>>, s |-> v.s, frac |-> 0, exp |-> 0]

EmitTrace ==
  (idx > Len(names)) =>
    PrintT(ToJson([scn |-> [names |-> names, enc |-> encm, cuts |-> cuts,
                            vals |-> [i \in 1..Len(names) |-> Tok(Value(names[i]))],
                            layouts |-> [i \in 1..Len(names) |-> Layout(Value(names[i]), encm)],
                            frames |-> frames,
                            out |-> [i \in 1..Len(out) |-> Tok(out[i])]]]))
=============================================================================
