\* non-vacuity: with Bug = {"RelativeOK"} TLC must report CreatedOnlyUnderBase violated
SPECIFICATION Spec
CONSTANTS
  MaxLen = 3
  ConnFams = {4, 6}
  Faults = {"none", "sendFail", "verdictLost"}
  Roles = {"client", "server"}
  Bug = {"RelativeOK"}
INVARIANTS CreatedOnlyUnderBase
CHECK_DEADLOCK FALSE
