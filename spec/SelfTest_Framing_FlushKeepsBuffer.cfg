\* non-vacuity: with Bug = {"FlushKeepsBuffer"} TLC must report DeliveredIsPrefixOfSent violated
SPECIFICATION Spec
CONSTANTS
  Max = 1048576
  FlushAt = 4096
  Target = 16384
  Tag = 16
  IVLen = 16
  Hdr = 5
  Encs = {TRUE, FALSE}
  SendApis = {"frames", "buffered", "typed"}
  RecvApis = {"complete", "startread", "typed"}
  WriteSizes = {1, 3, 4096, 1048560, 1048576, 2097157}
  StrSizes = {}
  StrBytesSizes = {}
  ReadSizes = {0, 2}
  MaxMsgs = 2
  MaxWrites = 2
  MaxReads = 2
  MaxLen = 4194400
  PairFirst = {1}
  TypedFlush = {TRUE}
  Interleave = FALSE
  MaxAbandon = 0
  Bug = {"FlushKeepsBuffer"}
INVARIANTS DeliveredIsPrefixOfSent
CHECK_DEADLOCK FALSE
