\* C15: hand-offs (export + import) at every point, chains of 2, no adversary
SPECIFICATION Spec
CONSTANTS
  MaxMsgsAB = 2
  MaxMsgsBA = 1
  MaxFrames = 2
  MaxCtr = 9
  StartCtrs = {0}
  PreFrames = {0}
  BaseEncs = {TRUE, FALSE}
  MaxFaults = 0
  MaxHandoffs = 1
  Bug = {"ImportResetsCtr"}
INVARIANTS TypeOK DeliveredPrefix NoSpuriousError NonceFresh FrameFormat
CHECK_DEADLOCK FALSE
