\* non-vacuity self-test: with the known-wrong design "SkipExpiry" TLC must report an invariant violated
SPECIFICATION Spec
CONSTANTS
  Bug = {"SkipExpiry"}
  Kinds <- AllKinds
  VKinds <- AllVKinds
INVARIANTS TypeOK ServerOkImpliesClientKnewSig ServerOkImpliesKeyHeld ServerOkImpliesTokenCurrent ServerIdentityIsSubject
           ClientOkImpliesServerKnewSig VerifyAcceptsExactly HonestRunSucceeds PoolRuleSucceeds
CHECK_DEADLOCK FALSE
