\* C04: shapes no-auth / A (CLAIMTOBE) / B (TOKEN) / resumed / resumed without reply / pre-keyed streams with 0|1 cleartext frames each way, encryption REQUIRED / PREFERRED / OPTIONAL (client) x REQUIRED / OPTIONAL (server): every handshake that ENDS with encryption on,
\* one relay action anywhere on any cleartext frame, every interleaving, endpoints may abort once tampered.
SPECIFICATION Spec
CONSTANTS
  CAuth = {"PREFERRED"}
  SAuth = {"PREFERRED"}
  CEnc = {"REQUIRED", "PREFERRED", "OPTIONAL"}
  SEnc = {"REQUIRED", "OPTIONAL"}
  CMethods <- ListsC04
  SMethods <- ListsC04
  CCiphers <- OnlyAES
  SCiphers <- OnlyAES
  CmdModes = {TRUE}
  Shapes = {"full", "resume", "resume1", "pre00", "pre10", "pre01", "pre11"}
  SameLists = TRUE
  RelayBudget = 1
  AllowAbort = FALSE
  Bug = {}
INVARIANTS TypeOK EncOnImpliesSameTranscripts TamperedMeansNoAppData HonestEncryptedTalks BothAgree
CHECK_DEADLOCK FALSE
