SPECIFICATION GenSpec
CONSTANTS
  MaxLen = 3
  ConnFams = {4, 6}
  Faults = {"none", "sendFail", "verdictLost"}
  Roles = {"client", "server"}
  Bug = {}
INVARIANT EmitTrace
CHECK_DEADLOCK FALSE
