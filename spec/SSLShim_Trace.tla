--------------------------- MODULE SSLShim_Trace ---------------------------
(***************************************************************************)
(* Trace validation (code -> spec) for G04.  The trace file (ndjson,       *)
(* IOEnv.TRACE_FILE) holds the recorded runs of many pairs of endpoints,   *)
(* one after the other, each introduced by a {"ev":"Reset"} line and a     *)
(* {"ev":"cfg", ...} line naming the configuration.  Every further line is *)
(* one observed event of the connection, in the global order in which the  *)
(* recorder saw it:                                                        *)
(*    send  role r handed one CEDAR message to the connection              *)
(*    recv  role r consumed one CEDAR message completely                   *)
(*    local role r gave up without a message / was cut loose by the        *)
(*          peer's end while blocked in a read (appended by the recorder   *)
(*          from the error the endpoint returned)                          *)
(*    final how each endpoint returned and whether the session keys agree  *)
(* and must be explained by exactly ONE SSLShim action whose event (role,  *)
(* kind, message shape, status class, content class) equals the line.      *)
(* TraceAccepted holds iff every line was consumed.                        *)
(***************************************************************************)
EXTENDS SSLShim, Json, IOUtils

Trace == ndJsonDeserialize(IOEnv.TRACE_FILE)

VARIABLE l
tvars == <<vars, l>>

Ev == Trace[l]
Is(e) == l <= Len(Trace) /\ Ev.ev = e /\ l' = l + 1

BlankCfg == [base |-> Honest, cstyle |-> "blank", sstyle |-> "blank", fault |-> "none"]
Blank(v_cfg, v_pc, v_own, v_view, v_inbox, v_key, v_hist) ==
  /\ v_cfg = BlankCfg /\ v_pc = [r \in Roles |-> "blank"] /\ v_own = InitView /\ v_view = InitView
  /\ v_inbox = InitInbox /\ v_key = InitKey /\ v_hist = InitHist

TInit == Blank(cfg, pc, own, view, inbox, key, hist) /\ l = 1

TReset == Is("Reset") /\ Blank(cfg', pc', own', view', inbox', key', hist')

CfgOf(e) == [base |-> [srvCert |-> e.cfg.base.srvCert, trust |-> e.cfg.base.trust, name |-> e.cfg.base.name,
                       cliCert |-> e.cfg.base.cliCert, broken |-> e.cfg.base.broken],
             cstyle |-> e.cfg.cstyle, sstyle |-> e.cfg.sstyle, fault |-> e.cfg.fault]

TCfg ==
  /\ Is("cfg") /\ pc["c"] = "blank"
  /\ LET c == CfgOf(Ev) IN
       /\ c \in Configs
       /\ cfg' = c /\ pc' = InitPc(c) /\ own' = InitOwn(c)
  /\ view' = InitView /\ inbox' = InitInbox /\ key' = InitKey /\ hist' = InitHist

TStep ==
  /\ l <= Len(Trace) /\ Ev.ev \in {"send", "recv", "local"} /\ l' = l + 1
  /\ pc["c"] # "blank"
  /\ Next
  /\ LET e == StepEvent IN
       /\ e.ev = Ev.ev /\ e.role = Ev.role
       /\ e.msg.shape = Ev.shape /\ e.msg.st = Ev.st /\ e.msg.data = Ev.data

TFinal ==
  /\ Is("final") /\ pc["c"] # "blank"
  /\ Outcome("c") = Ev.c /\ Outcome("s") = Ev.s
  /\ (Ev.c = "done" /\ Ev.s = "done") => (Ev.keysAgree = (key["c"] = key["s"] /\ key["c"] # "none"))
  /\ UNCHANGED vars

TNext == TReset \/ TCfg \/ TStep \/ TFinal

TraceSpec == TInit /\ [][TNext]_tvars

TraceAccepted == TLCGet("stats").diameter - 1 = Len(Trace)
=============================================================================
