\* C14 quick: every sequence of <= 2 of the 19 value tokens, every single cut, both modes
SPECIFICATION Spec
CONSTANTS
  ValueNames = {"char_A", "char_ff", "int_12345", "int_0", "int_m1", "int_max32", "int_min32p1", "int_m256", "wide_max64", "wide_min64", "wide_u32max", "dbl_1", "dbl_m0375", "dbl_0", "dbl_tiny", "str_empty", "str_ab", "str_euro", "str_a0b"}
  MaxVals = 2
  MaxCuts = 1
  Encs = {TRUE, FALSE}
  Bug = {}
INVARIANTS TypeOK LayoutExamples SizeOK DoubleShape CutIndependence
CHECK_DEADLOCK FALSE
