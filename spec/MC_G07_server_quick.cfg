\* G07 accept loop (quick): 2 connections, every handler kind
SPECIFICATION LiveS
CONSTANTS
  Hows = {"new"}
  Routes = {"direct"}
  Secs = {"none"}
  EnvsNew = {}
  EnvsCA = {}
  Ctxs = {}
  MaxCalls = 0
  MaxSock = 0
  MaxConn = 2
  Kinds = {"ok", "err", "panic", "block", "keepopen", "unknown"}
  Bug = {}
INVARIANTS TypeOKS LoopSurvives PortReleased NoLateHandler HandlerOnce KeptOnlyIfKeepOpen
PROPERTIES ServeReturns CancelClosesIdle AcceptedAnyway
CHECK_DEADLOCK FALSE
