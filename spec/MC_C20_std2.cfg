\* C20 (standard mode, 2 broker(s), <= 2 rogue connections / <= 0 broker messages)
SPECIFICATION Spec
CONSTANTS
  NB = 2
  MaxRogue = 2
  RogueKinds = {"wrongId", "otherId", "staleId", "badGreeting", "close", "stall"}
  MaxMsgs = 0
  Mode = "standard"
  Bug = {}
INVARIANTS TypeOK ReturnedPresentedFreshId AtMostOneReturned OthersClosed BrokerFailureEndsAttempt
CHECK_DEADLOCK FALSE
