\* C20 (proxy mode, 1 broker(s), <= 0 rogue connections / <= 3 broker messages)
SPECIFICATION Spec
CONSTANTS
  NB = 1
  MaxRogue = 0
  RogueKinds = {}
  MaxMsgs = 3
  Mode = "proxy"
  Bug = {}
INVARIANTS TypeOK ReturnedPresentedFreshId AtMostOneReturned OthersClosed BrokerFailureEndsAttempt
CHECK_DEADLOCK FALSE
