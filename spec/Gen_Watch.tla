----------------------------- MODULE Gen_Watch -----------------------------
(***************************************************************************)
(* Behaviour generator for Watch (G03).                                    *)
(*                                                                         *)
(* Mode "codec": every (record shape, damage) is one behaviour             *)
(* Pick -> [Damage] -> Decode; it is printed with the record, the abstract *)
(* ad on the wire and the decoded result the model expects.                *)
(*                                                                         *)
(* Mode "stream": GenNext only restricts the ORDER of Watch's actions (so  *)
(* every generated behaviour is a behaviour of Watch): per connection the  *)
(* server side runs first (changes, compaction, Accept, headers and ads,   *)
(* Resync / GoingAway, the cut), then the client reads what arrived until  *)
(* it loses the connection.  One record per connection is logged: the      *)
(* request cursor, every message the server put on the wire (with the      *)
(* incomplete last one after a cut inside a message), the events the       *)
(* client delivered, and its view / persisted cursor afterwards.           *)
(***************************************************************************)
EXTENDS Watch, Json

VARIABLES hist, gstage, gwire

gvars == <<vars, hist, gstage, gwire>>

ServerSide ==
  \/ \E op \in {"up", "del"}, k \in Keys : Change(op, k)
  \/ Compact
  \/ (Subscribe \/ Accept \/ EmitHeader \/ EmitAd \/ SayBye(KResync) \/ SayBye(KGoingAway)
        \/ Cut(TRUE) \/ Cut(FALSE)) /\ UNCHANGED cvars

ClientSide == (ReadHeader \/ ReadAd \/ Lost) /\ UNCHANGED cvars

GenInit == Init /\ hist = <<>> /\ gstage = "srv" /\ gwire = <<>>

GStream ==
  \/ /\ gstage = "srv" /\ ServerSide
     /\ gstage' = IF ended' THEN "cli" ELSE "srv"
     /\ gwire' = IF ended' THEN queue' ELSE gwire
     /\ UNCHANGED hist
  \/ /\ gstage = "cli" /\ ClientSide
     /\ IF cst' = "down"
        THEN /\ gstage' = "srv"
             /\ hist' = Append(hist, [conn |-> conn, req |-> req, wire |-> gwire,
                                      delivered |-> delivered', view |-> view', persisted |-> persisted',
                                      inSnap |-> inSnap'])
        ELSE UNCHANGED <<gstage, hist>>
     /\ UNCHANGED gwire

GCodec == CodecNext /\ UNCHANGED <<hist, gstage, gwire>>

GenNext == IF Mode = "codec" THEN GCodec ELSE GStream

GenSpec == GenInit /\ [][GenNext]_gvars

Done ==
  IF Mode = "codec" THEN cstate = "done"
  ELSE cst = "down" /\ conn = MaxConns /\ gstage = "srv"

EmitTrace ==
  Done => PrintT(ToJson([scn |->
            IF Mode = "codec"
            THEN [mode |-> "codec", rec |-> rec, ad |-> ad, damage |-> damage, res |-> res]
            ELSE [mode |-> "stream", log |-> log, conns |-> hist]]))
=============================================================================
