\* G06 liveness (quick): 2 daemon connections (good / malformed / stalling), 2 Accept calls, 1 Close
SPECIFICATION LiveSpec
CONSTANTS
  Mode = "listener"
  Origins = {"listen"}
  MaxD = 2
  MaxAcc = 2
  MaxClose = 1
  Scripts <- QuickScripts
  Shapes <- NoShapes
  ErrClasses = {}
  Bug = {}
INVARIANTS NeverKills
PROPERTIES AcceptAnswered PromptAfterClose CloseReturns ForwardSettles QueuedServed
CHECK_DEADLOCK FALSE
