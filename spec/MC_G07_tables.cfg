\* G07 tables: keep-alive mapping and routing as pure functions
SPECIFICATION SpecT
CONSTANTS
  Hows = {"new"}
  Routes = {"direct"}
  Secs = {"none"}
  EnvsNew = {}
  EnvsCA = {}
  Ctxs = {}
  MaxCalls = 0
  MaxSock = 0
  MaxConn = 0
  Kinds = {}
  Bug = {}
INVARIANTS TablesOK
CHECK_DEADLOCK FALSE
