SPECIFICATION GenSpec
CONSTANTS
  MaxMsgsAB = 5
  MaxMsgsBA = 5
  MaxFrames = 3
  MaxCtr = 7
  StartCtrs = {0, 3}
  PreFrames = {0, 1, 3}
  BaseEncs = {TRUE, FALSE}
  MaxFaults = 0
  MaxHandoffs = 1
  Bug = {}
  GenMode = "free"
  GenDepth = 24
  HandoffEnds = {"a", "b"}
  ScriptIds = {0}
INVARIANT EmitTrace
CHECK_DEADLOCK FALSE
