-------------------------- MODULE Gen_SharedPort --------------------------
(***************************************************************************)
(* Behaviour generator for SharedPort.                                     *)
(*                                                                         *)
(* Mode "listener": `hist` records what the ENVIRONMENT does, in order:    *)
(*   fwd   daemon connection d connects and sends what script (h, f, x)    *)
(*         says (v = the script's verdict, w = the handler waits for the   *)
(*         handshake deadline), acc = the application starts Accept call   *)
(*         a, close = the application starts Close call k.                 *)
(* The listener's own steps are not recorded, so behaviours that differ    *)
(* only in the interleaving of internal steps (and in the choices the      *)
(* model leaves open) share one script; the harness takes the SET of       *)
(* outcomes printed for a script as the admissible ones.                   *)
(* Timing of an environment step (field q):                                *)
(*   q = TRUE   the harness first waits until the listener is at rest      *)
(*              (Quiescent: every handshake decided -- timeouts included   *)
(*              --, every possible hand-over done) and a snapshot of the   *)
(*              observable state is taken (snaps);                         *)
(*   q = FALSE  the step is fired at once, racing with whatever the        *)
(*              previous step set off.                                     *)
(* A behaviour is printed whenever the listener is closed and at rest; the *)
(* final snapshot is `final`.  Snapshot: per daemon connection idle /      *)
(* queued (TCP peer still open, not delivered) / del(a) / closed (peer saw *)
(* the end without delivery) / refused (connect failed); per Accept call   *)
(* idle / pending / err / conn(d); per Close call idle / returned; the     *)
(* socket file.                                                            *)
(*                                                                         *)
(* Modes "route" and "hint": one row per shape (x error class).            *)
(***************************************************************************)
EXTENDS SharedPort, Json

CONSTANT MaxEnv

VARIABLES hist, snaps

gvars == <<vars, hist, snaps>>

Who(d) == CHOOSE a \in AIds : Returned(a) /\ acc[a].conn = d
Fate(d) == CASE dc[d].st = "idle" -> [f |-> "idle", a |-> 0]
             [] dc[d].st = "queued" -> [f |-> "queued", a |-> 0]
             [] dc[d].st = "delivered" -> [f |-> "del", a |-> Who(d)]
             [] dc[d].st = "dropped" -> [f |-> "closed", a |-> 0]
             [] dc[d].st = "refused" -> [f |-> "refused", a |-> 0]
             [] OTHER -> [f |-> "busy", a |-> 0]
Res(a) == CASE acc[a].st = "idle" -> [r |-> "idle", d |-> 0]
            [] acc[a].st = "pending" -> [r |-> "pending", d |-> 0]
            [] acc[a].conn = 0 -> [r |-> "err", d |-> 0]
            [] OTHER -> [r |-> "conn", d |-> acc[a].conn]
Snap == [ds |-> [d \in DIds |-> Fate(d)], as |-> [a \in AIds |-> Res(a)], ks |-> cl, path |-> path]

Budget == Len(hist) < MaxEnv
Timing(q) == IF q THEN Quiescent ELSE hist # <<>>
Log(r, q) == /\ hist' = Append(hist, r)
             /\ snaps' = IF q THEN Append(snaps, Snap) ELSE snaps

NextD == CHOOSE d \in DIds : dc[d].st = "idle" /\ (IF d = 1 THEN TRUE ELSE dc[d-1].st # "idle")
NextA == CHOOSE a \in AIds : acc[a].st = "idle" /\ (IF a = 1 THEN TRUE ELSE acc[a-1].st # "idle")
NextK == CHOOSE k \in KIds : cl[k] = "idle" /\ (IF k = 1 THEN TRUE ELSE cl[k-1] # "idle")

GenInit == Init /\ hist = <<>> /\ snaps = <<>>

GenNext ==
  \/ \E sc \in Scripts, q \in BOOLEAN :
       /\ Mode = "listener" /\ Budget /\ Timing(q) /\ \E d \in DIds : dc[d].st = "idle"
       /\ DConnect(NextD, sc)
       /\ Log([e |-> "fwd", d |-> NextD, h |-> sc.h, f |-> sc.f, x |-> sc.e, v |-> Verdict(sc), w |-> Waits(sc), q |-> q], q)
  \/ \E q \in BOOLEAN :
       /\ Mode = "listener" /\ Budget /\ Timing(q) /\ \E a \in AIds : acc[a].st = "idle"
       /\ AAccept(NextA) /\ Log([e |-> "acc", a |-> NextA, q |-> q], q)
  \/ \E q \in BOOLEAN :
       /\ Mode = "listener" /\ Budget /\ Timing(q) /\ \E k \in KIds : cl[k] = "idle"
       /\ AClose(NextK) /\ Log([e |-> "close", k |-> NextK, q |-> q], q)
  \/ Mode = "listener" /\ ListenerStep /\ UNCHANGED <<hist, snaps>>
  \/ RowStep /\ UNCHANGED <<hist, snaps>>

GenSpec == GenInit /\ [][GenNext]_gvars

Done == Mode = "listener" /\ closing /\ Quiescent /\ hist # <<>>

EmitTrace ==
  /\ Done => PrintT(ToJson([trace |-> hist, origin |-> origin, out |-> [snaps |-> snaps, final |-> Snap]]))
  /\ row.kind # "none" => PrintT(ToJson([scn |-> row]))
=============================================================================
