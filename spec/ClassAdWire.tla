----------------------------- MODULE ClassAdWire -----------------------------
(***************************************************************************)
(* A ClassAd on the CEDAR wire (message/classad.go, message/skip.go).      *)
(* Serves C08 (layout, three receivers over one layout, attribute set) and *)
(* C09 (privacy decision table, secrets only inside protected frames).     *)
(*                                                                         *)
(* The sender (PutClassAdWithOptions, PutClassAd, PutClassAdRaw[Bytes]) turns *)
(* an ad - a sequence of attributes, each of a CLASS (public, one of the   *)
(* fixed private names, reserved private prefix) in a SPELLING - under a   *)
(* configuration (option word, whitelist, peer version, stream state) into *)
(* a sequence of FIELDS:                                                   *)
(*    count, then per emitted attribute either one item string or a marker *)
(*    string followed by a secret string, then two type-name strings       *)
(*    unless suppressed.                                                   *)
(* Each field lies in one or more frames; a frame is protected (AES-GCM)   *)
(* or clear as a whole; a string inside a protected frame is length-       *)
(* prefixed, otherwise NUL-terminated.                                     *)
(*                                                                         *)
(* Put      = PutClassAdWithOptions: decides per attribute (Outcomes), lays*)
(*            the fields out, cuts frames (CutPlans).                      *)
(* Res(r)   = the three receivers, each a deterministic consumer of its    *)
(*            own copy of the emitted fields (so they are operators over   *)
(*            the post-state of Put rather than further transitions):      *)
(*            parse = GetClassAd / GetClassAdWithMaxSize                   *)
(*            raw   = GetClassAdRaw                                        *)
(*            skip  = SkipClassAdRaw                                       *)
(*                                                                         *)
(* The decision table is written from the STATEMENT of C09 and is          *)
(* permissive where the statement is silent: Outcomes(a, cfg) is the SET   *)
(* of outcomes a conforming sender may produce for attribute a:            *)
(*    omitted | plain (one item string) | secret (marker + secret string)  *)
(*  - a private attribute without the opt-in (IncludePrivate and not       *)
(*    NoPrivate) is omitted, whitelisted or not;                           *)
(*  - a reserved-prefix attribute is omitted for a peer below the cut-off; *)
(*  - a private attribute that is sent on a keyed, non-encrypting stream   *)
(*    is sent as marker + secret (its text only inside a protected frame); *)
(*  - the statement never obliges a sender to send a private attribute, so *)
(*    "omitted" is always allowed for one; on other stream states either   *)
(*    form is allowed;                                                     *)
(*  - a public attribute is sent when there is no whitelist or the         *)
(*    whitelist names it; otherwise (statement silent) anything goes;      *)
(*  - class "stime" is a public attribute of the ad that is itself named   *)
(*    ServerTime (a forwarded ad): with the ServerTime option the sender   *)
(*    injects a ServerTime item and may send the ad's own one as well or   *)
(*    leave it out (statement silent); whatever it does, the count in      *)
(*    front of the ad is the number of items that follow (CountIsItems).   *)
(*                                                                         *)
(* Bug members (known wrong designs; non-vacuity self-tests only):         *)
(*   "IncludeByDefault"   private attributes are sent unless NoPrivate     *)
(*   "NoPrivateIgnored"   IncludePrivate wins over NoPrivate               *)
(*   "CaseSensitiveNames" only the canonical spelling is recognised        *)
(*   "NoVersionGate"      the peer version is not consulted                *)
(*   "WhitelistBypass"    a whitelisted private attribute is sent without  *)
(*                        the opt-in                                       *)
(*   "SecretsInClear"     keyed, non-encrypting stream: private items go   *)
(*                        out as plain items in clear frames               *)
(*   "SkipOneFewer"       the skipping receiver skips one string too few   *)
(*   "SkipIgnoresMarker"  the skipping receiver treats marker and secret as *)
(*                        two ordinary items (the pinned tree does this;   *)
(*                        DESIGN section 7 lists it as an observation)     *)
(*   "StopAtFrameEnd"     the parsing receiver ends a string at a frame    *)
(*                        boundary                                         *)
(*   "RawDropsSecret"     the raw-text receiver does not read the secret   *)
(*                        after a marker                                   *)
(*   "ZeroBudgetReadsNothing"  the size-limited parsing receiver, when its  *)
(*                        byte budget is used up exactly at a field         *)
(*                        boundary, takes the next string as "" without     *)
(*                        reading it instead of refusing the ad             *)
(*   "CountNotItems"      with the ServerTime option the sender drops the  *)
(*                        ad's own ServerTime attribute from the items but *)
(*                        still counts it                                  *)
(***************************************************************************)
EXTENDS Integers, Sequences, FiniteSets, TLC

CONSTANTS
  MaxAttrs,      \* attributes per ad (0..MaxAttrs)
  AttrClasses,   \* subset of Classes
  Spellings,     \* subset of {"lower","upper","mixed"}
  OptWords,      \* option words (subset of 0..63)
  Whitelists,    \* subset of {"none","priv","pub"}
  Versions,      \* subset of {"unset","below","atleast"}
  StreamStates,  \* subset of {"nokey","enc","keyedClear"}
  TypeModes,     \* subset of {"both","none"}: the ad has / has not MyType, TargetType
  CutPlans,      \* subset of {"one","each","split"}
  Bug

FixedPrivate == {"capability", "childclaimids", "claimid", "claimidlist", "claimids", "transferkey"}
Classes == {"pubA", "pubB", "stime", "prefix"} \cup FixedPrivate
  \* pubA: named by every whitelist; pubB: by none; stime: the ad's own attribute called ServerTime

\* option bits of PutClassAdConfig.Options
BNoTypes == 0  BNoPrivate == 1  BServerTime == 2  BNonBlocking == 3  BNoExpandWL == 4  BIncludePrivate == 5
Bit(o, k) == (o \div (2 ^ k)) % 2 = 1

VARIABLES
  cfg,     \* [opts, wl, ver, st]
  ad,      \* Seq([cls, sp])
  types,   \* "both" | "none"
  cut,     \* frame-cut plan
  phase,   \* "init" -> "put"
  out,     \* Seq(outcome) chosen by Put, one per attribute
  stime,   \* BOOLEAN: a ServerTime item was added
  wire     \* Seq(field)
vars == <<cfg, ad, types, cut, phase, out, stime, wire>>

Readers == {"parse", "raw", "skip"}
Forms == {"plain", "secret"}
Outcome == {"omitted"} \cup Forms

-----------------------------------------------------------------------------
(* Privacy: what the statement calls a private attribute, and what a (possibly *)
(* wrong) design recognises as one.                                            *)
PrivateTrue(a) == a.cls \in FixedPrivate \/ a.cls = "prefix"
PrivateSeen(a) == PrivateTrue(a) /\ ("CaseSensitiveNames" \in Bug => a.sp = "mixed")

OptIn(c) ==
  CASE "IncludeByDefault" \in Bug -> ~Bit(c.opts, BNoPrivate)
    [] "NoPrivateIgnored" \in Bug -> Bit(c.opts, BIncludePrivate)
    [] OTHER -> Bit(c.opts, BIncludePrivate) /\ ~Bit(c.opts, BNoPrivate)

OptInTrue(c) == Bit(c.opts, BIncludePrivate) /\ ~Bit(c.opts, BNoPrivate)

TooOld(c) == c.ver = "below" /\ "NoVersionGate" \notin Bug

Named(a, c) == CASE c.wl = "none" -> TRUE
                 [] c.wl = "pub"  -> a.cls = "pubA"
                 [] c.wl = "priv" -> a.cls \notin {"pubB", "stime"}

\* forms in which an attribute may travel on a stream in state st
SendForms(a, st) ==
  IF st = "keyedClear" /\ PrivateSeen(a)
    THEN (IF "SecretsInClear" \in Bug THEN {"plain"} ELSE {"secret"})
    ELSE Forms

Outcomes(a, c) ==
  IF PrivateSeen(a) THEN
       IF "WhitelistBypass" \in Bug /\ c.wl = "priv" THEN SendForms(a, c.st)
       ELSE IF ~OptIn(c) THEN {"omitted"}
       ELSE IF a.cls = "prefix" /\ TooOld(c) THEN {"omitted"}
       ELSE {"omitted"} \cup SendForms(a, c.st)
  ELSE IF a.cls = "stime" /\ Bit(c.opts, BServerTime) THEN {"omitted"} \cup SendForms(a, c.st)
  ELSE IF Named(a, c) THEN SendForms(a, c.st)
  ELSE {"omitted"} \cup SendForms(a, c.st)

-----------------------------------------------------------------------------
(* Layout *)
Fld(k, a) == [k |-> k, a |-> a, n |-> 0]  \* k in count,item,marker,secret,type; a = attribute index (0: none)
CountFld(n) == [k |-> "count", a |-> 0, n |-> n]   \* n = the expression count written in front of the ad

RECURSIVE ItemFields(_, _)
ItemFields(o, i) ==
  IF i > Len(o) THEN <<>>
  ELSE (CASE o[i] = "omitted" -> <<>>
          [] o[i] = "plain"   -> <<Fld("item", i)>>
          [] o[i] = "secret"  -> <<Fld("marker", 0), Fld("secret", i)>>) \o ItemFields(o, i + 1)

Emitted(o) == {i \in 1..Len(o) : o[i] # "omitted"}

NItems(fs) == Cardinality({j \in 1..Len(fs) : fs[j].k \in {"item", "marker"}})

\* ownDropped: the ad's own ServerTime attribute was left out in favour of the injected one
BareFields(o, st, suppress, ownDropped) ==
  LET items == (IF st THEN <<Fld("item", 0)>> ELSE <<>>) \o ItemFields(o, 1)
      n     == NItems(items) + (IF "CountNotItems" \in Bug /\ st /\ ownDropped THEN 1 ELSE 0)
  IN <<CountFld(n)>> \o items \o (IF suppress THEN <<>> ELSE <<Fld("type", 0), Fld("type", 0)>>)

\* a field is inside protected frames iff the stream encrypts while it is written
Prot(f, s) == s = "enc" \/ (s = "keyedClear" /\ f.k = "secret")

\* frame index of every field: a new frame wherever protection changes (the sender
\* flushes around a secret), and after every field under the plans "each" / "split"
FrameOf(fs, i, s, plan) ==
  Cardinality({j \in 2..i : plan # "one" \/ Prot(fs[j], s) # Prot(fs[j - 1], s)})

Parts(f, plan) == IF plan = "split" /\ f.k # "count" THEN 2 ELSE 1

Layout(o, st, c, plan) ==
  LET fs == BareFields(o, st, Bit(c.opts, BNoTypes),
                       \E i \in 1..Len(o) : ad[i].cls = "stime" /\ o[i] = "omitted") IN
  [i \in 1..Len(fs) |->
     [k |-> fs[i].k, a |-> fs[i].a, n |-> fs[i].n, prot |-> Prot(fs[i], c.st),
      fr |-> FrameOf(fs, i, c.st, plan), parts |-> Parts(fs[i], plan)]]

RECURSIVE SumParts(_, _)
SumParts(w, i) == IF i > Len(w) THEN 0 ELSE w[i].parts + SumParts(w, i + 1)

-----------------------------------------------------------------------------
(* Receivers.  A receiver reads the count, that many items (an item that is   *)
(* the marker is followed by one secret string, together ONE item), then two  *)
(* type strings.  Reading a string at the end of the message yields the empty *)
(* string on a clear stream and an error on an encrypting one.                *)
HandlesMarker(r) == ~(r = "skip" /\ "SkipIgnoresMarker" \in Bug)
Take(r, f) == IF "StopAtFrameEnd" \in Bug /\ r = "parse" /\ f.k # "count" THEN 1 ELSE f.parts

RECURSIVE ReadItems(_, _, _, _)
\* acc = [i |-> next field index, used |-> parts consumed, attrs |-> Seq, ok |-> BOOLEAN]
\* (tail recursive with an accumulator)
ReadItems(r, w, n, acc) ==
  IF n = 0 \/ ~acc.ok THEN acc
  ELSE IF acc.i > Len(w) THEN [acc EXCEPT !.ok = FALSE]
  ELSE LET i == acc.i
           f == w[i] IN
    IF f.k = "marker" /\ HandlesMarker(r) /\ i + 1 <= Len(w) THEN
       IF r = "raw" /\ "RawDropsSecret" \in Bug
         THEN ReadItems(r, w, n - 1, [acc EXCEPT !.i = i + 1, !.used = @ + Take(r, f)])
         ELSE ReadItems(r, w, n - 1, [acc EXCEPT !.i = i + 2, !.used = @ + Take(r, f) + Take(r, w[i + 1]),
                                                  !.attrs = Append(@, w[i + 1].a)])
    ELSE IF f.k = "secret" /\ f.prot /\ ~w[i - 1].prot THEN
       \* a protected frame read as an ordinary clear string: garbage
       [acc EXCEPT !.ok = FALSE]
    ELSE ReadItems(r, w, n - 1, [acc EXCEPT !.i = i + 1, !.used = @ + Take(r, f),
                                             !.attrs = IF f.k = "item" THEN Append(@, f.a) ELSE @])

Consume(r, w, s) ==
  LET n0   == w[1].n
      n    == IF r = "skip" /\ "SkipOneFewer" \in Bug /\ n0 > 0 THEN n0 - 1 ELSE n0
      it   == ReadItems(r, w, n, [i |-> 2, used |-> 0, attrs |-> <<>>, ok |-> TRUE])
      t1   == it.i
      have == Len(w) - t1 + 1                 \* fields left for the two type reads
      tUsed == (IF have >= 1 THEN Take(r, w[t1]) ELSE 0) + (IF have >= 2 THEN Take(r, w[t1 + 1]) ELSE 0)
      endOK == have >= 2 \/ s # "enc"         \* reading past the end: "" when clear, error when encrypting
  IN [ok |-> it.ok /\ endOK,
      used |-> w[1].parts + it.used + tUsed,
      attrs |-> it.attrs]

(* The size-limited parsing receiver (GetClassAdWithMaxSize) with byte budget B. *)
(* Every string field costs its size (one abstract unit here; the replayer tries  *)
(* every byte value); B = 0 means unlimited.  Before each string the receiver     *)
(* looks at what is left of the budget: none left -> it refuses the ad (a clean   *)
(* error).  The statement leaves open WHICH budgets are refused, but not what a   *)
(* successful return means: it is the parsing receiver, so it yields exactly the  *)
(* ad and exactly the consumption of the unlimited one (MaxSizeAllOrNothing).     *)
Gate(B, spent) ==
  IF B = 0 \/ B - spent >= 1 THEN "read"
  ELSE IF "ZeroBudgetReadsNothing" \in Bug /\ B - spent = 0 THEN "empty"   \* "" without reading
  ELSE "refuse"

RECURSIVE MaxItems(_, _, _, _)
\* acc = [i, used, attrs, ok, spent]
MaxItems(w, n, B, acc) ==
  IF n = 0 \/ ~acc.ok THEN acc
  ELSE IF acc.i > Len(w) \/ Gate(B, acc.spent) # "read" THEN [acc EXCEPT !.ok = FALSE]
       \* an item read as "" has no '=': that is a clean error as well
  ELSE LET i == acc.i
           f == w[i] IN
    IF f.k = "marker" /\ i + 1 <= Len(w) THEN
       IF Gate(B, acc.spent + 1) # "read" THEN [acc EXCEPT !.ok = FALSE]
       ELSE MaxItems(w, n - 1, B, [acc EXCEPT !.i = i + 2, !.used = @ + f.parts + w[i + 1].parts,
                                              !.attrs = Append(@, w[i + 1].a), !.spent = @ + 2])
    ELSE IF f.k = "secret" /\ f.prot /\ ~w[i - 1].prot THEN [acc EXCEPT !.ok = FALSE]
    ELSE MaxItems(w, n - 1, B, [acc EXCEPT !.i = i + 1, !.used = @ + f.parts,
                                           !.attrs = IF f.k = "item" THEN Append(@, f.a) ELSE @, !.spent = @ + 1])

\* one type-name read at field index i; returns [ok, used, spent, tn, i]
TypeRead(w, s, B, a) ==
  IF ~a.ok THEN a
  ELSE CASE Gate(B, a.spent) = "refuse" -> [a EXCEPT !.ok = FALSE]
         [] Gate(B, a.spent) = "empty"  -> a                      \* "" and nothing consumed
         [] OTHER ->
              IF a.i <= Len(w)
                THEN [a EXCEPT !.i = @ + 1, !.used = @ + w[a.i].parts, !.spent = @ + 1, !.tn = @ + 1]
                ELSE [a EXCEPT !.ok = s # "enc"]                   \* past the end of the message

ConsumeMax(w, s, B) ==
  LET it == MaxItems(w, w[1].n, B, [i |-> 2, used |-> 0, attrs |-> <<>>, ok |-> TRUE, spent |-> 0])
      a0 == [ok |-> it.ok, used |-> it.used, spent |-> it.spent, tn |-> 0, i |-> it.i]
      a2 == TypeRead(w, s, B, TypeRead(w, s, B, a0))
  IN [ok |-> a2.ok, used |-> w[1].parts + a2.used, attrs |-> it.attrs, tn |-> a2.tn]

NStrings(w) == Cardinality({j \in 1..Len(w) : w[j].k # "count"})
NTypes(w) == Cardinality({j \in 1..Len(w) : w[j].k = "type"})

-----------------------------------------------------------------------------
Cfgs == [opts : OptWords, wl : Whitelists, ver : Versions, st : StreamStates]
Attrs == [cls : AttrClasses, sp : Spellings]
Ads == UNION {[1..n -> Attrs] : n \in 0..MaxAttrs}
Init ==
  /\ cfg \in Cfgs /\ ad \in Ads /\ types \in TypeModes /\ cut \in CutPlans
  /\ phase = "init" /\ out = <<>> /\ stime = FALSE /\ wire = <<>>

Put ==
  /\ phase = "init"
  /\ \E o \in [1..Len(ad) -> Outcome] :
       /\ \A i \in 1..Len(ad) : o[i] \in Outcomes(ad[i], cfg)
       /\ \E t \in (IF Bit(cfg.opts, BServerTime) THEN BOOLEAN ELSE {FALSE}) :
            /\ out' = o /\ stime' = t
            /\ wire' = Layout(o, t, cfg, cut)
  /\ phase' = "put"
  /\ UNCHANGED <<cfg, ad, types, cut>>

Res(r) == Consume(r, wire, cfg.st)

Next == Put
Spec == Init /\ [][Next]_vars

-----------------------------------------------------------------------------
TypeOK ==
  /\ cfg \in Cfgs /\ ad \in Ads /\ phase \in {"init", "put"}
  /\ phase # "init" => Len(out) = Len(ad) /\ \A i \in 1..Len(out) : out[i] \in Outcome

Sent(i) == phase # "init" /\ out[i] # "omitted"

(* C09 *)
DefaultDeny ==
  \A i \in 1..Len(ad) : PrivateTrue(ad[i]) /\ ~Bit(cfg.opts, BIncludePrivate) => ~Sent(i)
NoPrivateOverridesInclude ==
  \A i \in 1..Len(ad) : PrivateTrue(ad[i]) /\ Bit(cfg.opts, BNoPrivate) => ~Sent(i)
V2VersionGate ==
  \A i \in 1..Len(ad) : ad[i].cls = "prefix" /\ cfg.ver = "below" => ~Sent(i)
SecretsOnlyInsideEncryptedFrames ==
  phase # "init" /\ cfg.st # "nokey" =>
    /\ \A j \in 1..Len(wire) :
         wire[j].a # 0 /\ PrivateTrue(ad[wire[j].a]) => wire[j].prot
    /\ \A j, k \in 1..Len(wire) : wire[j].fr = wire[k].fr => wire[j].prot = wire[k].prot
ReceiverReassembles ==
  phase = "put" =>
    \A r \in {"parse", "raw"} :
       LET x == Res(r) IN
       x.ok => /\ {x.attrs[j] : j \in 1..Len(x.attrs)} \ {0} = Emitted(out)
               /\ Cardinality(Emitted(out)) + (IF stime THEN 1 ELSE 0) = Len(x.attrs)

(* C08 *)
CountIsItems == phase = "put" => wire[1].n = NItems(wire)
SameConsumption ==
  phase = "put" =>
    LET p == Res("parse")  w == Res("raw")  k == Res("skip")  total == SumParts(wire, 1) IN
    /\ p.ok = w.ok /\ w.ok = k.ok
    /\ p.ok => p.used = total /\ w.used = total /\ k.used = total
    /\ p.ok = (~Bit(cfg.opts, BNoTypes) \/ cfg.st # "enc")
MaxSizeAllOrNothing ==
  phase = "put" =>
    LET p == Res("parse") IN
    \A B \in 0..(NStrings(wire) + 3) :
      LET x == ConsumeMax(wire, cfg.st, B) IN
      /\ x.ok => /\ p.ok /\ x.used = p.used /\ x.attrs = p.attrs /\ x.tn = NTypes(wire)
      \* unlimited, or room for every string and the two type reads: it IS the parsing receiver
      /\ (B = 0 \/ B >= NStrings(wire) + 2) => x.ok = p.ok
AttrSetPreserved ==
  phase = "put" =>
    LET p == Res("parse") IN
    p.ok =>
    /\ p.attrs = Res("raw").attrs
    /\ \A i \in 1..Len(ad) :
         /\ ~PrivateTrue(ad[i]) /\ Named(ad[i], cfg)
         /\ ~(ad[i].cls = "stime" /\ Bit(cfg.opts, BServerTime))   \* may be replaced by the injected item
         => \E j \in 1..Len(p.attrs) : p.attrs[j] = i
    /\ ~OptInTrue(cfg) => \A j \in 1..Len(p.attrs) : p.attrs[j] = 0 \/ ~PrivateTrue(ad[p.attrs[j]])
=============================================================================
