\* non-vacuity self-test: with Bug = {"ZeroBothWhenOneEmpty"} TLC must report invariant TamperedMeansNoAppData violated
SPECIFICATION Spec
CONSTANTS
  CAuth = {"PREFERRED"}
  SAuth = {"PREFERRED"}
  CEnc = {"REQUIRED", "PREFERRED", "OPTIONAL"}
  SEnc = {"REQUIRED", "OPTIONAL"}
  CMethods <- ListsC04
  SMethods <- ListsC04
  CCiphers <- OnlyAES
  SCiphers <- OnlyAES
  CmdModes = {TRUE}
  Shapes = {"full", "resume", "resume1", "pre00", "pre10", "pre01", "pre11"}
  SameLists = TRUE
  RelayBudget = 1
  AllowAbort = FALSE
  Bug = {"ZeroBothWhenOneEmpty"}
INVARIANTS TamperedMeansNoAppData
CHECK_DEADLOCK FALSE
