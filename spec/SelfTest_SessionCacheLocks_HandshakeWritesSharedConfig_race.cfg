\* non-vacuity: with Bug = {"HandshakeWritesSharedConfig"} TLC must report LocksetDiscipline violated
SPECIFICATION Spec
CONSTANTS
  Gor = {"g1", "g2", "g3"}
  Nobody = Nobody
  Ids = {"i1", "i2"}
  MaxOps = 2
  MaxOpsOf <- LimitsAll
  MaxVer = 1
  OpsOf <- RolesHandshake
  InitKinds = {"dead"}
  StoreExp = {"live"}
  Bug = {"HandshakeWritesSharedConfig"}
INVARIANTS LocksetDiscipline
CHECK_DEADLOCK FALSE
