SPECIFICATION DSpec
INVARIANT EmitVerdict
CHECK_DEADLOCK FALSE
