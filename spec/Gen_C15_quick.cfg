SPECIFICATION GenSpec
CONSTANTS
  MaxMsgsAB = 4
  MaxMsgsBA = 3
  MaxFrames = 2
  MaxCtr = 100
  StartCtrs = {0}
  PreFrames = {0}
  BaseEncs = {TRUE, FALSE}
  MaxFaults = 0
  MaxHandoffs = 1
  Bug = {}
  GenMode = "script"
  GenDepth = 0
  HandoffEnds = {"a", "b"}
  ScriptIds = {1, 2, 3, 4}
INVARIANT EmitTrace
CHECK_DEADLOCK FALSE
