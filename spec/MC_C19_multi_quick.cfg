\* C19 quick: two calls on one connection, scripts of 1..2 steps
SPECIFICATION LiveSpec
CONSTANTS
  Ns = {1, 2}
  Modes = {"duplex", "reuse"}
  Bug = {}
INVARIANTS TypeOK CancelledReturnClosesConn ErrorIdentity SuccessMeansAllDone FreshCtxNoCtxErr LiveCtxKeepsConnOpen
PROPERTIES ACancelledReturns ReuseFailsFast DuplexOtherReturns
CHECK_DEADLOCK FALSE
