\* non-vacuity: with the known wrong design "CountAlloc" TLC must report Bounded violated
SPECIFICATION Spec
CONSTANTS
  Bug = {"CountAlloc"}
  Families = {"ad"}
  Modes = {"plain","enc"}
  ExprMax = 1
  TokLen = 3
INVARIANTS TypeOK NoPanic Bounded CapHonoured CapFails
CHECK_DEADLOCK FALSE
