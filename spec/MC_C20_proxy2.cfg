\* C20 (proxy mode, 2 broker(s), <= 0 rogue connections / <= 2 broker messages)
SPECIFICATION Spec
CONSTANTS
  NB = 2
  MaxRogue = 0
  RogueKinds = {}
  MaxMsgs = 2
  Mode = "proxy"
  Bug = {}
INVARIANTS TypeOK ReturnedPresentedFreshId AtMostOneReturned OthersClosed BrokerFailureEndsAttempt
CHECK_DEADLOCK FALSE
