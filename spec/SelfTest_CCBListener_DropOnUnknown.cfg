\* non-vacuity: with Bug = {"DropOnUnknown"} TLC must report KeepsRegistration violated
SPECIFICATION Spec
CONSTANTS
  NB = 1
  MaxConn = 2
  MaxReq = 1
  MaxTick = 0
  MaxMsg = 1
  RegAnswers = {"fresh", "same", "refuse", "hangup"}
  Targets = {"accept", "refuse"}
  Msgs = {"unknown", "malformed"}
  Bug = {"DropOnUnknown"}
PROPERTY KeepsRegistration
CHECK_DEADLOCK FALSE
