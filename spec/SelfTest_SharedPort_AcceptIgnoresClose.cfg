\* non-vacuity: with Bug = {"AcceptIgnoresClose"} TLC must report PromptAfterClose violated
SPECIFICATION LiveSpec
CONSTANTS
  Mode = "listener"
  Origins = {"listen", "adopt"}
  MaxD = 2
  MaxAcc = 2
  MaxClose = 2
  Scripts <- MixScriptsTwo
  Shapes <- NoShapes
  ErrClasses = {}
  Bug = {"AcceptIgnoresClose"}
PROPERTIES PromptAfterClose
CHECK_DEADLOCK FALSE
