----------------------------- MODULE SessionCache -----------------------------
(***************************************************************************)
(* Session caches and session resumption of cedar's security package.      *)
(* Serves C06 (resumption requires the key, never revives a dead session;  *)
(* server view + a requester that may be an attacker) and C07 (a client    *)
(* reuses a cached session only for the same server, command and tag;      *)
(* client view + servers that can forget).                                 *)
(*                                                                         *)
(* One action per public call / critical section:                          *)
(*   Establish            = full ClientHandshake || ServerHandshake        *)
(*                          (createPostAuthAd/storeSession on the server)  *)
(*   Import               = MintClaimSession / ImportClaimSession /        *)
(*                          ImportFileTransferSession / Store of an entry  *)
(*                          flagged inherited, with a finite expiry        *)
(*   Resume, Replay       = ServerHandshake -> handleSessionResumption     *)
(*                          (LookupNonExpired, reply, RenewLease, key)     *)
(*                          followed by one application message each way   *)
(*   Renew                = SessionCache.Lookup + SessionEntry.RenewLease  *)
(*   Tick                 = virtual clock (bound to real entries by        *)
(*                          Store-ing a replacement entry, DESIGN 4)       *)
(*   SrvInvalidate/Sweep  = SessionCache.Invalidate / InvalidateExpired    *)
(*   Handshake(t,a,c)     = Authenticator.ClientHandshake (LookupByCommand,*)
(*                          resumeSession or performFullAuthentication +   *)
(*                          storeClientSession)                            *)
(*   Restart(a)           = the server at a loses its cache                *)
(*   BreakNext            = the next connection dies after the request     *)
(*   Expire/CliInvalidate/CliSweep = client entry past its expiry /        *)
(*                          Invalidate / InvalidateExpired                 *)
(*                                                                         *)
(* Cryptography is symbolic: a requester either holds the session key      *)
(* ("key"), some other key ("wrongkey") or none ("nokey"); a protected     *)
(* frame is accepted iff it was sealed with the session key FOR THIS       *)
(* CONNECTION (the intended design binds fresh per-connection values into  *)
(* the first frame, so a recorded frame never opens on another connection).*)
(*                                                                         *)
(* Where the statement is silent the model is permissive: a request from   *)
(* another address with the right key may be honoured or refused (honour), *)
(* and the reply to a refusal of a LIVE session (key-less, or foreign      *)
(* address) is unconstrained ("any").                                      *)
(***************************************************************************)
EXTENDS Integers, Sequences, FiniteSets, TLC

CONSTANTS
  Tags,        \* security tags; "none" is the empty tag
  Addrs,       \* server addresses
  Cmds,        \* commands
  ValidCmds,   \* the commands every server declares valid for a session (ValidCommands)
  MaxSid,      \* how many sessions may be minted
  MaxTime,     \* horizon of the virtual clock
  Duration,    \* lifetime of a fresh session (SessionDuration)
  Lease,       \* lifetime after a renewal (SessionLease)
  ImportOn,    \* BOOLEAN: sessions may also be minted / imported (flag inherited, expiry, no lease)
  MaxRec,      \* how many legitimate resumed connections are recorded for replay
  Bug          \* names of known wrong designs (empty = intended design)

ASSUME ValidCmds \subseteq Cmds /\ "none" \in Tags

NoSid   == 0
Sids    == 1..MaxSid
Triples == Tags \X Addrs \X Cmds
Empty   == [x \in {} |-> 0]

VARIABLES
  now,       \* virtual clock
  srv,       \* [Addrs -> (Sid -|-> [keyed, authed, exp])]   server caches
  cli,       \* [sess : Sid -|-> [addr, tag, exp],  map : Triple -|-> Sid]   client cache
  mayReuse,  \* Triple -|-> Sid : what the statement allows (reference map)
  nextSid,   \* next session id to mint
  brk,       \* the next connection breaks after the client's first message
  dead,      \* server view: ids that expired or were invalidated at some time
  gone,      \* client view: ids that expired, were invalidated or dropped at the client
  recs,      \* Seq([sid, want]) recorded legitimate resumed connections
  last       \* observation of the last step (the projection compared with the real code)

vars == <<now, srv, cli, mayReuse, nextSid, brk, dead, gone, recs, last>>

Alive(e)   == now <= e.exp
Rm(f, s)   == [x \in (DOMAIN f) \ {s} |-> f[x]]
Put(f, k, v) == [x \in (DOMAIN f) \cup {k} |-> IF x = k THEN v ELSE f[x]]
Keep(f, S) == [x \in (DOMAIN f) \cap S |-> f[x]]
NoEntry    == [keyed |-> FALSE, authed |-> FALSE, exp |-> -1, minted |-> FALSE]

IdVariants == {"exact", "oneoff", "unknown"}
Proofs     == {"key", "wrongkey", "nokey"}
Froms      == {"same", "other"}
\* a request from the original address is always honoured; from another address the
\* statement leaves it open (right key) - both outcomes are behaviours of the model
FromHonour == {<<"same", TRUE>>, <<"other", TRUE>>, <<"other", FALSE>>}

Init ==
  /\ now = 0
  /\ srv = [a \in Addrs |-> Empty]
  /\ cli = [sess |-> Empty, map |-> Empty]
  /\ mayReuse = Empty
  /\ nextSid = 1
  /\ brk = FALSE
  /\ dead = {}
  /\ gone = {}
  /\ recs = <<>>
  /\ last = [act |-> "Init"]

-----------------------------------------------------------------------------
(* Server side: handleSessionResumption                                     *)

\* LookupNonExpired: finds live entries only; an expired entry is removed on the way
SrvLookup(a, id) ==
  /\ id \in DOMAIN srv[a]
  /\ \/ Alive(srv[a][id])
     \/ "ExpiredResumed" \in Bug
     \/ (srv[a][id].minted /\ "InheritedNeverExpires" \in Bug)
SrvAfterMiss(a, id) ==
  IF id \in DOMAIN srv[a] /\ ~Alive(srv[a][id]) THEN [srv EXCEPT ![a] = Rm(srv[a], id)] ELSE srv
\* the decision: only sessions that carry a key are resumed
SrvResumes(a, id) == SrvLookup(a, id) /\ (srv[a][id].keyed \/ "KeylessResume" \in Bug)
\* RenewLease: an imported / minted session carries an expiry but no lease, it is not renewed
SrvRenewed(a, id) == IF srv[a][id].minted THEN srv ELSE [srv EXCEPT ![a][id].exp = now + Lease]

Reply(want, found, existedAlive) ==
  IF ~want THEN "none"
  ELSE IF found THEN "AUTHORIZED"
  ELSE IF "NoNotFoundReply" \in Bug THEN "none"
  ELSE IF existedAlive THEN "any"       \* refusal of a live session: reply not prescribed
  ELSE "SID_NOT_FOUND"

(* A resumption request.  tgt: an id minted at some time; idv: the identifier
   presented (exact / one character off / unrelated); proof: what key the
   requester holds; want: reply requested; from: same / other address than the
   connection that established the session.                                  *)
Resume(a, tgt, idv, proof, want, from, honour) ==
  /\ tgt \in 1..(nextSid - 1)
  /\ (from = "same") => honour
  /\ LET id       == IF idv = "exact" \/ (idv = "oneoff" /\ "FuzzyId" \in Bug) THEN tgt ELSE NoSid
         existed  == id \in DOMAIN srv[a]
         e        == IF existed THEN srv[a][id] ELSE NoEntry
         would    == id # NoSid /\ SrvResumes(a, id)
         found    == would /\ honour
         keyOn    == found /\ e.keyed
         \* whose bytes get through / who can read: the holder of the key; if the
         \* (wrong) design resumed a key-less session the stream is in the clear
         through  == found /\ (IF e.keyed THEN proof = "key" ELSE TRUE)
     IN
     /\ srv' = IF found THEN SrvRenewed(a, id) ELSE IF id # NoSid THEN SrvAfterMiss(a, id) ELSE srv
     /\ recs' = IF found /\ keyOn /\ proof = "key" /\ idv = "exact" /\ from = "same" /\ Len(recs) < MaxRec
                THEN Append(recs, [sid |-> id, want |-> want]) ELSE recs
     /\ last' = [act |-> "Resume", tgt |-> tgt, idv |-> idv, proof |-> proof, want |-> want, from |-> from,
                 perm |-> (from = "other" /\ would),
                 preExisted |-> existed, preAlive |-> existed /\ Alive(e),
                 preKeyed |-> existed /\ e.keyed, preAuthed |-> existed /\ e.authed,
                 preMinted |-> existed /\ e.minted,
                 wasDead |-> tgt \in dead,
                 res |-> IF found THEN "resumed" ELSE "refused",
                 reply |-> Reply(want, found, existed /\ Alive(e)),
                 keyOn |-> keyOn, accepted |-> through, readable |-> through,
                 authed |-> found /\ e.authed /\ "AuthNotRestored" \notin Bug,
                 recorded |-> recs' # recs]
  /\ UNCHANGED <<now, cli, mayReuse, nextSid, brk, dead, gone>>

(* Byte-for-byte replay of one direction of recorded connection i against a
   fresh connection.  dir = "c2s": the recorded client bytes are played to a
   fresh ServerHandshake; dir = "s2c": the recorded server bytes are played to
   a fresh ClientHandshake of a client that still caches the session.
   cut: "whole" | "afterHs" (handshake message only) | "midHs" | "midApp".
   The recorded request is a well-formed request for the session, so a server
   that still has the session may resume it; the protected frame that follows
   was bound to the ORIGINAL connection and is never accepted (intended).     *)
Cuts == {"whole", "afterHs", "midHs", "midApp"}
Replay(a, i, dir, cut) ==
  /\ i \in 1..Len(recs)
  /\ LET r        == recs[i]
         id       == r.sid
         existed  == id \in DOMAIN srv[a]
         e        == IF existed THEN srv[a][id] ELSE NoEntry
         parses   == cut # "midHs"
         found    == dir = "c2s" /\ parses /\ SrvResumes(a, id)
         stale    == \/ "NoFreshValue" \in Bug
                     \/ ("FreshOnlyWithReply" \in Bug /\ dir = "c2s" /\ ~r.want)
         through  == /\ cut = "whole" /\ stale
                     /\ IF dir = "c2s" THEN found ELSE r.want
     IN
     /\ srv' = IF found THEN SrvRenewed(a, id)
               ELSE IF dir = "c2s" /\ parses THEN SrvAfterMiss(a, id) ELSE srv
     /\ last' = [act |-> "Replay", rec |-> i, sid |-> id, want |-> r.want, dir |-> dir, cut |-> cut,
                 res |-> IF dir = "s2c" THEN "client"
                         ELSE IF found THEN "resumed" ELSE "refused",
                 reply |-> IF dir = "s2c" \/ ~parses THEN "any"
                           ELSE Reply(r.want, found, existed /\ Alive(e)),
                 preAlive |-> existed /\ Alive(e), preKeyed |-> existed /\ e.keyed,
                 preMinted |-> existed /\ e.minted,
                 wasDead |-> id \in dead,
                 keyOn |-> found /\ e.keyed,
                 accepted |-> through, readable |-> FALSE]
  /\ UNCHANGED <<now, cli, mayReuse, nextSid, brk, dead, gone, recs>>

(* Life cycle of server sessions (C06) *)
Establish(a, keyed, authed) ==
  /\ nextSid <= MaxSid
  /\ srv' = [srv EXCEPT ![a] = Put(srv[a], nextSid, [keyed |-> keyed, authed |-> authed, exp |-> now + Duration, minted |-> FALSE])]
  /\ nextSid' = nextSid + 1
  /\ last' = [act |-> "Establish", sid |-> nextSid, keyed |-> keyed, authed |-> authed]
  /\ UNCHANGED <<now, cli, mayReuse, brk, dead, gone, recs>>

(* The second way a server-side session comes into existence: it is minted or
   imported (MintClaimSession with a Lifetime, ImportClaimSession /
   ImportFileTransferSession with SessionExpires or Duration, a session inherited
   from the parent daemon, or an entry stored with SetInherited(true)): keyed,
   authenticated by possession of the secret, flagged inherited, with a finite
   expiry and NO lease.  Everything the statement says about expiry holds for it. *)
Import(a) ==
  /\ ImportOn
  /\ nextSid <= MaxSid
  /\ srv' = [srv EXCEPT ![a] = Put(srv[a], nextSid, [keyed |-> TRUE, authed |-> TRUE, exp |-> now + Duration, minted |-> TRUE])]
  /\ nextSid' = nextSid + 1
  /\ last' = [act |-> "Import", sid |-> nextSid]
  /\ UNCHANGED <<now, cli, mayReuse, brk, dead, gone, recs>>

AllSrvSids == UNION {DOMAIN srv[a] : a \in Addrs}
ExpOf(s) == LET a == CHOOSE x \in Addrs : s \in DOMAIN srv[x] IN srv[a][s].exp

Tick ==
  /\ now < MaxTime
  /\ now' = now + 1
  /\ dead' = dead \cup {s \in AllSrvSids : ExpOf(s) < now + 1}
  /\ last' = [act |-> "Tick"]
  /\ UNCHANGED <<srv, cli, mayReuse, nextSid, brk, gone, recs>>

\* the application looks the session up and renews its lease
Renew(a, s) ==
  /\ s \in DOMAIN srv[a]
  /\ Alive(srv[a][s]) \/ "RenewRevives" \in Bug
  /\ srv' = SrvRenewed(a, s)
  /\ last' = [act |-> "Renew", sid |-> s]
  /\ UNCHANGED <<now, cli, mayReuse, nextSid, brk, dead, gone, recs>>

SrvInvalidate(a, s) ==
  /\ s \in DOMAIN srv[a]
  /\ srv' = [srv EXCEPT ![a] = Rm(srv[a], s)]
  /\ dead' = dead \cup {s}
  /\ last' = [act |-> "SrvInvalidate", sid |-> s]
  /\ UNCHANGED <<now, cli, mayReuse, nextSid, brk, gone, recs>>

SrvSweep(a) ==
  /\ \E s \in DOMAIN srv[a] : ~Alive(srv[a][s])
  /\ srv' = [srv EXCEPT ![a] = Keep(srv[a], {s \in DOMAIN srv[a] : Alive(srv[a][s])})]
  /\ last' = [act |-> "SrvSweep"]
  /\ UNCHANGED <<now, cli, mayReuse, nextSid, brk, dead, gone, recs>>

-----------------------------------------------------------------------------
(* Client side (C07): LookupByCommand / storeClientSession / resumeSession  *)

A0 == CHOOSE a \in Addrs : TRUE
\* the key a mapping is filed / looked up under
Key(t, a, c) == << IF "TagIgnored" \in Bug THEN "none" ELSE t,
                   IF "AddrIgnored" \in Bug THEN A0 ELSE a, c >>
FileKey(t, a, c) == IF "FiledUnderEmptyTag" \in Bug THEN Key("none", a, c) ELSE Key(t, a, c)

\* parameterised by the cache and the clock so that generators can project the post-state
CliAliveOf(cl, nw, s) == s \in DOMAIN cl.sess /\ (nw <= cl.sess[s].exp \/ "ExpiredStillRouted" \in Bug)
RouteOf(cl, nw, t, a, c) ==
  LET k == Key(t, a, c) IN
  IF k \in DOMAIN cl.map /\ CliAliveOf(cl, nw, cl.map[k]) THEN cl.map[k] ELSE NoSid
CliAlive(s) == CliAliveOf(cli, now, s)
\* SessionCache.Lookup(id)
CliLookup(s) == CliAlive(s)
\* SessionCache.LookupByCommand(tag, addr, cmd): the session the next handshake would ride
Route(t, a, c) == RouteOf(cli, now, t, a, c)

MapWithout(m, s) == Keep(m, {k \in DOMAIN m : m[k] # s})
Dropped(s) == [sess |-> Rm(cli.sess, s), map |-> MapWithout(cli.map, s)]

Handshake(t, a, c) ==
  LET s == Route(t, a, c) IN
  IF s # NoSid
  THEN \* a cached session is found: try to resume it
    LET allowed == <<t, a, c>> \in DOMAIN mayReuse /\ mayReuse[<<t, a, c>>] = s
        ok      == ~brk /\ SrvResumes(a, s)
    IN
    /\ IF ok
       THEN /\ srv' = SrvRenewed(a, s)
            /\ cli' = [cli EXCEPT !.sess[s].exp = now + Lease]
            /\ UNCHANGED <<mayReuse, gone>>
       ELSE /\ srv' = IF brk THEN srv ELSE SrvAfterMiss(a, s)
            /\ IF "NoDropOnFailure" \in Bug
               THEN UNCHANGED <<cli, mayReuse, gone>>
               ELSE /\ cli' = Dropped(s)
                    /\ mayReuse' = MapWithout(mayReuse, s)
                    /\ gone' = gone \cup {s}
    /\ brk' = FALSE
    /\ last' = [act |-> "Handshake", tag |-> t, addr |-> a, cmd |-> c,
                out |-> IF ok THEN "resumed" ELSE IF brk THEN "resume_broken" ELSE "resume_notfound",
                sid |-> s, allowed |-> allowed]
    /\ UNCHANGED <<now, nextSid, dead, recs>>
  ELSE \* no route: full handshake
    IF brk
    THEN /\ brk' = FALSE
         /\ last' = [act |-> "Handshake", tag |-> t, addr |-> a, cmd |-> c,
                     out |-> "full_broken", sid |-> NoSid, allowed |-> TRUE]
         /\ UNCHANGED <<now, srv, cli, mayReuse, nextSid, dead, gone, recs>>
    ELSE /\ nextSid <= MaxSid
         /\ LET n == nextSid IN
            /\ srv' = [srv EXCEPT ![a] = Put(srv[a], n, [keyed |-> TRUE, authed |-> TRUE, exp |-> now + Duration, minted |-> FALSE])]
            /\ cli' = [sess |-> Put(cli.sess, n, [addr |-> a, tag |-> t, exp |-> now + Duration]),
                       map  |-> [k \in (DOMAIN cli.map) \cup {FileKey(t, a, v) : v \in ValidCmds} |->
                                   IF k \in {FileKey(t, a, v) : v \in ValidCmds} THEN n ELSE cli.map[k]]]
            /\ mayReuse' = [k \in (DOMAIN mayReuse) \cup {<<t, a, v>> : v \in ValidCmds} |->
                                   IF k \in {<<t, a, v>> : v \in ValidCmds} THEN n ELSE mayReuse[k]]
            /\ nextSid' = n + 1
            /\ last' = [act |-> "Handshake", tag |-> t, addr |-> a, cmd |-> c,
                        out |-> "full", sid |-> n, allowed |-> TRUE]
         /\ UNCHANGED <<now, brk, dead, gone, recs>>

Restart(a) ==
  /\ srv[a] # Empty
  /\ srv' = [srv EXCEPT ![a] = Empty]
  /\ last' = [act |-> "Restart", addr |-> a]
  /\ UNCHANGED <<now, cli, mayReuse, nextSid, brk, dead, gone, recs>>

BreakNext ==
  /\ ~brk
  /\ brk' = TRUE
  /\ last' = [act |-> "BreakNext"]
  /\ UNCHANGED <<now, srv, cli, mayReuse, nextSid, dead, gone, recs>>

\* the client's copy passes its expiry (virtual time, one session at a time)
Expire(s) ==
  /\ s \in DOMAIN cli.sess /\ Alive(cli.sess[s])
  /\ cli' = [cli EXCEPT !.sess[s].exp = now - 1]
  /\ mayReuse' = MapWithout(mayReuse, s)
  /\ gone' = gone \cup {s}
  /\ last' = [act |-> "Expire", sid |-> s]
  /\ UNCHANGED <<now, srv, nextSid, brk, dead, recs>>

CliInvalidate(s) ==
  /\ s \in DOMAIN cli.sess
  /\ cli' = Dropped(s)
  /\ mayReuse' = MapWithout(mayReuse, s)
  /\ gone' = gone \cup {s}
  /\ last' = [act |-> "CliInvalidate", sid |-> s]
  /\ UNCHANGED <<now, srv, nextSid, brk, dead, recs>>

CliSweep ==
  /\ \E s \in DOMAIN cli.sess : ~Alive(cli.sess[s])
  /\ LET live == {s \in DOMAIN cli.sess : Alive(cli.sess[s])} IN
     cli' = [sess |-> Keep(cli.sess, live), map |-> Keep(cli.map, {k \in DOMAIN cli.map : cli.map[k] \in live})]
  /\ last' = [act |-> "CliSweep"]
  /\ UNCHANGED <<now, srv, mayReuse, nextSid, brk, dead, gone, recs>>

-----------------------------------------------------------------------------
Next06 ==
  \E a \in Addrs :
    \/ \E k, au \in BOOLEAN : Establish(a, k, au)
    \/ Import(a)
    \/ Tick
    \/ \E s \in Sids : Renew(a, s) \/ SrvInvalidate(a, s)
    \/ SrvSweep(a)
    \/ \E s \in Sids, idv \in IdVariants, p \in Proofs, w \in BOOLEAN, fh \in FromHonour :
         Resume(a, s, idv, p, w, fh[1], fh[2])
    \/ \E i \in 1..MaxRec, d \in {"c2s", "s2c"}, cut \in Cuts : Replay(a, i, d, cut)

Next07 ==
  \/ \E t \in Tags, a \in Addrs, c \in Cmds : Handshake(t, a, c)
  \/ \E a \in Addrs : Restart(a)
  \/ BreakNext
  \/ \E s \in Sids : Expire(s) \/ CliInvalidate(s)
  \/ CliSweep

Spec06 == Init /\ [][Next06]_vars
Spec07 == Init /\ [][Next07]_vars

-----------------------------------------------------------------------------
(* An attacking connection (no key, wrong id, foreign address, replay) changes the
   caches only in ways a legitimate step also can (lease renewal = legitimate
   Resume, removal of an expired entry = SrvSweep), so exhaustive runs need not
   explore beyond it: CONSTRAINT LegitOnly makes such states leaves (TLC still
   checks the invariants on them).                                            *)
LegitOnly ==
  /\ last.act # "Replay"
  /\ last.act = "Resume" => (last.proof = "key" /\ last.idv = "exact" /\ last.from = "same")

\* VIEW for exhaustive runs: the observation matters to the invariants only when
\* the last step was a connection / a handshake
core == <<now, srv, cli, mayReuse, nextSid, brk, dead, gone, recs>>
McView == <<core, IF last.act \in {"Resume", "Replay", "Handshake"} THEN last ELSE [act |-> "-"]>>

(* C06 invariants: predicates over the observation of the last connection *)
IsConn == last.act \in {"Resume", "Replay"}

\* a session without a key is never resumed
ResumeOnlyKeyed == (IsConn /\ last.res = "resumed") => last.preKeyed
\* from the reply onwards everything on a resumed connection is under the session key
AllBytesAfterReplyProtected == (IsConn /\ last.res = "resumed") => last.keyOn
\* without the key (guessed id, or replayed traffic) not one byte is accepted as application data
NoKeyNoAcceptedByte ==
  /\ (last.act = "Resume" /\ last.accepted) => (last.proof = "key" /\ last.res = "resumed")
  /\ (last.act = "Replay") => ~last.accepted
\* ... nor is anything the server sends readable
NoKeyNoReadableByte ==
  /\ (last.act = "Resume" /\ last.readable) => (last.proof = "key" /\ last.res = "resumed")
  /\ (last.act = "Replay") => ~last.readable
\* expired / invalidated / never existing sessions are not resumed
DeadStaysDead ==
  (IsConn /\ last.res = "resumed") =>
     /\ last.preAlive
     /\ ~last.wasDead
     /\ (last.act = "Resume" => last.idv = "exact")
\* ... and a requester that asked is told so
ToldWhenAsked ==
  (last.act = "Resume" /\ last.res = "refused" /\ last.want /\ ~last.preAlive) => last.reply = "SID_NOT_FOUND"
\* both sides end with the same key, identity and authentication status
ResumedStateEqualsOriginal ==
  (last.act = "Resume" /\ last.res = "resumed" /\ last.proof = "key") =>
     /\ last.authed = last.preAuthed
     /\ last.accepted /\ last.readable

(* C07 invariants *)
IsAttempt == last.act = "Handshake" /\ last.out \in {"resumed", "resume_notfound", "resume_broken"}
\* a cached session is ridden only by the triple it may be reused for
ResumeOnlySameTriple ==
  /\ IsAttempt => last.allowed
  /\ \A k \in Triples : Route(k[1], k[2], k[3]) # NoSid =>
        (k \in DOMAIN mayReuse /\ mayReuse[k] = Route(k[1], k[2], k[3]))
\* after SID_NOT_FOUND or a broken exchange nothing reaches the session any more
FailureDropsEverything ==
  (last.act = "Handshake" /\ last.out \in {"resume_notfound", "resume_broken"}) =>
     /\ ~CliLookup(last.sid)
     /\ \A k \in Triples : Route(k[1], k[2], k[3]) # last.sid
\* invalidating or expiring a session removes every route to it
NoRouteToDeadSession ==
  /\ \A k \in Triples : Route(k[1], k[2], k[3]) \notin gone
  /\ \A s \in gone : ~CliLookup(s)

TypeOK ==
  /\ now \in 0..MaxTime
  /\ nextSid \in 1..(MaxSid + 1)
  /\ brk \in BOOLEAN
  /\ dead \subseteq Sids /\ gone \subseteq Sids
  /\ \A a \in Addrs : DOMAIN srv[a] \subseteq Sids
  /\ DOMAIN cli.sess \subseteq Sids
  /\ DOMAIN cli.map \subseteq Triples /\ DOMAIN mayReuse \subseteq Triples
  /\ Len(recs) <= MaxRec
=============================================================================
