\* C16 generator, quick: pairwise cover + every grammar-edge combination, secret same / corrupted
SPECIFICATION GenSpec
CONSTANTS
  Tier = "quick"
  SecretRels = {"same", "diff"}
  Bug = {}
INVARIANT EmitTrace
CHECK_DEADLOCK FALSE
