------------------------------ MODULE SSLShim ------------------------------
(***************************************************************************)
(* G04 - the SSL (TLS-over-CEDAR) authentication sub-protocol              *)
(* (security/ssl_auth.go; scitoken_auth.go rides on it).                   *)
(*                                                                         *)
(* cedar tunnels a TLS handshake inside CEDAR messages.  Both roles keep a *)
(* status (AUTH_SSL_A_OK 0, SENDING 1, RECEIVING 2, QUITTING 3, HOLDING 4, *)
(* ERROR -1, as in HTCondor's condor_auth_ssl.cpp) and a view of the       *)
(* peer's status, and run                                                  *)
(*                                                                         *)
(*   init      local initialisation (createTLSConfig), then the INITIAL    *)
(*             STATUS EXCHANGE: server sends its status (one integer),     *)
(*             client answers with its own; both must be OK;               *)
(*   tls       the TLS state machine through the CEDARTLSConnection shim:  *)
(*             every shim Write is one message `status + length + bytes`,  *)
(*             every shim Read receives one; TLS 1.2, four flights         *)
(*             (hello, shello, cfin, sfin) or an alert;                    *)
(*   conf1     confirmHandshakeCompletion: a side whose TLS step has       *)
(*             completed is HOLDING and says so; both must be HOLDING;     *)
(*   key       exchangeSessionKey: the server writes a fresh session key   *)
(*             through the TLS connection (one more record, server first); *)
(*   conf2     confirmHandshakeCompletion again.                           *)
(*                                                                         *)
(* One action = one message sent or one message received by one role (the  *)
(* status assignments the code makes around that call are part of the      *)
(* action), so that a recorded sequence of messages of two real endpoints  *)
(* can be validated line by line (SSLShim_Trace.tla).                      *)
(*                                                                         *)
(* The specification models the INTENDED protocol.  A role comes in two    *)
(* styles that a correct implementation must both interoperate with:       *)
(*   "cedar"    structured like ssl_auth.go: records in flight carry       *)
(*              SENDING; the server reports HOLDING in a separate          *)
(*              status + length(0) message after its last flight / after   *)
(*              the key record, then waits for the client's; the client    *)
(*              waits for that message unless the server's last record     *)
(*              already said HOLDING, then reports HOLDING itself;         *)
(*   "htcondor" the loop of condor_auth_ssl.cpp: a status is computed      *)
(*              BEFORE each send, so the server's last flight and the key  *)
(*              record already carry HOLDING and no separate message       *)
(*              follows; the client sends its HOLDING first and receives   *)
(*              afterwards only if the server has not been seen HOLDING.   *)
(*              This style may also take a scripted fault (cfg.fault): it  *)
(*              reports ERROR at the initial exchange, or QUITTING with no *)
(*              bytes in the middle of the TLS rounds or at a completion   *)
(*              check, and ends.                                           *)
(* Known-wrong designs are members of Bug (non-vacuity self-tests, and to   *)
(* recognise a known deviation of the real code as exactly that):          *)
(*   ServerNeverHolding  TODAY's cedar server role: at the completion      *)
(*                       check it sends the status the shim left behind    *)
(*                       (RECEIVING), as a bare integer, never HOLDING     *)
(*   SilentInitFailure   TODAY: a role whose credentials cannot be read    *)
(*                       returns before the initial status exchange        *)
(*   IgnorePeerQuitting  TODAY: the shim's Read never looks at the peer's  *)
(*                       status                                            *)
(*   StatusOnlyConfirm   the server says HOLDING, but without the length   *)
(*   SkipCertCheck       the client accepts any certificate                *)
(*   NoAlert             the client ends on a bad certificate silently     *)
(*   ClientAlwaysWaits   the client waits for a status message even when   *)
(*                       the server's last record already said HOLDING     *)
(*   ServerKeyDiffers    the server keeps another key than the one it sent *)
(*                                                                         *)
(* Invariants (end of the module): an honest pair with a valid chain never *)
(* fails and cannot stop early (HonestNeverFails, Progress), both reach    *)
(* HOLDING and hold the same key (Agreement), the client completes only if *)
(* it authenticated the certificate against its CA and server name         *)
(* (ServerAuthenticated), a certificate that does not verify makes both    *)
(* fail (BadCertFailsBoth, OneFailsBothFail), nobody waits for a message   *)
(* that will never come, whatever the peer reports (NoStuck,               *)
(* ErrorPropagates), nothing is left unread (NoStray), every message after *)
(* the initial exchange is status + length + bytes (RecordShape).          *)
(***************************************************************************)
EXTENDS Integers, Sequences, FiniteSets, TLC

CONSTANTS
  Bug,          \* set of known-wrong designs switched on
  CStyles,      \* styles of the client role to explore ("cedar", "htcondor")
  SStyles,      \* styles of the server role to explore
  Faults        \* set of scripted faults to explore ("none" included)

StylePairs == CStyles \X SStyles
Roles == {"c", "s"}
Peer(r) == IF r = "c" THEN "s" ELSE "c"

OK == "OK"  SENDING == "SENDING"  RECEIVING == "RECEIVING"
QUITTING == "QUITTING"  HOLDING == "HOLDING"  ERROR == "ERROR"
Statuses == {OK, SENDING, RECEIVING, QUITTING, HOLDING, ERROR}
Bad(st) == st \in {QUITTING, ERROR}

\* what a status says on the wire, to a receiver: the two in-flight values are one class
Class(st) == IF st \in {SENDING, RECEIVING} THEN "PROG" ELSE st

-----------------------------------------------------------------------------
(* configurations                                                            *)

SrvCerts == {"good", "wrongca", "wrongname", "expired", "notyet", "none"}
Trusts   == {"ca", "other", "none"}       \* the client's trust anchors
Names    == {"host", "otherhost", "address"}  \* the server name the client expects (address: it has no name, only an IP)
CliCerts == {"none", "client", "clientbad"}
Brokens  == {"none", "c", "s"}            \* whose credential files cannot be read
\* scripted faults of an htcondor-style role: <role>_err_init reports ERROR at the
\* initial exchange; <role>_quit_mid sends QUITTING and no bytes in place of its
\* second flight; c_quit_conf reports QUITTING at the first completion check,
\* s_quit_conf sends its last flight with QUITTING
AllFaults == {"none", "c_err_init", "s_err_init", "c_quit_mid", "s_quit_mid", "c_quit_conf", "s_quit_conf"}

\* every combination of certificate class, trust anchors and expected name; the
\* other dimensions one at a time around the honest configuration
Honest == [srvCert |-> "good", trust |-> "ca", name |-> "host", cliCert |-> "none", broken |-> "none"]
CertConfigs ==
  { [Honest EXCEPT !.srvCert = sc, !.trust = t, !.name = n] : sc \in SrvCerts, t \in Trusts, n \in Names }
  \cup { [Honest EXCEPT !.cliCert = cc] : cc \in CliCerts }
  \cup { [Honest EXCEPT !.broken = b] : b \in Brokens }
  \cup { [Honest EXCEPT !.broken = b, !.srvCert = "wrongca"] : b \in Brokens }

FaultRole(f) == IF f \in {"c_err_init", "c_quit_mid", "c_quit_conf"} THEN "c"
                ELSE IF f \in {"s_err_init", "s_quit_mid", "s_quit_conf"} THEN "s" ELSE "-"
FaultKind(f) == IF f \in {"c_err_init", "s_err_init"} THEN "err_init"
                ELSE IF f \in {"c_quit_mid", "s_quit_mid"} THEN "quit_mid"
                ELSE IF f \in {"c_quit_conf", "s_quit_conf"} THEN "quit_conf" ELSE "none"

\* a scripted fault needs an htcondor-style (scripted) role; faults are only
\* explored on top of the honest certificate configuration
Configs ==
  { [base |-> b, cstyle |-> sp[1], sstyle |-> sp[2], fault |-> "none"] : b \in CertConfigs, sp \in StylePairs }
  \cup { x \in { [base |-> Honest, cstyle |-> sp[1], sstyle |-> sp[2], fault |-> f] :
                     sp \in StylePairs, f \in Faults \ {"none"} } :
             (FaultRole(x.fault) = "c" /\ x.cstyle = "htcondor") \/ (FaultRole(x.fault) = "s" /\ x.sstyle = "htcondor") }

\* the certificate classes: who signed it, whom it names, whether it is valid now
Issuer(sc)  == IF sc = "wrongca" THEN "other" ELSE "ca"
Subject(sc) == IF sc = "wrongname" THEN "otherhost" ELSE "host"
InTime(sc)  == sc \notin {"expired", "notyet"}
\* the server's certificate chain verifies against the client's CA and server name
\* (so a certificate of the "other" CA is fine for a client that trusts that CA, etc.)
CertValid(c) == /\ c.base.srvCert # "none" /\ InTime(c.base.srvCert)
                /\ Issuer(c.base.srvCert) = c.base.trust
                /\ Subject(c.base.srvCert) = c.base.name

-----------------------------------------------------------------------------
VARIABLES
  cfg,     \* the configuration (constant along a behaviour)
  pc,      \* pc[r]: where role r stands
  own,     \* own[r]: r's own status variable (clientStatus at the client, serverStatus at the server)
  view,    \* view[r]: r's copy of the peer's status
  inbox,   \* inbox[r]: messages sent to r and not yet received
  key,     \* key[r]: the session key r holds ("none", "K", "K2")
  hist     \* ghost: facts about the past the invariants speak about

vars == <<cfg, pc, own, view, inbox, key, hist>>

Terminal == {"done", "failed"}
Style(r) == IF r = "c" THEN cfg.cstyle ELSE cfg.sstyle
Fault(r, kind) == cfg.fault # "none" /\ FaultRole(cfg.fault) = r /\ FaultKind(cfg.fault) = kind
IsBroken(r) == cfg.base.broken = r

Bare(st) == [shape |-> "int", st |-> st, data |-> "none"]
Rec(st, d) == [shape |-> "rec", st |-> st, data |-> d]

\* receive states: the role is blocked in a read
RecvPcs == {"rxInit", "rxHello", "rxShello", "rxCfin", "rxSfin", "conf1rx", "rxKey", "conf2rx"}
Waiting(r) == pc[r] \in RecvPcs

\* createTLSConfig makes no message.  A role whose credentials cannot be read
\* still takes part in the initial status exchange, reporting ERROR (HTCondor
\* shares the outcome of its initialisation there).  Bug SilentInitFailure
\* (today's code): it returns at once and tells nobody.
InitStatusOf(c, r) == IF c.base.broken = r \/ (c.fault # "none" /\ FaultRole(c.fault) = r /\ FaultKind(c.fault) = "err_init")
                      THEN ERROR ELSE OK
SilentOf(c, r) == c.base.broken = r /\ (IF r = "c" THEN c.cstyle ELSE c.sstyle) = "cedar" /\ "SilentInitFailure" \in Bug

InitPc(c)  == [r \in Roles |-> IF r = "c" /\ ~SilentOf(c, "c") THEN "rxInit" ELSE "init"]
InitOwn(c) == [r \in Roles |-> IF r = "c" THEN InitStatusOf(c, "c") ELSE OK]
InitView   == [r \in Roles |-> OK]
InitInbox  == [r \in Roles |-> << >>]
InitKey    == [r \in Roles |-> "none"]
InitHist   == [intAfterInit |-> FALSE, sawBad |-> {}, aborted |-> {}, cfinSent |-> FALSE]

Init ==
  /\ cfg \in Configs
  \* the client's first step is a read (no action of its own for the initialisation)
  /\ pc = InitPc(cfg)
  /\ own = InitOwn(cfg)
  /\ view = InitView
  /\ inbox = InitInbox
  /\ key = InitKey
  /\ hist = InitHist

Send(r, m) == inbox' = [inbox EXCEPT ![Peer(r)] = Append(@, m)]

\* in-flight status a record carries: cedar's shim sets SENDING before it sends,
\* HTCondor's loop sends the status SSL_connect / SSL_accept left (want-read)
Flight(r) == IF Style(r) = "cedar" THEN SENDING ELSE RECEIVING

-----------------------------------------------------------------------------
(* local initialisation: no message                                          *)

InitStatus(r) == InitStatusOf(cfg, r)
Silent(r) == SilentOf(cfg, r)

\* the role gives up locally without telling anybody
SilentFail(r) ==
  /\ pc[r] = "init" /\ Silent(r)
  /\ pc' = [pc EXCEPT ![r] = "failed"]
  /\ UNCHANGED <<cfg, own, view, inbox, key, hist>>

-----------------------------------------------------------------------------
(* initial status exchange                                                   *)

STxInit ==
  /\ pc["s"] = "init" /\ ~Silent("s")
  /\ own' = [own EXCEPT !["s"] = InitStatus("s")]
  /\ Send("s", Bare(InitStatus("s")))
  /\ pc' = [pc EXCEPT !["s"] = "rxInit"]
  /\ UNCHANGED <<cfg, view, key, hist>>

Pop(r) == inbox' = [inbox EXCEPT ![r] = Tail(@)]
Head1(r) == Head(inbox[r])
NoteBad(r, m) == IF Bad(m.st) THEN [hist EXCEPT !.sawBad = @ \cup {r}] ELSE hist

CRxInit ==
  /\ pc["c"] = "rxInit" /\ inbox["c"] # << >>
  /\ LET m == Head1("c") IN
       /\ view' = [view EXCEPT !["c"] = m.st]
       /\ hist' = NoteBad("c", m)
  /\ Pop("c")
  /\ pc' = [pc EXCEPT !["c"] = "txInit"]
  /\ UNCHANGED <<cfg, own, key>>

CTxInit ==
  /\ pc["c"] = "txInit"
  /\ Send("c", Bare(own["c"]))
  /\ pc' = [pc EXCEPT !["c"] = IF own["c"] = OK /\ view["c"] = OK THEN "hello" ELSE "failed"]
  /\ UNCHANGED <<cfg, own, view, key, hist>>

SRxInit ==
  /\ pc["s"] = "rxInit" /\ inbox["s"] # << >>
  /\ LET m == Head1("s") IN
       /\ view' = [view EXCEPT !["s"] = m.st]
       /\ hist' = NoteBad("s", m)
       /\ pc' = [pc EXCEPT !["s"] = IF own["s"] = OK /\ m.st = OK THEN "rxHello" ELSE "failed"]
  /\ Pop("s")
  /\ UNCHANGED <<cfg, own, key>>

-----------------------------------------------------------------------------
(* TLS rounds through the shim                                               *)

\* shim Write: status := SENDING, one message, status := RECEIVING
TxRec(r, st, d, next) ==
  /\ Send(r, Rec(st, d))
  /\ own' = [own EXCEPT ![r] = IF Style(r) = "cedar" THEN RECEIVING ELSE st]
  /\ pc' = [pc EXCEPT ![r] = next]

\* shim Read: one message `status + length + bytes`.  A message that is a bare
\* integer cannot be read as a record (the length is missing): the TLS step fails.
\* The peer's status is looked at: QUITTING / ERROR ends the method (HTCondor
\* checks it after every exchange).  Bug IgnorePeerQuitting: it is stored and
\* ignored, so a record without bytes leaves the TLS engine asking for more.
RxOutcome(r, m, want, onData, onAlert) ==
  IF m.shape # "rec" THEN "failed"
  ELSE IF Bad(m.st) /\ ~(Style(r) = "cedar" /\ "IgnorePeerQuitting" \in Bug) THEN "failed"
  ELSE IF m.data = want THEN onData
  ELSE IF m.data = "alert" THEN onAlert
  ELSE IF m.data = "none" THEN pc[r]      \* no bytes: the TLS engine reads again
  ELSE "failed"

RxRec(r, want, onData, onAlert) ==
  /\ inbox[r] # << >>
  /\ LET m == Head1(r) IN
       /\ view' = [view EXCEPT ![r] = IF m.shape = "rec" THEN m.st ELSE @]
       /\ hist' = NoteBad(r, m)
       /\ own' = [own EXCEPT ![r] = IF Style(r) = "cedar" /\ m.shape = "rec" THEN SENDING ELSE @]
       /\ pc' = [pc EXCEPT ![r] = RxOutcome(r, m, want, onData, onAlert)]
  /\ Pop(r)

\* --- client ---
CHello ==
  /\ pc["c"] = "hello"
  /\ TxRec("c", Flight("c"), "hello", "rxShello")
  /\ UNCHANGED <<cfg, view, key, hist>>

\* the scripted client gives up in the middle: QUITTING, no bytes
CQuitMid ==
  /\ pc["c"] = "verify" /\ Fault("c", "quit_mid")
  /\ TxRec("c", QUITTING, "none", "failed")
  /\ UNCHANGED <<cfg, view, key, hist>>

CRxShello ==
  /\ pc["c"] = "rxShello"
  /\ RxRec("c", "shello", "verify", "failed")
  /\ UNCHANGED <<cfg, key>>

\* the client verifies the server's certificate against its CA and server name
\* (crypto/tls: RootCAs + ServerName) and answers with its last flight, or with an alert
Accepts == CertValid(cfg) \/ "SkipCertCheck" \in Bug
CCfin ==
  /\ pc["c"] = "verify" /\ ~Fault("c", "quit_mid") /\ Accepts
  /\ TxRec("c", Flight("c"), "cfin", "rxSfin")
  /\ hist' = [hist EXCEPT !.cfinSent = TRUE]
  /\ UNCHANGED <<cfg, view, key>>

CAlert ==
  /\ pc["c"] = "verify" /\ ~Fault("c", "quit_mid") /\ ~Accepts /\ "NoAlert" \notin Bug
  /\ TxRec("c", IF Style("c") = "cedar" THEN SENDING ELSE QUITTING, "alert", "failed")
  /\ UNCHANGED <<cfg, view, key, hist>>

CNoAlert ==      \* Bug NoAlert: the client ends without telling the server
  /\ pc["c"] = "verify" /\ ~Accepts /\ "NoAlert" \in Bug
  /\ pc' = [pc EXCEPT !["c"] = "failed"]
  /\ UNCHANGED <<cfg, own, view, inbox, key, hist>>

\* after the server's last flight the client's TLS step is complete.  cedar
\* style: wait for the server's status message unless that flight already said
\* HOLDING (Bug ClientAlwaysWaits: wait regardless).  htcondor style: send first.
AfterFin(st, rx, tx) ==
  IF Style("c") = "htcondor" THEN tx
  ELSE IF st = HOLDING /\ "ClientAlwaysWaits" \notin Bug THEN tx ELSE rx

CRxSfin ==
  /\ pc["c"] = "rxSfin"
  /\ inbox["c"] # << >>
  /\ RxRec("c", "sfin", AfterFin(Head1("c").st, "conf1rx", "conf1tx"), "failed")
  /\ UNCHANGED <<cfg, key>>

\* --- server ---
SRxHello ==
  /\ pc["s"] = "rxHello"
  /\ RxRec("s", "hello", IF cfg.base.srvCert = "none" THEN "alert" ELSE "shello", "failed")
  /\ UNCHANGED <<cfg, key>>

SShello ==
  /\ pc["s"] = "shello" /\ ~Fault("s", "quit_mid")
  /\ TxRec("s", Flight("s"), "shello", "rxCfin")
  /\ UNCHANGED <<cfg, view, key, hist>>

SQuitMid ==
  /\ pc["s"] = "shello" /\ Fault("s", "quit_mid")
  /\ TxRec("s", QUITTING, "none", "failed")
  /\ UNCHANGED <<cfg, view, key, hist>>

SAlert ==        \* no certificate to present: the server's TLS engine answers with an alert
  /\ pc["s"] = "alert"
  /\ TxRec("s", IF Style("s") = "cedar" THEN SENDING ELSE QUITTING, "alert", "failed")
  /\ UNCHANGED <<cfg, view, key, hist>>

\* cedar's server does not ask for a client certificate (anonymous clients), so
\* what the client has configured makes no difference
SRxCfin ==
  /\ pc["s"] = "rxCfin"
  /\ RxRec("s", "cfin", "sfin", "failed")
  /\ UNCHANGED <<cfg, key>>

\* the server's last flight.  htcondor style: SSL_accept has returned before the
\* flight is sent, so it already carries HOLDING and the server goes on to receive.
\* (the scripted fault quit_conf: the flight goes out, but with QUITTING)
SSfin ==
  /\ pc["s"] = "sfin"
  /\ IF Style("s") = "htcondor"
     THEN LET st == IF Fault("s", "quit_conf") THEN QUITTING ELSE HOLDING IN
          /\ Send("s", Rec(st, "sfin"))
          /\ own' = [own EXCEPT !["s"] = st]
          /\ pc' = [pc EXCEPT !["s"] = IF st = QUITTING THEN "failed" ELSE "conf1rx"]
     ELSE TxRec("s", SENDING, "sfin", "conf1tx")
  /\ UNCHANGED <<cfg, view, key, hist>>

-----------------------------------------------------------------------------
(* confirmHandshakeCompletion (n = 1 after the handshake, 2 after the key)   *)

Conf(n, s) == IF n = 1 THEN (IF s = "rx" THEN "conf1rx" ELSE "conf1tx")
              ELSE (IF s = "rx" THEN "conf2rx" ELSE "conf2tx")
AfterConf(r, n) == IF n = 1 THEN (IF r = "c" THEN "rxKey" ELSE "key") ELSE "done"

\* cedar server: its TLS step has completed, so it is HOLDING (unless it has
\* deliberately set QUITTING / ERROR) and says so in a status + length(0) message.
\* Bug ServerNeverHolding (today's code): it sends the status the shim left behind
\* (RECEIVING after a Write), as a bare integer.
\* Bug StatusOnlyConfirm: HOLDING, but as a bare integer.
SConfTx(n) ==
  /\ pc["s"] = Conf(n, "tx") /\ Style("s") = "cedar"
  /\ LET st == IF "ServerNeverHolding" \in Bug THEN own["s"]
               ELSE IF Bad(own["s"]) THEN own["s"] ELSE HOLDING
         m  == IF "ServerNeverHolding" \in Bug \/ "StatusOnlyConfirm" \in Bug THEN Bare(st) ELSE Rec(st, "none")
     IN /\ Send("s", m)
        /\ own' = [own EXCEPT !["s"] = st]
        /\ hist' = [hist EXCEPT !.intAfterInit = @ \/ m.shape = "int"]
  /\ pc' = [pc EXCEPT !["s"] = Conf(n, "rx")]
  /\ UNCHANGED <<cfg, view, key>>

\* a status message is read with one GetInt: either shape will do (cedar);
\* HTCondor's receive_message wants status + length
ConfRx(r, n, next(_)) ==
  /\ pc[r] = Conf(n, "rx") /\ inbox[r] # << >>
  /\ LET m == Head1(r)
         readable == m.shape = "rec" \/ Style(r) = "cedar"
     IN /\ view' = [view EXCEPT ![r] = IF readable THEN m.st ELSE @]
        /\ hist' = NoteBad(r, m)
        /\ pc' = [pc EXCEPT ![r] = IF ~readable THEN "failed" ELSE next(m.st)]
  /\ Pop(r)

SConfRx(n) ==
  /\ ConfRx("s", n, LAMBDA st : IF st = HOLDING /\ own["s"] = HOLDING THEN AfterConf("s", n) ELSE "failed")
  /\ UNCHANGED <<cfg, own, key>>

\* cedar client: receive (if it has to), then report HOLDING, then compare
CConfRx(n) ==
  /\ Style("c") = "cedar"
  /\ ConfRx("c", n, LAMBDA st : Conf(n, "tx"))
  /\ UNCHANGED <<cfg, own, key>>

CConfTx(n) ==
  /\ pc["c"] = Conf(n, "tx") /\ Style("c") = "cedar"
  /\ Send("c", Rec(HOLDING, "none"))
  /\ own' = [own EXCEPT !["c"] = HOLDING]
  /\ pc' = [pc EXCEPT !["c"] = IF view["c"] = HOLDING THEN AfterConf("c", n) ELSE "failed"]
  /\ UNCHANGED <<cfg, view, key, hist>>

\* htcondor client: its TLS step has completed: HOLDING, send; then receive only
\* if the server has not been seen HOLDING yet
HConfTx(n) ==
  /\ pc["c"] = Conf(n, "tx") /\ Style("c") = "htcondor"
  /\ LET st == IF Fault("c", "quit_conf") /\ n = 1 THEN QUITTING ELSE HOLDING IN
       /\ Send("c", Rec(st, "none"))
       /\ own' = [own EXCEPT !["c"] = st]
       /\ pc' = [pc EXCEPT !["c"] = IF st = QUITTING THEN "failed"
                                     ELSE IF view["c"] = HOLDING THEN AfterConf("c", n)
                                     ELSE Conf(n, "rx")]
  /\ UNCHANGED <<cfg, view, key, hist>>

HConfRx(n) ==
  /\ Style("c") = "htcondor"
  /\ ConfRx("c", n, LAMBDA st : IF st = HOLDING THEN AfterConf("c", n) ELSE "failed")
  /\ UNCHANGED <<cfg, own, key>>

-----------------------------------------------------------------------------
(* exchangeSessionKey: the server writes the key through the TLS connection  *)

SKey ==
  /\ pc["s"] = "key"
  /\ IF Style("s") = "htcondor"
     THEN /\ Send("s", Rec(HOLDING, "key"))
          /\ own' = [own EXCEPT !["s"] = HOLDING]
          /\ pc' = [pc EXCEPT !["s"] = "conf2rx"]
     ELSE TxRec("s", SENDING, "key", "conf2tx")
  /\ key' = [key EXCEPT !["s"] = IF "ServerKeyDiffers" \in Bug THEN "K2" ELSE "K"]
  /\ UNCHANGED <<cfg, view, hist>>

CRxKey ==
  /\ pc["c"] = "rxKey"
  /\ inbox["c"] # << >>
  /\ RxRec("c", "key", AfterFin(Head1("c").st, "conf2rx", "conf2tx"), "failed")
  /\ key' = [key EXCEPT !["c"] = IF Head1("c").data = "key" /\ RxOutcome("c", Head1("c"), "key", "ok", "failed") = "ok"
                                   THEN "K" ELSE @]
  /\ UNCHANGED cfg

-----------------------------------------------------------------------------
(* the connection is dropped by a side that has ended in failure (every      *)
(* caller of a failed handshake closes it or moves on to the next method);   *)
(* a role blocked in a read then ends too.  The intended protocol never      *)
(* needs this: every failure is announced by a message (NoStuck).            *)

Stuck(r) == Waiting(r) /\ inbox[r] = << >> /\ pc[Peer(r)] \in Terminal

Abort(r) ==
  /\ Stuck(r) /\ pc[Peer(r)] = "failed"
  /\ pc' = [pc EXCEPT ![r] = "failed"]
  /\ hist' = [hist EXCEPT !.aborted = @ \cup {r}]
  /\ UNCHANGED <<cfg, own, view, inbox, key>>

CNext ==
  \/ SilentFail("c") \/ Abort("c")
  \/ CRxInit \/ CTxInit \/ CHello \/ CRxShello \/ CQuitMid \/ CCfin \/ CAlert \/ CNoAlert \/ CRxSfin
  \/ \E n \in {1, 2} : CConfRx(n) \/ CConfTx(n) \/ HConfTx(n) \/ HConfRx(n)
  \/ CRxKey

SNext ==
  \/ SilentFail("s") \/ Abort("s")
  \/ STxInit \/ SRxInit \/ SRxHello \/ SShello \/ SQuitMid \/ SAlert \/ SRxCfin \/ SSfin
  \/ \E n \in {1, 2} : SConfTx(n) \/ SConfRx(n)
  \/ SKey

Next == CNext \/ SNext

\* the message event of a step: every action sends one message, receives one, or
\* is local to one role (it gives up silently / it is cut loose by the peer's end)
DataClass(d) == IF d \in {"hello", "shello", "cfin", "sfin"} THEN "flight" ELSE IF d = "key" THEN "app" ELSE d
Proj(m) == [shape |-> m.shape, st |-> Class(m.st), data |-> DataClass(m.data),
            est |-> m.st, edata |-> m.data]    \* (the exact status / content, for scripted peers)
StepEvent ==
  IF \E r \in Roles : Len(inbox'[r]) > Len(inbox[r])
  THEN LET r == CHOOSE x \in Roles : Len(inbox'[x]) > Len(inbox[x])
       IN [ev |-> "send", role |-> Peer(r), msg |-> Proj(inbox'[r][Len(inbox'[r])])]
  ELSE IF \E r \in Roles : Len(inbox'[r]) < Len(inbox[r])
  THEN LET r == CHOOSE x \in Roles : Len(inbox'[x]) < Len(inbox[x])
       IN [ev |-> "recv", role |-> r, msg |-> Proj(Head(inbox[r]))]
  ELSE LET r == CHOOSE x \in Roles : pc'[x] # pc[x]
       IN [ev |-> "local", role |-> r,
           msg |-> [shape |-> IF r \in hist'.aborted THEN "abort" ELSE "giveup", st |-> "-", data |-> "-",
                    est |-> "-", edata |-> "-"]]

\* how a role has ended, as an observer of the real code can tell
Outcome(r) == IF pc[r] = "done" THEN "done"
              ELSE IF pc[r] = "failed" THEN (IF r \in hist.aborted THEN "aborted" ELSE "failed")
              ELSE "hang"

Spec == Init /\ [][Next]_vars

-----------------------------------------------------------------------------
(* invariants                                                                *)

Pcs == {"init", "rxInit", "txInit", "hello", "rxShello", "verify", "rxSfin", "rxHello", "shello", "alert",
        "rxCfin", "sfin", "conf1rx", "conf1tx", "rxKey", "key", "conf2rx", "conf2tx", "done", "failed"}

TypeOK ==
  /\ \A r \in Roles : pc[r] \in Pcs /\ own[r] \in Statuses /\ view[r] \in Statuses
                      /\ key[r] \in {"none", "K", "K2"} /\ Len(inbox[r]) <= 3
  /\ hist.sawBad \subseteq Roles /\ hist.aborted \subseteq Roles

BothTerminal == \A r \in Roles : pc[r] \in Terminal
BothDone == \A r \in Roles : pc[r] = "done"
Clean == cfg.base.broken = "none" /\ cfg.fault = "none"

\* an honest pair with a valid chain completes: nobody fails ...
HonestNeverFails == (Clean /\ CertValid(cfg)) => \A r \in Roles : pc[r] # "failed"
\* ... and the protocol cannot stop before both have ended (no deadlock: no side
\* waits for a message the other will never send)
Progress == (~ENABLED Next) => BothTerminal
\* a role never sits in a read with nothing coming while the peer has ended: a
\* side that ends (well or badly) has told the other side in the protocol itself
NoStuck == \A r \in Roles : ~Stuck(r)
\* when both have completed every message was consumed: nothing is left on the
\* stream that the next stage of the CEDAR handshake (exchangeKey) would misread
NoStray == BothDone => \A r \in Roles : inbox[r] = << >>
\* both reach HOLDING and derive the same session key
Agreement == BothDone => /\ \A r \in Roles : own[r] = HOLDING /\ view[r] = HOLDING
                         /\ key["c"] = "K" /\ key["s"] = "K"
\* the client completes only if it authenticated the server's certificate against
\* its CA and server name; it does not even send its last flight otherwise
ServerAuthenticated == (pc["c"] = "done" \/ hist.cfinSent) => CertValid(cfg)
\* a certificate that does not verify makes the CLIENT fail and the server learn it
BadCertFailsBoth == (~CertValid(cfg) /\ BothTerminal) => \A r \in Roles : pc[r] = "failed"
OneFailsBothFail == BothTerminal => (pc["c"] = "done" <=> pc["s"] = "done")
\* a role that has seen the peer report QUITTING / ERROR does not complete
ErrorPropagates == \A r \in hist.sawBad : pc[r] # "done"
\* after the initial exchange every message is status + length + bytes
RecordShape == ~hist.intAfterInit
=============================================================================
