\* non-vacuity: with the known-wrong design "SkipCertCheck" switched on TLC must report ServerAuthenticated violated
SPECIFICATION Spec
CONSTANTS
  Bug = {"SkipCertCheck"}
  CStyles = {"cedar"}
  SStyles = {"cedar"}
  Faults = {"none"}
INVARIANTS TypeOK ServerAuthenticated
CHECK_DEADLOCK FALSE
