\* C19 generator: abstract script of 3 steps, every stall position, every context kind
SPECIFICATION GenSpec
CONSTANTS
  Ns = {3}
  Kinds = {"cancel", "deadline", "derived", "background"}
  Bug = {}
INVARIANT EmitTrace
CHECK_DEADLOCK FALSE
