\* G01 quick (request servicing): 2 connections, 2 concurrent requests, every target
SPECIFICATION Spec
CONSTANTS
  NB = 1
  MaxConn = 2
  MaxReq = 2
  MaxTick = 0
  MaxMsg = 1
  RegAnswers = {"fresh", "same", "refuse", "hangup"}
  Targets = {"accept", "refuse", "noaddr"}
  Msgs = {"unknown", "malformed"}
  Bug = {}
INVARIANTS TypeOK PresentsLastCookie ContactIsGrant HelloCarriesOwnId AtMostOneReply ReplyMatchesOutcome EveryRequestAnswered ReplyOnOwnOrLaterConn WritesSerialised NoWedge StoppedClean OneConnPerBroker

PROPERTY KeepsRegistration
CHECK_DEADLOCK FALSE
