\* non-vacuity self-test: with the known-wrong design "ServerProofNoNonce" TLC must report an invariant violated
SPECIFICATION Spec
CONSTANTS
  Bug = {"ServerProofNoNonce"}
  Kinds <- AllKinds
  VKinds <- AllVKinds
INVARIANTS TypeOK ServerOkImpliesClientKnewSig ServerOkImpliesTokenCurrent ServerIdentityIsSubject
           ClientOkImpliesServerKnewSig VerifyAcceptsExactly HonestRunSucceeds
CHECK_DEADLOCK FALSE
