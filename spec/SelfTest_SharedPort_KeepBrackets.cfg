\* non-vacuity: with Bug = {"KeepBrackets"} TLC must report ServerClean violated
SPECIFICATION Spec
CONSTANTS
  Mode = "route"
  Origins = {"listen"}
  MaxD = 1
  MaxAcc = 1
  MaxClose = 1
  Scripts <- QuickScripts
  Shapes <- RouteShapesQuick
  ErrClasses = {}
  Bug = {"KeepBrackets"}
INVARIANTS ServerClean
CHECK_DEADLOCK FALSE
