\* C17: conflict relation of the operations (2 goroutines x 1 operation, every operation kind)
SPECIFICATION GenSpec
CONSTANTS
  Gor = {"g1", "g2"}
  Nobody = Nobody
  Ids = {"i1"}
  MaxOps = 1
  MaxOpsOf <- LimitsAll
  MaxVer = 1
  OpsOf <- RolesAll
  InitKinds = {"live", "dead"}
  StoreExp = {"live"}
  Bug = {}
INVARIANT EmitTrace
CHECK_DEADLOCK FALSE
