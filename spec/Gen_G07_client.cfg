\* G07 generator, client (thorough): 3 calls, deadline contexts as well
SPECIFICATION GenSpecC
CONSTANTS
  Hows = {"new", "ca"}
  Routes = {"direct", "shared", "ccb"}
  Secs = {"none", "sec"}
  EnvsNew = {"absent", "dialstall", "stall"}
  EnvsCA = {"absent", "dialstall", "close", "stall", "garbage", "serve", "reject"}
  Ctxs = {"live", "pre", "during", "deadline"}
  MaxCalls = 3
  MaxSock = 3
  MaxConn = 0
  Kinds = {}
  MaxEnvS = 0
  Bug = {"StaleIsConnected", "ReconnectLeaks", "SharedPortDialIgnoresCtx"}
INVARIANT EmitC
CHECK_DEADLOCK FALSE
