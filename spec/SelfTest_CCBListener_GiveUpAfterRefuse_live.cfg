\* non-vacuity: with Bug = {"GiveUpAfterRefuse"} TLC must report FailureLeadsToRetry violated (liveness, LiveSpec)
SPECIFICATION LiveSpec
CONSTANTS
  NB = 1
  MaxConn = 2
  MaxReq = 0
  MaxTick = 0
  MaxMsg = 1
  RegAnswers = {"fresh", "same", "refuse", "hangup"}
  Targets = {"accept", "refuse"}
  Msgs = {"malformed"}
  Bug = {"GiveUpAfterRefuse"}
PROPERTY FailureLeadsToRetry
CHECK_DEADLOCK FALSE
