\* C10: the whole product 4^4 levels x 8x8 method-list shapes x 4x4 cipher lists x command present / auth-only
\* (524 288 configurations), honest wire, no spontaneous aborts, EVERY interleaving of the two ends.
\* Run as parallel TLC processes, one per client authentication level (environment C10_CAUTH; C10_SAUTH="*").
SPECIFICATION GenSpec
CONSTANTS
  CAuth = {"REQUIRED", "PREFERRED", "OPTIONAL", "NEVER"}
  SAuth = {"REQUIRED", "PREFERRED", "OPTIONAL", "NEVER"}
  CEnc = {"REQUIRED", "PREFERRED", "OPTIONAL", "NEVER"}
  SEnc = {"REQUIRED", "PREFERRED", "OPTIONAL", "NEVER"}
  CMethods <- Lists8
  SMethods <- Lists8
  CCiphers <- Ciphers4
  SCiphers <- Ciphers4
  CmdModes = {TRUE, FALSE}
  Shapes = {"full"}
  SameLists = FALSE
  RelayBudget = 0
  AllowAbort = FALSE
  Bug = {}
  GenMode = "mc"
INVARIANTS TypeOK FailsExactlyWhen DenialIsExplicit BothAgree FollowsTable CanTalkBothWays
CHECK_DEADLOCK FALSE
