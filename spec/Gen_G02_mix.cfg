\* G02 generator: files back to back and between ordinary messages (1- or 2-frame), sizes 0 / 1 / 65537 then 0 / 65536
SPECIFICATION GenSpec
CONSTANTS
  Chunk = 65536
  Max = 1048576
  Tag = 16
  IVLen = 16
  MarkerVal = 666
  Encs = {TRUE, FALSE}
  Plans <- PlansMulti
  Sizes = {0, 1, 65537}
  LaterSizes = {0, 65536}
  MsgLens = {10}
  MsgSplits = {FALSE, TRUE}
  Devs = {"announceMore", "announceFewer", "negSize", "wrongMarkerVal", "wrongMarkerLen", "noMarker", "splitSize", "splitChunk", "splitMarker", "emptyFrame"}
  MoreDeltas = {1, 65536, 1073741824}
  FewerDeltas = {1, 65536}
  CutHows = {"boundary", "hdr", "body"}
  MaxFaults = 1
  Interleave = FALSE
  Bug = {}
INVARIANT EmitTrace
CHECK_DEADLOCK FALSE
