--------------------------- MODULE Gen_CancelMulti ---------------------------
(***************************************************************************)
(* Behaviour generator for CancelMulti: the same actions; the context fires *)
(* only at the points the binding realises deterministically (while a is    *)
(* blocked in its stalled step, or between two steps of a).  Every complete *)
(* behaviour (both calls returned, or b legitimately stuck behind a live    *)
(* context) is printed as one JSON line; the Go side groups them by         *)
(* (mode, cb, timing, b's peer stalls?) and accepts a real run iff its      *)
(* projection is the projection of SOME behaviour of the group.             *)
(***************************************************************************)
EXTENDS CancelMulti, Json

VARIABLES timing
gvars == <<vars, timing>>

FirePoint ==
  CASE pc["a"] = "blocked" /\ s["a"] = ka -> "during_stall"
    [] pc["a"] = "entry" /\ s["a"] > 1 -> "between_steps"
    [] OTHER -> "no"

GInit == Init /\ timing = "never"
GNext ==
  \/ FirePoint # "no" /\ Fire /\ timing' = FirePoint
  \/ /\ timing' = timing
     /\ \E c \in Calls : \/ Call(c) \/ EntryCheck(c) \/ PeerCompletes(c) \/ IOFailsClosed(c) \/ StepReturn(c)
                         \/ (pc[c] \in {"blocked", "returned"} /\ WatcherRuns(c))
GenSpec == GInit /\ [][GNext]_gvars

NoPending == \A c \in Calls : w[c] # "fired"
BStuck == pc["b"] = "blocked" /\ s["b"] = kb /\ conn = "open" /\ ctx[CtxOf("b")] = "live"
AStuck == pc["a"] = "blocked" /\ s["a"] = ka /\ ctx["x"] = "live"
Done == /\ NoPending
        /\ timing # "never"
        /\ pc["a"] = "returned"
        /\ (pc["b"] = "returned" \/ BStuck)

EmitTrace ==
  Done => PrintT(ToJson([scn |-> [mode |-> mode, cb |-> cb, timing |-> timing, n |-> n, ka |-> ka, kb |-> kb,
                                   reta |-> ret["a"], retb |-> ret["b"], breturns |-> (pc["b"] = "returned"),
                                   closed |-> (conn = "closed"), donea |-> done["a"]]]))
=============================================================================
