\* non-vacuity self-test: with Bug = {"ClientRederives"} TLC must report invariant BothAgree violated
SPECIFICATION Spec
CONSTANTS
  CAuth = {"REQUIRED", "PREFERRED", "OPTIONAL", "NEVER"}
  SAuth = {"REQUIRED", "PREFERRED", "OPTIONAL", "NEVER"}
  CEnc = {"OPTIONAL"}
  SEnc = {"OPTIONAL"}
  CMethods <- Lists8
  SMethods <- Lists8
  CCiphers <- OnlyAES
  SCiphers <- OnlyAES
  CmdModes = {TRUE}
  Shapes = {"full"}
  SameLists = FALSE
  RelayBudget = 0
  AllowAbort = FALSE
  Bug = {"ClientRederives"}
INVARIANTS BothAgree
CHECK_DEADLOCK FALSE
