\* non-vacuity: proxy mode, with Bug = {"AcceptAnyHello"} TLC must report ReturnedPresentedFreshId violated
SPECIFICATION Spec
CONSTANTS
  NB = 1
  MaxRogue = 0
  RogueKinds = {}
  MaxMsgs = 2
  Mode = "proxy"
  Bug = {"AcceptAnyHello"}
INVARIANTS ReturnedPresentedFreshId
CHECK_DEADLOCK FALSE
