\* non-vacuity: with the known-wrong design "ClientAlwaysWaits" switched on TLC must report Progress violated
SPECIFICATION Spec
CONSTANTS
  Bug = {"ClientAlwaysWaits"}
  CStyles = {"cedar"}
  SStyles = {"htcondor"}
  Faults = {"none"}
INVARIANTS TypeOK Progress
CHECK_DEADLOCK FALSE
