\* non-vacuity: with Bug = {"BackgroundInSubstep"} TLC must report CancelledLeadsToReturned violated
SPECIFICATION LiveSpec
CONSTANTS
  Ns = {1, 2, 3}
  Kinds = {"cancel", "deadline", "background"}
  Bug = {"BackgroundInSubstep"}
PROPERTY CancelledLeadsToReturned
CHECK_DEADLOCK FALSE
