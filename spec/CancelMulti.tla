----------------------------- MODULE CancelMulti -----------------------------
(***************************************************************************)
(* C19, second model: TWO calls on ONE connection.                          *)
(*                                                                          *)
(* Cancel.tla follows one call.  This module follows call "a" (the one      *)
(* whose context fires, as in Cancel.tla) together with a second call "b"   *)
(* on the same stream:                                                      *)
(*   mode "duplex"  b runs concurrently with a on the other direction of    *)
(*                  the stream (one goroutine sends while another receives, *)
(*                  which C17 allows once the handshake is over);           *)
(*   mode "reuse"   b is issued after a has returned (a caller that tries   *)
(*                  the stream again after a cancelled operation).          *)
(* b uses either the SAME context as a or a FRESH one that never fires, and *)
(* its peer may stall too (kb).  Every step of either call is the code of   *)
(* stream.readWithContext / writeWithContext (see Cancel.tla); closing the  *)
(* connection fails every blocked I/O on it, whoever issued it.             *)
(*                                                                          *)
(* What the statement of C19 gives: a returns the context's error and the   *)
(* connection is then closed rather than left half-used.  Consequences the  *)
(* model makes explicit: an operation issued on the stream afterwards, or   *)
(* running on its other direction meanwhile, cannot hang - with whatever    *)
(* context, however its peer behaves - because the connection it would      *)
(* block on is closed (ReuseFailsFast, DuplexOtherReturns); and a context   *)
(* that never fires never shows up as an error (FreshCtxNoCtxErr).          *)
(* Bug "EntryCheckLeavesOpen" (the pre-fix entry check): ReuseFailsFast     *)
(* fails - the follow-up call blocks for ever on the half-used connection.  *)
(***************************************************************************)
EXTENDS Integers, FiniteSets, TLC

CONSTANTS Ns, Modes, Bug

Calls == {"a", "b"}

VARIABLES n, ka, kb, mode, cb,     \* configuration: steps per call, stalled steps, mode, b's context ("same" | "fresh")
          ctx,                     \* [{"x","y"} -> "live" | "cancelled"]; x is a's context, y never fires
          conn,
          pc, s, io, hasW, w, ret, done   \* per call, as in Cancel.tla

cfgv == <<n, ka, kb, mode, cb>>
vars == <<n, ka, kb, mode, cb, ctx, conn, pc, s, io, hasW, w, ret, done>>

CtxOf(c) == IF c = "a" \/ cb = "same" THEN "x" ELSE "y"
K(c) == IF c = "a" THEN ka ELSE kb

Init ==
  /\ n \in Ns /\ ka \in 0..n /\ kb \in 0..n /\ mode \in Modes /\ cb \in {"same", "fresh"}
  /\ ctx = [x \in {"x", "y"} |-> "live"]
  /\ conn = "open"
  /\ pc = [c \in Calls |-> "idle"] /\ s = [c \in Calls |-> 0] /\ io = [c \in Calls |-> "none"]
  /\ hasW = [c \in Calls |-> FALSE] /\ w = [c \in Calls |-> "none"]
  /\ ret = [c \in Calls |-> "none"] /\ done = [c \in Calls |-> 0]

Call(c) ==
  /\ pc[c] = "idle"
  /\ c = "b" => (mode = "duplex" \/ pc["a"] = "returned")
  /\ pc' = [pc EXCEPT ![c] = "entry"] /\ s' = [s EXCEPT ![c] = 1]
  /\ UNCHANGED <<cfgv, ctx, conn, io, hasW, w, ret, done>>

EntryCheck(c) ==
  /\ pc[c] = "entry"
  /\ IF ctx[CtxOf(c)] = "cancelled"
     THEN /\ pc' = [pc EXCEPT ![c] = "returned"] /\ ret' = [ret EXCEPT ![c] = "ctx"]
          /\ IF done[c] > 0
             THEN conn' = IF "EntryCheckLeavesOpen" \in Bug THEN conn ELSE "closed"
             ELSE conn' \in {conn, "closed"}
          /\ UNCHANGED <<cfgv, ctx, s, io, hasW, w, done>>
     ELSE /\ pc' = [pc EXCEPT ![c] = "blocked"] /\ io' = [io EXCEPT ![c] = "none"]
          /\ hasW' = [hasW EXCEPT ![c] = TRUE] /\ w' = [w EXCEPT ![c] = "armed"]
          /\ UNCHANGED <<cfgv, ctx, conn, s, ret, done>>

PeerCompletes(c) ==
  /\ pc[c] = "blocked" /\ s[c] # K(c) /\ conn = "open"
  /\ pc' = [pc EXCEPT ![c] = "iodone"] /\ io' = [io EXCEPT ![c] = "ok"]
  /\ UNCHANGED <<cfgv, ctx, conn, s, hasW, w, ret, done>>

IOFailsClosed(c) ==
  /\ pc[c] = "blocked" /\ conn = "closed"
  /\ pc' = [pc EXCEPT ![c] = "iodone"] /\ io' = [io EXCEPT ![c] = "fail"]
  /\ UNCHANGED <<cfgv, ctx, conn, s, hasW, w, ret, done>>

Fire ==
  /\ ctx["x"] = "live"
  /\ ctx' = [ctx EXCEPT !["x"] = "cancelled"]
  /\ w' = [c \in Calls |-> IF CtxOf(c) = "x" /\ w[c] = "armed" THEN "fired" ELSE w[c]]
  /\ UNCHANGED <<cfgv, conn, pc, s, io, hasW, ret, done>>

WatcherRuns(c) ==
  /\ w[c] = "fired"
  /\ w' = [w EXCEPT ![c] = "ran"] /\ conn' = "closed"
  /\ UNCHANGED <<cfgv, ctx, pc, s, io, hasW, ret, done>>

StepReturn(c) ==
  /\ pc[c] = "iodone"
  /\ io' = [io EXCEPT ![c] = "none"] /\ hasW' = [hasW EXCEPT ![c] = FALSE]
  /\ UNCHANGED <<cfgv, ctx, conn>>
  /\ LET lost == hasW[c] /\ w[c] \in {"fired", "ran"}
         proceed == /\ done' = [done EXCEPT ![c] = @ + 1]
                    /\ IF s[c] < n
                       THEN pc' = [pc EXCEPT ![c] = "entry"] /\ s' = [s EXCEPT ![c] = @ + 1] /\ ret' = ret
                       ELSE pc' = [pc EXCEPT ![c] = "returned"] /\ ret' = [ret EXCEPT ![c] = "nil"] /\ s' = s
         retWith(r) == pc' = [pc EXCEPT ![c] = "returned"] /\ ret' = [ret EXCEPT ![c] = r] /\ UNCHANGED <<s, done>>
     IN IF lost
        THEN /\ w' = w
             /\ \/ retWith("ctx")
                \/ io[c] = "ok" /\ proceed
        ELSE /\ w' = [w EXCEPT ![c] = "none"]
             /\ IF io[c] = "fail" THEN retWith("io") ELSE proceed

Next == \/ Fire
        \/ \E c \in Calls : Call(c) \/ EntryCheck(c) \/ PeerCompletes(c) \/ IOFailsClosed(c) \/ WatcherRuns(c) \/ StepReturn(c)

Spec == Init /\ [][Next]_vars
Fairness == \A c \in Calls : /\ WF_vars(Call(c)) /\ WF_vars(EntryCheck(c)) /\ WF_vars(PeerCompletes(c))
                             /\ WF_vars(IOFailsClosed(c)) /\ WF_vars(WatcherRuns(c)) /\ WF_vars(StepReturn(c))
LiveSpec == Spec /\ Fairness

TypeOK ==
  /\ n \in Ns /\ ka \in 0..n /\ kb \in 0..n
  /\ conn \in {"open", "closed"}
  /\ \A c \in Calls : /\ pc[c] \in {"idle", "entry", "blocked", "iodone", "returned"}
                      /\ ret[c] \in {"none", "nil", "ctx", "io"} /\ done[c] \in 0..n
                      /\ w[c] \in {"none", "armed", "fired", "ran"}

CancelledReturnClosesConn == \A c \in Calls : ret[c] = "ctx" => (conn = "closed" \/ \E d \in Calls : w[d] = "fired" \/ done[c] = 0)
ErrorIdentity == \A c \in Calls : /\ ret[c] = "ctx" => ctx[CtxOf(c)] = "cancelled"
                                  /\ ret[c] = "io" => conn = "closed"      \* the only other failure cause is the closed connection
SuccessMeansAllDone == \A c \in Calls : ret[c] = "nil" => done[c] = n
FreshCtxNoCtxErr == cb = "fresh" => ret["b"] # "ctx"
LiveCtxKeepsConnOpen == ctx["x"] = "live" => conn = "open"

ACancelledReturns == (ctx["x"] = "cancelled" /\ pc["a"] # "idle") ~> (pc["a"] = "returned")
ReuseFailsFast == (mode = "reuse" /\ ret["a"] = "ctx" /\ done["a"] > 0) ~> (pc["b"] = "returned")
DuplexOtherReturns == (mode = "duplex" /\ conn = "closed" /\ pc["b"] # "idle") ~> (pc["b"] = "returned")
=============================================================================
