\* G01 two brokers: the registrations are independent of each other
SPECIFICATION Spec
CONSTANTS
  NB = 2
  MaxConn = 2
  MaxReq = 1
  MaxTick = 0
  MaxMsg = 0
  RegAnswers = {"fresh", "hangup"}
  Targets = {"accept"}
  Msgs = {}
  Bug = {}
INVARIANTS TypeOK PresentsLastCookie ContactIsGrant HelloCarriesOwnId AtMostOneReply ReplyMatchesOutcome EveryRequestAnswered ReplyOnOwnOrLaterConn WritesSerialised NoWedge StoppedClean OneConnPerBroker
PROPERTIES Independent KeepsRegistration
CHECK_DEADLOCK FALSE
