\* non-vacuity: with the known wrong design "CutAtLastEq" TLC must report SplitAtFirstEq violated
SPECIFICATION Spec
CONSTANTS
  MaxLen = 6
  Bug = {"CutAtLastEq"}
INVARIANTS SplitAtFirstEq
CHECK_DEADLOCK FALSE
