\* C07 exhaustive (quick): tags {none,A,B} x 2 servers x 3 commands (2 valid), 3 sessions
SPECIFICATION Spec07
CONSTANTS
  Tags = {"none", "A", "B"}
  Addrs = {"s1", "s2"}
  Cmds = {"c1", "c2", "c3"}
  ValidCmds = {"c1", "c2"}
  MaxSid = 2
  MaxTime = 0
  Duration = 1
  Lease = 1
  ImportOn = FALSE
  MaxRec = 0
  Bug = {}
VIEW McView
INVARIANTS TypeOK ResumeOnlySameTriple FailureDropsEverything NoRouteToDeadSession
CHECK_DEADLOCK FALSE
