\* C17 thorough (1): map writer and entry user may run any of the six core operations (x<=2), maintenance any one
SPECIFICATION Spec
CONSTANTS
  Gor = {"g1", "g2", "g3"}
  Nobody = Nobody
  Ids = {"i1", "i2"}
  MaxOps = 2
  MaxOpsOf <- LimitsQuick
  MaxVer = 1
  OpsOf <- RolesCore
  InitKinds = {"dead"}
  StoreExp = {"live"}
  Bug = {}
INVARIANTS TypeOK LocksetDiscipline AccessRelationRespected NoTornExpiry NoLostInvalidate RefinesSeq Linearizable HandshakeUndisturbed
CHECK_DEADLOCK FALSE
