------------------------ MODULE ConnLifecycle_Trace ------------------------
(***************************************************************************)
(* Trace validation of connection life cycles: the events of one stream     *)
(* object (stream hooks) merged with the AuthRan / HandshakeDone events of  *)
(* the Authenticator bound to it and the Dispatch events of the server      *)
(* serving it, in the stream's own event order.  One group per stream,      *)
(* separated by Reset lines.                                                *)
(***************************************************************************)
EXTENDS ConnLifecycle, Json, IOUtils

Trace == ndJsonDeserialize(IOEnv.TRACE_FILE)
VARIABLE l
Ev == Trace[l]
Is(e) == l <= Len(Trace) /\ Ev.ev = e /\ l' = l + 1

TInit == LInit /\ l = 1
TReset == Is("Reset") /\ keyed' = FALSE /\ hsDone' = 0 /\ srvHs' = FALSE /\ mustProtect' = FALSE
          /\ lastSentProt' = "none" /\ lastRecvProt' = "none" /\ dispatched' = 0 /\ ran' = ""
TKey == (Is("SetKey") \/ Is("Imported")) /\ LKeyInstall
TSent == Is("FrameSent") /\ LFrame("out", Ev.keyed /\ Ev.enc)
TIn == Is("FrameIn") /\ UNCHANGED lvars
TAcc == Is("FrameAccepted") /\ LFrame("in", Ev.keyed /\ Ev.enc)
TExp == Is("Exported") /\ UNCHANGED lvars
TAuthRan == Is("AuthRan") /\ LAuthRan(Ev.ran, Ev.ok)
TDone == Is("HandshakeDone") /\ LHandshakeDone(Ev)
TDispatch == Is("Dispatch") /\ LDispatch(Ev)

TNext == TReset \/ TKey \/ TSent \/ TIn \/ TAcc \/ TExp \/ TAuthRan \/ TDone \/ TDispatch
TraceSpec == TInit /\ [][TNext]_<<lvars, l>>
TraceAccepted == TLCGet("stats").diameter - 1 = Len(Trace)
=============================================================================
