\* non-vacuity: with Bug = {"DoubleDeliver"} TLC must report ExactlyOnce violated
SPECIFICATION Spec
CONSTANTS
  Mode = "listener"
  Origins = {"listen", "adopt"}
  MaxD = 2
  MaxAcc = 2
  MaxClose = 2
  Scripts <- MixScriptsTwo
  Shapes <- NoShapes
  ErrClasses = {}
  Bug = {"DoubleDeliver"}
INVARIANTS ExactlyOnce
CHECK_DEADLOCK FALSE
