\* C02 exhaustive: encrypting stream, adversary with one fault, traffic a->b (2 msgs x <=2 frames) and 1 msg b->a
SPECIFICATION Spec
CONSTANTS
  MaxMsgsAB = 2
  MaxMsgsBA = 0
  MaxFrames = 2
  MaxCtr = 6
  StartCtrs = {0}
  PreFrames = {0}
  BaseEncs = {TRUE}
  MaxFaults = 1
  MaxHandoffs = 0
  Bug = {"ZeroLenBypass"}
INVARIANTS TypeOK DeliveredPrefix NoSpuriousError NonceFresh FrameFormat
CHECK_DEADLOCK FALSE
