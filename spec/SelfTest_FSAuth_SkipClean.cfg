\* non-vacuity: with Bug = {"SkipClean"} TLC must report CreatedOnlyUnderBase violated
SPECIFICATION Spec
CONSTANTS
  MaxLen = 3
  ConnFams = {4, 6}
  Faults = {"none", "sendFail", "verdictLost"}
  Roles = {"client", "server"}
  Bug = {"SkipClean"}
INVARIANTS CreatedOnlyUnderBase
CHECK_DEADLOCK FALSE
