\* non-vacuity: with Bug = {"HintAnyAddr"} TLC must report HintOnlyForResetOnSharedPort violated
SPECIFICATION Spec
CONSTANTS
  Mode = "hint"
  Origins = {"listen"}
  MaxD = 1
  MaxAcc = 1
  MaxClose = 1
  Scripts <- QuickScripts
  Shapes <- SmallShapes
  ErrClasses <- AllErrClasses
  Bug = {"HintAnyAddr"}
INVARIANTS HintOnlyForResetOnSharedPort
CHECK_DEADLOCK FALSE
