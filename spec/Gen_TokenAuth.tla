--------------------------- MODULE Gen_TokenAuth ---------------------------
(***************************************************************************)
(* Behaviour generator for TokenAuth (property C11).  Every behaviour of    *)
(* TokenAuth is one exchange with one deviation (or one standalone          *)
(* verification of one token variant) plus the endpoints' free choices at   *)
(* the points where the statement is silent.  When a behaviour is complete  *)
(* it is printed as one JSON object: the scenario (deviation, the end it is *)
(* aimed at) and the outcome of this behaviour.  The harness groups the     *)
(* printed behaviours by scenario: the set of outcomes is what the          *)
(* statement ALLOWS for that scenario (a singleton = must-fail /            *)
(* must-succeed with that identity).                                        *)
(***************************************************************************)
EXTENDS TokenAuth, Json

Outcome ==
  IF mode = "verify" THEN [v |-> vOut]
  ELSE [c |-> cOut, s |-> sOut, user |-> sUser]

EmitTrace ==
  pc = "done" =>
    PrintT(ToJson([scn |-> [mode |-> mode, kind |-> dev.kind, msg |-> dev.msg, pos |-> dev.pos,
                            via |-> dev.via, role |-> Role(dev), out |-> Outcome]]))
=============================================================================
