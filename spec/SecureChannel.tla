--------------------------- MODULE SecureChannel ---------------------------
(***************************************************************************)
(* The AES-GCM secure channel of cedar's stream.Stream, seen as two        *)
(* endpoints "a" and "b" joined by one FIFO wire per direction that an     *)
(* on-path adversary can edit.  Serves properties C02 (authentic in-order  *)
(* prefix), C12 (wire format, nonce freshness, refusal at wrap) and C15    *)
(* (export / import of the crypto state at clean boundaries).              *)
(*                                                                         *)
(* One action per public call / critical section of stream.go:             *)
(*   StartMsg/WriteBuf/WriteFlush/EndMsg  = StartMessage/WriteMessage/     *)
(*                                          EndMessage                     *)
(*   SendPartial/SendFinal                = SendPartialMessage/SendMessage *)
(*   SendSecret                           = PutSecret                      *)
(*   CallRecv + RecvStep*                 = ReceiveCompleteMessage,        *)
(*                                          StartMessageRead (frame loop), *)
(*                                          GetSecret                      *)
(*   Consume/EndRead                      = ReadMessageBytes/EndMessageRead*)
(*   Handoff                              = ExportCryptoState followed by  *)
(*                                          NewStreamWithCryptoState       *)
(* Cryptography is symbolic: a protected frame is a term that records the  *)
(* (iv, counter, aad-kind, header) it was sealed under and opens exactly   *)
(* when the receiver derives the same values and nobody touched it.        *)
(*                                                                         *)
(* Assumption stated by the property (C02): an application stops using a   *)
(* direction after its first receive error; rstate "err" is terminal.      *)
(***************************************************************************)
EXTENDS Integers, Sequences, FiniteSets, TLC

CONSTANTS
  MaxMsgsAB, MaxMsgsBA,  \* messages per direction
  MaxFrames,    \* frames per message
  MaxCtr,       \* counter value at which a sender must refuse (2^32-1 in the code)
  StartCtrs,    \* counters a direction may start at (0 = fresh key, >0 = imported state)
  PreFrames,    \* possible numbers of cleartext frames per direction before the key
  BaseEncs,     \* subset of BOOLEAN: TRUE = keyed and encrypting, FALSE = keyed, not encrypting
  MaxFaults,    \* adversary budget
  MaxHandoffs,  \* export/import budget
  Bug           \* set of names of known wrong designs (empty = intended design)

Dir == {"ab", "ba"}
End == {"a", "b"}
Snd(d) == IF d = "ab" THEN "a" ELSE "b"
Rcv(d) == IF d = "ab" THEN "b" ELSE "a"
Out(e) == IF e = "a" THEN "ab" ELSE "ba"
In(e)  == IF e = "a" THEN "ba" ELSE "ab"
Rev(d) == IF d = "ab" THEN "ba" ELSE "ab"
MaxMsgs(d) == IF d = "ab" THEN MaxMsgsAB ELSE MaxMsgsBA

VARIABLES
  baseEnc,   \* BOOLEAN, fixed at Init: do the endpoints encrypt every frame?
  pre,       \* [Dir -> Nat] cleartext frames sent before the key (they define the digests)
  sIV, sCtr, sFirst,      \* sender side of each direction: base IV id, counter, digests-still-to-bind
  rIV, rCtr, rFirst,      \* receiver side of each direction (rIV = 0: not yet learnt)
  ivNext,    \* fresh IV id generator
  wire,      \* [Dir -> Seq(Frame)]
  closed,    \* [Dir -> BOOLEAN] no more bytes will arrive
  cur,       \* [Dir -> [kind, k]] message being sent ("none" when idle), k frames emitted so far
  sbuf,      \* [End -> BOOLEAN] buffered-API send buffer non-empty
  seom,      \* [End -> BOOLEAN] EndMessage called, StartMessage not yet (sendEOM)
  sentLog,   \* [Dir -> Seq(Nat)] frame count of each completely sent message
  sentKind,  \* [Dir -> Seq(STRING)] "msg" or "secret" for each completely sent message
  sndErr,    \* [Dir -> BOOLEAN] a send was refused (counter limit)
  rstate,    \* [Dir -> {"idle","busy","inmsg","err"}]
  rapi,      \* [Dir -> api of the call in progress]
  rpart,     \* [Dir -> Seq(frame id)] frames of the message being received
  delivered, \* [Dir -> Seq(Seq(frame id))]
  used,      \* set of <<dir, iv, ctr>> nonces used for sealing (history)
  reuse,     \* BOOLEAN: a nonce was used twice
  faults, handoffs,
  lastHandoff, \* "none" | "ok" | "refused"  (observation of the last Handoff attempt)
  lost       \* [Dir -> BOOLEAN] buffered outbound bytes were dropped by a dirty hand-off

vars == <<baseEnc, pre, sIV, sCtr, sFirst, rIV, rCtr, rFirst, ivNext, wire, closed,
          cur, sbuf, seom, sentLog, sentKind, sndErr, rstate, rapi, rpart, delivered,
          used, reuse, faults, handoffs, lastHandoff, lost>>

Kinds == {"direct", "buffered", "secret"}
Apis  == {"complete", "start", "secret"}
None  == [kind |-> "none", k |-> 0]

(* A frame on the wire.  id = <<message index, frame index>>.  forged # "no"
   marks an adversary-made frame of the given length class.                  *)
GenuineFrame(d, id, end, prot) ==
  [id |-> id, end |-> end, prot |-> prot,
   hasIV |-> prot /\ sCtr[d] = 0, iv |-> IF prot THEN sIV[d] ELSE 0,
   ctr |-> IF prot THEN sCtr[d] ELSE 0,
   dig |-> prot /\ sFirst[d],
   digv |-> <<pre[d], pre[Rev(d)]>>,     \* (sender's sent digest, sender's received digest)
   ok |-> TRUE, forged |-> "no", flip |-> "none", okButHeader |-> FALSE]

Forged(lenClass, end) ==
  [id |-> <<0, 0>>, end |-> end, prot |-> TRUE, hasIV |-> FALSE, iv |-> 0, ctr |-> 0,
   dig |-> FALSE, digv |-> <<0, 0>>, ok |-> FALSE, forged |-> lenClass, flip |-> "none", okButHeader |-> FALSE]

-----------------------------------------------------------------------------
Init ==
  /\ baseEnc \in BaseEncs
  /\ pre \in [Dir -> PreFrames]
  /\ sCtr \in [Dir -> StartCtrs]
  \* imported state comes from ExportCryptoState, which requires both directions
  \* to be past their first protected frame: either both fresh or both imported
  /\ (sCtr["ab"] = 0) = (sCtr["ba"] = 0)
  /\ rCtr = sCtr
  /\ sFirst = [d \in Dir |-> sCtr[d] = 0]
  /\ rFirst = sFirst
  /\ sIV = [d \in Dir |-> IF d = "ab" THEN 1 ELSE 2]
  /\ rIV = [d \in Dir |-> IF sCtr[d] = 0 THEN 0 ELSE sIV[d]]
  /\ ivNext = 3
  /\ wire = [d \in Dir |-> <<>>]
  /\ closed = [d \in Dir |-> FALSE]
  /\ cur = [d \in Dir |-> None]
  /\ sbuf = [e \in End |-> FALSE]
  /\ seom = [e \in End |-> FALSE]
  /\ sentLog = [d \in Dir |-> <<>>]
  /\ sentKind = [d \in Dir |-> <<>>]
  /\ sndErr = [d \in Dir |-> FALSE]
  /\ rstate = [d \in Dir |-> "idle"]
  /\ rapi = [d \in Dir |-> "none"]
  /\ rpart = [d \in Dir |-> <<>>]
  /\ delivered = [d \in Dir |-> <<>>]
  /\ used = {}
  /\ reuse = FALSE
  /\ faults = 0 /\ handoffs = 0 /\ lastHandoff = "none"
  /\ lost = [d \in Dir |-> FALSE]

-----------------------------------------------------------------------------
(* Sender *)

MsgIdx(d) == Len(sentLog[d]) + 1
\* (a sender that was refused at the counter limit may try again: it must be
\* refused again - "a stream refuses to send rather than let its counter wrap")
CanStart(d) == cur[d] = None /\ Len(sentLog[d]) < MaxMsgs(d) /\ ~closed[d]

(* Emit one frame of the current message.  A protected frame at the counter
   limit is refused: error, nothing reaches the wire (C12 RefuseAtWrap).     *)
Emit(d, end, prot) ==
  LET id == <<MsgIdx(d), IF lost[d] THEN 0 - (cur[d].k + 1) ELSE cur[d].k + 1>>
      refuse == prot /\ sCtr[d] = MaxCtr /\ "WrapAllowed" \notin Bug
      nonce == <<d, sIV[d], sCtr[d]>>
  IN IF refuse
     THEN /\ sndErr' = [sndErr EXCEPT ![d] = TRUE]
          /\ cur' = [cur EXCEPT ![d] = None]
          /\ UNCHANGED <<wire, sCtr, sFirst, used, reuse, sentLog, sentKind>>
     ELSE /\ wire' = [wire EXCEPT ![d] = Append(@, GenuineFrame(d, id, end, prot))]
          /\ IF prot
             THEN /\ sCtr' = [sCtr EXCEPT ![d] =
                                IF "NoCtrAdvance" \in Bug THEN @
                                ELSE IF @ = MaxCtr THEN 0 ELSE @ + 1]
                  /\ sFirst' = [sFirst EXCEPT ![d] = FALSE]
                  /\ used' = used \cup {nonce}
                  /\ reuse' = (reuse \/ nonce \in used)
             ELSE UNCHANGED <<sCtr, sFirst, used, reuse>>
          /\ IF end = 1
             THEN /\ sentLog' = [sentLog EXCEPT ![d] = Append(@, cur[d].k + 1)]
                  /\ sentKind' = [sentKind EXCEPT ![d] = Append(@, "msg")]
                  /\ cur' = [cur EXCEPT ![d] = None]
             ELSE /\ cur' = [cur EXCEPT ![d].k = @ + 1]
                  /\ UNCHANGED <<sentLog, sentKind>>
          /\ UNCHANGED sndErr

\* will a protected emit be refused now (counter limit)?
Refused(d, prot) == prot /\ sCtr[d] = MaxCtr /\ "WrapAllowed" \notin Bug

SenderFrame == <<baseEnc, pre, sIV, rIV, rCtr, rFirst, ivNext, closed, rstate, rapi,
                 rpart, delivered, faults, handoffs, lastHandoff, lost>>

\* SendPartialMessage / SendMessage: one frame per call, no buffer state.
StartDirect(d) ==
  /\ CanStart(d)
  /\ cur' = [cur EXCEPT ![d] = [kind |-> "direct", k |-> 0]]
  /\ UNCHANGED <<baseEnc, pre, sIV, sCtr, sFirst, rIV, rCtr, rFirst, ivNext, wire, closed,
                 sbuf, seom, sentLog, sentKind, sndErr, rstate, rapi, rpart, delivered, used, reuse,
                 faults, handoffs, lastHandoff, lost>>

SendPartial(d) ==
  /\ cur[d].kind = "direct" /\ cur[d].k + 1 < MaxFrames
  /\ Emit(d, 0, baseEnc)
  /\ UNCHANGED <<SenderFrame, sbuf, seom>>

SendFinal(d) ==
  /\ cur[d].kind = "direct"
  /\ Emit(d, 1, baseEnc)
  /\ UNCHANGED <<SenderFrame, sbuf, seom>>

\* PutSecret: a single-frame message, protected whenever a key is installed.
PutSecret(d) ==
  /\ CanStart(d)
  /\ LET id == <<MsgIdx(d), 1>>
         refuse == sCtr[d] = MaxCtr /\ "WrapAllowed" \notin Bug
         nonce == <<d, sIV[d], sCtr[d]>>
     IN IF refuse
        THEN /\ sndErr' = [sndErr EXCEPT ![d] = TRUE]
             /\ UNCHANGED <<wire, sCtr, sFirst, used, reuse, sentLog, sentKind>>
        ELSE /\ wire' = [wire EXCEPT ![d] = Append(@, GenuineFrame(d, id, 1, TRUE))]
             /\ sCtr' = [sCtr EXCEPT ![d] = IF "NoCtrAdvance" \in Bug THEN @
                                           ELSE IF @ = MaxCtr THEN 0 ELSE @ + 1]
             /\ sFirst' = [sFirst EXCEPT ![d] = FALSE]
             /\ used' = used \cup {nonce}
             /\ reuse' = (reuse \/ nonce \in used)
             /\ sentLog' = [sentLog EXCEPT ![d] = Append(@, 1)]
             /\ sentKind' = [sentKind EXCEPT ![d] = Append(@, "secret")]
             /\ UNCHANGED sndErr
  /\ UNCHANGED <<SenderFrame, cur, sbuf, seom>>

\* StartMessage / WriteMessage / EndMessage.
StartMsg(d) ==
  /\ CanStart(d)
  /\ cur' = [cur EXCEPT ![d] = [kind |-> "buffered", k |-> 0]]
  /\ sbuf' = [sbuf EXCEPT ![Snd(d)] = FALSE]
  /\ seom' = [seom EXCEPT ![Snd(d)] = FALSE]
  /\ UNCHANGED <<baseEnc, pre, sIV, sCtr, sFirst, rIV, rCtr, rFirst, ivNext, wire, closed,
                 sentLog, sentKind, sndErr, rstate, rapi, rpart, delivered, used, reuse,
                 faults, handoffs, lastHandoff, lost>>

\* a write that stays below the flush threshold
WriteBuf(d) ==
  /\ cur[d].kind = "buffered" /\ ~sbuf[Snd(d)]
  /\ sbuf' = [sbuf EXCEPT ![Snd(d)] = TRUE]
  /\ UNCHANGED <<baseEnc, pre, sIV, sCtr, sFirst, rIV, rCtr, rFirst, ivNext, wire, closed,
                 cur, seom, sentLog, sentKind, sndErr, rstate, rapi, rpart, delivered, used, reuse,
                 faults, handoffs, lastHandoff, lost>>

\* a write that crosses the threshold: the whole buffer leaves as a partial frame
WriteFlush(d) ==
  /\ cur[d].kind = "buffered" /\ cur[d].k + 1 < MaxFrames
  /\ Emit(d, 0, baseEnc)
  \* a refused flush leaves what was written in the send buffer
  /\ sbuf' = [sbuf EXCEPT ![Snd(d)] = Refused(d, baseEnc)]
  /\ UNCHANGED <<SenderFrame, seom>>

EndMsg(d) ==
  /\ cur[d].kind = "buffered"
  /\ Emit(d, 1, baseEnc)
  \* a refused EndMessage keeps the buffered bytes (and has already set sendEOM)
  /\ sbuf' = [sbuf EXCEPT ![Snd(d)] = IF Refused(d, baseEnc) THEN @ ELSE FALSE]
  /\ seom' = [seom EXCEPT ![Snd(d)] = TRUE]
  /\ UNCHANGED SenderFrame

\* the sender (or the harness) closes its half: the receiver will see EOF
CloseWire(d) ==
  /\ ~closed[d] /\ cur[d] = None
  /\ closed' = [closed EXCEPT ![d] = TRUE]
  /\ UNCHANGED <<baseEnc, pre, sIV, sCtr, sFirst, rIV, rCtr, rFirst, ivNext, wire,
                 cur, sbuf, seom, sentLog, sentKind, sndErr, rstate, rapi, rpart, delivered, used, reuse,
                 faults, handoffs, lastHandoff, lost>>

-----------------------------------------------------------------------------
(* Receiver *)

\* does the receiver, in its current state, authenticate frame f?
Opens(d, f) ==
  /\ f.forged = "no" /\ f.prot
  /\ (f.ok \/ ("HeaderNotInAAD" \in Bug /\ f.okButHeader))
  /\ f.ctr = rCtr[d] \/ "NoCtrCheck" \in Bug
  /\ f.hasIV = (rCtr[d] = 0)
  /\ (rCtr[d] > 0 => f.iv = rIV[d])
  /\ f.dig = rFirst[d]
  /\ (f.dig => f.digv = <<pre[d], pre[Rev(d)]>>)

\* expects protection on everything it reads?
RecvProtected(d, api) == baseEnc \/ api = "secret"

CallRecv(d, api) ==
  /\ rstate[d] = "idle"
  /\ api \in Apis
  /\ rstate' = [rstate EXCEPT ![d] = "busy"]
  /\ rapi' = [rapi EXCEPT ![d] = api]
  /\ UNCHANGED <<baseEnc, pre, sIV, sCtr, sFirst, rIV, rCtr, rFirst, ivNext, wire, closed,
                 cur, sbuf, seom, sentLog, sentKind, sndErr, rpart, delivered, used, reuse,
                 faults, handoffs, lastHandoff, lost>>

RecvFrameVars == <<baseEnc, pre, sIV, sCtr, sFirst, ivNext, closed, cur, sbuf, seom, sentLog, sentKind,
                   sndErr, rapi, used, reuse, faults, handoffs, lastHandoff, lost>>

Fail(d) ==
  /\ rstate' = [rstate EXCEPT ![d] = "err"]
  /\ rpart' = [rpart EXCEPT ![d] = <<>>]
  /\ UNCHANGED <<rIV, rCtr, rFirst, delivered>>

\* the frame is taken as data with end flag e
TakeData(d, id, e) ==
  LET msg == Append(rpart[d], id) IN
  IF e = 1 \/ rapi[d] = "secret"
  THEN IF rapi[d] = "start"
       THEN /\ rstate' = [rstate EXCEPT ![d] = "inmsg"]
            /\ rpart' = [rpart EXCEPT ![d] = msg]
            /\ UNCHANGED delivered
       ELSE /\ rstate' = [rstate EXCEPT ![d] = "idle"]
            /\ rpart' = [rpart EXCEPT ![d] = <<>>]
            /\ delivered' = [delivered EXCEPT ![d] = Append(@, msg)]
  ELSE /\ rpart' = [rpart EXCEPT ![d] = msg]
       /\ UNCHANGED <<rstate, delivered>>

RecvStep(d) ==
  /\ rstate[d] = "busy"
  /\ IF wire[d] = <<>>
     THEN /\ closed[d]              \* EOF; otherwise the call blocks
          /\ Fail(d)
          /\ UNCHANGED wire
     ELSE LET f == Head(wire[d]) IN
          /\ wire' = [wire EXCEPT ![d] = Tail(@)]
          /\ IF f.forged = "trunc" THEN Fail(d)
             ELSE IF RecvProtected(d, rapi[d])
             THEN IF f.forged = "0"
                  THEN IF "ZeroLenBypass" \in Bug
                       THEN /\ TakeData(d, f.id, f.end) /\ UNCHANGED <<rIV, rCtr, rFirst>>
                       ELSE Fail(d)
                  ELSE IF Opens(d, f)
                  THEN /\ rCtr' = [rCtr EXCEPT ![d] = @ + 1]
                       /\ rFirst' = [rFirst EXCEPT ![d] = FALSE]
                       /\ rIV' = [rIV EXCEPT ![d] = f.iv]
                       /\ TakeData(d, f.id, f.end)
                  ELSE Fail(d)
             ELSE \* cleartext expected: anything is taken at face value
                  /\ TakeData(d, f.id, f.end) /\ UNCHANGED <<rIV, rCtr, rFirst>>
  /\ UNCHANGED RecvFrameVars

\* ReadMessageBytes consuming the whole buffered message, then EndMessageRead
EndRead(d) ==
  /\ rstate[d] = "inmsg"
  /\ delivered' = [delivered EXCEPT ![d] = Append(@, rpart[d])]
  /\ rpart' = [rpart EXCEPT ![d] = <<>>]
  /\ rstate' = [rstate EXCEPT ![d] = "idle"]
  /\ UNCHANGED <<baseEnc, pre, sIV, sCtr, sFirst, rIV, rCtr, rFirst, ivNext, wire, closed,
                 cur, sbuf, seom, sentLog, sentKind, sndErr, rapi, used, reuse, faults, handoffs, lastHandoff, lost>>

-----------------------------------------------------------------------------
(* Export + import of endpoint e's crypto state around the same connection. *)

Clean(e) ==
  /\ baseEnc
  /\ ~sFirst[Out(e)] /\ ~rFirst[In(e)]
  /\ rstate[In(e)] = "idle" /\ rpart[In(e)] = <<>>
  /\ ~sbuf[e] /\ ~seom[e]

\* Some frames of an outbound message have left but its final frame has not, and
\* nothing is buffered.  The stream object holds no byte of it; the property's
\* "holds any partially sent message" does not decide this case, so the model
\* allows either outcome (the code exports).
MidMsgNoBuffer(e) == cur[Out(e)].k >= 1

Handoff(e) ==
  /\ handoffs < MaxHandoffs
  /\ rstate[In(e)] \in {"idle", "inmsg"}     \* the endpoint is not inside a receive call
  /\ handoffs' = handoffs + 1
  /\ LET dirtyOk == "ExportDirty" \in Bug /\ baseEnc /\ ~sFirst[Out(e)] /\ ~rFirst[In(e)]
         outcomes == IF Clean(e) THEN (IF MidMsgNoBuffer(e) THEN {"ok", "refused"} ELSE {"ok"})
                     ELSE IF dirtyOk THEN {"ok"} ELSE {"refused"}
     IN \E o \in outcomes :
        /\ lastHandoff' = o
        /\ IF o = "ok"
           THEN \* the rebuilt stream has empty framing buffers and the exported crypto state
                /\ rpart' = [rpart EXCEPT ![In(e)] = <<>>]
                /\ rstate' = [rstate EXCEPT ![In(e)] = "idle"]
                /\ lost' = [lost EXCEPT ![Out(e)] = @ \/ sbuf[e]]
                /\ sbuf' = [sbuf EXCEPT ![e] = FALSE]
                /\ seom' = [seom EXCEPT ![e] = FALSE]
                /\ sCtr' = IF "ImportResetsCtr" \in Bug THEN [sCtr EXCEPT ![Out(e)] = 0] ELSE sCtr
           ELSE UNCHANGED <<rpart, rstate, sbuf, seom, sCtr, lost>>
  /\ UNCHANGED <<baseEnc, pre, sIV, sFirst, rIV, rCtr, rFirst, ivNext, wire, closed, cur,
                 sentLog, sentKind, sndErr, rapi, delivered, used, reuse, faults>>

\* The exported blob is damaged on its way to the importer (truncated, wrong magic,
\* wrong version): the import must be refused; the original stream carries on.
BlobFaults == {"trunc", "magic", "version"}
HandoffBadBlob(e, fault) ==
  /\ handoffs < MaxHandoffs
  /\ fault \in BlobFaults
  /\ rstate[In(e)] \in {"idle", "inmsg"}
  /\ Clean(e) /\ ~MidMsgNoBuffer(e)
  /\ handoffs' = handoffs + 1
  /\ lastHandoff' = IF "ImportUnchecked" \in Bug THEN "ok" ELSE "importRefused"
  /\ UNCHANGED <<baseEnc, pre, sIV, sCtr, sFirst, rIV, rCtr, rFirst, ivNext, wire, closed, cur,
                 sbuf, seom, sentLog, sentKind, sndErr, rstate, rapi, rpart, delivered, used, reuse, faults, lost>>

-----------------------------------------------------------------------------
(* On-path adversary: edits wire[d].  Only meaningful on an encrypting
   stream (C02 speaks about AES-GCM-protected streams).                     *)

AdvVars == <<baseEnc, pre, sIV, sCtr, sFirst, rIV, rCtr, rFirst, ivNext, closed,
             cur, sbuf, seom, sentLog, sentKind, sndErr, rstate, rapi, rpart, delivered, used, reuse,
             handoffs, lastHandoff, lost>>

CanAdv(d) == baseEnc /\ faults < MaxFaults
Spend == faults' = faults + 1

RemoveAt(s, i) == SubSeq(s, 1, i - 1) \o SubSeq(s, i + 1, Len(s))
InsertAt(s, i, x) == SubSeq(s, 1, i - 1) \o <<x>> \o SubSeq(s, i, Len(s))   \* x becomes element i

AdvDrop(d, i) ==
  /\ CanAdv(d) /\ i \in 1..Len(wire[d])
  /\ wire' = [wire EXCEPT ![d] = RemoveAt(@, i)] /\ Spend /\ UNCHANGED AdvVars

AdvDup(d, i) ==
  /\ CanAdv(d) /\ i \in 1..Len(wire[d])
  /\ wire' = [wire EXCEPT ![d] = InsertAt(@, i + 1, @[i])] /\ Spend /\ UNCHANGED AdvVars

AdvSwap(d, i) ==
  /\ CanAdv(d) /\ i \in 1..(Len(wire[d]) - 1)
  /\ wire' = [wire EXCEPT ![d] = [@ EXCEPT ![i] = wire[d][i + 1], ![i + 1] = wire[d][i]]]
  /\ Spend /\ UNCHANGED AdvVars

\* a copy of frame i re-inserted so that it follows frame j >= i+1
AdvReplay(d, i, j) ==
  /\ CanAdv(d) /\ i \in 1..Len(wire[d]) /\ j \in (i + 1)..Len(wire[d])
  /\ wire' = [wire EXCEPT ![d] = InsertAt(@, j + 1, @[i])] /\ Spend /\ UNCHANGED AdvVars

\* frame i is cut short and nothing follows it (the connection ends there)
AdvTruncate(d, i) ==
  /\ CanAdv(d) /\ i \in 1..Len(wire[d])
  /\ wire' = [wire EXCEPT ![d] = Append(SubSeq(@, 1, i - 1), [@[i] EXCEPT !.forged = "trunc", !.ok = FALSE])]
  /\ Spend /\ UNCHANGED AdvVars

FlipFields == {"end", "len", "iv", "ct", "tag"}
AdvFlip(d, i, fld) ==
  /\ CanAdv(d) /\ i \in 1..Len(wire[d]) /\ fld \in FlipFields
  /\ wire[d][i].forged = "no"
  /\ (fld = "iv" => wire[d][i].hasIV)
  /\ wire' = [wire EXCEPT ![d] = [@ EXCEPT ![i] =
        [@ EXCEPT !.ok = FALSE,
                  !.flip = fld,
                  !.okButHeader = (fld = "end" /\ wire[d][i].ok),
                  !.end = IF fld = "end" THEN 1 - @ ELSE @]]]
  /\ Spend /\ UNCHANGED AdvVars

LenClasses == {"0", "short", "long"}
AdvInject(d, i, lc, e) ==
  /\ CanAdv(d) /\ i \in 1..(Len(wire[d]) + 1) /\ lc \in LenClasses /\ e \in {0, 1}
  /\ wire' = [wire EXCEPT ![d] = InsertAt(@, i, Forged(lc, e))] /\ Spend /\ UNCHANGED AdvVars

Adversary ==
  \E d \in Dir :
    \/ \E i \in 1..Len(wire[d]) :
         \/ AdvDrop(d, i) \/ AdvDup(d, i) \/ AdvSwap(d, i) \/ AdvTruncate(d, i)
         \/ \E j \in 1..Len(wire[d]) : AdvReplay(d, i, j)
         \/ \E fld \in FlipFields : AdvFlip(d, i, fld)
    \/ \E i \in 1..(Len(wire[d]) + 1), lc \in LenClasses, e \in {0, 1} : AdvInject(d, i, lc, e)

-----------------------------------------------------------------------------
SenderNext(d) ==
  \/ StartDirect(d) \/ SendPartial(d) \/ SendFinal(d)
  \/ PutSecret(d)    \* on an encrypting stream the crypto-for-secret toggle is a no-op
  \/ StartMsg(d) \/ WriteBuf(d) \/ WriteFlush(d) \/ EndMsg(d)
  \/ CloseWire(d)

\* the receive API is fixed by the application protocol: the receiver knows whether
\* the next message it is owed is a secret (GetSecret) or an ordinary message
ExpectSecret(d) ==
  LET n == Len(delivered[d]) + (IF rstate[d] = "inmsg" THEN 1 ELSE 0) + 1 IN
  n <= Len(sentKind[d]) /\ sentKind[d][n] = "secret"

ReceiverNext(d) ==
  \* which receive API is used is fixed by the application protocol: a secret is
  \* read with GetSecret.  A call that would block on an empty wire is the same
  \* as the call made later, so calls start when there is something to read.
  \/ \E api \in Apis : /\ wire[d] # <<>> \/ closed[d]
                       /\ (api = "secret") = ExpectSecret(d)
                       /\ CallRecv(d, api)
  \/ RecvStep(d) \/ EndRead(d)

Next ==
  \/ \E d \in Dir : SenderNext(d) \/ ReceiverNext(d)
  \/ \E e \in End : Handoff(e) \/ \E bf \in BlobFaults : HandoffBadBlob(e, bf)
  \/ Adversary

Spec == Init /\ [][Next]_vars

-----------------------------------------------------------------------------
(* Properties *)

FullMsg(m, n) == [k \in 1..n |-> <<m, k>>]

\* C02: what the application got is an exact in-order prefix of what was sent
DeliveredPrefix ==
  \A d \in Dir :
    /\ Len(delivered[d]) <= Len(sentLog[d])
    /\ \A m \in 1..Len(delivered[d]) : delivered[d][m] = FullMsg(m, sentLog[d][m])

\* with no adversary the only receive error is a clean end-of-stream after everything
\* (this is what makes hand-offs "transparent", C15)
NoSpuriousError ==
  \A d \in Dir :
    (faults = 0 /\ rstate[d] = "err") =>
        (closed[d] /\ wire[d] = <<>> /\ Len(delivered[d]) = Len(sentLog[d]) /\ cur[d] = None)

\* C12: no (direction, iv, counter) is ever used twice for sealing
NonceFresh == ~reuse


\* C12: the base IV travels with the first protected frame of a direction only,
\* and only that frame binds the digests
FrameFormat ==
  \A d \in Dir : \A i \in 1..Len(wire[d]) :
    LET f == wire[d][i] IN
      (f.forged = "no" /\ f.prot) => (f.hasIV = (f.ctr = 0))

\* C12: a sender at the counter limit emits nothing  (action property)
RefuseAtWrap ==
  [][\A d \in Dir : (sCtr[d] = MaxCtr /\ baseEnc) => Len(wire'[d]) <= Len(wire[d])]_vars

TypeOK ==
  /\ baseEnc \in BOOLEAN
  /\ \A d \in Dir : sCtr[d] \in 0..MaxCtr /\ rCtr[d] \in 0..(MaxCtr + 1)
  /\ \A d \in Dir : rstate[d] \in {"idle", "busy", "inmsg", "err"}
=============================================================================
