\* non-vacuity: with Bug = {"ListenerLeftOpen"} TLC must report PortReleased violated
SPECIFICATION SpecS
CONSTANTS
  Hows = {"new"}
  Routes = {"direct"}
  Secs = {"none"}
  EnvsNew = {}
  EnvsCA = {}
  Ctxs = {}
  MaxCalls = 0
  MaxSock = 0
  MaxConn = 2
  Kinds = {"ok", "err", "panic", "block", "keepopen", "unknown"}
  Bug = {"ListenerLeftOpen"}
INVARIANTS PortReleased
CHECK_DEADLOCK FALSE
