\* non-vacuity: with Bug = {"LeakOnAuthFailure"} TLC must report NoOrphan violated
SPECIFICATION SpecC
CONSTANTS
  Hows = {"new", "ca"}
  Routes = {"direct", "shared", "ccb"}
  Secs = {"none", "sec"}
  EnvsNew = {"absent", "dialstall", "stall"}
  EnvsCA = {"absent", "dialstall", "close", "stall", "serve", "reject"}
  Ctxs = {"live", "pre", "during"}
  MaxCalls = 3
  MaxSock = 2
  MaxConn = 0
  Kinds = {}
  Bug = {"LeakOnAuthFailure"}
INVARIANTS NoOrphan
CHECK_DEADLOCK FALSE
