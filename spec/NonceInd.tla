---------------------------- MODULE NonceInd ----------------------------
(* Unbounded-counter argument for C12 "no key/nonce pair is used twice in a
   direction, and a stream refuses to send rather than let its counter wrap":
   the sender half of SecureChannel.tla for ONE direction with the wire, the
   receiver and the adversary projected away (they never write sCtr, sIV, used).
   Proved for every MaxCtr \in Nat with TLAPS (bin/selftest runs tlapm on it);
   SecureChannel.tla checks the same invariant by TLC for small MaxCtr together
   with everything this module leaves out.                                     *)
EXTENDS Integers, TLAPS

CONSTANT MaxCtr           \* the real limit is 2^32 - 1
ASSUME MaxCtrNat == MaxCtr \in Nat

VARIABLES ctr,      \* frame counter of the direction (encryptCounter)
          iv,       \* identity of the direction's base IV (fresh IVs are numbered)
          ivNext,   \* next unused IV identity: "fresh and distinct for every direction and session"
          used,     \* set of <<iv, ctr>> pairs a frame was sealed under (one key per session: the IV identity stands for the session)
          reuse     \* a pair was used twice

vars == <<ctr, iv, ivNext, used, reuse>>

Init == /\ ctr \in 0..MaxCtr    \* fresh (0) or imported near the limit
        /\ iv = 0 /\ ivNext = 1
        /\ used = {} /\ reuse = FALSE

\* a protected frame leaves: only below the limit
Send == /\ ctr < MaxCtr
        /\ used' = used \cup {<<iv, ctr>>}
        /\ reuse' = (reuse \/ <<iv, ctr>> \in used)
        /\ ctr' = ctr + 1
        /\ UNCHANGED <<iv, ivNext>>

\* at the limit the send is refused: nothing changes (RefuseAtWrap)
Refuse == ctr = MaxCtr /\ UNCHANGED vars

\* a new session / a new key: fresh base IV, counter from an imported state or 0
NewSession == /\ iv' = ivNext /\ ivNext' = ivNext + 1
              /\ ctr' \in 0..MaxCtr
              /\ UNCHANGED <<used, reuse>>

\* export + import of the crypto state (C15): the importer continues exactly where
\* the exporter stopped and the exporter stops using the key -- no change here
Handoff == UNCHANGED vars

Next == Send \/ Refuse \/ NewSession \/ Handoff
Spec == Init /\ [][Next]_vars

NonceFresh == ~reuse
Bounded == ivNext <= 3      \* state constraint of the TLC cross-check (MC_NonceInd.cfg)

IndInv == /\ ctr \in 0..MaxCtr
          /\ iv \in Nat /\ ivNext \in Nat /\ iv < ivNext
          /\ reuse = FALSE
          /\ \A n \in used : /\ n[1] \in Nat /\ n[2] \in Nat
                             /\ n[1] <= iv
                             /\ (n[1] = iv => n[2] < ctr)

THEOREM InitInd == Init => IndInv
  BY MaxCtrNat DEF Init, IndInv

THEOREM NextInd == IndInv /\ [Next]_vars => IndInv'
<1> SUFFICES ASSUME IndInv, [Next]_vars PROVE IndInv'
  OBVIOUS
<1>1 CASE Send
  BY <1>1, MaxCtrNat DEF Send, IndInv
<1>2 CASE Refuse
  BY <1>2 DEF Refuse, IndInv, vars
<1>3 CASE NewSession
  BY <1>3, MaxCtrNat DEF NewSession, IndInv
<1>4 CASE Handoff
  BY <1>4 DEF Handoff, IndInv, vars
<1>5 CASE UNCHANGED vars
  BY <1>5 DEF IndInv, vars
<1> QED BY <1>1, <1>2, <1>3, <1>4, <1>5 DEF Next

THEOREM Safety == Spec => []NonceFresh
<1>1 IndInv => NonceFresh
  BY DEF IndInv, NonceFresh
<1> QED BY InitInd, NextInd, <1>1, PTL DEF Spec
=============================================================================
