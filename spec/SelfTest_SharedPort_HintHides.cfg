\* non-vacuity: with Bug = {"HintHides"} TLC must report NeverHides violated
SPECIFICATION Spec
CONSTANTS
  Mode = "hint"
  Origins = {"listen"}
  MaxD = 1
  MaxAcc = 1
  MaxClose = 1
  Scripts <- QuickScripts
  Shapes <- SmallShapes
  ErrClasses <- AllErrClasses
  Bug = {"HintHides"}
INVARIANTS NeverHides
CHECK_DEADLOCK FALSE
