SPECIFICATION GenSpec
CONSTANTS
  Tags = {"none", "A", "B"}
  Addrs = {"s1", "s2"}
  Cmds = {"c1", "c2", "c3"}
  ValidCmds = {"c1", "c2"}
  MaxSid = 5
  MaxTime = 0
  Duration = 1
  Lease = 1
  ImportOn = FALSE
  MaxRec = 0
  Bug = {}
  GenMode = "C07walk"
  GenDepth = 7
  LifeDepth = 0
  Canon = TRUE
INVARIANT EmitTrace
CHECK_DEADLOCK FALSE
