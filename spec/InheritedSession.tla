-------------------------- MODULE InheritedSession --------------------------
(***************************************************************************)
(* G05 - inherited / family security sessions.                             *)
(*                                                                         *)
(* A parent daemon (condor_master) hands its children two pre-shared       *)
(* security sessions through the environment:                              *)
(*                                                                         *)
(*   CONDOR_INHERIT          ppid psinful [socket descriptors ...]         *)
(*   CONDOR_PRIVATE_INHERIT  SessionKey:<claimid> FamilySessionKey:<claimid>*)
(*                                                                         *)
(* with <claimid> = id#info#key (cedar's ExportClaimID) or HTCondor's own  *)
(* id#[info]key (ClaimIdParser: no second '#').  The child                 *)
(* (security/inherited_session.go, session_manager.go) parses both texts   *)
(* (ParseCondorInherit, ParseCondorPrivateInherit, ParseClaimID,           *)
(* ImportSessionInfoAttributes), turns every triple into a cache entry     *)
(* (CreateNonNegotiatedSession: HKDF key, AES-GCM, policy, identity        *)
(* condor@parent / condor@family, method FAMILY, authenticated, expiry from*)
(* SessionExpires, lease 0), stores it marked inherited, maps the          *)
(* session's ValidCommands (or DC_CHILDALIVE) for the parent's raw and     *)
(* normalised shared-port address, unsets the private variable, and from   *)
(* then on parent and child resume that session with each other instead of *)
(* authenticating.                                                         *)
(*                                                                         *)
(* Both texts are modelled as TOKEN SEQUENCES: the grammar's delimiters    *)
(* (white space, ':', '#', '[', ']', ';', '=', ',', '.', '"', and inside   *)
(* the sinful '<', '>', '?', '&') are explicit tokens, everything else is  *)
(* an atom.  A scenario is the INTENT (what the parent meant to hand over: *)
(* a list of items, each a point in kind x form x cipher list x expiry x   *)
(* commands x version, well-formed or a near miss); the text is rendered   *)
(* from the intent, the child-side operators work on the text only, and    *)
(* the invariants state that what they arrive at is what the intent        *)
(* entails.  Cryptography is symbolic: Kdf(secret) is a term.              *)
(*                                                                         *)
(* One behaviour = one scenario (chosen in Init) taken through             *)
(*    Parse -> Import(1) .. Import(n) -> Resume(1) .. Resume(n).           *)
(***************************************************************************)
EXTENDS Integers, Sequences, FiniteSets, TLC

CONSTANTS
  Tier,        \* "quick" | "all"
  SecretRels,  \* subset of {"same", "diff"}: does the parent hold the secret that is in the text
  Bug

-----------------------------------------------------------------------------
(* generic sequence helpers                                                  *)

MinOf(S) == CHOOSE x \in S : \A y \in S : x <= y
MaxOf(S) == CHOOSE x \in S : \A y \in S : y <= x
Positions(s, d) == {k \in 1..Len(s) : s[k] = d}

RECURSIVE SplitOn(_, _)
SplitOn(s, d) ==           \* pieces between the occurrences of d (empty pieces kept)
  LET idx == Positions(s, d) IN
  IF idx = {} THEN << s >>
  ELSE LET k == MinOf(idx) IN << SubSeq(s, 1, k - 1) >> \o SplitOn(SubSeq(s, k + 1, Len(s)), d)

RECURSIVE Concat(_, _)
Concat(parts, sep) ==      \* parts joined by the token sequence sep
  IF Len(parts) = 0 THEN << >>
  ELSE IF Len(parts) = 1 THEN parts[1]
  ELSE parts[1] \o sep \o Concat(Tail(parts), sep)

WS == {" ", "<TAB>"}

RECURSIVE Fields(_)
Fields(t) ==               \* strings.Fields: maximal runs of non-white-space tokens
  LET idx == {k \in 1..Len(t) : t[k] \in WS} IN
  IF Len(t) = 0 THEN << >>
  ELSE IF idx = {} THEN << t >>
  ELSE LET k == MinOf(idx)
           rest == Fields(SubSeq(t, k + 1, Len(t)))
       IN IF k = 1 THEN rest ELSE << SubSeq(t, 1, k - 1) >> \o rest

-----------------------------------------------------------------------------
(* the intent                                                                *)

Item(kind, form, ciph, exp, cmds, ver, id, key) ==
  [kind |-> kind, form |-> form, ciph |-> ciph, exp |-> exp, cmds |-> cmds, ver |-> ver, id |-> id, key |-> key]
Scn(addr, ws, items, dms) == [addr |-> addr, ws |-> ws, items |-> items, dms |-> dms]

Kinds      == <<"parent", "family">>
WFForms    == <<"hash3", "bracket">>
WFCiph     == <<"aes", "aesgcm", "legacy", "none">>
WFExp      == <<"none", "future", "zero">>
CmdsL      == <<"none", "one", "two">>
Vers       == <<"none", "short">>
AddrShapes == <<"plain", "sharedport", "alias", "ipv6sp", "ipv6plain">>
WsStyles   == <<"single", "lead", "messy">>
DirModes   == <<"childById", "childByCmdRaw", "childByCmdNorm", "parentById">>

IdOf(kind) == CASE kind = "parent" -> "idP" [] kind = "family" -> "idF" [] OTHER -> "idX"

\* what HTCondor's master emits
Base(kind) == Item(kind, "bracket", "legacy", "none", "none", "short", IdOf(kind), IF kind = "family" THEN "k2" ELSE "k1")

With(it, f, v) ==
  CASE f = "form" -> [it EXCEPT !.form = v] [] f = "ciph" -> [it EXCEPT !.ciph = v]
    [] f = "exp"  -> [it EXCEPT !.exp = v]  [] f = "cmds" -> [it EXCEPT !.cmds = v]
    [] f = "kind" -> [it EXCEPT !.kind = v] [] f = "id"   -> [it EXCEPT !.id = v]
    [] f = "key"  -> [it EXCEPT !.key = v]  [] OTHER      -> [it EXCEPT !.ver = v]

\* every well-formed single item; address shape, white-space style and the
\* direction / mode of the quick tier rotate with the item's coordinates
WFSingles ==
  { Scn(AddrShapes[((k + f + c + e + m + v) % 5) + 1], WsStyles[((k + (2 * f) + c + m) % 3) + 1],
        << Item(Kinds[k], WFForms[f], WFCiph[c], WFExp[e], CmdsL[m], Vers[v], IdOf(Kinds[k]), "k1") >>,
        { DirModes[((k + f + (2 * c) + e + (3 * m) + v) % 4) + 1] }) :
      k \in 1..2, f \in 1..2, c \in 1..4, e \in 1..3, m \in 1..3, v \in 1..2 }

Idx(seq, x) == CHOOSE i \in 1..Len(seq) : seq[i] = x
QuickPick(it) ==
  (Idx(Kinds, it.kind) + Idx(WFForms, it.form) + Idx(WFCiph, it.ciph) + Idx(WFExp, it.exp)
   + Idx(CmdsL, it.cmds) + Idx(Vers, it.ver)) % 3 = 0

\* the standard pair (parent + family), both orders, forms and command lists varied
Pairs ==
  { Scn(AddrShapes[((o + f + g + m) % 5) + 1], WsStyles[((o + f + m) % 3) + 1],
        IF o = 1
        THEN << With(With(Base("parent"), "form", WFForms[f]), "cmds", CmdsL[m]),
                With(With(Base("family"), "form", WFForms[g]), "cmds", CmdsL[n]) >>
        ELSE << With(With(Base("family"), "form", WFForms[g]), "cmds", CmdsL[n]),
                With(With(Base("parent"), "form", WFForms[f]), "cmds", CmdsL[m]) >>,
        { DirModes[((o + f + g + m + n) % 4) + 1], DirModes[((o + f + g + m + n + 2) % 4) + 1] }) :
      o \in 1..2, f \in 1..2, g \in 1..2, m \in 1..3, n \in 1..3 }

\* near misses: one deviation from the base item
NearForms == {"noinfo", "nohash", "emptykey", "emptykeyB", "emptyid", "unbracketed", "keyhash"}
NearItems ==
  { With(Base(k), "form", f) : k \in {"parent", "family"}, f \in NearForms }
  \cup { With(Base(k), "ciph", c) : k \in {"parent", "family"}, c \in {"nonaes", "blowfish"} }
  \cup { With(Base(k), "exp", e) : k \in {"parent", "family"}, e \in {"past", "garbage"} }
  \cup { With(With(Base(k), "form", "hash3"), "exp", "past") : k \in {"parent", "family"} }
  \cup { With(Base("family"), "kind", "other"), With(With(Base("parent"), "kind", "other"), "form", "hash3") }

OtherKind(k) == IF k = "family" THEN "parent" ELSE "family"
Mate(it) == LET b == Base(OtherKind(it.kind)) IN [b EXCEPT !.id = IdOf(OtherKind(it.kind))]

NearMisses ==
  { Scn("sharedport", "lead", << it >>, {"childById", "parentById"}) : it \in NearItems }
  \cup { Scn("plain", "single", << it, Mate(it) >>, {"childById"}) : it \in NearItems }
  \cup { Scn("alias", "messy", << Mate(it), it >>, {"parentById"}) : it \in NearItems }

\* two triples naming the SAME session id
Dups ==
  { Scn("sharedport", "lead", << Base("parent"), With(With(Base("family"), "id", "idP"), "key", "k2") >>, {"childById"}),
    Scn("plain", "single", << Base("parent"), With(Base("parent"), "key", "k2") >>, {"parentById"}),
    Scn("sharedport", "lead", << Base("parent"), With(Base("parent"), "form", "emptykey") >>, {"childById", "parentById"}),
    Scn("sharedport", "lead", << With(Base("family"), "ciph", "nonaes"), Base("family") >>, {"childById", "parentById"}),
    Scn("alias", "messy", << Base("family"), With(Base("family"), "form", "noinfo") >>, {"childByCmdNorm"}) }

\* three items with an unknown prefix in the middle; every shape of CONDOR_INHERIT
Triples ==
  { Scn(a, w, << Base("parent"), With(With(Base("family"), "kind", "other"), "id", "idX"), With(Base("family"), "cmds", c) >>,
        {"childByCmdRaw", "childByCmdNorm"}) :
      a \in {"plain", "sharedport", "alias", "ipv6sp", "ipv6plain", "pidonly", "empty"},
      w \in {"lead", "messy"}, c \in {"none", "two"} }
  \cup { Scn(a, "lead", << >>, {"childById"}) : a \in {"sharedport", "empty"} }

\* quick tier: a third of the well-formed singles (the coordinates' sum is a
\* multiple of 3: every PAIR of values of two dimensions still occurs) and the
\* pairs with one direction / mode each; everything else in full
One(S) == {CHOOSE x \in S : TRUE}
Scenarios ==
  IF Tier = "all" THEN WFSingles \cup Pairs \cup NearMisses \cup Dups \cup Triples
  ELSE { s \in WFSingles : QuickPick(s.items[1]) }
       \cup { [s EXCEPT !.dms = One(s.dms)] : s \in Pairs }
       \cup NearMisses \cup Dups \cup Triples

-----------------------------------------------------------------------------
(* intent -> text                                                            *)

Q == "\""
Str(n, v) == <<n, "=", Q>> \o v \o <<Q>>
Bare(n, v) == <<n, "=">> \o v

AddrText(a) ==
  CASE a = "plain"      -> <<"<", "ip4:port", ">">>
    [] a = "sharedport" -> <<"<", "ip4:port", "?", "sock", "=", "master_1_ab", ">">>
    [] a = "alias"      -> <<"<", "ip4:port", "?", "addrs", "=", "ip4-port", "&", "alias", "=", "host",
                             "&", "noUDP", "&", "sock", "=", "master_1_ab", ">">>
    [] a = "ipv6sp"     -> <<"<", "[", "::1", "]", ":port", "?", "sock", "=", "master_1_ab", "&", "noUDP", ">">>
    [] a = "ipv6plain"  -> <<"<", "[", "::1", "]", ":port", ">">>
    [] OTHER            -> << >>

\* the address a client actually dials for a shared-port daemon
NormAddrIntent(a) ==
  CASE a \in {"sharedport", "alias"} -> <<"<", "ip4:port", "?", "sock", "=", "master_1_ab", ">">>
    [] a = "ipv6sp"                   -> <<"<", "[", "::1", "]", ":port", "?", "sock", "=", "master_1_ab", ">">>
    [] OTHER                          -> << >>

InheritText(a) ==
  CASE a = "empty"   -> << >>
    [] a = "pidonly" -> <<"ppid">>
    [] OTHER         -> <<"ppid", " ">> \o AddrText(a) \o <<" ", "1", " ", "sockdesc", " ", "0", " ", "0">>

IdText(it)  == IF it.form = "emptyid" THEN << >> ELSE <<it.id, ":", "4711", ":", "seq">>
KeyText(it) ==
  CASE it.form \in {"emptykey", "emptykeyB"} -> << >>
    [] it.form = "keyhash"                    -> <<it.key, "#", "tail">>
    [] OTHER                                  -> <<it.key>>

CipherAttrs(c) ==
  CASE c \in {"aes"}    -> << Str("CryptoMethods", <<"AES">>) >>
    [] c = "aesgcm"     -> << Str("CryptoMethods", <<"AESGCM">>) >>
    [] c = "legacy"     -> << Str("CryptoMethods", <<"BLOWFISH">>), Str("CryptoMethodsList", <<"AES", ".", "BLOWFISH", ".", "3DES">>) >>
    [] c = "nonaes"     -> << Str("CryptoMethods", <<"BLOWFISH">>), Str("CryptoMethodsList", <<"BLOWFISH", ".", "3DES">>) >>
    [] c = "blowfish"   -> << Str("CryptoMethods", <<"BLOWFISH">>) >>
    [] OTHER            -> << >>

ExpTok(e) == CASE e = "future" -> <<"T+3600">> [] e = "past" -> <<"T-3600">> [] e = "zero" -> <<"0">> [] OTHER -> <<"soon">>
CmdToks(m) == CASE m = "one" -> <<"421">> [] m = "two" -> <<"60008", ",", "421">> [] OTHER -> << >>
VerToks == <<"25", ".", "4", ".", "0">>

\* attributes in the alphabetical order HTCondor emits them, each followed by ';'
InfoAttrs(it) ==
  CipherAttrs(it.ciph)
  \o << Str("Encryption", <<"YES">>), Str("Integrity", <<"YES">>) >>
  \o (IF it.exp # "none" THEN << Bare("SessionExpires", ExpTok(it.exp)) >> ELSE << >>)
  \o (IF it.ver # "none" THEN << Str("ShortVersion", VerToks) >> ELSE << >>)
  \o (IF it.cmds # "none" THEN << Str("ValidCommands", CmdToks(it.cmds)) >> ELSE << >>)

InfoBody(it) == LET as == InfoAttrs(it) IN Concat([k \in 1..Len(as) |-> as[k] \o <<";">>], << >>)
InfoText(it) ==
  CASE it.form \in {"noinfo", "nohash"} -> << >>
    [] it.form = "unbracketed"           -> InfoBody(it)
    [] OTHER                             -> <<"[">> \o InfoBody(it) \o <<"]">>

ClaimText(it) ==
  CASE it.form = "nohash"                           -> IdText(it)
    [] it.form \in {"bracket", "emptykeyB"}         -> IdText(it) \o <<"#">> \o InfoText(it) \o KeyText(it)
    [] OTHER                                        -> IdText(it) \o <<"#">> \o InfoText(it) \o <<"#">> \o KeyText(it)

Prefix(k) == CASE k = "parent" -> "SessionKey" [] k = "family" -> "FamilySessionKey" [] OTHER -> "OtherKey"
ItemText(it) == <<Prefix(it.kind), ":">> \o ClaimText(it)

PrivText(s) ==
  LET texts == [k \in 1..Len(s.items) |-> ItemText(s.items[k])] IN
  CASE s.ws = "single" -> Concat(texts, <<" ">>)
    [] s.ws = "lead"   -> <<" ">> \o Concat(texts, <<" ">>)
    [] OTHER           -> <<"<TAB>">> \o Concat(texts, <<" ", " ">>) \o <<" ">>

-----------------------------------------------------------------------------
(* the child: text -> sessions -> cache entries (structured like the code)   *)

\* ParseCondorInherit: fields; the first is the pid, the second the parent's sinful
ParseInherit(t) ==
  LET f == Fields(t) IN
  [ppid |-> IF Len(f) >= 1 THEN f[1] ELSE << >>,
   addr |-> IF Len(f) >= 2 THEN f[2] ELSE << >>,
   rest |-> IF Len(f) > 2 THEN Len(f) - 2 ELSE 0]

\* ParseClaimID: id # info # key, split on the FIRST two '#' ("at most three
\* parts, to avoid losing extra # characters in the key"); when that leaves no
\* key, HTCondor's form id#[info]key is split after the last ']'
ParseClaim(c) ==
  LET hs == Positions(c, "#") IN
  IF hs = {} THEN [sid |-> c, info |-> << >>, key |-> << >>]
  ELSE
    LET h1 == MinOf(hs)
        later == hs \ {h1}
        h2 == IF later = {} THEN 0
              ELSE IF "SplitLastHash" \in Bug THEN MaxOf(later) ELSE MinOf(later)
        sid0  == SubSeq(c, 1, h1 - 1)
        info0 == IF h2 = 0 THEN SubSeq(c, h1 + 1, Len(c)) ELSE SubSeq(c, h1 + 1, h2 - 1)
        key0  == IF h2 = 0 THEN << >> ELSE SubSeq(c, h2 + 1, Len(c))
        bs    == {k \in Positions(info0, "]") : k < Len(info0)}
    IN IF key0 = << >> /\ info0 # << >> /\ bs # {}
       THEN [sid |-> sid0, info |-> SubSeq(info0, 1, MaxOf(bs)), key |-> SubSeq(info0, MaxOf(bs) + 1, Len(info0))]
       ELSE [sid |-> sid0, info |-> info0, key |-> key0]

\* ParseCondorPrivateInherit: white-space separated items; SessionKey: and
\* FamilySessionKey: are recognised, anything else is ignored; a claim id
\* without session info carries no security session
KindOfPrefix(p) ==
  CASE p = "SessionKey" -> "parent" [] p = "FamilySessionKey" -> "family"
    [] OTHER -> IF "AcceptsAnyPrefix" \in Bug THEN "parent" ELSE "none"

ParseField(f) ==
  IF Len(f) >= 2 /\ f[2] = ":" /\ KindOfPrefix(f[1]) # "none"
  THEN LET pc == ParseClaim(SubSeq(f, 3, Len(f))) IN
       IF pc.sid # << >> /\ pc.info # << >>
       THEN << [kind |-> KindOfPrefix(f[1]), sid |-> pc.sid, info |-> pc.info, key |-> pc.key] >>
       ELSE << >>
  ELSE << >>

RECURSIVE FlatMapFields(_)
FlatMapFields(fs) == IF Len(fs) = 0 THEN << >> ELSE ParseField(fs[1]) \o FlatMapFields(Tail(fs))
ParsePriv(t) == FlatMapFields(Fields(t))

\* ImportSessionInfoAttributes: brackets removed if present, split on ';', then
\* on the first '='; surrounding quotes removed
Unquote(v) == IF Len(v) >= 2 /\ v[1] = Q /\ v[Len(v)] = Q THEN SubSeq(v, 2, Len(v) - 1) ELSE v
AttrList(info) ==
  LET a == IF Len(info) >= 1 /\ info[1] = "[" THEN SubSeq(info, 2, Len(info)) ELSE info
      b == IF Len(a) >= 1 /\ a[Len(a)] = "]" THEN SubSeq(a, 1, Len(a) - 1) ELSE a
      items == SelectSeq(SplitOn(b, ";"), LAMBDA x : Positions(x, "=") # {} /\ MinOf(Positions(x, "=") \cup {Len(x) + 1}) = 2)
  IN [k \in 1..Len(items) |-> [n |-> items[k][1], v |-> Unquote(SubSeq(items[k], 3, Len(items[k])))]]
HasAttr(al, n) == \E k \in 1..Len(al) : al[k].n = n
AttrVal(al, n) == IF HasAttr(al, n) THEN al[MaxOf({k \in 1..Len(al) : al[k].n = n})].v ELSE << >>

Kdf(secret, who) ==
  <<"hkdf-sha256", secret, "salt=htcondor",
    IF "DifferentKdfInfo" \in Bug /\ who = "child" THEN "info=other" ELSE "info=keygen">>

ExpiryClass(v) == IF v = <<"T+3600">> THEN "future" ELSE IF v = <<"T-3600">> THEN "past" ELSE "never"

NoEntry == [present |-> FALSE]
CmdUniverse == {"60008", "421", "60007"}
ChildAlive == "60008"

\* the policy attributes copied from the session info
Copied(al) == [enc |-> AttrVal(al, "Encryption"), integ |-> AttrVal(al, "Integrity"),
               cmds |-> AttrVal(al, "ValidCommands"), ver |-> AttrVal(al, "ShortVersion"),
               expires |-> AttrVal(al, "SessionExpires")]

\* CreateNonNegotiatedSession
CreateEntry(s, who) ==
  LET al    == AttrList(s.info)
      list  == IF "LegacyCipherField" \in Bug THEN << >> ELSE AttrVal(al, "CryptoMethodsList")
      first == IF list # << >> THEN SplitOn(list, ".")[1]
               ELSE IF AttrVal(al, "CryptoMethods") # << >> THEN SplitOn(AttrVal(al, "CryptoMethods"), ",")[1]
               ELSE <<"AESGCM">>
  IN IF s.sid = << >> \/ first \notin {<<"AES">>, <<"AESGCM">>} \/ s.key = << >>
     THEN IF "PartialEntryOnError" \in Bug /\ s.sid # << >>
          THEN [present |-> TRUE, sid |-> s.sid, key |-> << >>, proto |-> "none", user |-> "none", method |-> "none",
                authed |-> FALSE, expiry |-> "never", lease |-> 0, inherited |-> TRUE, cm |-> "none", copied |-> Copied(al)]
          ELSE NoEntry
     ELSE [present |-> TRUE, sid |-> s.sid, key |-> Kdf(s.key, who), proto |-> "AESGCM",
           user |-> IF s.kind = "family" /\ "FamilyIsParent" \notin Bug THEN "condor@family" ELSE "condor@parent",
           method |-> "FAMILY",
           authed |-> "NotAuthenticated" \notin Bug,
           expiry |-> IF "ExpiryDropped" \in Bug THEN "never" ELSE ExpiryClass(AttrVal(al, "SessionExpires")),
           lease |-> 0, inherited |-> TRUE, cm |-> "AESGCM", copied |-> Copied(al)]

\* the commands a session is mapped for
CmdSet(s) ==
  LET vc == AttrVal(AttrList(s.info), "ValidCommands")
      ps == SplitOn(vc, ",")
      cs == {ps[i][1] : i \in {j \in 1..Len(ps) : Len(ps[j]) = 1}}
  IN IF "MapsAllCommands" \in Bug THEN CmdUniverse
     ELSE IF vc = << >> \/ cs = {} THEN {ChildAlive} ELSE cs

\* the normalised shared-port address <server?sock=id> of a sinful
NormAddr(a) ==
  LET inner == IF Len(a) >= 2 /\ a[1] = "<" /\ a[Len(a)] = ">" THEN SubSeq(a, 2, Len(a) - 1) ELSE a
      qs    == Positions(inner, "?")
  IN IF qs = {} \/ "NoNormalizedAddr" \in Bug THEN << >>
     ELSE LET q      == MinOf(qs)
              server == SubSeq(inner, 1, q - 1)
              params == SplitOn(SubSeq(inner, q + 1, Len(inner)), "&")
              socks  == {k \in 1..Len(params) : Len(params[k]) >= 3 /\ params[k][1] = "sock" /\ params[k][2] = "="}
          IN IF socks = {} THEN << >>
             ELSE <<"<">> \o server \o <<"?", "sock", "=">> \o SubSeq(params[MinOf(socks)], 3, Len(params[MinOf(socks)])) \o <<">">>

MapAddrs(raw) == {raw} \cup (IF NormAddr(raw) # << >> THEN {NormAddr(raw)} ELSE {})

\* does the private-inherit parser yield a session for this item
Yielded(it) == it.kind \in {"parent", "family"} /\ it.form \notin {"noinfo", "nohash", "emptyid"}

\* "wf": must become exactly one entry; "either": the documentation does not say
\* (info without brackets is read by ImportSessionInfoAttributes and refused by
\* ImportSecSessionInfo; a SessionExpires that is not a number); "bad": no entry
Class(it) ==
  IF ~Yielded(it) \/ it.form \in {"emptykey", "emptykeyB"} \/ it.ciph \in {"nonaes", "blowfish"} THEN "bad"
  ELSE IF it.form = "unbracketed" \/ it.exp = "garbage" THEN "either"
  ELSE "wf"

-----------------------------------------------------------------------------
VARIABLES
  sc, rel, dm,     \* the scenario, whether the parent holds the secret in the text, direction / mode
  phase,           \* "init" -> "parsed" -> "importing" -> "resuming" -> "done"
  inherit, priv,   \* the two texts
  privEnv,         \* "set" | "unset": is CONDOR_PRIVATE_INHERIT still in the environment
  pinh, parsed,    \* ParseCondorInherit / ParseCondorPrivateInherit results
  k,               \* index of the next triple to import / item to resume
  cache, cmap,     \* the child's session cache (a set of entries) and command map (a set of [addr, cmd, sid])
  pcache,          \* the parent's cache
  results

vars == <<sc, rel, dm, phase, inherit, priv, privEnv, pinh, parsed, k, cache, cmap, pcache, results>>

\* the parent minted the sessions: it holds an entry for every item that names
\* an id and a key, built from the intent (never from the text)
ParentEntry(it) ==
  [present |-> TRUE, sid |-> IdText(it),
   key |-> Kdf(IF rel = "same" THEN KeyText(it) ELSE <<"other-secret">>, "parent"),
   proto |-> "AESGCM", user |-> IF it.kind = "family" THEN "condor@family" ELSE "condor@parent",
   method |-> "FAMILY", authed |-> TRUE, expiry |-> "never", lease |-> 0, inherited |-> TRUE, cm |-> "AESGCM",
   copied |-> [enc |-> <<"YES">>, integ |-> <<"YES">>, cmds |-> << >>, ver |-> << >>, expires |-> << >>]]

\* one entry per id: when several items name an id, the parent holds the session
\* of the last one that can be a session at all (else of the last one)
ParentItem(items, i) ==
  LET cand == {j \in 1..Len(items) : IdText(items[j]) = IdText(items[i]) /\ KeyText(items[j]) # << >>}
      good == {j \in cand : Class(items[j]) # "bad"}
  IN IF good # {} THEN MaxOf(good) ELSE MaxOf(cand)

Init ==
  /\ sc \in Scenarios
  /\ rel \in SecretRels
  /\ dm \in (IF Tier = "all" THEN {DirModes[i] : i \in 1..4} ELSE sc.dms)
  /\ phase = "init"
  /\ inherit = InheritText(sc.addr) /\ priv = PrivText(sc)
  /\ privEnv = "set"
  /\ pinh = [ppid |-> << >>, addr |-> << >>, rest |-> 0] /\ parsed = << >>
  /\ k = 0
  /\ cache = {} /\ cmap = {}
  /\ pcache = { ParentEntry(sc.items[ParentItem(sc.items, i)]) :
                  i \in {j \in 1..Len(sc.items) : IdText(sc.items[j]) # << >> /\ KeyText(sc.items[j]) # << >>} }
  /\ results = << >>

\* ImportInheritedSessions: both variables are read and parsed once; the private
\* one is removed from the environment so that it is not passed on to children
Parse ==
  /\ phase = "init"
  /\ pinh' = ParseInherit(inherit)
  /\ parsed' = ParsePriv(priv)
  /\ privEnv' = IF "EnvNotCleared" \in Bug THEN "set" ELSE "unset"
  /\ phase' = IF Len(parsed') = 0 THEN (IF Len(sc.items) = 0 THEN "done" ELSE "resuming") ELSE "importing"
  /\ k' = 1
  /\ UNCHANGED <<sc, rel, dm, inherit, priv, cache, cmap, pcache, results>>

\* registerInheritedSessions, one parsed triple: CreateNonNegotiatedSession,
\* SetInherited, Store, MapCommand for every command x {raw, normalised} address;
\* a triple that cannot be turned into a session is skipped and leaves nothing
Store(c, e) == {x \in c : x.sid # e.sid} \cup {e}
MapAll(m, addrs, cmds, sid) ==
  {x \in m : ~(x.addr \in addrs /\ x.cmd \in cmds)} \cup {[addr |-> a, cmd |-> c, sid |-> sid] : a \in addrs, c \in cmds}

Import ==
  /\ phase = "importing"
  /\ LET s == parsed[k]
         e == CreateEntry(s, "child")
     IN IF e.present
        THEN /\ cache' = Store(cache, e)
             /\ cmap' = IF e.proto = "none" THEN cmap ELSE MapAll(cmap, MapAddrs(pinh.addr), CmdSet(s), s.sid)
        ELSE UNCHANGED <<cache, cmap>>
  /\ IF k = Len(parsed) THEN (phase' = "resuming" /\ k' = 1) ELSE (phase' = phase /\ k' = k + 1)
  /\ UNCHANGED <<sc, rel, dm, inherit, priv, privEnv, pinh, parsed, pcache, results>>

Find(c, sid) == IF \E x \in c : x.sid = sid THEN CHOOSE x \in c : x.sid = sid ELSE NoEntry
Usable(e) == e.present /\ (e.expiry # "past" \/ "ExpiredResumed" \in Bug)

\* one connection naming item k's session: the dialling end looks the id up in
\* its own cache (explicitly, or through the command map), the listening end in
\* its; the session is resumed iff both hold a usable entry, and application
\* data flows iff both hold the same key
Resume ==
  /\ phase = "resuming"
  /\ LET it  == sc.items[k]
         sid == IdText(it)
         ce  == Find(cache, sid)
         pe  == Find(pcache, sid)
         childDials == dm # "parentById"
         sv  == IF childDials THEN pe ELSE ce
         found == sid # << >> /\ Usable(ce) /\ Usable(pe)
         works == found /\ ce.key = pe.key
     IN results' = Append(results,
          [k |-> k, sid |-> sid, dir |-> IF childDials THEN "childDials" ELSE "parentDials",
           found |-> found, works |-> works,
           user |-> IF found THEN sv.user ELSE "none",
           authed |-> found /\ sv.authed,
           method |-> IF found THEN sv.method ELSE "none",
           enc |-> found /\ sv.proto = "AESGCM"])
  /\ IF k = Len(sc.items) THEN (phase' = "done" /\ k' = k) ELSE (phase' = phase /\ k' = k + 1)
  /\ UNCHANGED <<sc, rel, dm, inherit, priv, privEnv, pinh, parsed, cache, cmap, pcache>>

Next == Parse \/ Import \/ Resume
Spec == Init /\ [][Next]_vars

-----------------------------------------------------------------------------
(* what the intent entails                                                   *)

IntentSession(it) == [kind |-> it.kind, sid |-> IdText(it), info |-> InfoText(it), key |-> KeyText(it)]

RECURSIVE IntentParsed(_)
IntentParsed(items) ==
  IF Len(items) = 0 THEN << >>
  ELSE (IF Yielded(items[1]) THEN << IntentSession(items[1]) >> ELSE << >>) \o IntentParsed(Tail(items))

\* the entry an item stands for, written from the intent alone
Expected(it) ==
  [present |-> TRUE, sid |-> IdText(it),
   key |-> <<"hkdf-sha256", KeyText(it), "salt=htcondor", "info=keygen">>,
   proto |-> "AESGCM",
   user |-> IF it.kind = "family" THEN "condor@family" ELSE "condor@parent",
   method |-> "FAMILY", authed |-> TRUE,
   expiry |-> CASE it.exp = "future" -> "future" [] it.exp = "past" -> "past" [] OTHER -> "never",
   lease |-> 0, inherited |-> TRUE, cm |-> "AESGCM",
   copied |-> [enc |-> <<"YES">>, integ |-> <<"YES">>, cmds |-> CmdToks(it.cmds),
               ver |-> IF it.ver = "none" THEN << >> ELSE VerToks,
               expires |-> IF it.exp = "none" THEN << >> ELSE ExpTok(it.exp)]]

ItemsOf(sid, classes) == {i \in 1..Len(sc.items) : IdText(sc.items[i]) = sid /\ Class(sc.items[i]) \in classes}
AllSids == {IdText(sc.items[i]) : i \in 1..Len(sc.items)} \cup {x.sid : x \in cache}
Imported == phase \in {"resuming", "done"}
AfterParse == phase # "init"

\* every cache entry, at every moment, is the complete entry of one of the
\* triples naming its id: nothing partial, nothing for a triple that is not one
Proj(f, e) ==
  CASE f = "key" -> <<e.key, e.proto>>
    [] f = "identity" -> <<e.user, e.method, e.authed>>
    [] f = "expiry" -> <<e.expiry, e.lease>>
    [] f = "policy" -> <<e.cm, e.copied, e.inherited>>
    [] OTHER -> e
Matches(f) == \A e \in cache : ItemsOf(e.sid, {"wf", "either"}) # {} =>
                 \E i \in ItemsOf(e.sid, {"wf", "either"}) : Proj(f, e) = Proj(f, Expected(sc.items[i]))

NoPartialEntry ==
  /\ \A e \in cache : ItemsOf(e.sid, {"wf", "either"}) # {} /\ e.key # << >> /\ e.proto = "AESGCM"
  /\ Imported => \A sid \in AllSids : ItemsOf(sid, {"wf"}) # {} => \E e \in cache : e.sid = sid
  /\ \A e, f \in cache : e.sid = f.sid => e = f
KeyDerived      == Matches("key")
IdentityRight   == Matches("identity")
ExpiryHonoured  == Matches("expiry")
PolicyCopied    == Matches("policy")
EntryIsOneTriple == Matches("all")

ParseMatchesIntent ==
  AfterParse =>
    /\ parsed = IntentParsed(sc.items)
    /\ pinh.ppid = (IF sc.addr = "empty" THEN << >> ELSE <<"ppid">>)
    /\ pinh.addr = AddrText(sc.addr)
    /\ pinh.rest = (IF sc.addr \in {"empty", "pidonly"} THEN 0 ELSE 4)

EnvCleared == AfterParse => privEnv = "unset"

\* render / parse round trips of the claim-id text and of the session-info text
ExportClaim(sid, info, key) == sid \o <<"#">> \o info \o <<"#">> \o key
PolicyOf(info) ==          \* ImportSecSessionInfo: the list overrides the legacy single method
  LET al == AttrList(info) IN
  [enc |-> AttrVal(al, "Encryption"), integ |-> AttrVal(al, "Integrity"),
   ciphers |-> IF AttrVal(al, "CryptoMethodsList") # << >> THEN SplitOn(AttrVal(al, "CryptoMethodsList"), ".")
               ELSE IF AttrVal(al, "CryptoMethods") # << >> THEN SplitOn(AttrVal(al, "CryptoMethods"), ".") ELSE << >>,
   cmds |-> AttrVal(al, "ValidCommands"), ver |-> AttrVal(al, "ShortVersion"),
   expires |-> IF ExpiryClass(AttrVal(al, "SessionExpires")) = "never" THEN << >> ELSE AttrVal(al, "SessionExpires")]
ExportInfo(p) ==           \* ExportSecSessionInfo
  LET as == (IF Len(p.ciphers) > 0 THEN << Str("CryptoMethods", p.ciphers[1]) >> ELSE << >>)
            \o (IF Len(p.ciphers) > 1 THEN << Str("CryptoMethodsList", Concat(p.ciphers, <<".">>)) >> ELSE << >>)
            \o (IF p.enc # << >> THEN << Str("Encryption", p.enc) >> ELSE << >>)
            \o (IF p.integ # << >> THEN << Str("Integrity", p.integ) >> ELSE << >>)
            \o (IF p.expires # << >> THEN << Bare("SessionExpires", p.expires) >> ELSE << >>)
            \o (IF p.ver # << >> THEN << Str("ShortVersion", p.ver) >> ELSE << >>)
            \o (IF p.cmds # << >> THEN << Str("ValidCommands", p.cmds) >> ELSE << >>)
  IN <<"[">> \o Concat([i \in 1..Len(as) |-> as[i] \o <<";">>], << >>) \o <<"]">>
IntentCiphers(c) ==
  CASE c = "aes" -> << <<"AES">> >> [] c = "aesgcm" -> << <<"AESGCM">> >>
    [] c = "legacy" -> << <<"AES">>, <<"BLOWFISH">>, <<"3DES">> >>
    [] c = "nonaes" -> << <<"BLOWFISH">>, <<"3DES">> >> [] c = "blowfish" -> << <<"BLOWFISH">> >> [] OTHER -> << >>

RoundTrips ==     \* speaks about the scenario's texts only: evaluated once per behaviour
  phase = "init" => \A i \in 1..Len(sc.items) :
    LET it == sc.items[i] IN
    \* the three parts survive ExportClaimID -> ParseClaimID whenever the info is there and the id has no '#'
    /\ (InfoText(it) # << >> /\ IdText(it) # << >> /\ KeyText(it) # << >>) =>
          LET pc == ParseClaim(ExportClaim(IdText(it), InfoText(it), KeyText(it)))
          IN pc.sid = IdText(it) /\ pc.info = InfoText(it) /\ pc.key = KeyText(it)
    \* the bracketed session info parses to the policy meant, and export / import is stable
    /\ (it.form \notin {"noinfo", "nohash", "unbracketed"}) =>
          LET p == PolicyOf(InfoText(it)) IN
          /\ p.ciphers = IntentCiphers(it.ciph) /\ p.cmds = CmdToks(it.cmds)
          /\ p.enc = <<"YES">> /\ p.integ = <<"YES">>
          /\ p.ver = (IF it.ver = "none" THEN << >> ELSE VerToks)
          /\ p.expires = (IF it.exp \in {"future", "past"} THEN ExpTok(it.exp) ELSE << >>)
          /\ PolicyOf(ExportInfo(p)) = p
          /\ ExportInfo(PolicyOf(ExportInfo(p))) = ExportInfo(p)

\* the commands a session is mapped for are exactly its ValidCommands (or
\* DC_CHILDALIVE when it has none), for the raw and for the normalised address
IntentCmds(it) == CASE it.cmds = "one" -> {"421"} [] it.cmds = "two" -> {"60008", "421"} [] OTHER -> {ChildAlive}
IntentAddrs == IF AddrText(sc.addr) = << >> THEN {}
               ELSE {AddrText(sc.addr)} \cup (IF NormAddrIntent(sc.addr) # << >> THEN {NormAddrIntent(sc.addr)} ELSE {})
Claimers(c, classes) == {i \in 1..Len(sc.items) : Class(sc.items[i]) \in classes /\ c \in IntentCmds(sc.items[i])}
MappingExact ==
  Imported =>
    /\ \A m \in cmap : m.addr = << >> \/
          (m.addr \in IntentAddrs /\ \E i \in Claimers(m.cmd, {"wf", "either"}) : IdText(sc.items[i]) = m.sid)
    /\ \A a \in IntentAddrs, c \in CmdUniverse :
          Claimers(c, {"wf"}) # {} => \E m \in cmap : m.addr = a /\ m.cmd = c
    /\ \A m, n \in cmap : (m.addr = n.addr /\ m.cmd = n.cmd) => m = n

\* parent and child can resume with each other exactly when the triple was well
\* formed, not expired, and both hold the same secret
Sole(i) == ItemsOf(IdText(sc.items[i]), {"wf", "either", "bad"}) = {i}
ResumeAsIntended ==
  \A r \in DOMAIN results :
    LET res == results[r] it == sc.items[res.k] IN
    /\ (Sole(res.k) /\ Class(it) = "wf" /\ it.exp # "past" /\ rel = "same") =>
          /\ res.found /\ res.works /\ res.authed /\ res.enc /\ res.method = "FAMILY"
          /\ res.user = (IF it.kind = "family" THEN "condor@family" ELSE "condor@parent")
    /\ rel = "diff" => ~res.works
    /\ (Sole(res.k) /\ Class(it) = "wf" /\ it.exp = "past") => (~res.found /\ ~res.works)
    /\ (Sole(res.k) /\ Class(it) = "bad") => (~res.found /\ ~res.works)

TypeOK ==
  /\ phase \in {"init", "importing", "resuming", "done"}
  /\ rel \in {"same", "diff"}
  /\ privEnv \in {"set", "unset"}
  /\ Len(results) <= Len(sc.items)
  /\ \A e \in cache : e.present
=============================================================================
