\* C01 (ii) thorough: every composition of messages of 0..6 bytes (zero-length writes included), receiver interleaved with the sender
SPECIFICATION Spec
CONSTANTS
  Max = 1048576
  FlushAt = 4096
  Target = 16384
  Tag = 16
  IVLen = 16
  Hdr = 5
  Encs = {TRUE, FALSE}
  SendApis = {"frames", "buffered", "typed"}
  RecvApis = {"complete", "startread", "typed"}
  WriteSizes = {0, 1, 2, 3, 4, 5, 6}
  StrSizes = {}
  StrBytesSizes = {}
  ReadSizes = {1, 2, 3, 4, 5, 6}
  MaxMsgs = 1
  MaxWrites = 6
  MaxReads = 6
  MaxLen = 6
  PairFirst = {0, 1, 2, 3, 4, 5, 6}
  TypedFlush = {TRUE}
  Interleave = TRUE
  MaxAbandon = 1
  Bug = {}
INVARIANTS TypeOK DeliveredIsPrefixOfSent AcceptedNeverRejected TypedLayerTotal NoSpuriousMessage WireOK DoneDeliversAll
CHECK_DEADLOCK FALSE
