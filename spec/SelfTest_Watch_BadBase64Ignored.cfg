\* non-vacuity: with Bug = {"BadBase64Ignored"} TLC must report MalformedIsError violated
SPECIFICATION Spec
CONSTANTS
  Mode = "codec"
  AdTypes = {"", "plain", "quoted"}
  Constraints = {"", "expr", "exprQuoted"}
  ByteVals = {"nil", "empty", "b1", "bnul"}
  Kinds <- KindsAll
  Damages = {"dropKind", "kindNotInt", "badKey", "badCursor", "dropType", "typeNotString", "keyNotString", "cursorNotString", "constraintNotString"}
  Keys = {1, 2}
  MaxLog = 3
  MaxConns = 3
  MaxCuts = 2
  MaxEmit = 7
  Bug = {"BadBase64Ignored"}
INVARIANTS MalformedIsError
CHECK_DEADLOCK FALSE
