\* C14 thorough behaviours: sequences of <= 3 values over 7 type shapes, every single cut
SPECIFICATION Spec
CONSTANTS
  ValueNames = {"char_ff", "int_m256", "wide_max64", "dbl_1", "str_ab", "str_a0b", "str_empty"}
  MaxVals = 3
  MaxCuts = 1
  Encs = {TRUE, FALSE}
  Bug = {}
INVARIANT EmitTrace
CHECK_DEADLOCK FALSE
