\* non-vacuity: with Bug = {"IgnoreBrokerFailure"} TLC must report BrokerFailureEndsAttempt violated
SPECIFICATION Spec
CONSTANTS
  NB = 1
  MaxRogue = 1
  RogueKinds = {"wrongId", "emptyId", "staleId", "otherId", "garbage", "close"}
  MaxMsgs = 2
  Mode = "standard"
  Bug = {"IgnoreBrokerFailure"}
INVARIANTS BrokerFailureEndsAttempt
CHECK_DEADLOCK FALSE
