---------------------------- MODULE Gen_Framing ----------------------------
(***************************************************************************)
(* Behaviour generator for Framing (C01): the same actions plus a history  *)
(* variable recording every public call with its arguments and the         *)
(* projection the replayer compares with the real code (sender: accepted?  *)
(* receiver: accepted? which segments of which message were returned).     *)
(* It runs with Interleave = FALSE (the sender finishes, then the receiver *)
(* runs), so GenNext only restricts the ORDER of Framing's actions; every  *)
(* generated behaviour is a behaviour of Framing.  The finished behaviour  *)
(* is printed with the model's wire (the frame cuts the reference codec    *)
(* reproduces), sent and delivered.                                        *)
(***************************************************************************)
EXTENDS Framing, Json

VARIABLE hist

gvars == <<vars, hist>>

Log(r) == hist' = Append(hist, r)

SRec(name, kind, n) == [a |-> name, kind |-> kind, n |-> n, ok |-> ~senderErr']
RRec(name, k, ret)  == [a |-> name, k |-> k, ok |-> ~recvErr', ret |-> ret]

Rest == [enc |-> enc, sapi |-> sapi, rapi |-> rapi]
Keep == UNCHANGED <<enc, sapi, rapi, phase>>

GSender ==
  /\ UNCHANGED <<enc, sapi, rapi, phase, rcvVars>>
  /\ \/ StartMsg /\ Log([a |-> "StartMsg", kind |-> "", n |-> 0, ok |-> TRUE])
     \/ \E n \in WriteSizes :
          \/ ExplicitPartial(n) /\ Log(SRec("ExplicitPartial", "bytes", n))
          \/ SendWhole(n)       /\ Log(SRec("SendWhole", "bytes", n))
          \/ AppWrite(n)        /\ Log(SRec("AppWrite", "bytes", n))
          \/ MsgPut("bytes", n) /\ Log(SRec("MsgPut", "bytes", n))
     \/ \E n \in StrSizes : MsgPut("string", n) /\ Log(SRec("MsgPut", "string", n))
     \/ \E n \in StrBytesSizes : MsgPut("stringbytes", n) /\ Log(SRec("MsgPut", "stringbytes", n))
     \/ EndMessage /\ Log(SRec("EndMessage", "", 0))
     \/ MsgFlush   /\ Log(SRec("MsgFlush", "", 0))
     \/ MsgFinish  /\ Log(SRec("MsgFinish", "", 0))
     \/ /\ Cardinality({i \in DOMAIN hist : hist[i].a = "Abandon"}) < MaxAbandon
        /\ Abandon /\ Log([a |-> "Abandon", kind |-> "", n |-> sbuf, ok |-> TRUE])

GReceiver ==
  /\ UNCHANGED <<enc, sapi, rapi, phase, sndVars>>
  /\ \/ RecvComplete /\ Log(RRec("RecvComplete", 0,
                                 IF recvErr' THEN <<>> ELSE delivered'[Len(delivered')]))
     \/ StartRead /\ Log([a |-> "StartRead", k |-> BufLen(rbuf'), ok |-> ~recvErr', ret |-> <<>>])
     \/ \E k \in ReadSizes :
          \/ ReadBytes(k) /\ Log(RRec("ReadBytes", rRead' - rRead, Take(Drop(rbuf, rRead), rRead' - rRead)))
          \/ GetBytes(k)  /\ Log(RRec("GetBytes", k,
                                      IF recvErr' THEN <<>> ELSE Take(PullNeed(R0(rbuf, rEOM), k).buf, k)))
     \/ EndRead /\ Log(RRec("EndRead", 0, <<>>))
     \/ NewReader /\ Log(RRec("NewReader", 0, <<>>))
     \/ GetRemaining /\ Log(RRec("GetRemaining", 0,
                                 IF recvErr' THEN <<>> ELSE PullToEnd(R0(rbuf, rEOM)).buf))

GenInit == Init /\ hist = <<>>

GenNext ==
  \/ GSender
  \/ SenderStop /\ UNCHANGED hist
  \/ GReceiver
  \/ ReceiverDone /\ UNCHANGED hist

GenSpec == GenInit /\ [][GenNext]_gvars

Done == phase = "done"

\* a configuration that allows abandoning a draft emits only behaviours that do so
\* (the others are the business of the other configurations)
Wanted == MaxAbandon > 0 => \E i \in DOMAIN hist : hist[i].a = "Abandon"

EmitTrace ==
  (Done /\ Wanted) => PrintT(ToJson([scn |-> [enc |-> enc, sapi |-> sapi, rapi |-> rapi, hist |-> hist,
                                  wire |-> wire, sent |-> sent, delivered |-> delivered,
                                  senderErr |-> senderErr, recvErr |-> recvErr]]))
=============================================================================
