\* C17 thorough (0): 3 goroutines (map writer / entry user / maintenance) x <= 2 operations over 2 ids,
\* every interleaving of critical-section steps
SPECIFICATION Spec
CONSTANTS
  Gor = {"g1", "g2", "g3"}
  Nobody = Nobody
  Ids = {"i1", "i2"}
  MaxOps = 2
  MaxOpsOf <- LimitsAll
  MaxVer = 1
  OpsOf <- RolesQuick
  InitKinds = {"live", "dead"}
  StoreExp = {"live"}
  Bug = {}
INVARIANTS TypeOK LocksetDiscipline AccessRelationRespected NoTornExpiry NoLostInvalidate RefinesSeq Linearizable HandshakeUndisturbed
CHECK_DEADLOCK FALSE
