\* non-vacuity: with the known wrong design KeylessResume TLC must report NoKeyNoAcceptedByte violated
SPECIFICATION Spec06
CONSTANTS
  Tags = {"none"}
  Addrs = {"s1"}
  Cmds = {"c1"}
  ValidCmds = {"c1"}
  MaxSid = 2
  MaxTime = 2
  Duration = 1
  Lease = 1
  ImportOn = FALSE
  MaxRec = 1
  Bug = {"KeylessResume"}
CONSTRAINT LegitOnly
INVARIANTS NoKeyNoAcceptedByte
CHECK_DEADLOCK FALSE
