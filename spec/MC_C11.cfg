\* C11: all deviations, all verification variants, intended design
SPECIFICATION Spec
CONSTANTS
  Bug = {}
  Kinds <- AllKinds
  VKinds <- AllVKinds
INVARIANTS TypeOK ServerOkImpliesClientKnewSig ServerOkImpliesTokenCurrent ServerIdentityIsSubject
           ClientOkImpliesServerKnewSig VerifyAcceptsExactly HonestRunSucceeds
CHECK_DEADLOCK FALSE
