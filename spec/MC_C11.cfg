\* C11: all deviations, all verification variants, intended design
SPECIFICATION Spec
CONSTANTS
  Bug = {}
  Kinds <- AllKinds
  VKinds <- AllVKinds
INVARIANTS TypeOK ServerOkImpliesClientKnewSig ServerOkImpliesKeyHeld ServerOkImpliesTokenCurrent ServerIdentityIsSubject
           ClientOkImpliesServerKnewSig VerifyAcceptsExactly HonestRunSucceeds PoolRuleSucceeds
CHECK_DEADLOCK FALSE
