\* non-vacuity: with Bug = {"HelloOtherId"} TLC must report HelloCarriesOwnId violated
SPECIFICATION Spec
CONSTANTS
  NB = 1
  MaxConn = 2
  MaxReq = 2
  MaxTick = 1
  MaxMsg = 1
  RegAnswers = {"fresh", "same", "refuse", "hangup"}
  Targets = {"accept", "refuse"}
  Msgs = {"malformed"}
  Bug = {"HelloOtherId"}
INVARIANTS HelloCarriesOwnId
CHECK_DEADLOCK FALSE
