\* non-vacuity: with Bug = {"ContactWhileDown"} TLC must report ContactIsGrant violated
SPECIFICATION Spec
CONSTANTS
  NB = 1
  MaxConn = 2
  MaxReq = 2
  MaxTick = 1
  MaxMsg = 1
  RegAnswers = {"fresh", "same", "refuse", "hangup"}
  Targets = {"accept", "refuse"}
  Msgs = {"malformed"}
  Bug = {"ContactWhileDown"}
INVARIANTS ContactIsGrant
CHECK_DEADLOCK FALSE
