\* C08: every item text over {name char, blank, '=', value char, quote} up to length 6: model check of the
\* splitter (SplitAtFirstEq) and, in the same run, the texts in scope printed with their reference split
SPECIFICATION Spec
CONSTANTS
  MaxLen = 6
  Bug = {}
INVARIANTS TypeOK SplitAtFirstEq EmitTrace
CHECK_DEADLOCK FALSE
