\* non-vacuity: with the known-wrong design "SilentInitFailure" switched on TLC must report NoStuck violated
SPECIFICATION Spec
CONSTANTS
  Bug = {"SilentInitFailure"}
  CStyles = {"cedar"}
  SStyles = {"cedar"}
  Faults = {"none"}
INVARIANTS TypeOK NoStuck
CHECK_DEADLOCK FALSE
