--------------------------- MODULE StreamEndpoint ---------------------------
(***************************************************************************)
(* Projection of SecureChannel.tla onto ONE stream object: the crypto      *)
(* state an endpoint keeps (key, per-direction counters, first-frame       *)
(* flags) and how each public operation changes it.  It exists so that     *)
(* traces recorded from single stream objects of the real code (guarded    *)
(* hooks in stream/verif_on.go) can be validated: StreamEndpoint_Trace     *)
(* binds every logged event to one of these actions and requires the       *)
(* logged post-state to equal the predicted one.                           *)
(*                                                                         *)
(* Counters are the real 32-bit values re-read as signed 32-bit integers   *)
(* (TLC integers are 32-bit), so the refusal limit 2^32-1 is -1.           *)
(***************************************************************************)
EXTENDS Integers, Sequences, TLC

Limit == 0 - 1
TagLen == 16
IVLen == 16

VARIABLES keyed, kfp, sctr, rctr, sfirst, rfirst
evars == <<keyed, kfp, sctr, rctr, sfirst, rfirst>>

EInit ==
  /\ keyed = FALSE /\ kfp = "" /\ sctr = 0 /\ rctr = 0 /\ sfirst = TRUE /\ rfirst = TRUE

\* SetSymmetricKey: fresh IV, counters zero, digests to be bound by the next protected frame
ESetKey(k) ==
  /\ keyed' = TRUE /\ kfp' = k /\ sctr' = 0 /\ rctr' = 0 /\ sfirst' = TRUE /\ rfirst' = TRUE

\* NewStreamWithCryptoState: everything is taken from the blob
EImport(k, sc, rc, sf, rf) ==
  /\ keyed' = TRUE /\ kfp' = k /\ sctr' = sc /\ rctr' = rc /\ sfirst' = sf /\ rfirst' = rf

Overhead(ctr) == TagLen + (IF ctr = 0 THEN IVLen ELSE 0)

\* one frame leaves.  enc = the stream's `encrypted` flag at that moment
\* (toggled by PutSecret / SetEncrypted, which are not logged separately).
ESend(enc, plen, wlen) ==
  IF keyed /\ enc
  THEN /\ sctr # Limit                         \* C12: refuse at the counter limit
       /\ wlen = plen + Overhead(sctr)         \* C12: IV with the first frame only, tag always
       /\ sctr' = sctr + 1                     \* C12: the counter advances with every protected frame
       /\ sfirst' = FALSE
       /\ UNCHANGED <<keyed, kfp, rctr, rfirst>>
  ELSE /\ wlen = plen
       /\ UNCHANGED evars

\* a frame was read and ACCEPTED.  ann = what is known about who produced these
\* exact wire bytes: [known, prot, k, ctr]
EAccept(enc, wlen, plen, ann) ==
  IF keyed /\ enc
  THEN /\ wlen >= Overhead(rctr)               \* C02: an empty / short frame cannot be authentic
       /\ plen = wlen - Overhead(rctr)
       /\ ann.known => (ann.prot /\ ann.k = kfp /\ ann.ctr = rctr)   \* C02: same key, in order, never a cleartext frame
       /\ rctr' = rctr + 1
       /\ rfirst' = FALSE
       /\ UNCHANGED <<keyed, kfp, sctr, sfirst>>
  ELSE /\ plen = wlen
       /\ UNCHANGED evars

\* a frame was read and rejected: nothing changes
EReject == UNCHANGED evars

\* ExportCryptoState succeeded: only at a clean boundary of an established session (C15)
EExport(enc, inmsg, rbuf, sbuf, seom) ==
  /\ keyed /\ enc /\ ~sfirst /\ ~rfirst
  /\ ~inmsg /\ rbuf = 0 /\ sbuf = 0 /\ ~seom
  /\ UNCHANGED evars
=============================================================================
