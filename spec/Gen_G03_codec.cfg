\* G03 generator: every request / header shape x every damage class
SPECIFICATION GenSpec
CONSTANTS
  Mode = "codec"
  AdTypes = {"", "plain", "quoted"}
  Constraints = {"", "expr", "exprQuoted"}
  ByteVals = {"nil", "empty", "b1", "bnul"}
  Kinds <- KindsAll
  Damages = {"dropKind", "kindNotInt", "badKey", "badCursor", "dropType", "typeNotString", "keyNotString", "cursorNotString", "constraintNotString"}
  Keys = {1, 2}
  MaxLog = 3
  MaxConns = 3
  MaxCuts = 2
  MaxEmit = 8
  Bug = {}
INVARIANT EmitTrace
CHECK_DEADLOCK FALSE
