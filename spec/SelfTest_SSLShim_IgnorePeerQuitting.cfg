\* non-vacuity: with the known-wrong design "IgnorePeerQuitting" switched on TLC must report NoStuck violated
SPECIFICATION Spec
CONSTANTS
  Bug = {"IgnorePeerQuitting"}
  CStyles = {"cedar", "htcondor"}
  SStyles = {"cedar", "htcondor"}
  Faults = {"none", "c_quit_mid", "s_quit_mid", "s_quit_conf"}
INVARIANTS TypeOK NoStuck
CHECK_DEADLOCK FALSE
