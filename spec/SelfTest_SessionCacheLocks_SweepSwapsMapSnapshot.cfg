\* non-vacuity: with Bug = {"SweepSwapsMapSnapshot"} TLC must report NoLostInvalidate violated
SPECIFICATION Spec
CONSTANTS
  Gor = {"g1", "g2", "g3"}
  Nobody = Nobody
  Ids = {"i1", "i2"}
  MaxOps = 2
  MaxOpsOf <- LimitsAll
  MaxVer = 1
  OpsOf <- RolesQuick
  InitKinds = {"live", "dead"}
  StoreExp = {"live"}
  Bug = {"SweepSwapsMapSnapshot"}
INVARIANTS NoLostInvalidate
CHECK_DEADLOCK FALSE
