\* non-vacuity: with the known-wrong design "ServerKeyDiffers" switched on TLC must report Agreement violated
SPECIFICATION Spec
CONSTANTS
  Bug = {"ServerKeyDiffers"}
  CStyles = {"cedar"}
  SStyles = {"cedar"}
  Faults = {"none"}
INVARIANTS TypeOK Agreement
CHECK_DEADLOCK FALSE
