\* non-vacuity: with Bug = {"DeliverMalformed"} TLC must report OnlyWellFormed violated
SPECIFICATION Spec
CONSTANTS
  Mode = "listener"
  Origins = {"listen", "adopt"}
  MaxD = 2
  MaxAcc = 2
  MaxClose = 2
  Scripts <- MixScriptsTwo
  Shapes <- NoShapes
  ErrClasses = {}
  Bug = {"DeliverMalformed"}
INVARIANTS OnlyWellFormed
CHECK_DEADLOCK FALSE
