-------------------------- MODULE Gen_ClaimSession --------------------------
(***************************************************************************)
(* Behaviour generator for ClaimSession (C16): the same actions plus a     *)
(* history variable recording, for every step, the arguments and the       *)
(* projection of the specification's post-state the replayer compares with *)
(* the real code: the TEXT of the claim id and of its public form (token   *)
(* sequences the replayer renders to concrete strings), the parsed parts,  *)
(* the policy, whether the two cache entries agree, and the outcome of     *)
(* each connection.                                                        *)
(***************************************************************************)
EXTENDS ClaimSession, Json

VARIABLES hist
gvars == <<vars, hist>>

H(r) == hist' = Append(hist, r)

Agree(x, y) == [sid |-> x.sid = y.sid, key |-> x.key = y.key, policy |-> x.policy = y.policy,
                expiry |-> x.expiry = y.expiry, lease |-> x.lease = y.lease]

GMint ==
  /\ Mint
  /\ H([a |-> "Mint", claim |-> claim', public |-> public', sid |-> eA'.sid,
        info |-> ParseClaim(claim').info, policy |-> eA'.policy, life |-> cfg.life])
GImport ==
  /\ Import
  /\ H([a |-> "Import", present |-> eB' # NoEntry, agree |-> Agree(eA, eB'), policy |-> eB'.policy])
GImportFT ==
  /\ ImportFT
  /\ H([a |-> "ImportFT", present |-> fB' # NoEntry, agree |-> Agree(fA', fB'), sid |-> fA'.sid])
GConnect(which) ==
  /\ Connect(which)
  /\ H([a |-> "Connect", out |-> results'[Len(results')],
        \* the session after it has been used: still one session, untouched by the use
        after |-> [claim |-> Agree(eA', eB'), ft |-> Agree(fA', fB'),
                   untouched |-> (eA' = eA /\ eB' = eB /\ fA' = fA /\ fB' = fB)]])

GConnectByCommand ==
  /\ ConnectByCommand
  /\ H([a |-> "ConnectCmd", out |-> cmdres'[Len(cmdres')],
        after |-> [claim |-> Agree(eA', eB'), ft |-> Agree(fA', fB'),
                   untouched |-> (eA' = eA /\ eB' = eB /\ fA' = fA /\ fB' = fB)]])

GenInit == Init /\ hist = << [a |-> "Init", cfg |-> cfg, rel |-> rel] >>
GenNext == GMint \/ GImport \/ GImportFT \/ GConnect("claim") \/ GConnect("filetrans") \/ GConnectByCommand
GenSpec == GenInit /\ [][GenNext]_gvars

Done == phase = "done" /\ todo = << >>
EmitTrace == Done => PrintT(ToJson([trace |-> hist]))
=============================================================================
