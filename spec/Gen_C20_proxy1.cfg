\* C20 generator (proxy mode, 1 broker(s), <= 0 rogue connections, <= 3 broker messages, <= 3 environment steps)
SPECIFICATION GenSpec
CONSTANTS
  NB = 1
  MaxRogue = 0
  RogueKinds = {}
  MaxMsgs = 3
  Mode = "proxy"
  MaxEnv = 3
  Bug = {}
INVARIANT EmitTrace
CHECK_DEADLOCK FALSE
