------------------------------ MODULE ItemSplit ------------------------------
(***************************************************************************)
(* Property C08, the parsing receiver's item splitter                      *)
(* (message/classad.go parseAndInsertExpression).  An item on the wire is  *)
(* ONE string "Name = Value".  Go's PutClassAd renders the canonical       *)
(* spacing, but the text may be pre-rendered by anybody (PutClassAdRaw,    *)
(* PutClassAdRawBytes, a forwarding collector, a C++ or hand-written peer).*)
(* Documented design, unchanged since the pinned tree: the attribute name  *)
(* is the text before the FIRST '=' with blanks trimmed, the value is the  *)
(* rest with blanks trimmed; the value then goes to the literal fast path  *)
(* / full parser (LiteralShortcut.tla).  An item without '=' or with an    *)
(* empty name is refused (outside the statement: nothing to reconstruct).  *)
(*                                                                         *)
(* A text is a sequence over                                               *)
(*   n  a name character      s  a blank (space / tab)    eq  '='          *)
(*   v  a value character (digit)                         q   '"'          *)
(* so it covers every SPACING class - canonical "A = v", tight "A=v",      *)
(* left-tight "A =v", right-tight "A= v", leading / doubled / trailing     *)
(* blanks - and values that themselves contain '=', "==" and " = " inside  *)
(* and outside quotes.                                                     *)
(*                                                                         *)
(* SplitAtFirstEq: the design's split (DName, DValue) is the reference one.*)
(* Bug members (known wrong designs, for the non-vacuity self-test):       *)
(*   "CutAtSpacedEq"  cut at the first blank-'='-blank and use both halves *)
(*                    verbatim; only texts without it take the trimmed     *)
(*                    first-'=' split                                      *)
(*   "CutAtLastEq"    split at the last '='                                *)
(***************************************************************************)
EXTENDS Integers, Sequences, FiniteSets, TLC

CONSTANTS MaxLen, Bug

Tok == {"n", "s", "eq", "v", "q"}

VARIABLE text
vars == <<text>>

RECURSIVE TrimL(_)
TrimL(t) == IF t # <<>> /\ Head(t) = "s" THEN TrimL(Tail(t)) ELSE t
RECURSIVE TrimR(_)
TrimR(t) == IF t # <<>> /\ t[Len(t)] = "s" THEN TrimR(SubSeq(t, 1, Len(t) - 1)) ELSE t
Trim(t) == TrimR(TrimL(t))

EqAt(t) == {i \in 1..Len(t) : t[i] = "eq"}
Min(S) == CHOOSE x \in S : \A y \in S : x <= y
Max(S) == CHOOSE x \in S : \A y \in S : x >= y
FirstEq(t) == IF EqAt(t) = {} THEN 0 ELSE Min(EqAt(t))

\* the reference split
Name(t)  == IF FirstEq(t) = 0 THEN <<>> ELSE Trim(SubSeq(t, 1, FirstEq(t) - 1))
Value(t) == IF FirstEq(t) = 0 THEN <<>> ELSE Trim(SubSeq(t, FirstEq(t) + 1, Len(t)))

\* the design's split
SpacedEqAt(t) == {i \in 2..(Len(t) - 2) : t[i] = "s" /\ t[i + 1] = "eq" /\ t[i + 2] = "s"}
DSplit(t) ==
  IF "CutAtSpacedEq" \in Bug /\ SpacedEqAt(t) # {} THEN
       LET j == Min(SpacedEqAt(t)) IN <<SubSeq(t, 1, j - 1), SubSeq(t, j + 3, Len(t))>>
  ELSE IF "CutAtLastEq" \in Bug /\ EqAt(t) # {} THEN
       LET j == Max(EqAt(t)) IN <<Trim(SubSeq(t, 1, j - 1)), Trim(SubSeq(t, j + 1, Len(t)))>>
  ELSE <<Name(t), Value(t)>>

\* spacing class around the first '=' (for coverage and failure signatures)
Spacing(t) ==
  LET i == FirstEq(t) IN
  IF i = 0 THEN "noEq"
  ELSE LET l == i > 1 /\ t[i - 1] = "s"
           r == i < Len(t) /\ t[i + 1] = "s"
           l2 == i > 2 /\ t[i - 1] = "s" /\ t[i - 2] = "s"
       IN IF l2 THEN "blanksBeforeEq"
          ELSE IF t[1] = "s" THEN "leadingBlank"
          ELSE IF l /\ r THEN "canonical"
          ELSE IF l THEN "leftTight"
          ELSE IF r THEN "rightTight"
          ELSE "tight"
EqInValue(t) == Cardinality(EqAt(t)) >= 2

Init == text = <<>>
Next == /\ Len(text) < MaxLen
        /\ \E k \in Tok : text' = Append(text, k)
Spec == Init /\ [][Next]_vars

TypeOK == text \in Seq(Tok) /\ Len(text) <= MaxLen
SplitAtFirstEq == FirstEq(text) # 0 => DSplit(text) = <<Name(text), Value(text)>>
=============================================================================
