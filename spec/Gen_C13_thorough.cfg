\* C13 thorough generator
SPECIFICATION GenSpec
CONSTANTS
  Bug = {}
  Families = {"frame","pass","typed","ad","hs","blob","text","watch"}
  Modes = {"plain","enc"}
  ExprMax = 2
  TokLen = 4
INVARIANTS TypeOK NoPanic Bounded CapHonoured CapFails EmitScn
CHECK_DEADLOCK FALSE
