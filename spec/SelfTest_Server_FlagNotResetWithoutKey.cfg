\* self-test: with Bug = {FlagNotResetWithoutKey} TLC must report an invariant violated (only a follow-on can expose it)
SPECIFICATION Spec
CONSTANTS
  MaxConns = 2
  MaxCmds = 2
  PolicyTabs = {1, 2}
  AuthzTabs = {0, 1, 2}
  InitAuthz = {0, 1}
  InitPtab = {1}
  Users = {"alice"}
  Permissive = TRUE
  Bug = {"FlagNotResetWithoutKey"}
INVARIANTS TypeOK HandlerOnlyOnAdequateSession RawAuthSeparated RefusedClosesWithoutHandler
CHECK_DEADLOCK FALSE
