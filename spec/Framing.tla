------------------------------ MODULE Framing ------------------------------
(***************************************************************************)
(* Framing layer of cedar (stream/stream.go, message/message.go), property *)
(* C01: whatever messages one endpoint sends, cut into writes and frames   *)
(* in any way, the peer receives the same messages with the same           *)
(* boundaries, plain or AES-GCM protected; a frame the sender accepts is   *)
(* never rejected by the receiver; the typed layer accepts any length.     *)
(*                                                                         *)
(* Sizes are the REAL constants (Max = 1048576, FlushAt = 4096, Target =   *)
(* 16384, Tag = 16, IVLen = 16, Hdr = 5).  Payload bytes are abstract: a   *)
(* frame carries the segment (msg, off, plen) of the message it was cut    *)
(* from; the harness maps segments to concrete bytes.                      *)
(*                                                                         *)
(* One action per public call:                                             *)
(*   sender API "frames"   ExplicitPartial(n) = SendPartialMessage         *)
(*                         SendWhole(n)       = SendMessage                *)
(*   sender API "buffered" StartMsg = StartMessage, AppWrite(n) =          *)
(*                         WriteMessage (with ThresholdFlush inside the    *)
(*                         call), EndMessage                               *)
(*   sender API "typed"    MsgPut(kind,n) = Message.PutBytes / PutString / *)
(*                         PutStringBytes,                                 *)
(*                         MsgFlush = FlushFrame(false),                   *)
(*                         MsgFinish = FinishMessage                       *)
(*   every frame leaves through SendFrame (sendMessageWithEnd), guarded by *)
(*   the WIRE length (payload + tag [+ IV on the first protected frame])   *)
(*   receiver API "complete"  RecvComplete = ReceiveCompleteMessage        *)
(*   receiver API "startread" StartRead / ReadBytes(k) / EndRead =         *)
(*                         StartMessageRead / ReadMessageBytes /           *)
(*                         EndMessageRead                                  *)
(*   receiver API "typed"  NewReader / GetBytes(k) / GetRemaining =        *)
(*                         NewMessageFromStream / Message.GetBytes /       *)
(*                         GetRemainingBytes  (ensureData = PullNeed)      *)
(*   every frame enters through RecvFrame (ReceiveFrameWithEnd).           *)
(*                                                                         *)
(* The property does not fix where a sender cuts frames; the cut rules     *)
(* below follow the implementation, and the replayer compares the real     *)
(* sender's output only through WireOK (not frame by frame).  Where the    *)
(* statement is silent (reading past the end of a message, a stream-level  *)
(* sender refusing a size) the model has no action, so nothing is demanded.*)
(*                                                                         *)
(* Known wrong designs (members of Bug, for non-vacuity only):             *)
(*   "LimitOnPlain"         sender limits the payload, not the wire length *)
(*   "ChunkIgnoresOverhead" typed layer cuts Max-sized chunks              *)
(*   "FlushKeepsBuffer"     threshold flush does not clear the buffer      *)
(*   "EnsureStopsEarly"     ensureData stops one byte short                *)
(*   "EndFlagSwapped"       receiver takes end = 0 for "last frame"        *)
(***************************************************************************)
EXTENDS Integers, Sequences, FiniteSets, TLC

CONSTANTS
  Max, FlushAt, Target, Tag, IVLen, Hdr,
  Encs,        \* subset of BOOLEAN: encryption modes explored
  SendApis,    \* subset of {"frames", "buffered", "typed"}
  RecvApis,    \* subset of {"complete", "startread", "typed"}
  WriteSizes,  \* sizes of one write (bytes)
  StrSizes,    \* content lengths for typed PutString writes ({} = none)
  StrBytesSizes, \* content lengths for typed PutStringBytes writes (same layout as PutString)
  ReadSizes,   \* sizes k of one ReadBytes / GetBytes; 0 stands for "all that is available"
  MaxMsgs,     \* messages per behaviour
  MaxWrites,   \* write calls per message (incl. the final one for "frames")
  MaxReads,    \* read calls per message
  MaxLen,      \* bound on the length of one message (scenario shaping)
  PairFirst,   \* a further message may start only if every earlier length is in PairFirst
  TypedFlush,  \* subset of BOOLEAN: may the typed sender call FlushFrame(false) explicitly?
  Interleave,  \* TRUE: receiver runs concurrently with the sender; FALSE: after it
  MaxAbandon,  \* > 0: the application may give up an unsent draft and start the message over
  Bug

VARIABLES
  enc, sapi, rapi,      \* fixed at Init
  phase,                \* "send" | "recv" | "done"
  sState,               \* "idle" | "open" | "err"
  sMsg,                 \* index of the message being / last sent
  sOff,                 \* bytes of the current message handed to the API so far
  sbuf,                 \* bytes buffered by the sender (Stream.sendBuffer / Message.buffer)
  sEOM,                 \* Stream.sendEOM
  nWrites,
  nProt,                \* protected frames sent so far (0 => next one carries the IV)
  wire,                 \* Seq(Frame), FIFO
  sent,                 \* lengths of the messages whose final frame is on the wire
  senderErr,
  rState,               \* "idle" | "reading"
  rpos,                 \* frames consumed from the wire
  rbuf,                 \* receiver buffer: Seq(Segment)
  rRead,                \* bytes consumed from rbuf ("startread": bytesRead)
  rEOM,                 \* typed reader: isEOM
  rOut,                 \* segments returned by the reads of the current message
  nReads,
  delivered,            \* Seq(Seq(Segment)): one entry per message handed to the application
  recvErr

vars == <<enc, sapi, rapi, phase, sState, sMsg, sOff, sbuf, sEOM, nWrites, nProt, wire, sent,
          senderErr, rState, rpos, rbuf, rRead, rEOM, rOut, nReads, delivered, recvErr>>

sndVars == <<sState, sMsg, sOff, sbuf, sEOM, nWrites, nProt, wire, sent, senderErr>>
rcvVars == <<rState, rpos, rbuf, rRead, rEOM, rOut, nReads, delivered, recvErr>>

Min(a, b) == IF a < b THEN a ELSE b

-----------------------------------------------------------------------------
(* Segments of message content                                             *)
Seg(m, o, l) == [msg |-> m, off |-> o, len |-> l]

AppendSeg(s, g) ==
  IF g.len = 0 THEN s
  ELSE IF s # <<>> /\ s[Len(s)].msg = g.msg /\ s[Len(s)].off + s[Len(s)].len = g.off
       THEN [s EXCEPT ![Len(s)].len = @ + g.len]
       ELSE Append(s, g)

RECURSIVE Cat(_, _)
Cat(s, t) == IF t = <<>> THEN s ELSE Cat(AppendSeg(s, Head(t)), Tail(t))

RECURSIVE BufLen(_)
BufLen(s) == IF s = <<>> THEN 0 ELSE Head(s).len + BufLen(Tail(s))

RECURSIVE Drop(_, _)
Drop(s, k) ==
  IF k = 0 \/ s = <<>> THEN s
  ELSE IF Head(s).len <= k THEN Drop(Tail(s), k - Head(s).len)
  ELSE <<[Head(s) EXCEPT !.off = @ + k, !.len = @ - k]>> \o Tail(s)

RECURSIVE Take(_, _)
Take(s, k) ==
  IF k = 0 \/ s = <<>> THEN <<>>
  ELSE IF Head(s).len <= k THEN <<Head(s)>> \o Take(Tail(s), k - Head(s).len)
  ELSE <<[Head(s) EXCEPT !.len = k]>>

Whole(m, l) == IF l = 0 THEN <<>> ELSE <<Seg(m, 0, l)>>

-----------------------------------------------------------------------------
(* Sizes and limits                                                        *)
WireLen(n, first) == IF enc THEN n + Tag + (IF first THEN IVLen ELSE 0) ELSE n

\* intended design: the limit is on what the receiver will see
SenderAccepts(n, first) ==
  IF "LimitOnPlain" \in Bug THEN n <= Max ELSE WireLen(n, first) <= Max

ReceiverAccepts(f) == f.wlen <= Max

\* on a protected stream the typed layer reserves the largest overhead (tag and
\* IV) so that every chunk fits
Chunk == IF "ChunkIgnoresOverhead" \in Bug \/ ~enc THEN Max ELSE Max - Tag - IVLen

\* bytes a typed write puts into the message
EncLen(kind, n) == IF kind \in {"string", "stringbytes"} THEN n + 1 + (IF enc THEN 8 ELSE 0) ELSE n

-----------------------------------------------------------------------------
(* Sender core: SendFrame on a working copy [wire, nprot, err]             *)
S0 == [wire |-> wire, nprot |-> nProt, err |-> FALSE]

SendFrame(st, end, n, m, off) ==
  IF st.err THEN st
  ELSE IF ~SenderAccepts(n, st.nprot = 0) THEN [st EXCEPT !.err = TRUE]
  ELSE [st EXCEPT
          !.wire = Append(@, [end |-> end, plen |-> n, wlen |-> WireLen(n, st.nprot = 0),
                              msg |-> m, off |-> off]),
          !.nprot = IF enc THEN @ + 1 ELSE @]

Commit(st) ==
  /\ wire' = st.wire
  /\ nProt' = st.nprot
  /\ senderErr' = st.err

Sending == phase = "send" /\ ~senderErr

CanStart ==
  /\ Len(sent) < MaxMsgs
  /\ \A i \in 1..Len(sent) : sent[i] \in PairFirst

StartMsg ==
  /\ Sending /\ sState = "idle" /\ CanStart
  /\ sState' = "open" /\ sMsg' = sMsg + 1 /\ sOff' = 0 /\ sbuf' = 0 /\ sEOM' = FALSE
  /\ nWrites' = 0
  /\ UNCHANGED <<nProt, wire, sent, senderErr>>

Finished(st, total) ==
  /\ sState' = IF st.err THEN "err" ELSE "idle"
  /\ sent' = IF st.err THEN sent ELSE Append(sent, total)

(* --- "frames": one call = one frame ------------------------------------ *)
ExplicitPartial(n) ==
  /\ Sending /\ sapi = "frames" /\ sState = "open"
  /\ nWrites + 1 < MaxWrites /\ sOff + n <= MaxLen
  /\ LET st == SendFrame(S0, 0, n, sMsg, sOff) IN
       /\ Commit(st)
       /\ sState' = IF st.err THEN "err" ELSE "open"
  /\ sOff' = sOff + n /\ nWrites' = nWrites + 1
  /\ UNCHANGED <<sMsg, sbuf, sEOM, sent>>

SendWhole(n) ==
  /\ Sending /\ sapi = "frames" /\ sState = "open"
  /\ sOff + n <= MaxLen
  /\ LET st == SendFrame(S0, 1, n, sMsg, sOff) IN
       Commit(st) /\ Finished(st, sOff + n)
  /\ sOff' = sOff + n /\ nWrites' = nWrites + 1
  /\ UNCHANGED <<sMsg, sbuf, sEOM>>

(* --- "buffered": WriteMessage / EndMessage ------------------------------ *)
\* ThresholdFlush is part of the WriteMessage call: the whole buffer leaves as
\* one partial frame once it reaches FlushAt.
AppWrite(n) ==
  /\ Sending /\ sapi = "buffered" /\ sState = "open" /\ ~sEOM
  /\ nWrites < MaxWrites /\ sOff + n <= MaxLen
  /\ LET b == sbuf + n IN
       IF b >= FlushAt
       THEN LET st == SendFrame(S0, 0, b, sMsg, sOff + n - b) IN
              /\ Commit(st)
              /\ sState' = IF st.err THEN "err" ELSE "open"
              /\ sbuf' = IF "FlushKeepsBuffer" \in Bug THEN b ELSE 0
       ELSE /\ sbuf' = b
            /\ UNCHANGED <<wire, nProt, senderErr, sState>>
  /\ sOff' = sOff + n /\ nWrites' = nWrites + 1
  /\ UNCHANGED <<sMsg, sEOM, sent>>

EndMessage ==
  /\ Sending /\ sapi = "buffered" /\ sState = "open" /\ ~sEOM
  /\ LET st == SendFrame(S0, 1, sbuf, sMsg, sOff - sbuf) IN
       Commit(st) /\ Finished(st, sOff)
  /\ sEOM' = TRUE /\ sbuf' = 0
  /\ UNCHANGED <<sMsg, sOff, nWrites>>

(* --- "typed": Message.PutBytes / PutString / FlushFrame / FinishMessage -- *)
\* a value longer than Chunk: flush what is buffered, then buffer one chunk at
\* a time (each chunk leaves when the next one, or a later call, needs room)
RECURSIVE PutBig(_, _, _, _)
PutBig(st, b, r, off) ==   \* b bytes buffered starting at offset off; r bytes still to place
  IF r = 0 THEN [st |-> st, b |-> b]
  ELSE LET st1 == IF b > 0 THEN SendFrame(st, 0, b, sMsg, off) ELSE st
           c   == Min(Chunk, r)
       IN PutBig(st1, c, r - c, off + b)

MsgPut(kind, n) ==
  /\ Sending /\ sapi = "typed" /\ sState = "open"
  /\ nWrites < MaxWrites
  /\ LET L == EncLen(kind, n) IN
     /\ sOff + L <= MaxLen
     /\ sOff' = sOff + L
     /\ IF L > Chunk
        THEN LET r == PutBig(S0, sbuf, L, sOff - sbuf) IN
               /\ Commit(r.st) /\ sbuf' = r.b
               /\ sState' = IF r.st.err THEN "err" ELSE "open"
        ELSE IF sbuf + L > Target
        THEN LET st == SendFrame(S0, 0, sbuf, sMsg, sOff - sbuf) IN
               /\ Commit(st) /\ sbuf' = L
               /\ sState' = IF st.err THEN "err" ELSE "open"
        ELSE /\ sbuf' = sbuf + L
             /\ UNCHANGED <<wire, nProt, senderErr, sState>>
  /\ nWrites' = nWrites + 1
  /\ UNCHANGED <<sMsg, sEOM, sent>>

MsgFlush ==
  /\ Sending /\ sapi = "typed" /\ sState = "open" /\ TRUE \in TypedFlush
  /\ nWrites > 0 /\ sbuf > 0
  /\ LET st == SendFrame(S0, 0, sbuf, sMsg, sOff - sbuf) IN
       /\ Commit(st)
       /\ sState' = IF st.err THEN "err" ELSE "open"
  /\ sbuf' = 0
  /\ UNCHANGED <<sMsg, sOff, sEOM, nWrites, sent>>

MsgFinish ==
  /\ Sending /\ sapi = "typed" /\ sState = "open"
  /\ LET st == SendFrame(S0, 1, sbuf, sMsg, sOff - sbuf) IN
       Commit(st) /\ Finished(st, sOff)
  /\ sbuf' = 0
  /\ UNCHANGED <<sMsg, sOff, sEOM, nWrites>>

(* --- giving up a draft ---------------------------------------------------- *)
\* The application abandons a message of which NOTHING has left yet (every byte
\* it wrote is still in the send buffer) and starts it over: StartMessage (a new
\* Message object for the typed layer) discards the draft, so the message that is
\* eventually sent consists of the bytes written after the restart only. Once a
\* partial frame has left, the wire format has no way to take it back and the
\* statement is silent: the model does not go there.
Abandon ==
  /\ Sending /\ MaxAbandon > 0 /\ sapi \in {"buffered", "typed"} /\ sState = "open" /\ ~sEOM
  /\ sbuf > 0 /\ sOff = sbuf
  /\ sOff' = 0 /\ nWrites' = 0
  /\ sbuf' = IF "RestartKeepsBuffer" \in Bug THEN sbuf ELSE 0
  /\ UNCHANGED <<sState, sMsg, sEOM, nProt, wire, sent, senderErr>>

SenderStop ==
  /\ phase = "send"
  /\ \/ senderErr
     \/ sState = "idle" /\ Len(sent) >= 1
  /\ phase' = "recv"
  /\ UNCHANGED <<enc, sapi, rapi, sndVars, rcvVars>>

SenderStep ==
  /\ \/ StartMsg
     \/ \E n \in WriteSizes : ExplicitPartial(n) \/ SendWhole(n) \/ AppWrite(n) \/ MsgPut("bytes", n)
     \/ \E n \in StrSizes : MsgPut("string", n)
     \/ \E n \in StrBytesSizes : MsgPut("stringbytes", n)
     \/ EndMessage \/ MsgFlush \/ MsgFinish \/ Abandon
  /\ UNCHANGED <<enc, sapi, rapi, phase, rcvVars>>

-----------------------------------------------------------------------------
(* Receiver core: RecvFrame on a working copy [pos, buf, eom, err]         *)
IsLast(f) == IF "EndFlagSwapped" \in Bug THEN f.end = 0 ELSE f.end = 1

RecvFrame(r) ==
  LET f == wire[r.pos + 1] IN
    IF ~ReceiverAccepts(f) THEN [r EXCEPT !.err = TRUE]
    ELSE [r EXCEPT !.pos = @ + 1, !.buf = AppendSeg(@, Seg(f.msg, f.off, f.plen)), !.eom = IsLast(f)]

\* the frame loop of ReceiveCompleteMessage / readNextFrame / GetRemainingBytes
RECURSIVE PullToEnd(_)
PullToEnd(r) ==
  IF r.err \/ r.eom \/ r.pos = Len(wire) THEN r ELSE PullToEnd(RecvFrame(r))

\* ensureData(need)
Enough(r, need) ==
  IF "EnsureStopsEarly" \in Bug THEN BufLen(r.buf) + 1 >= need ELSE BufLen(r.buf) >= need
RECURSIVE PullNeed(_, _)
PullNeed(r, need) ==
  IF r.err \/ r.eom \/ Enough(r, need) \/ r.pos = Len(wire) THEN r ELSE PullNeed(RecvFrame(r), need)

Receiving == (Interleave \/ phase = "recv") /\ phase # "done" /\ ~recvErr
R0(buf, eom) == [pos |-> rpos, buf |-> buf, eom |-> eom, err |-> FALSE]

Deliver(m) == delivered' = Append(delivered, m)

(* --- "complete" --------------------------------------------------------- *)
RecvComplete ==
  /\ Receiving /\ rapi = "complete" /\ rState = "idle"
  /\ LET r == PullToEnd(R0(<<>>, FALSE)) IN
     /\ r.err \/ r.eom                \* otherwise the call blocks
     /\ rpos' = r.pos
     /\ recvErr' = r.err
     /\ IF r.err THEN UNCHANGED delivered ELSE Deliver(r.buf)
  /\ UNCHANGED <<rState, rbuf, rRead, rEOM, rOut, nReads>>

(* --- "startread" -------------------------------------------------------- *)
StartRead ==
  /\ Receiving /\ rapi = "startread" /\ rState = "idle"
  /\ LET r == PullToEnd(R0(<<>>, FALSE)) IN
     /\ r.err \/ r.eom
     /\ rpos' = r.pos
     /\ recvErr' = r.err
     /\ rbuf' = r.buf
     /\ rState' = IF r.err THEN "idle" ELSE "reading"
  /\ rRead' = 0 /\ rOut' = <<>> /\ nReads' = 0
  /\ UNCHANGED <<rEOM, delivered>>

ReadBytes(k) ==
  /\ Receiving /\ rapi = "startread" /\ rState = "reading"
  /\ nReads < MaxReads
  /\ LET avail == BufLen(rbuf) - rRead
         kk    == IF k = 0 THEN avail ELSE k IN
     /\ avail > 0 /\ kk <= avail
     /\ rOut' = Cat(rOut, Take(Drop(rbuf, rRead), kk))
     /\ rRead' = rRead + kk
  /\ nReads' = nReads + 1
  /\ UNCHANGED <<rState, rpos, rbuf, rEOM, delivered, recvErr>>

EndRead ==
  /\ Receiving /\ rapi = "startread" /\ rState = "reading"
  /\ rRead = BufLen(rbuf)
  /\ Deliver(rOut)
  /\ rState' = "idle" /\ rbuf' = <<>> /\ rRead' = 0 /\ rOut' = <<>> /\ nReads' = 0
  /\ UNCHANGED <<rpos, rEOM, recvErr>>

(* --- "typed" ------------------------------------------------------------ *)
\* a reader is created only when there is something to read (a frame of the
\* next message is on the wire); creation itself reads nothing
NewReader ==
  /\ Receiving /\ rapi = "typed" /\ rState = "idle"
  /\ rpos < Len(wire)
  /\ rState' = "reading" /\ rbuf' = <<>> /\ rRead' = 0 /\ rEOM' = FALSE /\ rOut' = <<>>
  /\ nReads' = 0
  /\ UNCHANGED <<rpos, delivered, recvErr>>

GetBytes(k) ==
  /\ Receiving /\ rapi = "typed" /\ rState = "reading"
  /\ k > 0 /\ nReads < MaxReads
  /\ LET r == PullNeed(R0(rbuf, rEOM), k) IN
     /\ r.err \/ BufLen(r.buf) >= k \/ "EnsureStopsEarly" \in Bug   \* else: blocks, or asks past the end
     /\ rpos' = r.pos /\ rEOM' = r.eom
     /\ IF r.err \/ BufLen(r.buf) < k
        THEN recvErr' = TRUE /\ UNCHANGED <<rbuf, rOut>>
        ELSE /\ recvErr' = FALSE
             /\ rOut' = Cat(rOut, Take(r.buf, k))
             /\ rbuf' = Drop(r.buf, k)
  /\ nReads' = nReads + 1
  /\ UNCHANGED <<rState, rRead, delivered>>

GetRemaining ==
  /\ Receiving /\ rapi = "typed" /\ rState = "reading"
  /\ LET r == PullToEnd(R0(rbuf, rEOM)) IN
     /\ r.err \/ r.eom
     /\ rpos' = r.pos
     /\ recvErr' = r.err
     /\ IF r.err THEN UNCHANGED delivered ELSE Deliver(Cat(rOut, r.buf))
  /\ rState' = "idle" /\ rbuf' = <<>> /\ rEOM' = FALSE /\ rOut' = <<>> /\ nReads' = 0
  /\ UNCHANGED rRead

ReceiverStep ==
  /\ \/ RecvComplete \/ StartRead \/ EndRead \/ NewReader \/ GetRemaining
     \/ \E k \in ReadSizes : ReadBytes(k) \/ GetBytes(k)
  /\ UNCHANGED <<enc, sapi, rapi, phase, sndVars>>

ReceiverDone ==
  /\ phase = "recv"
  /\ \/ recvErr
     \/ rState = "idle" /\ Len(delivered) = Len(sent)
  /\ phase' = "done"
  /\ UNCHANGED <<enc, sapi, rapi, sndVars, rcvVars>>

-----------------------------------------------------------------------------
Init ==
  /\ enc \in Encs /\ sapi \in SendApis /\ rapi \in RecvApis
  /\ phase = "send"
  /\ sState = "idle" /\ sMsg = 0 /\ sOff = 0 /\ sbuf = 0 /\ sEOM = FALSE /\ nWrites = 0
  /\ nProt = 0 /\ wire = <<>> /\ sent = <<>> /\ senderErr = FALSE
  /\ rState = "idle" /\ rpos = 0 /\ rbuf = <<>> /\ rRead = 0 /\ rEOM = FALSE /\ rOut = <<>>
  /\ nReads = 0 /\ delivered = <<>> /\ recvErr = FALSE

Next == SenderStep \/ SenderStop \/ ReceiverStep \/ ReceiverDone

Spec == Init /\ [][Next]_vars

-----------------------------------------------------------------------------
(* Properties                                                              *)
Frame == [end : {0, 1}, plen : Nat, wlen : Nat, msg : Nat, off : Nat]
Segment == [msg : Nat, off : Nat, len : Nat]

TypeOK ==
  /\ enc \in BOOLEAN /\ phase \in {"send", "recv", "done"}
  /\ sState \in {"idle", "open", "err"} /\ rState \in {"idle", "reading"}
  /\ wire \in Seq(Frame)
  /\ \A i \in 1..Len(delivered) : delivered[i] \in Seq(Segment)
  /\ rpos \in 0..Len(wire)
  /\ senderErr \in BOOLEAN /\ recvErr \in BOOLEAN

\* length of message i as far as the sender has produced it
ProducedLen(i) == IF i <= Len(sent) THEN sent[i] ELSE IF i = sMsg THEN sOff ELSE 0

(* Contents and boundaries: the i-th message handed to the application is the
   i-th message sent, whole, in order; what the reads of an unfinished message
   returned so far is a prefix of that message.                                *)
DeliveredIsPrefixOfSent ==
  /\ Len(delivered) <= Len(sent)
  /\ \A i \in 1..Len(delivered) : delivered[i] = Whole(i, sent[i])
  /\ rState = "reading" =>
       LET m == Len(delivered) + 1 IN
         \/ rOut = <<>>
         \/ /\ Len(rOut) = 1 /\ rOut[1].msg = m /\ rOut[1].off = 0
            /\ rOut[1].len <= ProducedLen(m)

(* A frame the sender accepted is accepted by the receiver.                   *)
AcceptedNeverRejected ==
  /\ \A i \in 1..Len(wire) : ReceiverAccepts(wire[i])
  /\ ~recvErr

(* The typed layer accepts values of any length.                              *)
TypedLayerTotal == sapi = "typed" => ~senderErr

(* The application is never handed a message the sender did not finish.       *)
NoSpuriousMessage ==
  /\ Len(delivered) <= Len(sent)
  /\ senderErr => Len(delivered) <= sMsg - 1

(* What the sender puts on the wire: per message the frames concatenate to the
   message, only the last one carries the end flag, every frame fits.  This is
   the predicate the replayer evaluates on the REAL sender's output.          *)
FramesOf(m) == SelectSeq(wire, LAMBDA f : f.msg = m)
WireConcat(m) ==
  LET fs == FramesOf(m)
      F[i \in 0..Len(fs)] == IF i = 0 THEN <<>> ELSE AppendSeg(F[i-1], Seg(fs[i].msg, fs[i].off, fs[i].plen))
  IN F[Len(fs)]
WireOK ==
  \A m \in 1..Len(sent) :
    LET fs == FramesOf(m) IN
      /\ fs # <<>>
      /\ WireConcat(m) = Whole(m, sent[m])
      /\ \A i \in 1..Len(fs) : (fs[i].end = 1) = (i = Len(fs))
      /\ \A i \in 1..Len(fs) : fs[i].wlen <= Max

(* When both sides have run to completion every finished message arrived.     *)
DoneDeliversAll ==
  (phase = "done" /\ ~recvErr) => Len(delivered) = Len(sent)
=============================================================================
