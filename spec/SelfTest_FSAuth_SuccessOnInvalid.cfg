\* non-vacuity: with Bug = {"SuccessOnInvalid"} TLC must report CleanFailure violated
SPECIFICATION Spec
CONSTANTS
  MaxLen = 3
  ConnFams = {4, 6}
  Faults = {"none", "sendFail", "verdictLost"}
  Roles = {"client", "server"}
  Bug = {"SuccessOnInvalid"}
INVARIANTS CleanFailure
CHECK_DEADLOCK FALSE
