\* G04: every configuration, both styles of both roles, every scripted fault
SPECIFICATION Spec
CONSTANTS
  Bug = {}
  CStyles = {"cedar", "htcondor"}
  SStyles = {"cedar", "htcondor"}
  Faults = {"none", "c_err_init", "s_err_init", "c_quit_mid", "s_quit_mid", "c_quit_conf", "s_quit_conf"}
INVARIANTS TypeOK HonestNeverFails Progress NoStuck NoStray Agreement ServerAuthenticated BadCertFailsBoth OneFailsBothFail ErrorPropagates RecordShape
CHECK_DEADLOCK FALSE
