\* G01 liveness: under weak fairness of the listener's own steps a failed / dropped registration is always retried
SPECIFICATION LiveSpec
CONSTANTS
  NB = 1
  MaxConn = 3
  MaxReq = 1
  MaxTick = 0
  MaxMsg = 1
  RegAnswers = {"fresh", "same", "refuse", "hangup", "garbage"}
  Targets = {"accept"}
  Msgs = {"malformed"}
  Bug = {}
INVARIANTS NoWedge
PROPERTIES RetryUntilRegistered FailureLeadsToRetry
CHECK_DEADLOCK FALSE
