\* non-vacuity: with Bug = {"PrefixOnlyLeaf"} TLC must report CreatedOnlyUnderBase violated
SPECIFICATION Spec
CONSTANTS
  MaxLen = 3
  ConnFams = {4, 6}
  Faults = {"none", "sendFail", "verdictLost"}
  Roles = {"client", "server"}
  Bug = {"PrefixOnlyLeaf"}
INVARIANTS CreatedOnlyUnderBase
CHECK_DEADLOCK FALSE
