\* C10 thorough: the whole product, one partition (C10_CAUTH, C10_SAUTH) per TLC process
SPECIFICATION GenSpec
CONSTANTS
  CAuth = {"REQUIRED", "PREFERRED", "OPTIONAL", "NEVER"}
  SAuth = {"REQUIRED", "PREFERRED", "OPTIONAL", "NEVER"}
  CEnc = {"REQUIRED", "PREFERRED", "OPTIONAL", "NEVER"}
  SEnc = {"REQUIRED", "PREFERRED", "OPTIONAL", "NEVER"}
  CMethods <- Lists8
  SMethods <- Lists8
  CCiphers <- Ciphers4
  SCiphers <- Ciphers4
  CmdModes = {TRUE, FALSE}
  Shapes = {"full"}
  SameLists = FALSE
  RelayBudget = 0
  AllowAbort = FALSE
  Bug = {}
  GenMode = "c10part"
INVARIANTS EmitTrace TypeOK FailsExactlyWhen DenialIsExplicit BothAgree FollowsTable CanTalkBothWays
CHECK_DEADLOCK FALSE
