\* C08: every text over the 15-token literal alphabet up to length 4 (54 240 texts)
SPECIFICATION Spec
CONSTANTS
  MaxLen = 4
  Bug = {}
INVARIANTS TypeOK ShortcutSound ShortcutTakesCanonical
CHECK_DEADLOCK FALSE
