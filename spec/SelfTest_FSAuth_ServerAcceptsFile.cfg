\* non-vacuity: with Bug = {"ServerAcceptsFile"} TLC must report ServerAcceptsOnlyOwnerOnlyDir violated
SPECIFICATION Spec
CONSTANTS
  MaxLen = 3
  ConnFams = {4, 6}
  Faults = {"none", "sendFail", "verdictLost"}
  Roles = {"client", "server"}
  Bug = {"ServerAcceptsFile"}
INVARIANTS ServerAcceptsOnlyOwnerOnlyDir
CHECK_DEADLOCK FALSE
