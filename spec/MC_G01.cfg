\* G01 thorough: one broker, 3 connections, 2 requests, every registration answer / target / message kind (8.1 M states)
SPECIFICATION Spec
CONSTANTS
  NB = 1
  MaxConn = 3
  MaxReq = 2
  MaxTick = 0
  MaxMsg = 1
  RegAnswers = {"fresh", "same", "nocookie", "refuse", "hangup", "garbage"}
  Targets = {"accept", "refuse", "noaddr"}
  Msgs = {"alive", "unknown", "malformed"}
  Bug = {}
INVARIANTS TypeOK PresentsLastCookie ContactIsGrant HelloCarriesOwnId AtMostOneReply ReplyMatchesOutcome EveryRequestAnswered ReplyOnOwnOrLaterConn WritesSerialised NoWedge StoppedClean OneConnPerBroker

PROPERTY KeepsRegistration
CHECK_DEADLOCK FALSE
