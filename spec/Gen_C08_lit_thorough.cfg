\* C08 generator: prints every text up to length 5 with its predicted class / branch
SPECIFICATION Spec
CONSTANTS
  MaxLen = 5
  Bug = {}
INVARIANTS EmitTrace
CHECK_DEADLOCK FALSE
