\* G03 thorough: 2 keys, log of 4 changes, 3 connections, 2 cuts, 9 events emitted
SPECIFICATION Spec
CONSTANTS
  Mode = "stream"
  AdTypes = {"", "plain", "quoted"}
  Constraints = {"", "expr", "exprQuoted"}
  ByteVals = {"nil", "empty", "b1", "bnul"}
  Kinds <- KindsAll
  Damages = {"dropKind", "kindNotInt", "badKey", "badCursor", "dropType", "typeNotString", "keyNotString", "cursorNotString", "constraintNotString"}
  Keys = {1, 2}
  MaxLog = 4
  MaxConns = 3
  MaxCuts = 2
  MaxEmit = 9
  Bug = {}
INVARIANTS NoPartialEvent DeliveredInOrder ViewMatchesCursor ResumeContinues ByeEndsConnection
CHECK_DEADLOCK FALSE
