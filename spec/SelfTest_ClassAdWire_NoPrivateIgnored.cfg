\* non-vacuity: with the known wrong design "NoPrivateIgnored" TLC must report NoPrivateOverridesInclude violated
SPECIFICATION Spec
CONSTANTS
  MaxAttrs = 2
  AttrClasses = {"pubA", "pubB", "prefix", "claimid"}
  Spellings = {"lower", "mixed"}
  OptWords = {0, 1, 2, 32, 34}
  Whitelists = {"none", "priv", "pub"}
  Versions = {"unset", "below", "atleast"}
  StreamStates = {"nokey", "enc", "keyedClear"}
  TypeModes = {"both"}
  CutPlans = {"one", "split"}
  Bug = {"NoPrivateIgnored"}
INVARIANTS NoPrivateOverridesInclude
CHECK_DEADLOCK FALSE
