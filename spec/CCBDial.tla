------------------------------- MODULE CCBDial -------------------------------
(***************************************************************************)
(* ccb.Dial (ccb/requester.go), property C20: "a CCB dial returns only the *)
(* connection that presents its fresh connect id".                         *)
(*                                                                         *)
(* Processes of the code and their actions here:                           *)
(*   Dial's select loop          DialConsume, DialCancelled, LaunchByTimer *)
(*   dialOne/dialStandard select AttemptSelect (accept result / broker     *)
(*                               reply / failure), one per broker attempt  *)
(*   acceptReversed goroutine    AcceptStep (a read it is stuck in ends    *)
(*                               when Dial returns: TearDown)              *)
(*   dialProxy/proxyRequestOn-   ProxyRead (reply, then the replayed       *)
(*   Stream                      hello, on the broker stream)              *)
(* Environment (scripted by the harness): the brokers (EnvReply,           *)
(* EnvSend), hosts that connect to the requester's ephemeral listener      *)
(* (EnvArrive: the legitimate target or a rogue), the caller's context     *)
(* (EnvStop, EnvCancel).                                                   *)
(*                                                                         *)
(* Brokers are numbered in LAUNCH order (Dial shuffles its contact list;   *)
(* the harness gives a scripted broker its number when its request         *)
(* arrives).  Every attempt has its own fresh connect id and its own       *)
(* listener; ids are symbolic: a hello is "legit" iff it carries the id of *)
(* the attempt whose listener it reaches.                                  *)
(*   wrongId  some other well-formed id      emptyId  empty / missing id   *)
(*   staleId  id of an earlier Dial          otherId  id of the concurrent *)
(*   badGreeting  the RIGHT id inside a malformed opening message (wrong    *)
(*            command integer, command missing, an extra leading item, the  *)
(*            ad before the command): "a malformed greeting" of the         *)
(*            statement -- closed, never returned, whatever id it carries   *)
(*   garbage  bytes that are no hello                 attempt to the other *)
(*   close    connects and closes at once             broker               *)
(*   stall    connects and sends nothing (the accept loop is stuck on it   *)
(*            until the context ends)                                      *)
(* Where Go's select picks among ready channels, every choice is a         *)
(* separate behaviour here: the harness accepts any of them.               *)
(***************************************************************************)
EXTENDS Integers, Sequences, FiniteSets, TLC

CONSTANTS
  NB,          \* number of (responsive) brokers in the contact list: 1 or 2
  MaxRogue,    \* rogue reverse connections in total
  RogueKinds,  \* subset of {"wrongId","emptyId","staleId","otherId","garbage","close","stall"}
  MaxMsgs,     \* proxy mode: messages a broker sends on its stream
  Mode,        \* "standard" | "proxy"
  Bug

Brokers == 1..NB
HelloKinds == {"legit", "wrongId", "emptyId", "staleId", "otherId", "badGreeting", "garbage", "close", "stall"}
WellFormed == {"legit", "wrongId", "emptyId", "staleId", "otherId"}   \* parse as a hello

VARIABLES
  att,        \* [Brokers -> attempt record]
  conns,      \* Seq([to, kind, st]): reverse connections in the order they were opened
  bconn,      \* [Brokers -> {"none","open","closed","returned","orphan"}]: requester->broker connection
  msgs,       \* [Brokers -> Seq(message kind)]: proxy mode, unread messages on the broker stream
  launched,   \* attempts started so far
  ret,        \* what Dial returned
  envDone,    \* the script of the environment is over
  cancelled   \* the caller's context ended

vars == <<att, conns, bconn, msgs, launched, ret, envDone, cancelled>>

Idle == [st |-> "idle", lsn |-> "none", acceptor |-> "none", acc |-> 0,
         reply |-> "none", seen |-> FALSE, consumed |-> FALSE, why |-> "none", stage |-> "reply",
         nread |-> 0, viaBroker |-> FALSE, hello |-> "none"]
NoRet == [kind |-> "none", c |-> 0, why |-> "none", fails |-> {}]

Init ==
  /\ att = [b \in Brokers |-> Idle]
  /\ conns = <<>>
  /\ bconn = [b \in Brokers |-> "none"]
  /\ msgs = [b \in Brokers |-> <<>>]
  /\ launched = 0
  /\ ret = NoRet
  /\ envDone = FALSE
  /\ cancelled = FALSE

Running == ret.kind = "none"
Queued(b) == {c \in DOMAIN conns : conns[c].to = b /\ conns[c].st = "queued"}
Min(S) == CHOOSE x \in S : \A y \in S : x <= y
Rogues == {c \in DOMAIN conns : conns[c].kind # "legit"}
LegitSent(b) == \E c \in DOMAIN conns : conns[c].to = b /\ conns[c].kind = "legit"

\* The listener of attempt b goes away: whatever is still in its backlog is reset.  The
\* accept loop may already have taken the next connection out of the backlog: a rogue is
\* then read and closed all the same, a legitimate one is matched and never handed to
\* anybody (the statement is silent about it: "orphan" = open or closed).
Gone(cn) == IF cn.kind = "legit" THEN "orphan" ELSE "closed"
CloseListener(cs, b) ==
  [c \in DOMAIN cs |-> IF cs[c].to = b /\ cs[c].st = "queued" THEN [cs[c] EXCEPT !.st = Gone(cs[c])] ELSE cs[c]]

\* Dial returned: every context of every attempt is cancelled, listeners close,
\* a read the accept loop is stuck in fails and that connection is closed; a
\* connection that was matched but never handed to the caller is simply dropped
\* (the statement does not say what happens to it: "orphan" = either state)
TearDown(cs, keep) ==
  [c \in DOMAIN cs |->
     IF c = keep THEN [cs[c] EXCEPT !.st = "returned"]
     ELSE IF cs[c].st = "queued" THEN [cs[c] EXCEPT !.st = Gone(cs[c])]
     ELSE IF cs[c].st = "reading" THEN [cs[c] EXCEPT !.st = "closed"]
     ELSE IF cs[c].st = "held" THEN [cs[c] EXCEPT !.st = "orphan"]
     ELSE cs[c]]
TearDownBrokers(bc, keep) ==
  [b \in Brokers |-> IF b = keep THEN "returned" ELSE IF bc[b] = "open" THEN "closed" ELSE bc[b]]
Finish(r, keepRev, keepBroker) ==
  /\ ret' = r
  /\ conns' = TearDown(conns, keepRev)
  /\ bconn' = TearDownBrokers(bconn, keepBroker)
  /\ att' = [b \in Brokers |-> IF att[b].st = "run" THEN [att[b] EXCEPT !.st = "dead", !.lsn = "closed"] ELSE [att[b] EXCEPT !.lsn = IF att[b].lsn = "open" THEN "closed" ELSE att[b].lsn]]

-----------------------------------------------------------------------------
(* Starting attempts.                                                      *)
Start(a, b) ==
  [a EXCEPT ![b] = [Idle EXCEPT !.st = "run",
                                !.lsn = IF Mode = "standard" THEN "open" ELSE "none",
                                !.acceptor = IF Mode = "standard" THEN "accepting" ELSE "none"]]

LaunchFirst ==
  /\ launched = 0 /\ Running
  /\ att' = Start(att, 1)
  /\ bconn' = [bconn EXCEPT ![1] = "open"]
  /\ launched' = 1
  /\ UNCHANGED <<conns, msgs, ret, envDone, cancelled>>

\* the stagger timer fires while an attempt is still outstanding
LaunchByTimer ==
  /\ launched >= 1 /\ launched < NB /\ Running
  /\ \E b \in 1..launched : att[b].st \in {"run", "ok", "err"} /\ ~att[b].consumed
  /\ att' = Start(att, launched + 1)
  /\ bconn' = [bconn EXCEPT ![launched + 1] = "open"]
  /\ launched' = launched + 1
  /\ UNCHANGED <<conns, msgs, ret, envDone, cancelled>>

-----------------------------------------------------------------------------
(* Environment.                                                            *)
EnvArrive(b, k) ==
  /\ Mode = "standard" /\ ~envDone
  /\ att[b].st # "idle"                       \* the broker has seen the request: address and id are known
  /\ IF k = "legit" THEN ~LegitSent(b)
     ELSE /\ k \in RogueKinds /\ Cardinality(Rogues) < MaxRogue
          /\ k = "otherId" => (NB = 2 /\ att[3 - b].st # "idle")
  /\ conns' = Append(conns, [to |-> b, kind |-> k,
                             st |-> IF att[b].lsn = "open" THEN "queued" ELSE "closed"])
  /\ UNCHANGED <<att, bconn, msgs, launched, ret, envDone, cancelled>>

EnvReply(b, r) ==
  /\ Mode = "standard" /\ ~envDone
  /\ att[b].st # "idle" /\ att[b].reply = "none"
  /\ att' = [att EXCEPT ![b].reply = r]
  /\ UNCHANGED <<conns, bconn, msgs, launched, ret, envDone, cancelled>>

\* proxy mode: the broker writes a message on the stream the request came on
ProxyMsgs == {"replyOk", "replyFail", "legit", "wrongId", "emptyId", "staleId", "badGreeting", "garbage", "close"}
EnvSend(b, m) ==
  /\ Mode = "proxy" /\ ~envDone
  /\ att[b].st # "idle"
  /\ Len(msgs[b]) + att[b].nread < MaxMsgs
  /\ \A i \in 1..Len(msgs[b]) : msgs[b][i] # "close"
  /\ m \in ProxyMsgs
  /\ msgs' = [msgs EXCEPT ![b] = Append(@, m)]
  /\ UNCHANGED <<att, conns, bconn, launched, ret, envDone, cancelled>>

EnvStop ==
  /\ ~envDone /\ launched >= 1
  /\ envDone' = TRUE
  /\ UNCHANGED <<att, conns, bconn, msgs, launched, ret, cancelled>>

EnvCancel ==
  /\ envDone /\ ~cancelled /\ Running
  /\ cancelled' = TRUE
  /\ UNCHANGED <<att, conns, bconn, msgs, launched, ret, envDone>>

-----------------------------------------------------------------------------
(* acceptReversed: take the next connection, read its hello, keep it only  *)
(* if it carries this attempt's id.                                        *)
Matches(k) ==
  \/ k = "legit"
  \/ "AcceptAnyHello" \in Bug /\ k \in WellFormed
  \/ "AcceptStaleId" \in Bug /\ k = "staleId"
  \/ "AcceptOtherAttemptId" \in Bug /\ k = "otherId"
  \/ "AcceptEmptyId" \in Bug /\ k = "emptyId"
  \* known wrong design: the command integer of the greeting is not checked, so the id
  \* alone decides
  \/ "NoCommandCheck" \in Bug /\ k = "badGreeting"

AcceptStep(b) ==
  /\ Mode = "standard"
  /\ att[b].st = "run" /\ att[b].acceptor = "accepting" /\ att[b].lsn = "open"
  /\ Queued(b) # {}
  /\ LET c == Min(Queued(b)) k == conns[c].kind IN
       IF Matches(k)
       THEN /\ conns' = [conns EXCEPT ![c].st = "held"]
            /\ att' = [att EXCEPT ![b].acceptor = "matched", ![b].acc = c]
       ELSE IF k = "stall"
       THEN /\ conns' = [conns EXCEPT ![c].st = "reading"]
            /\ att' = [att EXCEPT ![b].acceptor = "blocked"]
       ELSE /\ conns' = [conns EXCEPT ![c].st = IF "NoCloseMismatch" \in Bug THEN "held" ELSE "closed"]
            /\ UNCHANGED att
  /\ UNCHANGED <<bconn, msgs, launched, ret, envDone, cancelled>>

-----------------------------------------------------------------------------
(* dialStandard's select: the accepted connection, the broker's reply, the *)
(* context.  A success reply is only noted; a failure reply ends the       *)
(* attempt with the broker's error.                                        *)
AttemptSelect(b) ==
  /\ Mode = "standard" /\ att[b].st = "run"
  /\ \/ /\ att[b].acceptor = "matched"
        /\ att' = [att EXCEPT ![b].st = "ok", ![b].lsn = "closed"]
        /\ conns' = CloseListener(conns, b)
        /\ bconn' = [bconn EXCEPT ![b] = "closed"]
     \/ /\ att[b].reply = "fail" /\ ~att[b].seen
        /\ IF "IgnoreBrokerFailure" \in Bug
           THEN /\ att' = [att EXCEPT ![b].seen = TRUE]
                /\ UNCHANGED <<conns, bconn>>
           ELSE /\ att' = [att EXCEPT ![b].st = "err", ![b].why = "brokerFail", ![b].seen = TRUE, ![b].lsn = "closed"]
                /\ conns' = CloseListener(conns, b)
                /\ bconn' = [bconn EXCEPT ![b] = "closed"]
     \/ /\ att[b].reply = "ok" /\ ~att[b].seen
        /\ IF "ReturnOnSuccessReply" \in Bug
           THEN /\ att' = [att EXCEPT ![b].st = "ok", ![b].seen = TRUE, ![b].viaBroker = TRUE, ![b].lsn = "closed"]
                /\ conns' = CloseListener(conns, b)
                /\ UNCHANGED bconn
           ELSE /\ att' = [att EXCEPT ![b].seen = TRUE]
                /\ UNCHANGED <<conns, bconn>>
  /\ UNCHANGED <<msgs, launched, ret, envDone, cancelled>>

(* proxyRequestOnStream: first the {Result} reply, then the replayed hello. *)
ProxyRead(b) ==
  /\ Mode = "proxy" /\ att[b].st = "run" /\ msgs[b] # <<>>
  /\ LET m == Head(msgs[b]) IN
       /\ msgs' = [msgs EXCEPT ![b] = Tail(@)]
       /\ IF att[b].stage = "reply"
          THEN IF m = "replyOk"
               THEN /\ att' = [att EXCEPT ![b].stage = "hello", ![b].nread = @ + 1]
                    /\ UNCHANGED bconn
               ELSE /\ att' = [att EXCEPT ![b].st = "err", ![b].nread = @ + 1,
                                          ![b].why = IF m = "replyFail" THEN "brokerFail" ELSE "protocol"]
                    /\ bconn' = [bconn EXCEPT ![b] = "closed"]
          ELSE IF m = "legit" \/ ("AcceptAnyHello" \in Bug /\ m \in WellFormed)
                               \/ ("NoCommandCheck" \in Bug /\ m = "badGreeting")
               THEN /\ att' = [att EXCEPT ![b].st = "ok", ![b].nread = @ + 1, ![b].hello = m]
                    /\ UNCHANGED bconn
               ELSE /\ att' = [att EXCEPT ![b].st = "err", ![b].why = "protocol", ![b].nread = @ + 1]
                    /\ bconn' = [bconn EXCEPT ![b] = IF "NoCloseMismatch" \in Bug THEN "orphan" ELSE "closed"]
  /\ UNCHANGED <<conns, launched, ret, envDone, cancelled>>

-----------------------------------------------------------------------------
(* Dial's select loop.                                                     *)
Fails == {b \in Brokers : att[b].st = "err" /\ att[b].why = "brokerFail"}

DialConsume(b) ==
  /\ Running
  /\ att[b].st \in {"ok", "err"} /\ ~att[b].consumed
  /\ IF att[b].st = "ok"
     THEN \* winner: hand its connection to the caller, cancel everything else
          /\ IF Mode = "proxy" \/ att[b].viaBroker
             THEN Finish([kind |-> "broker", c |-> b, why |-> "none", fails |-> {}], 0, b)
             ELSE Finish([kind |-> "rev", c |-> att[b].acc, why |-> "none", fails |-> {}], att[b].acc, 0)
          /\ UNCHANGED launched
     ELSE IF launched < NB
     THEN \* a failure starts the next broker at once
          /\ att' = [Start(att, launched + 1) EXCEPT ![b].consumed = TRUE]
          /\ bconn' = [bconn EXCEPT ![launched + 1] = "open"]
          /\ launched' = launched + 1
          /\ UNCHANGED <<conns, ret>>
     ELSE IF \E o \in Brokers : o # b /\ att[o].st \in {"run", "ok", "err"} /\ ~att[o].consumed
     THEN /\ att' = [att EXCEPT ![b].consumed = TRUE]
          /\ UNCHANGED <<conns, bconn, ret, launched>>
     ELSE /\ Finish([kind |-> "error", c |-> 0, why |-> "allFailed", fails |-> Fails], 0, 0)
          /\ UNCHANGED launched
  /\ UNCHANGED <<msgs, envDone, cancelled>>

\* known wrong design (self-test of AtMostOneReturned): a second successful attempt is
\* handed over as well
SecondWinner(b) ==
  /\ "SecondWinnerAlsoReturned" \in Bug /\ ~Running /\ ret.kind = "rev"
  /\ att[b].st = "dead" /\ att[b].acceptor = "matched" /\ conns[att[b].acc].st = "orphan"
  /\ conns' = [conns EXCEPT ![att[b].acc].st = "returned"]
  /\ UNCHANGED <<att, bconn, msgs, launched, ret, envDone, cancelled>>

DialCancelled ==
  /\ Running /\ cancelled
  /\ Finish([kind |-> "error", c |-> 0, why |-> "cancelled", fails |-> {}], 0, 0)
  /\ UNCHANGED <<msgs, launched, envDone, cancelled>>

Internal ==
  \/ \E b \in Brokers : AcceptStep(b) \/ AttemptSelect(b) \/ ProxyRead(b) \/ DialConsume(b) \/ SecondWinner(b)
  \/ DialCancelled

Env ==
  \/ \E b \in Brokers :
       \/ \E k \in HelloKinds : EnvArrive(b, k)
       \/ \E r \in {"ok", "fail"} : EnvReply(b, r)
       \/ \E m \in ProxyMsgs : EnvSend(b, m)
  \/ EnvStop \/ EnvCancel

Next == LaunchFirst \/ LaunchByTimer \/ Internal \/ Env

Spec == Init /\ [][Next]_vars

-----------------------------------------------------------------------------
(* The property.                                                           *)
TypeOK ==
  /\ launched \in 0..NB
  /\ ret.kind \in {"none", "rev", "broker", "error"}
  /\ \A c \in DOMAIN conns : conns[c].st \in {"queued", "reading", "held", "closed", "returned", "orphan"}

\* Dial hands back only a connection whose hello carried the id of the attempt it reached
ReturnedPresentedFreshId ==
  /\ ret.kind = "rev" => (ret.c \in DOMAIN conns /\ conns[ret.c].kind = "legit" /\ Mode = "standard")
  /\ ret.kind = "broker" => (Mode = "proxy" /\ att[ret.c].stage = "hello" /\ att[ret.c].hello = "legit" /\ ~att[ret.c].viaBroker)
\* proxy mode: the broker connection is returned only after the success reply AND the matching hello
\* (stage "hello" is entered only by reading replyOk; hello = the greeting that was accepted)

AtMostOneReturned ==
  Cardinality({c \in DOMAIN conns : conns[c].st = "returned"})
    + Cardinality({b \in Brokers : bconn[b] = "returned"}) <= 1

\* a connection with any other id or a malformed greeting is closed once looked at, and
\* none of them is open when Dial has returned
OthersClosed ==
  /\ \A c \in Rogues : conns[c].st \in {"queued", "reading", "closed"}
  /\ ~Running => \A c \in Rogues : conns[c].st = "closed"
  /\ (Mode = "proxy" /\ ~Running) => \A b \in Brokers : bconn[b] \in {"none", "closed", "returned"}

\* a failure reported by the broker ends that attempt with that error
BrokerFailureEndsAttempt ==
  /\ \A b \in Brokers : (att[b].seen /\ att[b].reply = "fail") =>
        /\ att[b].st \in {"err", "dead"} => att[b].why \in {"brokerFail", "none"}
        /\ att[b].st # "ok"
        /\ ~(ret.kind = "rev" /\ conns[ret.c].to = b)
        /\ Running => att[b].st = "err"
  /\ (ret.kind = "error" /\ ret.why = "allFailed") => ret.fails = Fails
=============================================================================
