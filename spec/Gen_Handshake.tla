--------------------------- MODULE Gen_Handshake ---------------------------
(***************************************************************************)
(* Behaviour generator for Handshake (same actions, restricted ORDER and   *)
(* restricted configurations only - every generated behaviour is a         *)
(* behaviour of Handshake).                                                *)
(*                                                                         *)
(* GenMode "c10rows": honest wire; the levels range over CAuth..SEnc, the  *)
(*   (method lists, cipher lists, command mode) over the rows of the ndjson*)
(*   file IOEnv.C10_ROWS (a pairwise cover chosen by the driver).          *)
(* GenMode "c10part": honest wire; the whole product of the constants.     *)
(*   Both c10 modes restrict the client / server authentication level to   *)
(*   IOEnv.C10_CAUTH / IOEnv.C10_SAUTH ("*" = any), so that the driver can *)
(*   run partitions as parallel TLC processes, and both encryption levels  *)
(*   to IOEnv.C10_ENC ("*" = any; used by the small alias-name sweep).     *)
(*   For both, every TERMINAL state is printed once: the configuration,    *)
(*   the independent table Expected, and what the model's two ends report. *)
(*   No history variable is needed: the runs are deterministic up to the   *)
(*   choices the statement leaves open, which show in the terminal state.  *)
(* GenMode "mc": no restriction of order at all (Handshake!Next); only the  *)
(*   partition restriction above.  MC_C10*.cfg check the invariants of     *)
(*   Handshake on it, one partition per TLC process.                       *)
(* GenMode "c04": deterministic scheduling (server steps first), at most   *)
(*   RelayBudget relay actions, each applied to the frame that was just    *)
(*   put on the wire; endpoints continue as far as they can (the most      *)
(*   optimistic continuation) and abort only when stuck.  One behaviour    *)
(*   per (shape, method list, relay action, frame).                        *)
(***************************************************************************)
EXTENDS Handshake, Json, IOUtils

CONSTANTS GenMode

VARIABLES relayRec,   \* the relay action taken so far ("none" record if none)
          fresh       \* direction whose newest frame the relay may act on now, or "none"

gvars == <<vars, relayRec, fresh>>

NoRelay == [act |-> "none", d |-> "", n |-> 0, k |-> "", part |-> ""]

Rows == ndJsonDeserialize(IOEnv.C10_ROWS)

(* the encryption policy pairs whose handshakes the C04 replay runs (the model
   check MC_C04*.cfg covers the whole product of the CEnc / SEnc constants)   *)
C04EncPairs == { <<"REQUIRED", "REQUIRED">>, <<"OPTIONAL", "OPTIONAL">>, <<"PREFERRED", "OPTIONAL">> }

GenInit ==
  /\ Init
  /\ (GenMode # "c04") => /\ (IOEnv.C10_CAUTH = "*" \/ cfg.c.auth = IOEnv.C10_CAUTH)
                          /\ (IOEnv.C10_SAUTH = "*" \/ cfg.s.auth = IOEnv.C10_SAUTH)
                          /\ (IOEnv.C10_ENC = "*" \/ (cfg.c.enc = IOEnv.C10_ENC /\ cfg.s.enc = IOEnv.C10_ENC))
  /\ (GenMode = "c04") => /\ <<cfg.c.enc, cfg.s.enc>> \in C04EncPairs
                          /\ (shape # "full") => <<cfg.c.enc, cfg.s.enc>> = <<"REQUIRED", "REQUIRED">>
  /\ relayRec = NoRelay
  /\ fresh = "none"

GenConfigure ==
  IF GenMode = "c10rows"
  THEN LET rows == Rows IN      \* (read the file once per evaluation)
       \E i \in 1..Len(rows) :
         ConfigureWith(rows[i].cm, rows[i].sm, rows[i].cx, rows[i].sx, rows[i].cmd)
  ELSE Configure

-----------------------------------------------------------------------------
SrvStep ==
  \/ ServerNegotiate \/ ServerSelect \/ PostAuthSend \/ ResumeReply \/ PreServer
  \/ RunMethod("s") \/ KeyExchange("s") \/ InstallKey("s") \/ Store("s")
  \/ AppSend("s") \/ AppRecv("s") \/ SkipOdd("s")
CliStep ==
  \/ ClientHello \/ ClientReadServerAd \/ BitmaskOffer \/ ClientReadSelect \/ PostAuthRecv
  \/ ResumeRequest \/ ResumeRecv \/ PreClientSend \/ PreClientRecv
  \/ RunMethod("c") \/ KeyExchange("c") \/ InstallKey("c") \/ Store("c")
  \/ AppSend("c") \/ AppRecv("c") \/ SkipOdd("c")

Sched ==
  IF ENABLED SrvStep THEN SrvStep
  ELSE IF ENABLED CliStep THEN CliStep
  ELSE IF ENABLED Abort("c") THEN Abort("c") ELSE Abort("s")

(* the direction in which this step put a new cleartext frame on the wire *)
NewClear ==
  IF relayLeft = 0 THEN "none"
  ELSE IF nsent'["c2s"] > nsent["c2s"] /\ ~chan'["c2s"][Len(chan'["c2s"])].prot THEN "c2s"
  ELSE IF nsent'["s2c"] > nsent["s2c"] /\ ~chan'["s2c"][Len(chan'["s2c"])].prot THEN "s2c"
  ELSE "none"

RelayRecFor(a, d, p, part) ==
  [act |-> a, d |-> d, n |-> chan[d][p].n, k |-> chan[d][p].k, part |-> part]

C04Next ==
  \/ /\ pc["c"] = "config" /\ GenConfigure /\ UNCHANGED <<relayRec, fresh>>
     /\ (shape # "full") => cfg'.c.methods = << >>     \* the other shapes do not read the policy
  \/ /\ pc["c"] # "config" /\ fresh = "none"
     /\ Sched
     /\ fresh' = NewClear
     /\ UNCHANGED relayRec
  \/ /\ fresh # "none"
     /\ fresh' = "none"
     /\ LET d == fresh  p == Len(chan[fresh]) IN
        \/ UNCHANGED <<vars, relayRec>>                         \* the relay lets it pass
        \/ \E part \in {"hdr", "pay"} : Modify(d, p, part) /\ relayRec' = RelayRecFor("Modify", d, p, part)
        \/ InsertFrame(d, p) /\ relayRec' = RelayRecFor("InsertFrame", d, p, "")
        \/ RemoveFrame(d, p) /\ relayRec' = RelayRecFor("RemoveFrame", d, p, "")
        \/ Split(d, p) /\ relayRec' = RelayRecFor("Split", d, p, "")
        \/ p >= 2 /\ Merge(d, p - 1) /\ relayRec' = RelayRecFor("Merge", d, p - 1, "")

(* commuting steps of the two ends are taken in one fixed order: the terminal
   states are the same as under every interleaving (MC_C10 explores those)   *)
C10Next ==
  /\ \/ pc["c"] = "config" /\ GenConfigure
     \/ pc["c"] # "config" /\ Sched
  /\ UNCHANGED <<relayRec, fresh>>

(* GenMode "mc": every interleaving (Handshake!Next) - used to model-check one
   partition of the C10 product per TLC process                              *)
MCNext == Next /\ UNCHANGED <<relayRec, fresh>>

GenNext == CASE GenMode = "c04" -> C04Next
             [] GenMode = "mc"  -> MCNext
             [] OTHER           -> C10Next

GenSpec == GenInit /\ [][GenNext]_gvars

-----------------------------------------------------------------------------
Proj(o) == [ok |-> o.st = "ok", why |-> o.why, auth |-> o.auth, enc |-> o.enc, method |-> o.method,
            resumed |-> o.resumed]

C10Rec == [cfg |-> cfg, exp |-> Exp, c |-> Proj(outcome["c"]), s |-> Proj(outcome["s"]),
           agree |-> (outcome["c"].sid = outcome["s"].sid /\ outcome["c"].key = outcome["s"].key),
           ran |-> ran, app |-> appAccepted]

C04Rec == [shape |-> shape, methods |-> cfg.c.methods, cenc |-> cfg.c.enc, senc |-> cfg.s.enc,
           relay |-> relayRec,
           c |-> Proj(outcome["c"]), s |-> Proj(outcome["s"]),
           app |-> appAccepted, conf |-> confirmed, nsent |-> nsent,
           clear |-> [c2s |-> Len(sentClear["c"]), s2c |-> Len(sentClear["s"])]]

\* pseudo-invariant: prints every terminal state as one JSON line
EmitTrace ==
  Done => PrintT(ToJson([scn |-> IF GenMode = "c04" THEN C04Rec ELSE C10Rec]))
=============================================================================
