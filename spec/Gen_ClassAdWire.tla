--------------------------- MODULE Gen_ClassAdWire ---------------------------
(***************************************************************************)
(* Prints every initial state of ClassAdWire (configuration x ad x type    *)
(* mode x cut plan) with what the specification allows for it: the set of  *)
(* outcomes per attribute (the decision table of C09) and whether the      *)
(* receivers succeed.  The replayer performs Put and Receive on the real   *)
(* code and compares.                                                      *)
(***************************************************************************)
EXTENDS ClassAdWire, Json

Row == [cfg |-> cfg, ad |-> ad, types |-> types, cut |-> cut,
        allowed |-> [i \in 1..Len(ad) |-> Outcomes(ad[i], cfg)],
        recvOK |-> (~Bit(cfg.opts, BNoTypes) \/ cfg.st # "enc")]

GenSpec == Init /\ [][FALSE]_vars

EmitTrace == PrintT(ToJson([scn |-> Row]))
=============================================================================
