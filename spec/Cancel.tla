------------------------------- MODULE Cancel -------------------------------
(***************************************************************************)
(* C19 - cancellation and deadlines always unblock stream operations.      *)
(*                                                                         *)
(* ONE call (a plain stream operation or a whole handshake) performs a     *)
(* script of n blocking I/O steps on one connection.  Every step is the    *)
(* code of stream.readWithContext / writeWithContext:                      *)
(*                                                                         *)
(*     EntryCheck   if ctx.Err() != nil { return ctx.Err() }               *)
(*                  fast path (ctx.Done() == nil): no watcher              *)
(*                  stop := context.AfterFunc(ctx, conn.Close)   (armed)   *)
(*     <blocked in conn.Read / conn.Write>                                 *)
(*     StepReturn   if !stop() { return ctx.Err() } ; return ioErr         *)
(*                                                                         *)
(* The peer stalls at step k (k = 0: never): the I/O of that step never    *)
(* completes on its own.  The context is of one of three kinds; a          *)
(* cancellable one may fire at ANY time (before the call, between two      *)
(* steps, while a step is in flight, during the stall, after the return).  *)
(* A fired watcher is a goroutine that has been started but has not run    *)
(* yet (stop() does not wait for it): WatcherRuns closes the connection    *)
(* asynchronously, possibly after the call has returned.  Closing the      *)
(* connection unblocks a blocked I/O (IOFailsClosed), also the stalled one.*)
(*                                                                         *)
(* INTENDED design, as the statement of C19 has it ("returns promptly with *)
(* an error ... once its context is cancelled ..., and the connection is   *)
(* then closed rather than left half-used"): a call that returns the       *)
(* context's error after at least one of its steps used the connection     *)
(* leaves the connection closed.  Where the statement is silent the spec   *)
(* is permissive:                                                          *)
(*   - cancelled before the call used the connection at all (done = 0):    *)
(*     the entry check may or may not close it;                            *)
(*   - the I/O completed but stop() lost the race: the step may report the *)
(*     context's error or behave as a clean completion.                    *)
(* Known-wrong designs are members of Bug (non-vacuity self-tests only).   *)
(***************************************************************************)
EXTENDS Integers, FiniteSets, TLC

CONSTANTS Ns,      \* script lengths explored, e.g. {1, 2, 3, 4}
          Kinds,   \* subset of {"cancel", "deadline", "derived", "background"}
          Bug      \* subset of BugNames

BugNames == {"EntryCheckLeavesOpen",   \* entry check returns ctx.Err() and leaves a half-used conn open
             "NoWatcherAtStep",        \* one step blocks without AfterFunc
             "ReturnNilWhenStopFails", \* `if !stop() { return nil }`
             "BackgroundInSubstep"}    \* one step uses context.Background() instead of the caller's ctx
StepBugs == {"NoWatcherAtStep", "BackgroundInSubstep"}

ASSUME Bug \subseteq BugNames
ASSUME Kinds \subseteq {"cancel", "deadline", "derived", "background"}

VARIABLES
  n,        \* number of I/O steps of the call
  k,        \* stalled step (0 = the peer never stalls)
  kind,     \* kind of the caller's context
  bugStep,  \* the step a StepBugs member applies to (0 = none)
  pc,       \* "idle" | "entry" | "blocked" | "iodone" | "returned"
  s,        \* current step (0 before the call)
  io,       \* outcome of the current step's I/O: "none" | "ok" | "fail"
  hasW,     \* the current step registered a watcher (AfterFunc)
  watcher,  \* "none" | "armed" | "fired" (goroutine started) | "ran" (it closed the conn)
  ctx,      \* "live" | "cancelled"
  conn,     \* "open" | "closed"
  done,     \* steps of this call whose I/O completed (= the conn is "used")
  ret       \* "none" | "nil" | "ctx" (the context's error) | "io" (some other I/O error)

cfgv == <<n, k, kind, bugStep>>
vars == <<n, k, kind, bugStep, pc, s, io, hasW, watcher, ctx, conn, done, ret>>

TypeOK ==
  /\ n \in Ns /\ k \in 0..n /\ kind \in Kinds /\ bugStep \in 0..n
  /\ pc \in {"idle", "entry", "blocked", "iodone", "returned"}
  /\ s \in 0..n
  /\ io \in {"none", "ok", "fail"}
  /\ hasW \in BOOLEAN
  /\ watcher \in {"none", "armed", "fired", "ran"}
  /\ ctx \in {"live", "cancelled"}
  /\ conn \in {"open", "closed"}
  /\ done \in 0..n
  /\ ret \in {"none", "nil", "ctx", "io"}

Init ==
  /\ n \in Ns
  /\ k \in 0..n
  /\ kind \in Kinds
  /\ bugStep \in (IF Bug \cap StepBugs # {} THEN 1..n ELSE {0})
  /\ pc = "idle" /\ s = 0 /\ io = "none" /\ hasW = FALSE /\ watcher = "none"
  /\ ctx = "live" /\ conn = "open" /\ done = 0 /\ ret = "none"

\* the context the current step actually looks at can never be cancelled
SeesBackground ==
  \/ kind = "background"
  \/ ("BackgroundInSubstep" \in Bug /\ s = bugStep)

NoWatcherHere == SeesBackground \/ ("NoWatcherAtStep" \in Bug /\ s = bugStep)

-----------------------------------------------------------------------------
Call ==
  /\ pc = "idle"
  /\ pc' = "entry" /\ s' = 1
  /\ UNCHANGED <<cfgv, io, hasW, watcher, ctx, conn, done, ret>>

(* if ctx.Err() != nil { return ctx.Err() } ; fast path ; AfterFunc *)
EntryCheck ==
  /\ pc = "entry"
  /\ IF ctx = "cancelled" /\ ~SeesBackground
     THEN /\ pc' = "returned" /\ ret' = "ctx"
          /\ IF done > 0
             THEN conn' = IF "EntryCheckLeavesOpen" \in Bug THEN conn ELSE "closed"
             ELSE conn' \in {conn, "closed"}        \* nothing used yet: statement silent
          /\ UNCHANGED <<cfgv, s, io, hasW, watcher, ctx, done>>
     ELSE /\ pc' = "blocked" /\ io' = "none"
          /\ hasW' = ~NoWatcherHere
          /\ watcher' = IF NoWatcherHere THEN watcher ELSE "armed"
          /\ UNCHANGED <<cfgv, s, ctx, conn, done, ret>>

(* the peer lets the I/O of a non-stalled step complete *)
PeerCompletes ==
  /\ pc = "blocked" /\ s # k /\ conn = "open"
  /\ pc' = "iodone" /\ io' = "ok"
  /\ UNCHANGED <<cfgv, s, hasW, watcher, ctx, conn, done, ret>>

(* Close unblocks a blocked Read / Write, the stalled one included *)
IOFailsClosed ==
  /\ pc = "blocked" /\ conn = "closed"
  /\ pc' = "iodone" /\ io' = "fail"
  /\ UNCHANGED <<cfgv, s, hasW, watcher, ctx, conn, done, ret>>

Fire ==
  /\ ctx = "live"
  /\ ctx' = "cancelled"
  /\ watcher' = IF watcher = "armed" THEN "fired" ELSE watcher
  /\ UNCHANGED <<cfgv, pc, s, io, hasW, conn, done, ret>>

Cancel        == kind = "cancel" /\ Fire
DeadlineFires == kind = "deadline" /\ Fire
\* kind "derived": the call was given a context DERIVED from the one that is cancelled
\* (context.WithCancel / WithValue of a parent): the parent's cancellation reaches it
ParentCancel  == kind = "derived" /\ Fire

(* the AfterFunc goroutine: conn.Close() *)
WatcherRuns ==
  /\ watcher = "fired"
  /\ watcher' = "ran" /\ conn' = "closed"
  /\ UNCHANGED <<cfgv, pc, s, io, hasW, ctx, done, ret>>

StopLost == hasW /\ watcher \in {"fired", "ran"}

ReturnWith(r) ==
  /\ pc' = "returned" /\ ret' = r
  /\ UNCHANGED <<s, done>>

\* the step is over from the caller's point of view; ok says whether its I/O really completed
Proceed(ok) ==
  /\ done' = IF ok THEN done + 1 ELSE done
  /\ IF s < n
     THEN pc' = "entry" /\ s' = s + 1 /\ ret' = ret
     ELSE pc' = "returned" /\ ret' = "nil" /\ s' = s

(* stop(); the rest of read/writeWithContext; the caller's `if err != nil { return err }` *)
StepReturn ==
  /\ pc = "iodone"
  /\ io' = "none" /\ hasW' = FALSE
  /\ UNCHANGED <<cfgv, ctx, conn>>
  /\ IF StopLost
     THEN /\ watcher' = watcher
          /\ IF "ReturnNilWhenStopFails" \in Bug
             THEN Proceed(io = "ok")
             ELSE \/ ReturnWith("ctx")
                  \/ io = "ok" /\ Proceed(TRUE)      \* who wins this race is not specified
     ELSE /\ watcher' = IF hasW THEN "none" ELSE watcher     \* stop() won: disarmed
          /\ IF io = "fail" THEN ReturnWith("io") ELSE Proceed(TRUE)

Next ==
  \/ Call \/ EntryCheck \/ PeerCompletes \/ IOFailsClosed
  \/ Cancel \/ DeadlineFires \/ ParentCancel \/ WatcherRuns \/ StepReturn

Spec == Init /\ [][Next]_vars

\* weak fairness of the code and of the (non-stalled) peer; NOT of Cancel / DeadlineFires
Fairness ==
  /\ WF_vars(Call) /\ WF_vars(EntryCheck) /\ WF_vars(PeerCompletes)
  /\ WF_vars(IOFailsClosed) /\ WF_vars(WatcherRuns) /\ WF_vars(StepReturn)

LiveSpec == Spec /\ Fairness

-----------------------------------------------------------------------------
(* safety *)

\* returned with the context's error => the connection is closed, or a started
\* watcher is about to close it, or (permissive) this call never used it
CancelledReturnClosesConn ==
  ret = "ctx" => (conn = "closed" \/ watcher = "fired" \/ done = 0)

\* the only failure cause in the model is cancellation
ErrorIsContexts ==
  ret \in {"ctx", "io"} => (ret = "ctx" /\ ctx = "cancelled")

SuccessMeansAllDone == ret = "nil" => done = n

\* a context that can never be cancelled adds no failure mode
BackgroundAddsNoFailure ==
  kind = "background" => (ret \in {"none", "nil"} /\ conn = "open" /\ watcher = "none")

\* nobody closes the connection while the context is live
LiveCtxKeepsConnOpen == ctx = "live" => (conn = "open" /\ ret \in {"none", "nil"})

(* liveness, under LiveSpec *)
Called == pc # "idle"
Returned == pc = "returned"

CancelledLeadsToReturned == (ctx = "cancelled" /\ Called) ~> Returned
EventuallyClosed == (ret = "ctx" /\ done > 0) ~> (conn = "closed")
NoStallReturns == (k = 0) ~> Returned
BackgroundReturns == (kind = "background" /\ k = 0) ~> (Returned /\ ret = "nil")
=============================================================================
