----------------------------- MODULE Gen_FSAuth -----------------------------
(***************************************************************************)
(* Behaviour generator for FSAuth: the same actions; `obsMade` remembers   *)
(* the projection at the observation point "result code on the wire" (the  *)
(* harness snapshots the filesystem when the client's result frame         *)
(* appears).  One JSON line per finished behaviour.                        *)
(* GenInit only restricts which initial states are expanded:               *)
(*   - the IPv6 connection is used for paths of at most two components,    *)
(*     3-component paths that contain an address-qualified leaf and longer *)
(*     paths that end in one (for all other classes the family is          *)
(*     irrelevant to Valid);                                               *)
(*   - network faults are injected only where something was created        *)
(*     (elsewhere they cannot change the projection).                      *)
(***************************************************************************)
EXTENDS FSAuth, Json

VARIABLES obsMade

gvars == <<vars, obsMade>>

AddrLeaves == LeafAddr \cup {"La4port", "La4ip", "Lhost"} \cup Spell
HasAddrLeaf(p) == \E i \in 1..Len(p) : p[i] \in AddrLeaves

GenInit ==
  /\ Init
  /\ obsMade = [created |-> {}, result |-> "unset"]
  /\ role = "client" =>
       /\ fam = 6 => \/ Len(path) <= 2
                      \/ (Len(path) = 3 /\ HasAddrLeaf(path))
                      \/ (Len(path) >= 4 /\ path[Len(path)] \in AddrLeaves)
       /\ fault # "none" => (Verdict(abs, path, huge, fam) # "reject")

GenNext ==
  /\ Next
  /\ obsMade' = IF phase' \in {"made"} THEN [created |-> created', result |-> result'] ELSE obsMade

GenSpec == GenInit /\ [][GenNext]_gvars

Done == phase = "done"

Rec ==
  IF role = "client"
  THEN [role |-> "client", abs |-> abs, path |-> path, huge |-> huge, fam |-> fam, fault |-> fault,
        remover |-> remover, verdict |-> verdict,
        valid |-> Valid(abs, path, fam) /\ ~huge,
        exp |-> Verdict(abs, path, huge, fam),
        madeCreated |-> obsMade.created, madeResult |-> obsMade.result,
        wireResult |-> result, doneCreated |-> created]
  ELSE [role |-> "server", obj |-> obj, cres |-> cres, exp |-> ServerExpect(obj, cres),
        owner |-> Owner(obj)]

\* the server's "either" case yields two behaviours with the same record: print one
EmitTrace == (Done /\ (verdict = "any" => ret # "nil") /\ (role = "server" => (ServerExpect(obj, cres) = "either" => sres = "accept")))
               => PrintT(ToJson([scn |-> Rec]))
=============================================================================
