\* non-vacuity: with Bug = {"NoCloseMismatch"} TLC must report OthersClosed violated
SPECIFICATION Spec
CONSTANTS
  NB = 1
  MaxRogue = 1
  RogueKinds = {"wrongId", "emptyId", "staleId", "otherId", "garbage", "close"}
  MaxMsgs = 2
  Mode = "standard"
  Bug = {"NoCloseMismatch"}
INVARIANTS OthersClosed
CHECK_DEADLOCK FALSE
