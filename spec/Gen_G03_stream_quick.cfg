\* G03 generator: sessions of 2 connections over a log of <= 2 changes, <= 5 events emitted
SPECIFICATION GenSpec
CONSTANTS
  Mode = "stream"
  AdTypes = {"", "plain", "quoted"}
  Constraints = {"", "expr", "exprQuoted"}
  ByteVals = {"nil", "empty", "b1", "bnul"}
  Kinds <- KindsAll
  Damages = {"dropKind", "kindNotInt", "badKey", "badCursor", "dropType", "typeNotString", "keyNotString", "cursorNotString", "constraintNotString"}
  Keys = {1, 2}
  MaxLog = 2
  MaxConns = 2
  MaxCuts = 2
  MaxEmit = 5
  Bug = {}
INVARIANT EmitTrace
CHECK_DEADLOCK FALSE
