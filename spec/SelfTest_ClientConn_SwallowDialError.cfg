\* non-vacuity: with Bug = {"SwallowDialError"} TLC must report SuccessMeansStream violated
SPECIFICATION SpecC
CONSTANTS
  Hows = {"new", "ca"}
  Routes = {"direct", "shared", "ccb"}
  Secs = {"none", "sec"}
  EnvsNew = {"absent", "dialstall", "stall"}
  EnvsCA = {"absent", "dialstall", "close", "stall", "serve", "reject"}
  Ctxs = {"live", "pre", "during"}
  MaxCalls = 3
  MaxSock = 2
  MaxConn = 0
  Kinds = {}
  Bug = {"SwallowDialError"}
INVARIANTS SuccessMeansStream
CHECK_DEADLOCK FALSE
