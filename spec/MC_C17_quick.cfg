\* C17 quick: 3 goroutines (map writer x<=2 ops / entry user x<=2 ops / maintenance x1 op) over 2 ids,
\* every interleaving of critical-section steps
SPECIFICATION Spec
CONSTANTS
  Gor = {"g1", "g2", "g3"}
  Nobody = Nobody
  Ids = {"i1", "i2"}
  MaxOps = 2
  MaxOpsOf <- LimitsQuick
  MaxVer = 1
  OpsOf <- RolesQuick
  InitKinds = {"live", "dead"}
  StoreExp = {"live"}
  Bug = {}
INVARIANTS TypeOK LocksetDiscipline AccessRelationRespected NoTornExpiry NoLostInvalidate RefinesSeq Linearizable HandshakeUndisturbed
CHECK_DEADLOCK FALSE
