\* non-vacuity: with Bug = {"KADefaultOff"} TLC must report TablesOK violated
SPECIFICATION SpecT
CONSTANTS
  Hows = {"new"}
  Routes = {"direct"}
  Secs = {"none"}
  EnvsNew = {}
  EnvsCA = {}
  Ctxs = {}
  MaxCalls = 0
  MaxSock = 0
  MaxConn = 0
  Kinds = {}
  Bug = {"KADefaultOff"}
INVARIANTS TablesOK
CHECK_DEADLOCK FALSE
