\* G06 generator: one daemon connection, every one of the 126 scripts, one Accept, one Close, every order, both origins
SPECIFICATION GenSpec
CONSTANTS
  Mode = "listener"
  Origins = {"listen", "adopt"}
  MaxD = 1
  MaxAcc = 1
  MaxClose = 1
  Scripts <- AllScripts
  Shapes <- NoShapes
  ErrClasses = {}
  MaxEnv = 3
  Bug = {}
INVARIANT EmitTrace
CHECK_DEADLOCK FALSE
