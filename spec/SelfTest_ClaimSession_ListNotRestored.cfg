\* self-test: with Bug = {ListNotRestored} TLC must report an invariant violated
SPECIFICATION Spec
CONSTANTS
  Tier = "quick"
  SecretRels = {"same", "diff"}
  Bug = {"ListNotRestored"}
INVARIANTS TypeOK SameSession ResumesBothWays ResumesByCommand WrongSecretFails PublicFormHidesSecret PolicyRoundTrips
CHECK_DEADLOCK FALSE
