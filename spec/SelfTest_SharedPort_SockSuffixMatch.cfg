\* non-vacuity: with Bug = {"SockSuffixMatch"} TLC must report SockIsParam violated
SPECIFICATION Spec
CONSTANTS
  Mode = "route"
  Origins = {"listen"}
  MaxD = 1
  MaxAcc = 1
  MaxClose = 1
  Scripts <- QuickScripts
  Shapes <- RouteShapesQuick
  ErrClasses = {}
  Bug = {"SockSuffixMatch"}
INVARIANTS SockIsParam
CHECK_DEADLOCK FALSE
