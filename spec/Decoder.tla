------------------------------ MODULE Decoder ------------------------------
(***************************************************************************)
(* C13 -- decoding is total and bounded.                                   *)
(*                                                                         *)
(* A DEFENSIVE decoder for every place where cedar turns peer bytes into   *)
(* values, as a resource-accounting state machine.  A scenario `scn` (an   *)
(* entry point, an encryption mode and a short sequence of wire items      *)
(* whose fields range over hostile CLASSES) is chosen in Init; afterwards  *)
(* the decoder consumes one wire item per action and accounts for          *)
(*     consumed  units taken from the connection ("bytes received"),       *)
(*     alloc     units of memory allocated,                                *)
(*     steps     loop iterations,                                          *)
(*     depth     stack depth (recursion),                                  *)
(* and ends in  value | error  (never panic).  The property is the         *)
(* invariant  NoPanic /\ Bounded /\ CapHonoured.                           *)
(*                                                                         *)
(* Four engines, structured like the code:                                 *)
(*   frame  stream.ReceiveFrame / ReceiveFrameWithEnd /                    *)
(*          ReceiveCompleteMessage / StartMessageRead(readNextFrame),      *)
(*          GetSecret, shared-port readPassSockHeader                      *)
(*   prog   message.Message readers as PROGRAMS of read operations:        *)
(*          Get* typed values, GetClassAd*, SkipClassAdRaw and every       *)
(*          handshake message reader of security/*.go on both roles        *)
(*   blob   stream.NewStreamWithCryptoState                                *)
(*   text   claim-id / session-info / sinful / version / watch parsers     *)
(*                                                                         *)
(* Magnitudes are abstract units: the classes are what matters.  The Go    *)
(* replayer maps a class to the real number (cap = the real cap of the     *)
(* reader, i32max = 2^31-1, two62 = 2^62, minInt = -2^63, frame max =      *)
(* 1 MiB, ...) and runs the REAL decoder under recover / time limit /      *)
(* counting reader / allocation delta.                                     *)
(*                                                                         *)
(* Where the statement of C13 is silent the model is permissive: `strict`  *)
(* is TRUE only for an error the statement obliges ("malformed input       *)
(* yields an error", "fails once the cap is exceeded"); every other        *)
(* outcome is reported as may-succeed and the replayer accepts error or    *)
(* value.  Known wrong designs are members of Bug (non-vacuity tests).     *)
(***************************************************************************)
EXTENDS Integers, Sequences, FiniteSets, TLC

CONSTANTS
  Bug,       \* subset of BugNames; {} = the intended design
  Families,  \* which entry-point families Init ranges over
  Modes,     \* subset of {"plain","enc"}
  ExprMax,   \* expression units per ClassAd (1..2)
  TokLen     \* max tokens per text input (1..4)

BugNames == {"NegLenPanic", "PeerSizedAlloc", "CountSpin", "CountAlloc", "Recursion",
             "CapIgnored", "SecretBypassesCap", "SecretNotCharged", "LoneQuotePanic",
             "FrameLenUnchecked"}

ASSUME Bug \subseteq BugNames

-----------------------------------------------------------------------------
(* abstract magnitudes                                                     *)
IntU      == 8        \* an integer on the wire
CapU      == 64       \* "the cap" of a capped reader
SupU      == 4        \* what a peer really supplies behind a hostile length
SmallU    == 6        \* a minimal expression "A = 1" with its terminator
BigU      == 64 * CapU
FrameU    == 16       \* payload of an ordinary frame (slack of capped readers)
FrameMaxU == 8192     \* the maximum frame payload (1 MiB in the code)
HdrU      == 1        \* a frame header
RunN      == 40       \* a long run of partial frames
Huge      == 1000000  \* 2^31-1
Huger     == 2000000  \* 2^62, and -Huger = -2^63

(* the bounds of the property, in units                                    *)
AllocA == 4    AllocB == 4 * FrameMaxU
StepC  == 4    StepD  == 64
DepthMax == 4
CapSlack == FrameU + IntU

Min(a, b) == IF a < b THEN a ELSE b
Max(a, b) == IF a > b THEN a ELSE b

NumCls == {"minInt", "neg1", "zero", "one", "capM1", "cap", "capP1", "i32max", "two62"}
NumVal(c, cap) ==
  CASE c = "minInt" -> -Huger  [] c = "neg1" -> -1  [] c = "zero" -> 0  [] c = "one" -> 1
    [] c = "capM1" -> cap - 1  [] c = "cap" -> cap  [] c = "capP1" -> cap + 1
    [] c = "i32max" -> Huge    [] c = "two62" -> Huger
    [] c = "ok" -> cap
    [] OTHER -> 0

SizeVal(n) ==
  CASE n = "zero" -> 0 [] n = "one" -> 1 [] n = "small" -> SmallU
    [] n = "capM1" -> CapU - 1 [] n = "cap" -> CapU [] n = "capP1" -> CapU + 1
    [] n = "big" -> BigU [] n = "max" -> FrameMaxU [] n = "maxP1" -> FrameMaxU + 1
    [] n = "some" -> SupU [] n = "none" -> 0 [] n = "half" -> CapU \div 2 + 1
    [] n = "p60" -> (3 * CapU) \div 5      \* fits the cap alone, two of them do not
    [] OTHER -> 0

-----------------------------------------------------------------------------
(* wire items: one uniform record shape                                    *)
(*   k  kind        c  class / content     n  size class                   *)
(*   t  terminator / body / aux            p  length prefix class (enc)    *)
It(k, c, n, t, p) == [k |-> k, c |-> c, n |-> n, t |-> t, p |-> p]

-----------------------------------------------------------------------------
(* FRAME engine grammar                                                    *)
FrameEPs == {"ReceiveFrame", "ReceiveFrameWithEnd", "ReceiveCompleteMessage",
             "StartMessageRead", "GetSecret"}
MultiFrame(ep) == ep \in {"ReceiveCompleteMessage", "StartMessageRead"}

EndCls  == {"e0", "e1", "e2", "e11", "e255"}
FLenCls == {"zero", "one", "small", "max", "maxP1"}
BodyCls == {"full", "short", "none", "hdrcut"}
\* c = end flag, n = length class, t = body class, p = "sealed" | "garbage" | "-"
HostileFrames(mode) ==
  {It("frame", e, n, b, a) : e \in EndCls, n \in FLenCls, b \in BodyCls,
                             a \in IF mode = "enc" THEN {"sealed", "garbage"} ELSE {"-"}}
BenignPartial(mode) ==
  {It("frame", "e0", n, "full", IF mode = "enc" THEN "sealed" ELSE "-") : n \in {"zero", "one"}}
RunItems(mode) ==
  {It("run", e, "long", "full", IF mode = "enc" THEN "sealed" ELSE "-") : e \in {"e1", "eof"}}

FrameInputs(mode) ==
  LET last == HostileFrames(mode) \cup RunItems(mode) IN
  {<<l>> : l \in last} \cup {<<b, l>> : b \in BenignPartial(mode), l \in last}

\* shared-port header: c = command class, n = length class, t = body class
PassLen == {"zero", "one", "eight", "c64", "c65", "max", "u32max"}
PassInputs == {<<It("pass", c, n, b, "-")>> : c \in {"pass", "other"}, n \in PassLen,
                                                b \in {"full", "short", "none", "hdrcut"}}
PassLenVal(n) == CASE n = "zero" -> 0 [] n = "one" -> 1 [] n = "eight" -> IntU
                   [] n = "c64" -> 64 [] n = "c65" -> 65 [] n = "max" -> FrameMaxU * 64
                   [] OTHER -> Huge

-----------------------------------------------------------------------------
(* PROG engine: entry points as programs of read operations                *)
Op(o, role, cap) == [o |-> o, role |-> role, cap |-> cap]
I(role)  == Op("int", role, "-")       \* role: any | flag | cmd | count | len | arg
S(cap)   == Op("str", "-", cap)        \* cap: none | cap | budget
B(lim)   == Op("bytes", "-", lim)      \* length = last int read; lim: none | lim
X(cap)   == Op("exprs", "-", cap)      \* `count` expression strings (+ secrets)
Rest     == Op("rest", "-", "-")
EomChk   == Op("eomchk", "-", "-")

TypedEPs == {"GetChar", "GetInt", "GetInt32", "GetInt64", "GetUint32", "GetFloat", "GetDouble",
             "GetString", "GetStringMax", "GetBytes", "GetRemaining"}
AdEPs    == {"GetClassAd", "GetClassAdMax", "GetClassAdRaw", "SkipClassAdRaw"}
HsEPs    == {"SrvFirst", "CliServerAd", "SrvBitmask", "CliBitmaskReply", "SrvClaimToBe",
             "CliClaimToBeAck", "CliExchangeKey", "SrvSSLStatus", "CliSSLStatus",
             "SrvSSLRecord", "CliSSLRecord", "SrvTokenStep1", "CliTokenStep2"}

Prog(ep) ==
  CASE ep = "GetChar"      -> <<I("char")>>
    [] ep \in {"GetInt", "GetInt32", "GetInt64", "GetUint32"} -> <<I("any")>>
    [] ep \in {"GetFloat", "GetDouble"} -> <<I("any"), I("any")>>
    [] ep = "GetString"    -> <<S("none")>>
    [] ep = "GetStringMax" -> <<S("cap")>>
    [] ep = "GetBytes"     -> <<I("arg"), B("none")>>
    [] ep = "GetRemaining" -> <<Rest>>
    [] ep = "GetClassAd"     -> <<I("count"), X("none"), S("none"), S("none")>>
    [] ep = "GetClassAdMax"  -> <<I("count"), X("budget"), S("budget"), S("budget")>>
    [] ep = "GetClassAdRaw"  -> <<I("count"), X("none"), S("none"), S("none")>>
    [] ep = "SkipClassAdRaw" -> <<I("count"), X("none"), S("none"), S("none")>>
    \* security/auth.go ServerHandshake: command, then the bounded client ad
    [] ep = "SrvFirst"       -> <<I("cmd"), I("count"), X("budget"), S("budget"), S("budget")>>
    \* performFullAuthentication: the bounded server ad
    [] ep = "CliServerAd"    -> <<I("count"), X("budget"), S("budget"), S("budget")>>
    [] ep \in {"SrvBitmask", "CliBitmaskReply", "SrvSSLStatus", "CliSSLStatus"} -> <<I("any")>>
    [] ep = "SrvClaimToBe"   -> <<I("flag"), S("cap"), EomChk>>
    [] ep = "CliClaimToBeAck"-> <<I("flag"), EomChk>>
    \* exchangeKey (client): hasKey, keyLength, protocol, duration, inputLen, bytes
    [] ep = "CliExchangeKey" -> <<I("flag"), I("any"), I("any"), I("any"), I("len"), B("none")>>
    \* ssl_auth.go receiveMessage: status, length, bytes
    [] ep \in {"SrvSSLRecord", "CliSSLRecord"} -> <<I("any"), I("len"), B("none")>>
    \* token_auth.go receiveServerTokenStep1: status, idlen, id, token, ralen, ra
    [] ep = "SrvTokenStep1"  -> <<I("flag"), I("len"), S("cap"), S("cap"), I("len"), B("lim"), EomChk>>
    \* receiveTokenStep2: status, idlen, id, idlen, id, ralen, ra, (rblen, rb, maclen, mac)
    [] ep = "CliTokenStep2"  -> <<I("flag"), I("len"), S("cap"), I("len"), S("cap"), I("len"), B("lim")>>
    [] OTHER -> <<>>

PfxCls == {"match", "minInt", "neg1", "zero", "short", "over", "i32max", "two62"}

IntItems(role) ==
  CASE role = "any"  -> {It("int", "any", "-", "-", "-")}
    [] role = "char" -> {It("int", "char", "-", "-", "-")}
    [] role = "flag" -> {It("int", c, "-", "-", "-") : c \in {"zero", "one", "neg1"}}
    [] role = "cmd"  -> {It("int", c, "-", "-", "-") : c \in {"auth", "other"}}
    [] OTHER         -> {It("int", c, "-", "-", "-") : c \in NumCls}

\* c = content, n = body size, t = "T"/"F" terminated, p = enc length prefix class
StrItems(cap, mode, content) ==
  LET sizes == IF cap = "none" THEN {"zero", "one", "small", "big"}
               ELSE {"zero", "one", "capM1", "cap", "capP1", "big"} IN
  IF mode = "plain"
  THEN {It("str", content, n, t, "-") : n \in sizes, t \in {"T", "F"}}
  ELSE {It("str", content, n, "T", p) : n \in sizes \ {"one", "capM1"}, p \in PfxCls}

BytesItems == {It("bytes", "x", n, "-", "-") : n \in {"none", "some", "exact"}}

\* expression units of a ClassAd: a string, or the secret marker + a secret string
ExprUnits(cap, mode, full) ==
  LET big == IF mode = "plain" THEN It("str", "ok", "big", "F", "-") ELSE It("str", "ok", "big", "T", "over")
      pfx == IF mode = "plain" THEN "-" ELSE "match"
      sec(n, t) == <<It("str", "marker", "small", "T", pfx), It("str", "ok", n, t, pfx)>>
      core == {<<It("str", "ok", "half", "T", pfx)>>, sec("big", IF mode = "plain" THEN "F" ELSE "T"), <<big>>}
      more == {<<It("str", "ok", "small", "T", pfx)>>, <<It("str", "noeq", "small", "T", pfx)>>, <<It("str", "empty", "zero", "T", pfx)>>,
               <<It("str", "ok", "big", "T", pfx)>>, sec("small", "T"),
               <<It("str", "marker", "small", "T", pfx)>>,
               \* two expressions that fit the budget one by one but not together
               <<It("str", "ok", "half", "T", pfx), It("str", "ok", "half", "T", pfx)>>}
               \cup IF mode = "enc" THEN {<<It("str", "ok", "small", "T", "neg1")>>,
                                          <<It("str", "ok", "small", "T", "i32max")>>} ELSE {}
  IN IF full THEN core \cup more ELSE core

TypeSeqs(mode) ==
  LET pfx == IF mode = "plain" THEN "-" ELSE "match"
      ty(c) == It("str", c, "small", "T", pfx) IN
  {<<>>, <<ty("type"), ty("type")>>, <<ty("badtype"), ty("type")>>}

(* Budget ACCUMULATION: expressions and marker+secret pairs of about 0.6 x cap.  *)
(* Each fits the remaining budget when it is read alone; from the second one   *)
(* on the cumulative size exceeds the cap, so a bounded reader must stop and    *)
(* fail there.  Sequences of 2..AccumMax units, and a "rep" item standing for   *)
(* RepN repetitions of one unit (k = "rep", c = "sec" | "ord").  The count is   *)
(* the true number of units ("units") or huge.                                  *)
AccumMax == 4
RepN == 16
AccumUnits(mode) ==
  LET pfx == IF mode = "plain" THEN "-" ELSE "match" IN
  {<<It("str", "marker", "small", "T", pfx), It("str", "ok", "p60", "T", pfx)>>,
   <<It("str", "ok", "p60", "T", pfx)>>}
RECURSIVE AccumSeqs(_, _)
AccumSeqs(mode, k) == IF k = 0 THEN {<<>>}
                      ELSE {s \o u : s \in AccumSeqs(mode, k - 1), u \in AccumUnits(mode)}
AccumBodies(mode) ==
  LET pfx == IF mode = "plain" THEN "-" ELSE "match"
      ty == It("str", "type", "small", "T", pfx)
      reps == {<<It("rep", c, "p60", "r16", pfx)>> : c \in {"sec", "ord"}}
      seqs == UNION {AccumSeqs(mode, k) : k \in 2..AccumMax} \cup reps
                \cup {u \o r : u \in AccumUnits(mode), r \in reps}
  IN {<<It("int", cnt, "-", "-", "-")>> \o e \o t :
        cnt \in {"units", "i32max"}, e \in seqs, t \in {<<>>, <<ty, ty>>}}

RECURSIVE SumUnits(_, _)
SumUnits(items, i) ==   \* expression units among the first i items
  IF i = 0 THEN 0
  ELSE SumUnits(items, i - 1) +
       (IF items[i].k = "rep" THEN RepN
        ELSE IF items[i].k = "str" /\ items[i].c \notin {"marker", "type", "badtype"} THEN 1 ELSE 0)

AdBodies(cap, mode) ==
  LET u1 == ExprUnits(cap, mode, TRUE)
      u2 == ExprUnits(cap, mode, FALSE)
      exprs == {<<>>} \cup u1 \cup (IF ExprMax >= 2 THEN {a \o b : a \in u1, b \in u2} ELSE {})
  IN {<<cnt>> \o e \o ty : cnt \in IntItems("count"), e \in exprs, ty \in TypeSeqs(mode)}

\* hostile inputs of a program: items line up with the operations; the input may
\* stop early (premature end of message), the last item may be cut in the middle
ItemsForOp(op, mode) ==
  CASE op.o = "int"   -> IntItems(op.role)
    [] op.o = "str"   -> StrItems(op.cap, mode, "x")
    [] op.o = "bytes" -> BytesItems
    [] op.o = "rest"  -> {It("bytes", "x", n, "-", "-") : n \in {"none", "some", "big"}}
    [] OTHER          -> {}

\* a benign item for an operation: c = "ok" lets the replayer fill in the value
\* that keeps the message well-formed (a matching length, the "go on" status)
Ben(op, mode) ==
  CASE op.o = "int" -> It("int", "ok", "-", "-", "-")
    [] op.o = "str" -> It("str", "x", "small", "T", IF mode = "plain" THEN "-" ELSE "match")
    [] OTHER        -> It("bytes", "x", "exact", "-", "-")

\* item sequences for the first k operations: the last two positions range over
\* the hostile classes, everything before them is benign (the decoder stops at
\* the first item it refuses, so hostile-then-anything adds nothing)
Lined(prog, mode, k) ==
  IF k = 0 THEN {<<>>}
  ELSE IF k = 1 THEN {<<i>> : i \in ItemsForOp(prog[1], mode)}
  ELSE LET pre == [j \in 1..(k - 2) |-> Ben(prog[j], mode)] IN
       {pre \o <<a, b>> : a \in ItemsForOp(prog[k - 1], mode), b \in ItemsForOp(prog[k], mode)}

ProgInputs(ep, mode) ==
  LET prog == Prog(ep)
      isAd == \E j \in 1..Len(prog) : prog[j].o = "exprs"
      nOps == Cardinality({j \in 1..Len(prog) : prog[j].o \in {"int", "str", "bytes", "rest"}})
  IN IF isAd
     THEN LET capk == (CHOOSE j \in 1..Len(prog) : prog[j].o = "exprs")
              bodies == AdBodies(prog[capk].cap, mode)
                          \cup (IF prog[capk].cap = "budget" THEN AccumBodies(mode) ELSE {}) IN
          IF prog[1].role = "cmd"
          THEN {<<c>> \o b : c \in IntItems("cmd"), b \in bodies} \cup {<<>>}
          ELSE bodies \cup {<<>>}
     ELSE UNION {Lined(prog, mode, k) : k \in 0..nOps}

-----------------------------------------------------------------------------
(* BLOB engine: NewStreamWithCryptoState                                   *)
\* fixed part: c in ok | badmagic | badver | short; three trailing fields with a
\* declared length class (n) and what is really there (t)
BlobFix == {"ok", "badmagic", "badver", "short", "empty"}
BlobVar == {It("var", "x", n, t, "-") : n \in {"zero", "d32", "u16max"}, t \in {"exact", "short"}}
BlobInputs ==
  {<<It("fix", c, "-", "-", "-")>> : c \in BlobFix} \cup
  {<<It("fix", "ok", "-", "-", "-"), a>> : a \in BlobVar} \cup
  {<<It("fix", "ok", "-", "-", "-"), a, b>> : a \in BlobVar, b \in BlobVar} \cup
  {<<It("fix", "ok", "-", "-", "-"), a, b, c>> : a \in BlobVar, b \in BlobVar, c \in BlobVar}
BlobVarVal(n) == CASE n = "zero" -> 0 [] n = "d32" -> 32 [] OTHER -> 65535

-----------------------------------------------------------------------------
(* TEXT engine: token classes per parser                                   *)
TextEPs == {"ParseClaimIDStrict", "ParseClaimID", "ParseCondorPrivateInherit",
            "ImportSecSessionInfo", "ImportSessionInfoAttributes",
            "ParseSinful", "ParseHTCondorAddress", "SplitCCBContact", "VersionParse"}
WatchEPs == {"WatchDecodeRequest", "WatchDecodeHeader"}

Alphabet(ep) ==
  CASE ep \in {"ParseClaimIDStrict", "ParseClaimID", "ParseCondorPrivateInherit"} ->
         {"hash", "lbr", "rbr", "word", "quote", "sp", "keytag", "long"}
    [] ep \in {"ImportSecSessionInfo", "ImportSessionInfoAttributes"} ->
         {"lbr", "rbr", "attr", "quote", "eq", "semi", "word", "long"}
    [] ep \in {"ParseSinful", "ParseHTCondorAddress", "SplitCCBContact"} ->
         {"angle", "hostport", "qm", "amp", "param", "hash", "pct", "pctbad", "sp", "long"}
    [] ep = "VersionParse" -> {"vtag", "num", "dot", "hugenum", "sp", "word", "long"}
    [] OTHER -> {}

RECURSIVE TokSeqs(_, _)
TokSeqs(al, k) == IF k = 0 THEN {<<>>}
                  ELSE {s \o <<It("tok", a, "-", "-", "-")>> : s \in TokSeqs(al, k - 1), a \in al}
TextInputs(ep) == UNION {TokSeqs(Alphabet(ep), k) : k \in 0..TokLen}

\* watch: attribute value classes of the request / header ad
WatchVal == {"absent", "str", "b64", "b64bad", "int", "hugeint", "long"}
WatchInputs == {<<It("attr", a, "-", "-", "-"), It("attr", b, "-", "-", "-"), It("attr", c, "-", "-", "-")>> :
                  a \in WatchVal, b \in WatchVal, c \in WatchVal}

-----------------------------------------------------------------------------
Scn(fam, ep, mode, items, fin, cut) ==
  [fam |-> fam, ep |-> ep, mode |-> mode, items |-> items, fin |-> fin, cut |-> cut]

\* the last item can only be cut if there is one; cut + eof is covered by eom + cut
ProgOK(s) == (s.cut => Len(s.items) > 0 /\ s.fin = "eom")
             /\ (s.ep = "GetBytes" => Len(s.items) > 0)   \* the length is an API argument
             /\ \A i \in 1..Len(s.items) :   \* an unterminated string runs to the end of input
                  (s.items[i].k = "str" /\ s.items[i].t = "F") => i = Len(s.items)

\* IsScenario(x): x is one of the scenarios of the configured families.  Written as
\* nested quantifiers (not as one big set) so that TLC enumerates it cheaply.
ProgScenario(x, fam, eps, modes) ==
  \E ep \in eps, m \in modes :
    \E inp \in ProgInputs(ep, m), fin \in {"eom", "eof"}, cut \in BOOLEAN :
      /\ ProgOK(Scn(fam, ep, m, inp, fin, cut))
      /\ x = Scn(fam, ep, m, inp, fin, cut)

IsScenario(x) ==
  \/ /\ "frame" \in Families
     /\ \E ep \in FrameEPs, m \in Modes : \E inp \in FrameInputs(m) :
          x = Scn("frame", ep, m, inp, "eof", FALSE)
  \/ /\ "pass" \in Families
     /\ \E inp \in PassInputs : x = Scn("pass", "PassSockHeader", "plain", inp, "eof", FALSE)
  \/ "typed" \in Families /\ ProgScenario(x, "typed", TypedEPs, Modes)
  \/ "ad" \in Families /\ ProgScenario(x, "ad", AdEPs, Modes)
  \/ "hs" \in Families /\ ProgScenario(x, "hs", HsEPs, {"plain"})
  \/ /\ "blob" \in Families
     /\ \E inp \in BlobInputs, fin \in {"exact", "extra"} :
          x = Scn("blob", "NewStreamWithCryptoState", "plain", inp, fin, FALSE)
  \/ /\ "text" \in Families
     /\ \E ep \in TextEPs : \E inp \in TextInputs(ep) : x = Scn("text", ep, "plain", inp, "-", FALSE)
  \/ /\ "watch" \in Families
     /\ \E ep \in WatchEPs, inp \in WatchInputs : x = Scn("watch", ep, "plain", inp, "-", FALSE)

-----------------------------------------------------------------------------
VARIABLES
  scn,       \* the scenario (constant along a behaviour)
  pc,        \* PROG: index of the next read operation
  ii,        \* index of the next wire item
  lastv,     \* PROG: last integer read (a length or count)
  left,      \* PROG: expressions still to read
  budget,    \* PROG: remaining byte budget of a bounded ClassAd
  consumed, alloc, steps, depth,
  status,    \* "run" | "value" | "error" | "panic"
  strict,    \* the error is one the statement of C13 obliges
  capx       \* a cap was exceeded by the input (the decoder must stop and fail)

vars == <<scn, pc, ii, lastv, left, budget, consumed, alloc, steps, depth, status, strict, capx>>

Init ==
  /\ IsScenario(scn)
  /\ pc = 1 /\ ii = 1 /\ lastv = 0 /\ left = 0 /\ budget = CapU
  /\ consumed = 0 /\ alloc = 0 /\ steps = 0 /\ depth = 1
  /\ status = "run" /\ strict = FALSE /\ capx = FALSE

Use(dc, da, ds) == /\ consumed' = consumed + dc /\ alloc' = alloc + da /\ steps' = steps + ds
End(st, str) == status' = st /\ strict' = str
Keep(v) == UNCHANGED v

HasItem == ii <= Len(scn.items)
Item == scn.items[ii]
IsLast == ii = Len(scn.items)

-----------------------------------------------------------------------------
(* FRAME engine                                                            *)
Tag == 2   \* AES-GCM tag, in units;  IV == 2 on the first protected frame
FrameStep ==
  /\ scn.fam = "frame" /\ status = "run"
  /\ UNCHANGED <<scn, pc, lastv, left, budget, capx>>
  /\ IF ~HasItem
     THEN \* the connection ended between frames: nothing / only partial frames arrived
          /\ Use(0, 0, 1) /\ End("error", TRUE) /\ Keep(<<ii, depth>>)
     ELSE LET f == Item
              len == SizeVal(f.n)
              enc == scn.mode = "enc"
              ovh == IF enc THEN (IF ii = 1 THEN 2 * Tag ELSE Tag) ELSE 0 IN
          IF f.k = "run"
          THEN \* a long run of empty partial frames, then a final frame or EOF
               /\ ii' = ii + 1
               /\ depth' = IF "Recursion" \in Bug /\ scn.ep = "StartMessageRead" THEN depth + RunN ELSE depth
               /\ Use(RunN * (HdrU + ovh), RunN * ovh, RunN)
               /\ IF ~MultiFrame(scn.ep) THEN End("value", FALSE)
                  ELSE IF f.c = "e1" THEN End("value", FALSE) ELSE End("error", TRUE)
          ELSE
          /\ ii' = ii + 1
          /\ depth' = IF "Recursion" \in Bug /\ scn.ep = "StartMessageRead" /\ f.c = "e0" THEN depth + 1 ELSE depth
          /\ CASE f.t = "hdrcut" -> Use(HdrU, HdrU, 1) /\ End("error", TRUE)
               [] f.t # "hdrcut" /\ f.n = "maxP1" ->
                    IF "FrameLenUnchecked" \in Bug
                    THEN Use(HdrU + (IF f.t = "full" THEN len ELSE 0), Huge, 1) /\ End("error", FALSE)
                    ELSE Use(HdrU, HdrU, 1) /\ End("error", TRUE)
               [] f.t # "hdrcut" /\ f.n # "maxP1" /\ f.c \in {"e11", "e255"} ->
                    \* an end flag outside HTCondor's range: rejecting it is allowed, not obliged
                    Use(HdrU, HdrU, 1) /\ End("error", FALSE)
               [] f.t \in {"short", "none"} /\ f.n \notin {"maxP1", "zero"} /\ f.c \notin {"e11", "e255"} ->
                    \* the body never arrives: the buffer (<= frame max) may be allocated up front
                    Use(HdrU + (IF f.t = "short" THEN len \div 2 ELSE 0), HdrU + len, 1) /\ End("error", TRUE)
               [] OTHER ->
                    \* a complete frame
                    \* enc: "sealed" = an authentic protected frame whose PAYLOAD has the
                    \* length class; "garbage" = a wire body of that length that no key sealed
                    IF enc /\ f.p = "garbage" /\ len > 0
                    THEN Use(HdrU + len, HdrU + 2 * len, 1) /\ End("error", TRUE)   \* cannot be authentic
                    ELSE IF enc /\ f.p = "garbage"
                    THEN Use(HdrU, HdrU, 1) /\ End("error", FALSE)                 \* empty frame: C02's business
                    ELSE /\ Use(HdrU + len + ovh, HdrU + 3 * (len + ovh), 1)
                         /\ IF ~MultiFrame(scn.ep) \/ f.c # "e0"
                            THEN End("value", FALSE)     \* e2..e10: accepted or refused, both fine
                            ELSE Keep(<<status, strict>>)

PassStep ==
  /\ scn.fam = "pass" /\ status = "run" /\ HasItem
  /\ UNCHANGED <<scn, pc, lastv, left, budget, capx, depth>>
  /\ ii' = ii + 1
  /\ LET f == Item   len == PassLenVal(f.n) IN
     CASE f.t = "hdrcut" -> Use(HdrU, 0, 1) /\ End("error", TRUE)
       [] f.t # "hdrcut" /\ (len = 0 \/ len > 64) ->
            IF "FrameLenUnchecked" \in Bug THEN Use(HdrU, len, 1) /\ End("error", FALSE)
            ELSE Use(HdrU, 0, 1) /\ End("error", TRUE)
       [] f.t \in {"short", "none"} /\ len > 0 /\ len <= 64 -> Use(HdrU, len, 1) /\ End("error", TRUE)
       [] OTHER -> /\ Use(HdrU + len, len, 1)
                   /\ IF len = IntU /\ f.c = "pass" THEN End("value", FALSE) ELSE End("error", TRUE)

-----------------------------------------------------------------------------
(* PROG engine                                                             *)
CurOp == Prog(scn.ep)[pc]
ProgDone == pc > Len(Prog(scn.ep))
Enc == scn.mode = "enc"
CutHere == scn.cut /\ IsLast

\* reading one string item under a cap kind; cap value in units (or -1 = uncapped)
\* "budgetfree": capped by the remaining budget but not charged to it (Bug SecretNotCharged)
CapOf(kind) == CASE kind = "cap" -> CapU [] kind \in {"budget", "budgetfree"} -> budget [] OTHER -> -1

StrRead(it, kind, advance) ==
  LET body == SizeVal(it.n)
      total == body + (IF it.t = "T" THEN 1 ELSE 0)
      cap == CapOf(kind)
      capped == cap >= 0
      ignore == "CapIgnored" \in Bug
      declared == CASE it.p = "match" -> total [] it.p = "minInt" -> -Huger [] it.p = "neg1" -> -1
                    [] it.p = "zero" -> 0 [] it.p = "short" -> Max(total - 1, 0)
                    [] it.p = "over" -> total + 1 [] it.p = "i32max" -> Huge [] OTHER -> Huger
      supplied == IF CutHere THEN total \div 2 ELSE total
  IN
  IF ~Enc
  THEN \* NUL-terminated string
       IF capped /\ cap <= 0
       THEN Use(0, 0, 1) /\ End("error", TRUE) /\ capx' = TRUE /\ Keep(<<budget, pc, ii>>)
       ELSE IF capped /\ (supplied > cap \/ (supplied = cap /\ (it.t = "F" \/ CutHere))) /\ ~ignore
       THEN \* cap exceeded: stop consuming, fail
            /\ Use(Min(supplied, cap + CapSlack), 2 * cap, cap) /\ End("error", TRUE)
            /\ capx' = TRUE /\ Keep(<<budget, pc, ii>>)
       ELSE IF it.t = "F" \/ CutHere
       THEN \* no terminator before the input ends
            /\ Use(supplied, 2 * supplied, supplied)
            /\ capx' = (capped /\ supplied > cap)
            /\ IF scn.fin = "eof" THEN End("error", TRUE) /\ Keep(<<budget, pc, ii>>)
               ELSE \* end of message acts as terminator in HTCondor; refusing is fine too
                    /\ Keep(<<status, strict>>) /\ advance
                    /\ budget' = IF kind = "budget" THEN budget - supplied ELSE budget
       ELSE /\ Use(total, 2 * body, total)
            /\ capx' = (capped /\ total > cap)
            /\ Keep(<<status, strict>>) /\ advance
            /\ budget' = IF kind = "budget" THEN budget - total ELSE budget
  ELSE \* length-prefixed string on an encrypting stream
       \* (a cut item keeps its length prefix and loses half of its body; a cut
       \*  prefix is the cut integer of GetInt and the starved string below)
       IF declared < 0
       THEN \* a negative length.  (-2^63 does not fit the 32-bit length domain; how a
            \* decoder narrows it is outside the statement, so only -1 obliges an error)
            /\ Use(IntU, 0, 1) /\ Keep(<<budget, pc, ii, capx>>)
            /\ IF "NegLenPanic" \in Bug THEN End("panic", FALSE) ELSE End("error", it.p = "neg1")
       ELSE IF capped /\ declared > cap /\ ~ignore
       THEN /\ Use(IntU + Min(Min(supplied, cap + CapSlack), declared), 2 * Max(cap, 0), 1)
            /\ End("error", it.p # "two62") /\ capx' = (it.p # "two62") /\ Keep(<<budget, pc, ii>>)
       ELSE IF declared > supplied
       THEN \* the peer promised more than it sent: fail at the end of the input,
            \* having allocated in proportion to what arrived
            /\ Use(IntU + supplied,
                   IF "PeerSizedAlloc" \in Bug THEN declared ELSE 2 * supplied, 1)
            \* (a prefix one larger than the body is only certain to run out of data
            \*  when nothing follows; otherwise the decoder may resynchronise or not)
            /\ End("error", it.p # "two62" /\ (it.p # "over" \/ IsLast))
            /\ Keep(<<budget, pc, ii, capx>>)
       ELSE /\ Use(IntU + declared, 2 * declared, 1)
            /\ Keep(<<status, strict, capx>>) /\ advance
            /\ budget' = IF kind = "budget" THEN budget - declared ELSE budget

NextOp == pc' = pc + 1 /\ ii' = ii + 1

\* the input ended (end of message or end of connection) before the program did
ProgStarved ==
  /\ ~HasItem /\ ~ProgDone
  /\ UNCHANGED <<scn, pc, ii, lastv, budget, capx, depth>>
  /\ LET op == CurOp IN
     IF scn.fin = "eof" /\ op.o # "eomchk" /\ ~(op.o = "bytes" /\ lastv <= 0)
     THEN Use(0, 0, 1) /\ End("error", TRUE) /\ Keep(left)
     ELSE CASE op.o = "int" /\ op.role = "arg" -> Use(0, 0, 1) /\ End("error", FALSE) /\ Keep(left)
            [] op.o = "int" /\ op.role # "arg" -> Use(0, 0, 1) /\ End("error", TRUE) /\ Keep(left)
            [] op.o = "bytes" ->
                 /\ Keep(left)
                 /\ IF lastv < 0
                    THEN Use(0, 0, 1) /\ (IF "NegLenPanic" \in Bug THEN End("panic", FALSE) ELSE End("error", FALSE))
                    ELSE IF lastv = 0 THEN Use(0, 0, 1) /\ End("value", FALSE)
                    ELSE Use(0, IF "PeerSizedAlloc" \in Bug THEN lastv ELSE 0, 1) /\ End("error", TRUE)
            [] op.o = "str" ->
                 \* plain: end of message reads as an empty string (HTCondor); enc: no length prefix
                 /\ Keep(left)
                 /\ Use(0, 0, 1) /\ End(IF Enc THEN "error" ELSE "value", Enc)
            [] op.o = "exprs" ->
                 \* `left` expressions announced, none there.  A defensive decoder stops;
                 \* it must not iterate or allocate per announced expression.
                 /\ left' = 0
                 /\ Use(0, IF "CountAlloc" \in Bug /\ ~Enc THEN Max(left, 0) ELSE 0,
                           IF "CountSpin" \in Bug /\ ~Enc THEN Max(left, 0) ELSE 1)
                 /\ End(IF left > 0 THEN "error" ELSE "value", FALSE)
            [] OTHER -> Use(0, 0, 1) /\ End("value", FALSE) /\ Keep(left)

ProgStep ==
  /\ scn.fam \in {"typed", "ad", "hs"} /\ status = "run"
  /\ IF ProgDone
     THEN /\ End("value", FALSE)
          /\ UNCHANGED <<scn, pc, ii, lastv, left, budget, consumed, alloc, steps, depth, capx>>
     ELSE IF ~HasItem /\ ~(CurOp.o = "exprs" /\ left <= 0) THEN ProgStarved
     ELSE
     LET op == CurOp IN
     /\ UNCHANGED <<scn, depth>>
     /\ CASE op.o = "int" ->
               /\ Keep(<<budget, capx>>)
               /\ IF op.role = "arg"
                  THEN \* an API argument standing for a peer-controlled length
                       /\ lastv' = NumVal(Item.c, SupU) /\ Use(0, 0, 0) /\ NextOp
                       /\ Keep(<<status, strict, left>>)
                  ELSE IF CutHere
                  THEN Use(IF op.role = "char" THEN 0 ELSE 3, 0, 1) /\ End("error", TRUE) /\ Keep(<<pc, ii, lastv, left>>)
                  ELSE /\ Use(IF op.role = "char" THEN 1 ELSE IntU, IntU, 1)
                       /\ lastv' = (CASE op.role = "count" -> NumVal(Item.c, 2)
                                      [] op.role = "len" -> NumVal(Item.c, SupU)
                                      [] Item.c = "one" -> 1 [] Item.c = "neg1" -> -1
                                      [] OTHER -> 0)
                       /\ left' = (IF op.role = "count"
                                   THEN (IF Item.c = "units" THEN SumUnits(scn.items, Len(scn.items))
                                         ELSE NumVal(Item.c, 2))
                                   ELSE left)
                       /\ IF op.role = "cmd" /\ Item.c = "other"
                          THEN End("error", FALSE) /\ Keep(<<pc, ii>>)
                          ELSE IF op.role = "flag" /\ Item.c # "ok"
                               /\ Item.c # (IF scn.ep \in {"SrvTokenStep1", "CliTokenStep2"} THEN "zero" ELSE "one")
                               /\ scn.ep # "CliExchangeKey"
                          THEN \* status says "failed": the reader gives up (after reading what it likes)
                               End("error", FALSE) /\ Keep(<<pc, ii>>)
                          ELSE IF scn.ep = "CliExchangeKey" /\ op.role = "flag" /\ Item.c = "zero"
                          THEN End("value", FALSE) /\ Keep(<<pc, ii>>)
                          ELSE IF op.role = "len" /\ NumVal(Item.c, SupU) > 1024 /\ scn.ep \in {"SrvTokenStep1", "CliTokenStep2"}
                          THEN End("error", FALSE) /\ Keep(<<pc, ii>>)   \* documented protocol limit
                          ELSE Keep(<<status, strict>>) /\ NextOp
          [] op.o = "str" ->
               /\ Keep(<<lastv, left>>)
               /\ StrRead(Item, op.cap, NextOp)
          [] op.o = "exprs" ->
               /\ Keep(lastv)
               /\ IF left <= 0
                  THEN /\ pc' = pc + 1 /\ Use(0, 0, 1) /\ left' = 0
                       /\ Keep(<<ii, budget, capx, status, strict>>)
                  ELSE LET it == Item
                           secretKind == IF "SecretBypassesCap" \in Bug THEN "none"
                                         ELSE IF "SecretNotCharged" \in Bug /\ op.cap = "budget" THEN "budgetfree"
                                         ELSE op.cap
                           \* SkipClassAdRaw counts wire strings and does not know the marker;
                           \* whether it should is not C13's question (it stays total and bounded)
                           knowsMarker == scn.ep # "SkipClassAdRaw" IN
                       IF it.k = "rep"
                       THEN \* RepN units (marker + secret, or one expression) of the same size
                            LET sec == it.c = "sec"
                                u == SizeVal(it.n) + 1
                                mk == IF sec THEN SmallU + 1 ELSE 0
                                pf == IF Enc THEN IntU * (IF sec THEN 2 ELSE 1) ELSE 0
                                charge == IF sec /\ "SecretNotCharged" \in Bug THEN mk ELSE u + mk
                                fit == IF CapOf(op.cap) < 0 \/ "SecretBypassesCap" \in Bug THEN RepN
                                       ELSE Min(RepN, Max(budget, 0) \div charge) IN
                            IF fit >= RepN
                            THEN /\ Use(RepN * (u + mk + pf), 2 * RepN * u, RepN)
                                 /\ left' = left - RepN /\ ii' = ii + 1 /\ pc' = pc
                                 /\ budget' = IF op.cap = "budget" THEN budget - RepN * charge ELSE budget
                                 /\ Keep(<<status, strict, capx>>)
                            ELSE /\ Use(fit * (u + mk + pf) + mk + pf
                                          + Min(u, Max(budget - fit * charge - mk, 0) + CapSlack),
                                        2 * (fit + 1) * u, fit + 1)
                                 /\ End("error", TRUE) /\ capx' = TRUE /\ Keep(<<budget, pc, ii, left>>)
                       \* a marker announces that the real expression follows as a secret string
                       ELSE IF knowsMarker /\ ii > 1 /\ scn.items[ii - 1].c = "marker" /\ scn.items[ii - 1].k = "str"
                          /\ it.c # "type" /\ it.c # "badtype"
                       THEN StrRead(it, secretKind, (ii' = ii + 1 /\ pc' = pc)) /\ left' = left - 1
                       ELSE IF knowsMarker /\ it.c = "marker"
                       THEN StrRead(it, op.cap, (ii' = ii + 1 /\ pc' = pc)) /\ Keep(left)
                       ELSE StrRead(it, op.cap, (ii' = ii + 1 /\ pc' = pc)) /\ left' = left - 1
          [] op.o = "bytes" ->
               LET sup0 == IF Item.n = "exact" THEN Max(Min(lastv, 512), 0) ELSE SizeVal(Item.n)
                   sup == IF CutHere THEN sup0 \div 2 ELSE sup0
                   lim == IF op.cap = "lim" THEN 32 ELSE Huger + 1 IN
               /\ Keep(<<lastv, left, budget, capx>>)
               /\ IF lastv < 0
                  THEN /\ Use(0, 0, 1) /\ Keep(<<pc, ii>>)
                       /\ IF "NegLenPanic" \in Bug THEN End("panic", FALSE) ELSE End("error", FALSE)
                  ELSE IF lastv > lim THEN Use(0, 0, 1) /\ End("error", FALSE) /\ Keep(<<pc, ii>>)
                  ELSE IF lastv > sup
                  THEN /\ Use(sup, IF "PeerSizedAlloc" \in Bug THEN lastv ELSE 2 * sup, sup + 1)
                       /\ End("error", TRUE) /\ Keep(<<pc, ii>>)
                  ELSE /\ Use(lastv, 2 * lastv, lastv + 1) /\ Keep(<<status, strict>>) /\ NextOp
          [] op.o = "rest" ->
               /\ Keep(<<lastv, left, budget, capx>>)
               /\ Use(SizeVal(Item.n), 2 * SizeVal(Item.n), 1) /\ NextOp
               /\ IF scn.fin = "eof" THEN End("error", TRUE) ELSE End("value", FALSE)
          [] OTHER ->   \* eomchk with data still there: protocol error
               /\ Keep(<<lastv, left, budget, capx, pc, ii>>)
               /\ Use(0, 0, 1) /\ End("error", FALSE)

-----------------------------------------------------------------------------
(* BLOB engine                                                             *)
BlobStep ==
  /\ scn.fam = "blob" /\ status = "run"
  /\ UNCHANGED <<scn, pc, lastv, left, budget, capx, depth>>
  /\ IF ~HasItem
     THEN /\ Keep(ii) /\ Use(0, 0, 1)
          /\ IF ii <= 4 THEN End("error", TRUE) ELSE End("value", FALSE)
     ELSE /\ ii' = ii + 1
          /\ LET b == Item IN
             IF b.k = "fix"
             THEN IF b.c = "ok" THEN Use(10, 10, 1) /\ Keep(<<status, strict>>)
                  ELSE Use(0, 0, 1) /\ End("error", TRUE)
             ELSE IF b.t = "short" /\ b.n # "zero" THEN Use(1, 0, 1) /\ End("error", TRUE)
                  ELSE Use(1 + BlobVarVal(b.n) \div 1024, 1 + BlobVarVal(b.n) \div 1024, 1) /\ Keep(<<status, strict>>)

-----------------------------------------------------------------------------
(* TEXT engine: every token sequence parses to a value or an error in time *)
(* and space linear in its length.  Two documented obligations:            *)
(*   ImportSecSessionInfo: non-empty and not bracketed  => error           *)
(*   ParseSinful: malformed %-escape in the query part  => error           *)
TokU(c) == IF c = "long" THEN BigU ELSE 1
TextStep ==
  /\ scn.fam \in {"text", "watch"} /\ status = "run"
  /\ UNCHANGED <<scn, pc, lastv, left, budget, capx, depth>>
  /\ IF HasItem
     THEN /\ ii' = ii + 1
          /\ IF "LoneQuotePanic" \in Bug /\ scn.ep \in {"ImportSecSessionInfo", "ImportSessionInfoAttributes"}
                /\ Item.c = "quote" /\ ii > 1 /\ scn.items[ii - 1].c = "eq"
             THEN status' = "panic" /\ strict' = FALSE /\ Use(1, 1, 1)
             ELSE Use(TokU(Item.c), 2 * TokU(Item.c), TokU(Item.c)) /\ Keep(<<status, strict>>)
     ELSE /\ Keep(ii) /\ Use(0, 0, 1)
          /\ LET n == Len(scn.items)
                 cls(i) == scn.items[i].c
                 unbracketed == scn.ep = "ImportSecSessionInfo" /\ n > 0 /\ (cls(1) # "lbr" \/ cls(n) # "rbr")
                 badpct == scn.ep = "ParseSinful" /\ \E i, j \in 1..n : i < j /\ cls(i) = "qm" /\ cls(j) = "pctbad"
                                /\ \A h \in 1..(i - 1) : cls(h) # "qm"
             IN IF unbracketed \/ badpct THEN End("error", TRUE) ELSE End("value", FALSE)

-----------------------------------------------------------------------------
Next == FrameStep \/ PassStep \/ ProgStep \/ BlobStep \/ TextStep
Spec == Init /\ [][Next]_vars

Done == status # "run"

(* the property *)
NoPanic == status # "panic"
Bounded == /\ alloc <= AllocA * consumed + AllocB
           /\ steps <= StepC * consumed + StepD
           /\ depth <= DepthMax
\* (the capped strings inside SrvClaimToBe / SrvTokenStep1 / CliTokenStep2 are the
\*  reader bound as GetStringMax; a handshake goes on reading after a failed method)
CappedEP == scn.ep \in {"GetStringMax", "GetClassAdMax", "SrvFirst", "CliServerAd", "PassSockHeader"}
CapTotal == CASE scn.ep = "SrvFirst" -> 2 * IntU + CapU
              [] scn.ep \in {"GetClassAdMax", "CliServerAd"} -> IntU + CapU
              [] scn.ep = "PassSockHeader" -> HdrU + 64
              [] OTHER -> CapU
\* (on an encrypting stream every string carries an IntU length prefix that is not
\*  charged to the budget; a scenario has at most 2*ExprMax+2 <= 6 strings)
CapHonoured == CappedEP => consumed <= CapTotal + CapSlack + (IF Enc THEN 8 * IntU ELSE 0)
CapFails == (Done /\ capx) => status = "error"

TypeOK == /\ status \in {"run", "value", "error", "panic"}
          /\ strict \in BOOLEAN /\ capx \in BOOLEAN
          /\ consumed >= 0 /\ alloc >= 0 /\ steps >= 0 /\ depth >= 1

(* what the replayer must observe on the real decoder *)
Verdict == IF capx THEN "cap-exceeded-must-stop"
           ELSE IF status = "error" /\ strict THEN "must-error"
           ELSE "may-succeed"
=============================================================================
