\* non-vacuity: with Bug = {"PanicKillsLoop"} TLC must report LoopSurvives violated
SPECIFICATION SpecS
CONSTANTS
  Hows = {"new"}
  Routes = {"direct"}
  Secs = {"none"}
  EnvsNew = {}
  EnvsCA = {}
  Ctxs = {}
  MaxCalls = 0
  MaxSock = 0
  MaxConn = 2
  Kinds = {"ok", "err", "panic", "block", "keepopen", "unknown"}
  Bug = {"PanicKillsLoop"}
INVARIANTS LoopSurvives
CHECK_DEADLOCK FALSE
