---- MODULE Framing_TTrace_1790166626 ----
EXTENDS Sequences, TLCExt, Toolbox, Naturals, TLC, Framing

_expression ==
    LET Framing_TEExpression == INSTANCE Framing_TEExpression
    IN Framing_TEExpression!expression
----

_trace ==
    LET Framing_TETrace == INSTANCE Framing_TETrace
    IN Framing_TETrace!trace
----

_inv ==
    ~(
        TLCGet("level") = Len(_TETrace)
        /\
        phase = ("send")
        /\
        nProt = (1)
        /\
        rEOM = (FALSE)
        /\
        sEOM = (TRUE)
        /\
        rRead = (0)
        /\
        nReads = (0)
        /\
        rOut = (<<>>)
        /\
        sOff = (0)
        /\
        delivered = (<<>>)
        /\
        sent = (<<0>>)
        /\
        rState = ("idle")
        /\
        wire = (<<[msg |-> 1, off |-> -1, wlen |-> 33, end |-> 1, plen |-> 1]>>)
        /\
        sapi = ("buffered")
        /\
        rbuf = (<<>>)
        /\
        sbuf = (0)
        /\
        recvErr = (FALSE)
        /\
        rpos = (0)
        /\
        nWrites = (0)
        /\
        senderErr = (FALSE)
        /\
        enc = (TRUE)
        /\
        sState = ("idle")
        /\
        sMsg = (1)
        /\
        rapi = ("complete")
    )
----

_init ==
    /\ phase = _TETrace[1].phase
    /\ nProt = _TETrace[1].nProt
    /\ rapi = _TETrace[1].rapi
    /\ rEOM = _TETrace[1].rEOM
    /\ wire = _TETrace[1].wire
    /\ delivered = _TETrace[1].delivered
    /\ rOut = _TETrace[1].rOut
    /\ senderErr = _TETrace[1].senderErr
    /\ recvErr = _TETrace[1].recvErr
    /\ enc = _TETrace[1].enc
    /\ rpos = _TETrace[1].rpos
    /\ sState = _TETrace[1].sState
    /\ nReads = _TETrace[1].nReads
    /\ sent = _TETrace[1].sent
    /\ sbuf = _TETrace[1].sbuf
    /\ sapi = _TETrace[1].sapi
    /\ sEOM = _TETrace[1].sEOM
    /\ sOff = _TETrace[1].sOff
    /\ sMsg = _TETrace[1].sMsg
    /\ rRead = _TETrace[1].rRead
    /\ rState = _TETrace[1].rState
    /\ rbuf = _TETrace[1].rbuf
    /\ nWrites = _TETrace[1].nWrites
----

_next ==
    /\ \E i,j \in DOMAIN _TETrace:
        /\ \/ /\ j = i + 1
              /\ i = TLCGet("level")
        /\ phase  = _TETrace[i].phase
        /\ phase' = _TETrace[j].phase
        /\ nProt  = _TETrace[i].nProt
        /\ nProt' = _TETrace[j].nProt
        /\ rapi  = _TETrace[i].rapi
        /\ rapi' = _TETrace[j].rapi
        /\ rEOM  = _TETrace[i].rEOM
        /\ rEOM' = _TETrace[j].rEOM
        /\ wire  = _TETrace[i].wire
        /\ wire' = _TETrace[j].wire
        /\ delivered  = _TETrace[i].delivered
        /\ delivered' = _TETrace[j].delivered
        /\ rOut  = _TETrace[i].rOut
        /\ rOut' = _TETrace[j].rOut
        /\ senderErr  = _TETrace[i].senderErr
        /\ senderErr' = _TETrace[j].senderErr
        /\ recvErr  = _TETrace[i].recvErr
        /\ recvErr' = _TETrace[j].recvErr
        /\ enc  = _TETrace[i].enc
        /\ enc' = _TETrace[j].enc
        /\ rpos  = _TETrace[i].rpos
        /\ rpos' = _TETrace[j].rpos
        /\ sState  = _TETrace[i].sState
        /\ sState' = _TETrace[j].sState
        /\ nReads  = _TETrace[i].nReads
        /\ nReads' = _TETrace[j].nReads
        /\ sent  = _TETrace[i].sent
        /\ sent' = _TETrace[j].sent
        /\ sbuf  = _TETrace[i].sbuf
        /\ sbuf' = _TETrace[j].sbuf
        /\ sapi  = _TETrace[i].sapi
        /\ sapi' = _TETrace[j].sapi
        /\ sEOM  = _TETrace[i].sEOM
        /\ sEOM' = _TETrace[j].sEOM
        /\ sOff  = _TETrace[i].sOff
        /\ sOff' = _TETrace[j].sOff
        /\ sMsg  = _TETrace[i].sMsg
        /\ sMsg' = _TETrace[j].sMsg
        /\ rRead  = _TETrace[i].rRead
        /\ rRead' = _TETrace[j].rRead
        /\ rState  = _TETrace[i].rState
        /\ rState' = _TETrace[j].rState
        /\ rbuf  = _TETrace[i].rbuf
        /\ rbuf' = _TETrace[j].rbuf
        /\ nWrites  = _TETrace[i].nWrites
        /\ nWrites' = _TETrace[j].nWrites

\* Uncomment the ASSUME below to write the states of the error trace
\* to the given file in Json format. Note that you can pass any tuple
\* to `JsonSerialize`. For example, a sub-sequence of _TETrace.
    \* ASSUME
    \*     LET J == INSTANCE Json
    \*         IN J!JsonSerialize("Framing_TTrace_1790166626.json", _TETrace)

=============================================================================

 Note that you can extract this module `Framing_TEExpression`
  to a dedicated file to reuse `expression` (the module in the 
  dedicated `Framing_TEExpression.tla` file takes precedence 
  over the module `Framing_TEExpression` below).

---- MODULE Framing_TEExpression ----
EXTENDS Sequences, TLCExt, Toolbox, Naturals, TLC, Framing

expression == 
    [
        \* To hide variables of the `Framing` spec from the error trace,
        \* remove the variables below.  The trace will be written in the order
        \* of the fields of this record.
        phase |-> phase
        ,nProt |-> nProt
        ,rapi |-> rapi
        ,rEOM |-> rEOM
        ,wire |-> wire
        ,delivered |-> delivered
        ,rOut |-> rOut
        ,senderErr |-> senderErr
        ,recvErr |-> recvErr
        ,enc |-> enc
        ,rpos |-> rpos
        ,sState |-> sState
        ,nReads |-> nReads
        ,sent |-> sent
        ,sbuf |-> sbuf
        ,sapi |-> sapi
        ,sEOM |-> sEOM
        ,sOff |-> sOff
        ,sMsg |-> sMsg
        ,rRead |-> rRead
        ,rState |-> rState
        ,rbuf |-> rbuf
        ,nWrites |-> nWrites
        
        \* Put additional constant-, state-, and action-level expressions here:
        \* ,_stateNumber |-> _TEPosition
        \* ,_phaseUnchanged |-> phase = phase'
        
        \* Format the `phase` variable as Json value.
        \* ,_phaseJson |->
        \*     LET J == INSTANCE Json
        \*     IN J!ToJson(phase)
        
        \* Lastly, you may build expressions over arbitrary sets of states by
        \* leveraging the _TETrace operator.  For example, this is how to
        \* count the number of times a spec variable changed up to the current
        \* state in the trace.
        \* ,_phaseModCount |->
        \*     LET F[s \in DOMAIN _TETrace] ==
        \*         IF s = 1 THEN 0
        \*         ELSE IF _TETrace[s].phase # _TETrace[s-1].phase
        \*             THEN 1 + F[s-1] ELSE F[s-1]
        \*     IN F[_TEPosition - 1]
    ]

=============================================================================



Parsing and semantic processing can take forever if the trace below is long.
 In this case, it is advised to uncomment the module below to deserialize the
 trace from a generated binary file.

\*
\*---- MODULE Framing_TETrace ----
\*EXTENDS IOUtils, TLC, Framing
\*
\*trace == IODeserialize("Framing_TTrace_1790166626.bin", TRUE)
\*
\*=============================================================================
\*

---- MODULE Framing_TETrace ----
EXTENDS TLC, Framing

trace == 
    <<
    ([phase |-> "send",nProt |-> 0,rEOM |-> FALSE,sEOM |-> FALSE,rRead |-> 0,nReads |-> 0,rOut |-> <<>>,sOff |-> 0,delivered |-> <<>>,sent |-> <<>>,rState |-> "idle",wire |-> <<>>,sapi |-> "buffered",rbuf |-> <<>>,sbuf |-> 0,recvErr |-> FALSE,rpos |-> 0,nWrites |-> 0,senderErr |-> FALSE,enc |-> TRUE,sState |-> "idle",sMsg |-> 0,rapi |-> "complete"]),
    ([phase |-> "send",nProt |-> 0,rEOM |-> FALSE,sEOM |-> FALSE,rRead |-> 0,nReads |-> 0,rOut |-> <<>>,sOff |-> 0,delivered |-> <<>>,sent |-> <<>>,rState |-> "idle",wire |-> <<>>,sapi |-> "buffered",rbuf |-> <<>>,sbuf |-> 0,recvErr |-> FALSE,rpos |-> 0,nWrites |-> 0,senderErr |-> FALSE,enc |-> TRUE,sState |-> "open",sMsg |-> 1,rapi |-> "complete"]),
    ([phase |-> "send",nProt |-> 0,rEOM |-> FALSE,sEOM |-> FALSE,rRead |-> 0,nReads |-> 0,rOut |-> <<>>,sOff |-> 1,delivered |-> <<>>,sent |-> <<>>,rState |-> "idle",wire |-> <<>>,sapi |-> "buffered",rbuf |-> <<>>,sbuf |-> 1,recvErr |-> FALSE,rpos |-> 0,nWrites |-> 1,senderErr |-> FALSE,enc |-> TRUE,sState |-> "open",sMsg |-> 1,rapi |-> "complete"]),
    ([phase |-> "send",nProt |-> 0,rEOM |-> FALSE,sEOM |-> FALSE,rRead |-> 0,nReads |-> 0,rOut |-> <<>>,sOff |-> 0,delivered |-> <<>>,sent |-> <<>>,rState |-> "idle",wire |-> <<>>,sapi |-> "buffered",rbuf |-> <<>>,sbuf |-> 1,recvErr |-> FALSE,rpos |-> 0,nWrites |-> 0,senderErr |-> FALSE,enc |-> TRUE,sState |-> "open",sMsg |-> 1,rapi |-> "complete"]),
    ([phase |-> "send",nProt |-> 1,rEOM |-> FALSE,sEOM |-> TRUE,rRead |-> 0,nReads |-> 0,rOut |-> <<>>,sOff |-> 0,delivered |-> <<>>,sent |-> <<0>>,rState |-> "idle",wire |-> <<[msg |-> 1, off |-> -1, wlen |-> 33, end |-> 1, plen |-> 1]>>,sapi |-> "buffered",rbuf |-> <<>>,sbuf |-> 0,recvErr |-> FALSE,rpos |-> 0,nWrites |-> 0,senderErr |-> FALSE,enc |-> TRUE,sState |-> "idle",sMsg |-> 1,rapi |-> "complete"])
    >>
----


=============================================================================

---- CONFIG Framing_TTrace_1790166626 ----
CONSTANTS
    Max = 1048576
    FlushAt = 4096
    Target = 16384
    Tag = 16
    IVLen = 16
    Hdr = 5
    Encs = { TRUE , FALSE }
    SendApis = { "buffered" }
    RecvApis = { "complete" }
    WriteSizes = { 1 , 3 }
    StrSizes = { }
    StrBytesSizes = { }
    ReadSizes = { 0 }
    MaxMsgs = 1
    MaxWrites = 2
    MaxReads = 1
    MaxLen = 8
    PairFirst = { }
    TypedFlush = { FALSE }
    Interleave = FALSE
    MaxAbandon = 1
    Bug = { "RestartKeepsBuffer" }

INVARIANT
    _inv

CHECK_DEADLOCK
    \* CHECK_DEADLOCK off because of PROPERTY or INVARIANT above.
    FALSE

INIT
    _init

NEXT
    _next

CONSTANT
    _TETrace <- _trace

ALIAS
    _expression
=============================================================================
\* Generated on Wed Sep 23 12:30:28 UTC 2026