\* self-test: with Bug = {NoCloseOnRefuse} TLC must report an invariant violated
SPECIFICATION Spec
CONSTANTS
  MaxConns = 2
  MaxCmds = 2
  PolicyTabs = {1, 2}
  AuthzTabs = {0, 1, 2}
  InitAuthz = {0, 1}
  InitPtab = {1}
  Users = {"alice", "bob"}
  Permissive = TRUE
  Bug = {"NoCloseOnRefuse"}
INVARIANTS TypeOK HandlerOnlyOnAdequateSession RawAuthSeparated RefusedClosesWithoutHandler
CHECK_DEADLOCK FALSE
