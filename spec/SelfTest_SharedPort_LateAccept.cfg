\* non-vacuity: with Bug = {"LateAccept"} (today's listener) TLC must report ClosedClean violated
SPECIFICATION Spec
CONSTANTS
  Mode = "listener"
  Origins = {"listen", "adopt"}
  MaxD = 2
  MaxAcc = 2
  MaxClose = 2
  Scripts <- MixScriptsTwo
  Shapes <- NoShapes
  ErrClasses = {}
  Bug = {"LateAccept"}
INVARIANTS ClosedClean
CHECK_DEADLOCK FALSE
