--------------------------- MODULE LiteralShortcut ---------------------------
(***************************************************************************)
(* Property C08, decode side.  message/classad.go parses every            *)
(* "Attr = <text>" item with a hand-written literal fast path             *)
(* (tryInsertLiteral) in front of the full ClassAd parser.  The property   *)
(* says the decoded value is the expression the FULL parser assigns to     *)
(* <text>; so the fast path may answer only for a text that the grammar    *)
(* defines as one lone simple literal, and must then give that literal.    *)
(*                                                                         *)
(* A text is a sequence over a token alphabet that contains every          *)
(* character class the recognisers distinguish:                            *)
(*   d   a digit 1..9          z   the digit 0                             *)
(*   m   '-'                   p   '+'                                     *)
(*   dot '.'                   e   'e' / 'E' (exponent marker, a letter)   *)
(*   x   'x' (hex marker, a letter)                                        *)
(*   q   '"'                   bs  '\'                                     *)
(*   n   the letter 'n' (a letter that is also a valid escape)             *)
(*   T   the word true  (any mix of upper and lower case)                  *)
(*   F   the word false (any mix of upper and lower case)                  *)
(*   s   a blank (space / tab)                                             *)
(*   lp  '('                   rp  ')'                                     *)
(*                                                                         *)
(* Class(text)  the class of the text as the GRAMMAR defines a lone simple *)
(*              literal: bool, int, real, simpleString (one or more        *)
(*              adjacent escape-free string literals, which the grammar    *)
(*              concatenates), else notLiteral (an operator expression, a  *)
(*              string with escapes, or no expression at all).             *)
(* Fast(text)   the decoder's fast path, one disjunct per branch of        *)
(*              tryInsertLiteral: boolean words, strconv integer, strconv  *)
(*              real, quote-delimited text; "none" = full parser.          *)
(*                                                                         *)
(* ShortcutSound: whenever the fast path answers, it answers with the      *)
(* grammar's class and (for strings) the grammar's value - except on       *)
(* number-shaped texts the grammar rejects altogether (leading zeros,      *)
(* "1."), which are outside the statement (Outside).                       *)
(*                                                                         *)
(* Bug members are known wrong designs, used for non-vacuity self-tests:   *)
(*   "QuoteEndsString"  any text that starts and ends with a quote and has *)
(*                      no backslash is taken as ONE string (the pinned    *)
(*                      tree: `"a" + "b"` -> the string a" + "b)           *)
(*   "SignedWordIsBool" "-true" is taken as a boolean                      *)
(*   "DotMeansReal"     the real branch does not insist on a digit string  *)
(*                      (takes "1.5.5" / "1.n" as a real)                  *)
(***************************************************************************)
EXTENDS Integers, Sequences, FiniteSets, TLC

CONSTANTS MaxLen, Bug

Tok == {"d", "z", "m", "p", "dot", "e", "x", "q", "bs", "n", "T", "F", "s", "lp", "rp"}
Classes == {"bool", "int", "real", "simpleString", "notLiteral"}
Branches == {"bool", "int", "real", "simpleString", "none"}

VARIABLE text
vars == <<text>>

IsDigit(t) == t \in {"d", "z"}

RECURSIVE TrimL(_)
TrimL(t) == IF t # <<>> /\ Head(t) = "s" THEN TrimL(Tail(t)) ELSE t
RECURSIVE TrimR(_)
TrimR(t) == IF t # <<>> /\ t[Len(t)] = "s" THEN TrimR(SubSeq(t, 1, Len(t) - 1)) ELSE t
Trim(t) == TrimR(TrimL(t))

Has(t, tok) == \E i \in 1..Len(t) : t[i] = tok

(* index of the last token of the maximal run of digits starting at i (i-1 if none) *)
RECURSIVE DigitsEnd(_, _)
DigitsEnd(u, i) == IF i <= Len(u) /\ IsDigit(u[i]) THEN DigitsEnd(u, i + 1) ELSE i - 1

At(u, i) == IF i >= 1 /\ i <= Len(u) THEN u[i] ELSE "eof"

-----------------------------------------------------------------------------
(* The grammar (classad.y + lexer): numbers *)

\* INTEGER_LITERAL: digits, no leading zero unless the literal is "0"
IsInt(u) == /\ u # <<>>
            /\ \A i \in 1..Len(u) : IsDigit(u[i])
            /\ (Len(u) = 1 \/ u[1] = "d")

\* end position (index after the last token) of an optional exponent at pos, or 0 if malformed
ExpEnd(u, pos) ==
  IF At(u, pos) # "e" THEN pos
  ELSE LET q1 == IF At(u, pos + 1) \in {"m", "p"} THEN pos + 2 ELSE pos + 1
           c  == DigitsEnd(u, q1)
       IN IF c >= q1 THEN c + 1 ELSE 0

\* REAL_LITERAL: digits [. digits+] [exp] | . digits+ [exp], with a '.' or an exponent
IsReal(u) ==
  LET a      == DigitsEnd(u, 1)                       \* a = number of leading digits
      hasDot == At(u, a + 1) = "dot"
      b      == IF hasDot THEN DigitsEnd(u, a + 2) ELSE a
      fracOK == hasDot => b >= a + 2                   \* a digit must follow the point
      pos    == b + 1
      fin    == ExpEnd(u, pos)
      hasExp == At(u, pos) = "e"
  IN /\ u # <<>>
     /\ (a >= 1 \/ hasDot)
     /\ fracOK
     /\ fin = Len(u) + 1
     /\ (hasDot \/ hasExp)

(* strings: one or more adjacent escape-free literals, blanks between them *)
RECURSIVE StrWalk(_, _, _)
\* walks t from i; inside = currently inside a literal; returns TRUE iff t[i..] is well formed
StrWalk(t, i, inside) ==
  IF i > Len(t) THEN ~inside
  ELSE IF inside THEN StrWalk(t, i + 1, t[i] # "q")
  ELSE IF t[i] = "q" THEN StrWalk(t, i + 1, TRUE)
  ELSE IF t[i] = "s" THEN StrWalk(t, i + 1, FALSE)
  ELSE FALSE

IsStrings(t) == /\ Len(t) >= 2 /\ t[1] = "q" /\ t[Len(t)] = "q"
                /\ ~Has(t, "bs")
                /\ StrWalk(t, 1, FALSE)

RECURSIVE StrBody(_, _, _)
\* the tokens inside the literals, concatenated
StrBody(t, i, inside) ==
  IF i > Len(t) THEN <<>>
  ELSE IF inside THEN (IF t[i] = "q" THEN StrBody(t, i + 1, FALSE) ELSE <<t[i]>> \o StrBody(t, i + 1, TRUE))
  ELSE StrBody(t, i + 1, t[i] = "q")

\* the number part of a signed number: one sign, blanks*, number (the grammar reads
\* "-5" as a sign applied to 5: the same typed value, compared semantically)
Unsigned(t) == IF t # <<>> /\ Head(t) \in {"m", "p"} THEN TrimL(Tail(t)) ELSE t

Class(txt) ==
  LET t == Trim(txt) IN
  IF t = <<"T">> \/ t = <<"F">> THEN "bool"
  ELSE IF IsStrings(t) THEN "simpleString"
  ELSE IF IsInt(Unsigned(t)) THEN "int"
  ELSE IF IsReal(Unsigned(t)) THEN "real"
  ELSE "notLiteral"

ClassVal(txt) == IF Class(txt) = "simpleString" THEN StrBody(Trim(txt), 1, FALSE) ELSE <<>>

-----------------------------------------------------------------------------
(* The decoder's fast path (tryInsertLiteral), branch by branch.  The caller *)
(* has already trimmed blanks.                                               *)

\* strconv.ParseInt(v, 10, 64): optional sign, digits (leading zeros accepted)
GoInt(v) == LET u == IF v # <<>> /\ Head(v) = "m" THEN Tail(v) ELSE v IN
            u # <<>> /\ \A i \in 1..Len(u) : IsDigit(u[i])

\* strconv.ParseFloat(v, 64), decimal forms: [sign] digits [. digits*] [exp] | . digits+ [exp]
GoFloat(v) ==
  LET u   == IF v # <<>> /\ Head(v) = "m" THEN Tail(v) ELSE v
      a   == DigitsEnd(u, 1)
      dot == At(u, a + 1) = "dot"
      b   == IF dot THEN DigitsEnd(u, a + 2) ELSE a
      fin == ExpEnd(u, b + 1)
  IN /\ u # <<>>
     /\ (a >= 1 \/ (dot /\ b >= a + 2))
     /\ fin = Len(u) + 1

NumberStart(v) == v # <<>> /\ Head(v) \in {"m", "d", "z"}

Inner(v) == SubSeq(v, 2, Len(v) - 1)

Fast(txt) ==
  LET v == Trim(txt) IN
  IF v = <<"T">> \/ v = <<"F">> THEN "bool"
  ELSE IF "SignedWordIsBool" \in Bug /\ (v = <<"m", "T">> \/ v = <<"m", "F">>) THEN "bool"
  ELSE IF NumberStart(v) /\ ~Has(v, "dot") /\ GoInt(v) THEN "int"
  ELSE IF NumberStart(v) /\ Has(v, "dot") /\ (GoFloat(v) \/ "DotMeansReal" \in Bug) THEN "real"
  ELSE IF /\ Len(v) >= 2 /\ v[1] = "q" /\ v[Len(v)] = "q"
          /\ ~Has(Inner(v), "bs")
          /\ ("QuoteEndsString" \in Bug \/ ~Has(Inner(v), "q"))
       THEN "simpleString"
  ELSE "none"

FastVal(txt) == IF Fast(txt) = "simpleString" THEN Inner(Trim(txt)) ELSE <<>>

(* Number-shaped texts that strconv accepts and the grammar rejects ("007",  *)
(* "1.", "1.e5"): the full parser assigns them nothing, so the statement     *)
(* says nothing about them.                                                  *)
Outside(txt) == Fast(txt) \in {"int", "real"} /\ Class(txt) = "notLiteral"
                /\ (GoInt(Trim(txt)) \/ GoFloat(Trim(txt)))

-----------------------------------------------------------------------------
Init == text = <<>>
Next == /\ Len(text) < MaxLen
        /\ \E t \in Tok : text' = Append(text, t)
Spec == Init /\ [][Next]_vars

TypeOK == /\ text \in Seq(Tok) /\ Len(text) <= MaxLen
          /\ Class(text) \in Classes /\ Fast(text) \in Branches

ShortcutSound ==
  Fast(text) # "none" =>
     \/ Outside(text)
     \/ (Fast(text) = Class(text) /\ FastVal(text) = ClassVal(text))

\* the fast path is an optimisation, not a second grammar: every simple literal it
\* declines is still a literal for the full parser (nothing to check in the model),
\* and it never declines a boolean word or a canonical number.
ShortcutTakesCanonical ==
  (Class(text) \in {"bool"} => Fast(text) = "bool")
=============================================================================
