------------------------------- MODULE Server -------------------------------
(***************************************************************************)
(* C05 - the server runs a command only on a session that meets that       *)
(* command's policy.                                                        *)
(*                                                                         *)
(* Model of server/server.go (ServeConn dispatch loop) and of the part of  *)
(* security/auth.go that produces the record the loop consults.  One       *)
(* action per public call / critical section:                              *)
(*                                                                         *)
(*   Connect(cmd, kind, want, user, out)  a client of kind `kind` opens a  *)
(*        connection with DC_AUTHENTICATE naming `cmd`; `out` is the       *)
(*        outcome of the security handshake (ServerHandshakeWithMessage)   *)
(*   ReconnectResume(sid, cmd, out)  new connection naming cached session  *)
(*        sid for command cmd (handleSessionResumption)                    *)
(*   RawCommand(cmd)      new connection, bare command int, no handshake   *)
(*   Run / RunRaw / Refuse  one pass through the dispatch critical section *)
(*        (lookup, h.raw test, sessionSatisfies, handler call | close)     *)
(*   FollowOn(cmd)        next command int on a kept-alive connection      *)
(*   ChangePolicy(t), ChangeAuthorizer(t)   reconfiguration                *)
(*                                                                         *)
(* What is REAL and what is REPORTED are kept apart: neg.authReal /        *)
(* neg.encReal say what actually happened on the connection (a method      *)
(* exchange ran; a key is installed and frames are protected),             *)
(* neg.authFlag / neg.encFlag are what the handshake reports.  The         *)
(* property is about the former.                                           *)
(*                                                                         *)
(* Permissive = TRUE  : every behaviour the property statement allows: any *)
(*     handshake outcome that is physically possible for the client kind,  *)
(*     and the server may refuse (abort) at any dispatch.  Used for model  *)
(*     checking the invariants and for validating traces recorded from the *)
(*     real server (Server_Trace.tla).                                     *)
(* Permissive = FALSE : the intended design as a deterministic function of *)
(*     the inputs (negotiation table of security/auth.go negotiateSecurity,*)
(*     handler runs iff adequate).  Used to generate input scripts and the *)
(*     expected log (Gen_Server.tla).                                      *)
(* Bug : names of known-wrong designs, for non-vacuity self-tests only.    *)
(***************************************************************************)
EXTENDS Integers, Sequences, FiniteSets, TLC

CONSTANTS
  MaxConns,      \* connections per behaviour
  MaxCmds,       \* commands per connection (first + follow-ons)
  PolicyTabs,    \* subset of {1,2}: policy tables ChangePolicy may select
  AuthzTabs,     \* subset of {0,1,2}: authorizer tables (0 = no Authorizer)
  InitAuthz,     \* subset of AuthzTabs: initial table
  InitPtab,      \* subset of PolicyTabs: initial policy table
  Users,         \* identities an honest client can prove, subset of {"alice","bob"}
  Permissive,
  Bug

AuthCmds  == {"R", "W", "A", "I"}  \* registered with Server.Handle
RawCmds   == {"X"}                 \* registered with Server.HandleRaw
OtherCmds == {"U"}                 \* not registered
AllCmds   == AuthCmds \cup RawCmds \cup OtherCmds
Kinds     == {"honest", "skipsKeyAgreement", "noCipher", "unauthenticated"}
Wants     == {"weak", "prefer", "strong"}   \* the client's own levels: OPTIONAL / PREFERRED / REQUIRED
None      == "none"
Anon      == "anon"                \* identity of an unauthenticated session

-----------------------------------------------------------------------------
(* configuration tables (the harness installs exactly these on the real      *)
(* server through SecurityConfigForCommand / Handle perms / Authorizer)      *)

L(a, e, i) == [auth |-> a, enc |-> e, integ |-> i]

Policy(t) ==
  IF t = 1
  THEN [c \in AllCmds |->
          CASE c = "W" -> L("REQUIRED", "OPTIONAL", "OPTIONAL")
            [] c = "A" -> L("REQUIRED", "REQUIRED", "REQUIRED")
            [] c = "I" -> L("OPTIONAL", "OPTIONAL", "REQUIRED")   \* integrity only
            [] OTHER   -> L("OPTIONAL", "OPTIONAL", "OPTIONAL")]
  ELSE [c \in AllCmds |->
          CASE c = "R" -> L("OPTIONAL", "OPTIONAL", "REQUIRED")
            [] c = "W" -> L("REQUIRED", "PREFERRED", "OPTIONAL")
            [] c = "A" -> L("PREFERRED", "REQUIRED", "OPTIONAL")
            [] c = "I" -> L("OPTIONAL", "PREFERRED", "REQUIRED")
            [] OTHER   -> L("OPTIONAL", "OPTIONAL", "OPTIONAL")]

Perms == [c \in AllCmds |->
            CASE c = "R" -> {"READ"}
              [] c = "W" -> {"WRITE"}
              [] c = "A" -> {"ADMIN", "DAEMON"}
              [] c = "I" -> {"READ"}
              [] OTHER   -> {}]

AllUsers == {"alice", "bob", Anon}

Authz(t) ==
  IF t = 1
  THEN [u \in AllUsers |->
          CASE u = "alice" -> {"READ", "WRITE", "ADMIN"}
            [] u = "bob"   -> {"READ"}
            [] OTHER       -> {"READ"}]
  ELSE [u \in AllUsers |->
          CASE u = "alice" -> {"READ"}
            [] u = "bob"   -> {"READ", "WRITE", "DAEMON"}
            [] OTHER       -> {}]

-----------------------------------------------------------------------------
VARIABLES
  ptab,      \* current policy table
  atab,      \* current authorizer table (0 = none configured)
  sessions,  \* sequence: sid -> [authed, keyed, user, atab0]
  conn,      \* the connection being served
  nconn,     \* connections opened so far
  log,       \* handler invocations
  refused    \* connection numbers on which something was refused

vars == <<ptab, atab, sessions, conn, nconn, log, refused>>

NoNeg == [authReal |-> FALSE, encReal |-> FALSE, authFlag |-> FALSE, encFlag |-> FALSE,
          user |-> Anon, resumed |-> FALSE, sid |-> 0, atab0 |-> 0]

Idle(st) == [st |-> st, via |-> "none", kind |-> "none", neg |-> NoNeg,
             pending |-> None, ncmds |-> 0]

Init ==
  /\ ptab \in InitPtab
  /\ atab \in InitAuthz
  /\ sessions = << >>
  /\ conn = Idle("none")
  /\ nconn = 0
  /\ log = << >>
  /\ refused = {}

-----------------------------------------------------------------------------
(* the property's notion of an adequate session, on REAL attributes, under   *)
(* the CURRENT policy and authorizer tables                                  *)

LevelOK(cmd, a, e) ==
  LET p == Policy(ptab)[cmd] IN
  /\ (p.auth = "REQUIRED" => a)
  /\ ((p.enc = "REQUIRED" \/ p.integ = "REQUIRED") => e)

AuthzOK(cmd, t, u) == t = 0 \/ \E l \in Perms[cmd] : l \in Authz(t)[u]

Adequate(cmd, n) ==
  /\ cmd \in AuthCmds
  /\ LevelOK(cmd, n.authReal, n.encReal)
  /\ AuthzOK(cmd, atab, n.user)

\* which conjunct fails first (used by the trace validator to name a rejection)
Lacks(cmd, n) ==
  LET p == Policy(ptab)[cmd] IN
  IF cmd \notin AuthCmds THEN "registration"
  ELSE IF p.auth = "REQUIRED" /\ ~n.authReal THEN "auth"
  ELSE IF (p.enc = "REQUIRED" \/ p.integ = "REQUIRED") /\ ~n.encReal THEN "enc"
  ELSE IF ~AuthzOK(cmd, atab, n.user) THEN "authz"
  ELSE "nothing"

-----------------------------------------------------------------------------
(* handshake outcomes                                                        *)

ClientLevels(kind, want) ==
  LET lvl == CASE want = "strong" -> "REQUIRED" [] want = "prefer" -> "PREFERRED" [] OTHER -> "OPTIONAL" IN
  [auth |-> IF kind = "unauthenticated" THEN "OPTIONAL" ELSE lvl, enc |-> lvl]

\* negotiateSecurity: "fail" | "yes" | "no"
Decide(s, c, common) ==
  IF (s = "REQUIRED" /\ c = "NEVER") \/ (s = "NEVER" /\ c = "REQUIRED") THEN "fail"
  ELSE LET w == IF s = "REQUIRED" \/ c = "REQUIRED" THEN TRUE
                ELSE IF s = "NEVER" \/ c = "NEVER" THEN FALSE
                ELSE IF s = "PREFERRED" \/ c = "PREFERRED" THEN common
                ELSE FALSE
       IN IF w /\ ~common THEN "fail" ELSE IF w THEN "yes" ELSE "no"

Out(ok, a, e, af, ef) == [ok |-> ok, authReal |-> a, encReal |-> e, authFlag |-> af, encFlag |-> ef]
Failed == Out(FALSE, FALSE, FALSE, FALSE, FALSE)

\* intended design.  security/auth.go setupStreamEncryption keys the stream
\* whenever both ends sent an ECDH public key and share AES, whatever the
\* levels (they only decide whether the lack of it is fatal).  REQUIRED means
\* required: when encryption was decided and the key agreement cannot
\* complete (the client sent no key) the handshake fails.
Ideal(cmd, kind, want) ==
  LET p  == Policy(ptab)[cmd]
      cl == ClientLevels(kind, want)
      a  == Decide(p.auth, cl.auth, kind # "unauthenticated")
      e  == Decide(p.enc, cl.enc, kind # "noCipher")
      keyless == kind \in {"skipsKeyAgreement", "noCipher"}
      \* protection is DEMANDED by an end whose own policy says REQUIRED; a session
      \* that was merely going to be encrypted (PREFERRED) goes on in plaintext -
      \* and must then be REPORTED as plaintext
      demanded == p.enc = "REQUIRED" \/ p.integ = "REQUIRED" \/ cl.enc = "REQUIRED"
  IN IF a = "fail" \/ e = "fail" THEN Failed
     ELSE IF keyless
          THEN IF demanded
               THEN IF "TrustReportedEnc" \in Bug /\ e = "yes"
                    THEN Out(TRUE, a = "yes", FALSE, a = "yes", TRUE)   \* the pinned tree's code
                    ELSE Failed
               ELSE IF "FlagNotResetWithoutKey" \in Bug /\ e = "yes"
                    THEN Out(TRUE, a = "yes", FALSE, a = "yes", TRUE)
                    ELSE Out(TRUE, a = "yes", FALSE, a = "yes", FALSE)
          ELSE Out(TRUE, a = "yes", TRUE, a = "yes", TRUE)

\* everything that is physically possible for the client kind: an
\* unauthenticated client proves no identity; a client that skips the key
\* agreement, or offers no cipher the server knows, shares no key with it.
Possible(kind) ==
  { Out(TRUE, a, e, a, e) :
      a \in (IF kind = "unauthenticated" THEN {FALSE} ELSE BOOLEAN),
      e \in (IF kind \in {"skipsKeyAgreement", "noCipher"} THEN {FALSE} ELSE BOOLEAN) }
  \cup {Failed}
  \cup (IF "TrustReportedEnc" \in Bug /\ kind = "skipsKeyAgreement"
        THEN { Out(TRUE, a, FALSE, a, TRUE) : a \in BOOLEAN } ELSE {})

\* Bug "FlagNotResetWithoutKey": a handshake that was going to encrypt
\* (PREFERRED) but ends without a key goes on in plaintext - correctly, nothing
\* demanded protection - yet keeps REPORTING Encryption = TRUE.  The first
\* command is safe (a policy that demands protection refuses the key-less
\* handshake); a kept-alive follow-on with a stricter policy is not.
StaleFlag(cmd, kind) ==
  IF "FlagNotResetWithoutKey" \in Bug /\ kind \in {"skipsKeyAgreement", "noCipher"}
     /\ Policy(ptab)[cmd].enc # "REQUIRED" /\ Policy(ptab)[cmd].integ # "REQUIRED"
  THEN { Out(TRUE, a, FALSE, a, TRUE) : a \in BOOLEAN } ELSE {}

NegOutcomes(cmd, kind, want) ==
  IF Permissive THEN Possible(kind) \cup StaleFlag(cmd, kind) ELSE {Ideal(cmd, kind, want)}

-----------------------------------------------------------------------------
(* connections                                                               *)

CanOpen == conn.pending = None /\ nconn < MaxConns

Connect(cmd, kind, want, user, out) ==
  /\ CanOpen
  /\ out \in NegOutcomes(cmd, kind, want)
  /\ nconn' = nconn + 1
  /\ IF out.ok
     THEN LET u == IF out.authReal THEN user ELSE Anon
              n == [authReal |-> out.authReal, encReal |-> out.encReal,
                    authFlag |-> out.authFlag, encFlag |-> out.encFlag,
                    user |-> u, resumed |-> FALSE, sid |-> Len(sessions) + 1, atab0 |-> atab]
          IN /\ sessions' = Append(sessions, [authed |-> out.authReal, keyed |-> out.encReal,
                                              user |-> u, atab0 |-> atab])
             /\ conn' = [st |-> "open", via |-> "fresh", kind |-> kind, neg |-> n,
                         pending |-> cmd, ncmds |-> 1]
             /\ UNCHANGED refused
     ELSE /\ conn' = Idle("closed")
          /\ refused' = refused \cup {nconn + 1}
          /\ UNCHANGED sessions
  /\ UNCHANGED <<ptab, atab, log>>

\* out = [ok, encReal]: a resumed connection is protected only if the cached
\* session carries a key; whether a key-less session may be resumed at all is
\* C06's question, so both answers are allowed here.
ResumeOutcomes(sid) ==
  IF Permissive
  THEN {[ok |-> FALSE, encReal |-> FALSE]} \cup
       {[ok |-> TRUE, encReal |-> e] : e \in (IF sessions[sid].keyed THEN BOOLEAN ELSE {FALSE})}
  ELSE {[ok |-> TRUE, encReal |-> sessions[sid].keyed]}

ReconnectResume(sid, cmd, out) ==
  /\ CanOpen
  /\ sid \in 1..Len(sessions)
  /\ out \in ResumeOutcomes(sid)
  /\ nconn' = nconn + 1
  /\ IF out.ok
     THEN LET s == sessions[sid]
              n == [authReal |-> s.authed, encReal |-> out.encReal,
                    authFlag |-> s.authed, encFlag |-> out.encReal,
                    user |-> s.user, resumed |-> TRUE, sid |-> sid, atab0 |-> s.atab0]
          IN /\ conn' = [st |-> "open", via |-> "resumed", kind |-> "resumer", neg |-> n,
                         pending |-> cmd, ncmds |-> 1]
             /\ UNCHANGED refused
     ELSE /\ conn' = Idle("closed")
          /\ refused' = refused \cup {nconn + 1}
  /\ UNCHANGED <<ptab, atab, sessions, log>>

RawCommand(cmd) ==
  /\ CanOpen
  /\ nconn' = nconn + 1
  /\ conn' = [st |-> "open", via |-> "raw", kind |-> "raw", neg |-> NoNeg,
              pending |-> cmd, ncmds |-> 1]
  /\ UNCHANGED <<ptab, atab, sessions, log, refused>>

FollowOn(cmd) ==
  /\ conn.st = "open" /\ conn.pending = None /\ conn.via # "raw"
  /\ conn.ncmds < MaxCmds
  /\ conn' = [conn EXCEPT !.pending = cmd, !.via = "followon", !.ncmds = @ + 1]
  /\ UNCHANGED <<ptab, atab, sessions, nconn, log, refused>>

-----------------------------------------------------------------------------
(* the dispatch critical section                                             *)

\* what the server's check evaluates (equal to Adequate unless a Bug is set)
Guard(cmd) ==
  LET n   == conn.neg
      p   == Policy(ptab)[cmd]
      es  == IF Bug \cap {"TrustReportedEnc", "FlagNotResetWithoutKey"} # {} THEN n.encFlag ELSE n.encReal
      ni  == p.integ = "REQUIRED" /\ "IntegrityForgotten" \notin Bug
      lvl == /\ (p.auth = "REQUIRED" => n.authReal)
             /\ ((p.enc = "REQUIRED" \/ ni) => es)
      az  == IF "StaleAuthz" \in Bug THEN AuthzOK(cmd, n.atab0, n.user)
             ELSE AuthzOK(cmd, atab, n.user)
      skipAll == "NoFollowOnCheck" \in Bug /\ conn.via = "followon"
      skipAz  == "NoAuthzOnResume" \in Bug /\ n.resumed
  IN (skipAll \/ lvl) /\ (skipAll \/ skipAz \/ az)

Registered(cmd) ==
  \/ cmd \in AuthCmds
  \/ ("RawViaAuth" \in Bug /\ cmd \in RawCmds)

Entry(cmd, path) ==
  [conn |-> nconn, cmd |-> cmd, path |-> path, via |-> conn.via,
   adequate |-> IF path = "raw" THEN TRUE ELSE Adequate(cmd, conn.neg),
   afterRefusal |-> nconn \in refused]

CanRun == /\ conn.st = "open" /\ conn.pending # None /\ conn.via # "raw"
          /\ Registered(conn.pending) /\ Guard(conn.pending)

CanRunRaw == /\ conn.st = "open" /\ conn.pending # None /\ conn.via = "raw"
             /\ \/ conn.pending \in RawCmds
                \/ ("AuthViaRaw" \in Bug /\ conn.pending \in AuthCmds)

\* authenticated handler invoked; the harness's handlers always ask for keep-alive
Run ==
  /\ CanRun
  /\ log' = Append(log, Entry(conn.pending, "auth"))
  /\ conn' = [conn EXCEPT !.pending = None]
  /\ UNCHANGED <<ptab, atab, sessions, nconn, refused>>

\* raw handler invoked; Server.run closes the connection afterwards
RunRaw ==
  /\ CanRunRaw
  /\ log' = Append(log, Entry(conn.pending, "raw"))
  /\ conn' = [conn EXCEPT !.pending = None, !.st = "closed"]
  /\ UNCHANGED <<ptab, atab, sessions, nconn, refused>>

\* refused / unknown command: the connection is closed, no handler
Refuse ==
  /\ conn.st = "open" /\ conn.pending # None
  /\ Permissive \/ (~CanRun /\ ~CanRunRaw)
  /\ refused' = refused \cup {nconn}
  /\ conn' = IF "NoCloseOnRefuse" \in Bug /\ conn.via # "raw"
             THEN [conn EXCEPT !.pending = None]
             ELSE [conn EXCEPT !.pending = None, !.st = "closed"]
  /\ UNCHANGED <<ptab, atab, sessions, nconn, log>>

ChangePolicy(t) ==
  /\ conn.pending = None
  /\ t \in PolicyTabs /\ t # ptab
  /\ ptab' = t
  /\ UNCHANGED <<atab, sessions, conn, nconn, log, refused>>

ChangeAuthorizer(t) ==
  /\ conn.pending = None
  /\ t \in AuthzTabs /\ t # atab
  /\ atab' = t
  /\ UNCHANGED <<ptab, sessions, conn, nconn, log, refused>>

Next ==
  \/ \E cmd \in AllCmds, kind \in Kinds, want \in Wants, user \in Users :
       \E out \in NegOutcomes(cmd, kind, want) : Connect(cmd, kind, want, user, out)
  \/ \E sid \in 1..Len(sessions), cmd \in AllCmds :
       \E out \in ResumeOutcomes(sid) : ReconnectResume(sid, cmd, out)
  \/ \E cmd \in AllCmds : RawCommand(cmd)
  \/ \E cmd \in AllCmds : FollowOn(cmd)
  \/ Run \/ RunRaw \/ Refuse
  \/ \E t \in PolicyTabs : ChangePolicy(t)
  \/ \E t \in AuthzTabs : ChangeAuthorizer(t)

Spec == Init /\ [][Next]_vars

-----------------------------------------------------------------------------
(* the property                                                              *)

TypeOK ==
  /\ ptab \in {1, 2} /\ atab \in {0, 1, 2}
  /\ nconn \in 0..MaxConns
  /\ conn.st \in {"none", "open", "closed"}
  /\ conn.pending \in AllCmds \cup {None}
  /\ \A i \in DOMAIN sessions : sessions[i].user \in AllUsers
  /\ refused \subseteq 1..MaxConns

\* every authenticated handler invocation happened on a session that was,
\* at that moment, REALLY authenticated / encrypted as the command's current
\* policy demands and whose identity the current authorizer admits
HandlerOnlyOnAdequateSession ==
  \A i \in DOMAIN log : log[i].path = "auth" => log[i].adequate

\* authenticated handlers only through the authenticated path and vice versa
RawAuthSeparated ==
  \A i \in DOMAIN log :
    /\ log[i].path = "auth" => (log[i].cmd \in AuthCmds /\ log[i].via # "raw")
    /\ log[i].path = "raw"  => (log[i].cmd \in RawCmds /\ log[i].via = "raw")

\* once anything was refused on a connection no handler runs on it
RefusedClosesWithoutHandler ==
  /\ \A i \in DOMAIN log : ~log[i].afterRefusal
  /\ (nconn \in refused /\ conn.pending = None) => conn.st = "closed"
=============================================================================
