\* C08 generator: prints every ad shape x configuration of MC_C08_wire.cfg
SPECIFICATION GenSpec
CONSTANTS
  MaxAttrs = 3
  AttrClasses = {"pubA", "claimid"}
  Spellings = {"mixed"}
  OptWords = {0, 1, 32, 33}
  Whitelists = {"none"}
  Versions = {"unset"}
  StreamStates = {"nokey", "enc", "keyedClear"}
  TypeModes = {"both", "none"}
  CutPlans = {"one", "each", "split"}
  Bug = {}
INVARIANTS EmitTrace
CHECK_DEADLOCK FALSE
