\* self-test: with Bug = {ZeroCommandUnmapped} TLC must report an invariant violated
SPECIFICATION Spec
CONSTANTS
  Tier = "quick"
  SecretRels = {"same", "diff"}
  Bug = {"ZeroCommandUnmapped"}
INVARIANTS TypeOK SameSession ResumesBothWays ResumesByCommand WrongSecretFails PublicFormHidesSecret PolicyRoundTrips
CHECK_DEADLOCK FALSE
