\* self-test: with Bug = {ExpiryDroppedOnImport} TLC must report an invariant violated
SPECIFICATION Spec
CONSTANTS
  Tier = "quick"
  SecretRels = {"same", "diff"}
  Bug = {"ExpiryDroppedOnImport"}
INVARIANTS TypeOK SameSession ResumesBothWays ResumesByCommand WrongSecretFails PublicFormHidesSecret PolicyRoundTrips
CHECK_DEADLOCK FALSE
