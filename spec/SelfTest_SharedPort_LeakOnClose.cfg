\* non-vacuity: with Bug = {"LeakOnClose"} TLC must report NoLeak violated
SPECIFICATION Spec
CONSTANTS
  Mode = "listener"
  Origins = {"listen", "adopt"}
  MaxD = 2
  MaxAcc = 2
  MaxClose = 2
  Scripts <- MixScriptsTwo
  Shapes <- NoShapes
  ErrClasses = {}
  Bug = {"LeakOnClose"}
INVARIANTS NoLeak
CHECK_DEADLOCK FALSE
