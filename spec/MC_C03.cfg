\* C03 (thorough: eight method lists (all orders of all subsets of {C,P}, four lists with a third method), integrity-only REQUIRED, pairs of deviations)
SPECIFICATION Spec
CONSTANTS
  Roles = {"client","server"}
  AuthLevels = {"REQUIRED","PREFERRED","OPTIONAL","NEVER"}
  EncLevels = {"REQUIRED","PREFERRED","OPTIONAL","NEVER"}
  IntegChoices = {"SAME","REQUIRED"}
  MethodLists <- ListsEight
  AllMethods = {"C","P","K"}
  Runnable = {"C"}
  PeerLevels = {"OPTIONAL","REQUIRED"}
  Modes = {"fresh","resumed"}
  PolicySources = {"base","hook"}
  IntegScope = "all"
  EstChoices = {"Honest","OmitECDH","TruncateECDH","NoCommonCipher"}
  Deviations = {"AnswerAuthNo","AnswerEncNo","OmitECDH","TruncateECDH","RandomECDH","ForeignECDH","NoCommonCipher","SelectUnofferedBit","SelectSeveralBits","SelectZero","ReportDenied","PostAuthDenied","PostAuthInClear","ResumeKeyless","ReplyWithoutKey"}
  MaxDev = 2
  Composites = {{"AnswerAuthNo","OmitECDH"}}
  Bug = {}
INVARIANTS TypeOK RequiredAuthRan RequiredEncOn ReportedEncTruthful ReportedAuthTruthful NoClearAfterKey
CHECK_DEADLOCK FALSE
