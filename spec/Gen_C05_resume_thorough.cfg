\* C05 generator (resume): intended design (Permissive = FALSE), inputs + expected log
SPECIFICATION GenSpec
CONSTANTS
  MaxConns = 2
  MaxCmds = 3
  PolicyTabs = {1, 2}
  AuthzTabs = {0, 1, 2}
  InitAuthz = {0, 1, 2}
  InitPtab = {1}
  Users = {"alice", "bob"}
  Permissive = FALSE
  Bug = {}
  GenMode = "resume"
  FollowCmds = {"R", "W", "A", "I"}
  MaxChanges = 1
INVARIANT EmitTrace
CHECK_DEADLOCK FALSE
