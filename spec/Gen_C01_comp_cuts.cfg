\* C01 (ii-a): every composition of a message of 1..6 bytes into frames, whole-message reads
SPECIFICATION GenSpec
CONSTANTS
  Max = 1048576
  FlushAt = 4096
  Target = 16384
  Tag = 16
  IVLen = 16
  Hdr = 5
  Encs = {TRUE, FALSE}
  SendApis = {"frames"}
  RecvApis = {"complete", "startread", "typed"}
  WriteSizes = {1, 2, 3, 4, 5, 6}
  StrSizes = {}
  StrBytesSizes = {}
  ReadSizes = {0}
  MaxMsgs = 1
  MaxWrites = 6
  MaxReads = 1
  MaxLen = 6
  PairFirst = {}
  TypedFlush = {TRUE}
  Interleave = FALSE
  MaxAbandon = 0
  Bug = {}
INVARIANT EmitTrace
CHECK_DEADLOCK FALSE
