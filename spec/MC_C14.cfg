\* C14 thorough: every sequence of <= 3 of 9 value tokens (7 type shapes), every pair of cuts, both modes
SPECIFICATION Spec
CONSTANTS
  ValueNames = {"char_A", "int_12345", "int_m1", "wide_min64", "dbl_m0375", "str_ab", "str_a0b", "str_empty", "str_euro"}
  MaxVals = 3
  MaxCuts = 2
  Encs = {TRUE, FALSE}
  Bug = {}
INVARIANTS TypeOK LayoutExamples SizeOK DoubleShape CutIndependence
CHECK_DEADLOCK FALSE
