\* C20: one broker, standard (reverse-connect) mode
SPECIFICATION Spec
CONSTANTS
  NB = 1
  MaxRogue = 3
  RogueKinds = {"wrongId", "emptyId", "staleId", "garbage", "close", "stall"}
  MaxMsgs = 0
  Mode = "standard"
  Bug = {}
INVARIANTS TypeOK ReturnedPresentedFreshId AtMostOneReturned OthersClosed BrokerFailureEndsAttempt
CHECK_DEADLOCK FALSE
