\* C20 (standard mode, 1 broker(s), <= 3 rogue connections / <= 0 broker messages)
SPECIFICATION Spec
CONSTANTS
  NB = 1
  MaxRogue = 3
  RogueKinds = {"wrongId", "emptyId", "staleId", "badGreeting", "garbage", "close", "stall"}
  MaxMsgs = 0
  Mode = "standard"
  Bug = {}
INVARIANTS TypeOK ReturnedPresentedFreshId AtMostOneReturned OthersClosed BrokerFailureEndsAttempt
CHECK_DEADLOCK FALSE
