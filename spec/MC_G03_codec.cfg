\* G03: every request / header shape x every damage class
SPECIFICATION Spec
CONSTANTS
  Mode = "codec"
  AdTypes = {"", "plain", "quoted"}
  Constraints = {"", "expr", "exprQuoted"}
  ByteVals = {"nil", "empty", "b1", "bnul"}
  Kinds <- KindsAll
  Damages = {"dropKind", "kindNotInt", "badKey", "badCursor", "dropType", "typeNotString", "keyNotString", "cursorNotString", "constraintNotString"}
  Keys = {1, 2}
  MaxLog = 3
  MaxConns = 3
  MaxCuts = 2
  MaxEmit = 8
  Bug = {}
INVARIANTS RoundTrip MalformedIsError OtherDamageIsHarmless
CHECK_DEADLOCK FALSE
