\* non-vacuity: with Bug = {"DoubleReply"} TLC must report AtMostOneReply violated
SPECIFICATION Spec
CONSTANTS
  NB = 1
  MaxConn = 2
  MaxReq = 2
  MaxTick = 1
  MaxMsg = 1
  RegAnswers = {"fresh", "same", "refuse", "hangup"}
  Targets = {"accept", "refuse"}
  Msgs = {"malformed"}
  Bug = {"DoubleReply"}
INVARIANTS AtMostOneReply
CHECK_DEADLOCK FALSE
