----------------------------- MODULE Handshake -----------------------------
(***************************************************************************)
(* The CEDAR security handshake of cedar's security.Authenticator, seen as *)
(* a client "c" and a server "s" joined by one FIFO wire per direction on  *)
(* which an on-path relay may act.  Serves properties                      *)
(*   C10 (honest peers negotiate by the policy table and agree) and        *)
(*   C04 (the cleartext handshake is bound into the secure channel);       *)
(* C03 (scripted-evil peers) extends this module elsewhere.                *)
(*                                                                         *)
(* One action per step of security/auth.go:                                *)
(*   ClientHello          performFullAuthentication: DC_AUTHENTICATE + ad  *)
(*   ServerNegotiate      ServerHandshakeWithMessage: negotiateSecurity,   *)
(*                        createServerSecurityAd (OK) or                   *)
(*                        sendNegotiationFailureResponse (Deny)            *)
(*   ClientReadServerAd   ReturnCode check, client-side view of the result *)
(*   BitmaskOffer         handleClientAuthentication: send method bitmask  *)
(*   ServerSelect         handleServerAuthentication: pick in server order *)
(*   RunMethod(e)         performAuthentication (one frame per step of the *)
(*                        method's script; result ok / fail at the end)    *)
(*   KeyExchange(e)       exchangeKey (server sends the empty-key flag)    *)
(*   InstallKey(e)        setupStreamEncryption -> SetSymmetricKey, or     *)
(*                        FinalizeDigests when no key is agreed            *)
(*   Store("s"), PostAuthSend   createPostAuthAd + storeSession, send      *)
(*   PostAuthRecv, Store("c")   read post-auth ad, storeClientSession      *)
(*   ResumeRequest / ResumeReply / ResumeRecv   resumeSession,             *)
(*                        handleSessionResumption (with or without reply)  *)
(*   PreClientSend / PreServer / PreClientRecv   bare streams that exchange *)
(*                        0/1 cleartext frames each way, SetSymmetricKey   *)
(*   AppSend(e) / AppRecv(e)    first application message each way         *)
(*   Abort(e)             any local failure / timeout / peer gone          *)
(*   Modify, InsertFrame, RemoveFrame, Split, Merge   the relay (C04)      *)
(*                                                                         *)
(* The model is the INTENDED design as the property statements give it.    *)
(* Where they are silent it is permissive: the server may or may not turn  *)
(* encryption on when nobody requires it, may or may not authenticate when *)
(* both sides are OPTIONAL, an endpoint may abort at any step once the     *)
(* wire was tampered with, and which step notices a tampering is open.     *)
(* Known wrong designs are members of Bug (used for non-vacuity only).     *)
(*                                                                         *)
(* Cryptography is symbolic: a key is a term built from the two public     *)
(* values each end saw; a transcript is the sequence of (direction, index, *)
(* variant) items an end sent / received in the clear; the first protected *)
(* frame of a direction carries the sender's two frozen transcripts and    *)
(* opens iff key and (mirrored) transcripts are equal.                     *)
(***************************************************************************)
EXTENDS Integers, Sequences, FiniteSets, TLC

CONSTANTS
  CAuth, SAuth, CEnc, SEnc,   \* sets of levels to draw each policy from
  CMethods, SMethods,         \* sets of method lists (sequences of method names)
  CCiphers, SCiphers,         \* sets of cipher lists
  CmdModes,                   \* subset of BOOLEAN: command present / auth-only
  Shapes,                     \* subset of {"full", "resume", "resume1", "pre00", "pre10", "pre01", "pre11"}
  SameLists,                  \* TRUE: client and server use the same method list (C04 shapes)
  RelayBudget,                \* number of relay actions allowed (0 = honest wire)
  AllowAbort,                 \* endpoints may abort spontaneously even on an untouched wire
  Bug                         \* set of names of known wrong designs (empty = intended design)

Level == {"REQUIRED", "PREFERRED", "OPTIONAL", "NEVER"}
End   == {"c", "s"}
Dir   == {"c2s", "s2c"}
Peer(e) == IF e = "c" THEN "s" ELSE "c"
Out(e)  == IF e = "c" THEN "c2s" ELSE "s2c"
In(e)   == IF e = "c" THEN "s2c" ELSE "c2s"

(* Abstract authentication methods.  "A", "B": implemented and usable (the
   binding uses CLAIMTOBE and TOKEN); "C": a third usable NAME whose exchange is
   that of "B" (the binding uses the second spelling of the token method,
   IDTOKENS, which shares B's wire bit: the two are different names and the ends
   must report the same one); "F": implemented but its exchange fails
   at run time; "U": a known name without an implementation (PASSWORD);
   anything else: an unknown name.                                           *)
Kind(m) == CASE m \in {"A", "B", "C"} -> "usable"
             [] m = "F" -> "failsrt"
             [] m = "U" -> "unimpl"
             [] OTHER   -> "unknown"
Implemented(m) == Kind(m) \in {"usable", "failsrt"}
Usable(m)      == Kind(m) = "usable"
(* frames of a method's exchange, by direction *)
Script(m) == CASE m = "A" -> <<"c2s", "s2c">>
               [] m \in {"B", "C"} -> <<"c2s", "s2c", "c2s">>
               [] m = "F" -> <<"c2s", "s2c">>
               [] OTHER   -> << >>
UsableCipher(x) == x = "AES"

(* Named list shapes for the configuration files (a .cfg cannot spell << >>). *)
Lists8   == { << >>, <<"A">>, <<"B">>, <<"A", "B">>, <<"B", "A">>, <<"U">>, <<"U", "A">>, <<"X">> }
Ciphers4 == { << >>, <<"AES">>, <<"BF">>, <<"BF", "AES">> }
Ciphers2 == { <<"AES">>, <<"BF">> }          \* one usable, one not (quick tier model check)
ListsC04 == { << >>, <<"A">>, <<"B">> }      \* no authentication, CLAIMTOBE, TOKEN
ListsF   == { <<"F">>, <<"F", "A">>, <<"A">> }
OnlyAES  == { <<"AES">> }

InSeq(x, s) == \E i \in 1..Len(s) : s[i] = x
Filter(s, P(_)) == SelectSeq(s, P)
First(s) == IF s = << >> THEN "NONE" ELSE s[1]
Without(s, x) == SelectSeq(s, LAMBDA y : y # x)

-----------------------------------------------------------------------------
(* The policy table, written from the statement of C10 only.                 *)
Conflict(a, b) == (a = "REQUIRED" /\ b = "NEVER") \/ (a = "NEVER" /\ b = "REQUIRED")
Either(a, b, l) == a = l \/ b = l

(* first method of the server's list that the client also lists and that can
   actually authenticate; "NONE" if there is none                            *)
CommonUsable(cl, sl) == First(Filter(sl, LAMBDA m : InSeq(m, cl) /\ Usable(m)))
CommonCipher(cl, sl) == First(Filter(sl, LAMBDA x : InSeq(x, cl) /\ UsableCipher(x)))

(* "yes" / "no" / "either" (statement silent) *)
WantAuth(a, b, avail) ==
  IF Either(a, b, "REQUIRED") THEN "yes"
  ELSE IF Either(a, b, "NEVER") THEN "no"
  ELSE IF Either(a, b, "PREFERRED") THEN (IF avail THEN "yes" ELSE "no")
  ELSE (IF avail THEN "either" ELSE "no")
WantEnc(a, b, avail) ==
  IF Either(a, b, "REQUIRED") THEN "yes"
  ELSE IF avail THEN "either" ELSE "no"

Expected(c, s) ==
  LET am == CommonUsable(c.methods, s.methods)
      cm == CommonCipher(c.ciphers, s.ciphers)
      wa == WantAuth(c.auth, s.auth, am # "NONE")
      we == WantEnc(c.enc, s.enc, cm # "NONE")
      ok == ~( Conflict(c.auth, s.auth) \/ Conflict(c.enc, s.enc)
               \/ (wa = "yes" /\ am = "NONE") \/ (we = "yes" /\ cm = "NONE") )
  IN [ok |-> ok, auth |-> wa, enc |-> we, method |-> am, cipher |-> cm]

-----------------------------------------------------------------------------
VARIABLES
  cfg,        \* [c, s : [auth, enc, methods, ciphers], cmd : BOOLEAN], fixed at Init
  shape,      \* "full": negotiation; "resume": resumption with a reply; "resume1": resumption
              \* without a reply (only c2s carries cleartext); "preXY": both ends hold a key
              \* beforehand and exchange X cleartext frames c2s, then Y s2c, before installing it
              \* (the four cleartext-prefix shapes neither / only c2s / only s2c / both)
  pc,         \* [End -> phase]
  chan,       \* [Dir -> Seq(Frame)] frames in flight (what the relay may touch)
  nsent,      \* [Dir -> Nat] frames put on the wire so far by the sender of the direction
  dec,        \* the server's decision
  cview,      \* the client's view of it
  offer,      \* client: methods still on offer (sequence)
  sel,        \* [End -> method being run | "NONE"]
  mstep,      \* [End -> Nat] frames of the method script handled so far
  ran,        \* [End -> method whose exchange completed successfully | "NONE"]
  key,        \* [End -> "none" | key term]
  sentClear, recvClear,   \* [End -> Seq(item)] running cleartext transcripts
  frozen,     \* [End -> BOOLEAN] transcripts frozen (key installed or digests finalized)
  protSent, protRecv,     \* [End -> Nat] protected frames sent / accepted
  confirmed,  \* [End -> BOOLEAN] the end accepted at least one protected frame
  outcome,    \* [End -> outcome record]
  stored,     \* [End -> BOOLEAN] session filed in the end's cache
  appAccepted,\* [End -> BOOLEAN] the end accepted an application message
  relayLeft, tampered

vars == <<cfg, shape, pc, chan, nsent, dec, cview, offer, sel, mstep, ran, key,
          sentClear, recvClear, frozen, protSent, protRecv, confirmed, outcome,
          stored, appAccepted, relayLeft, tampered>>

NoKey == <<"none">>          \* keys are tuples throughout (TLC compares only like with like)
NoOutcome == [st |-> "run", why |-> "", auth |-> FALSE, enc |-> FALSE, method |-> "NONE",
              sid |-> "", key |-> NoKey, resumed |-> FALSE]
NoDec == [auth |-> FALSE, enc |-> FALSE, must |-> FALSE, cands |-> << >>, cipher |-> "NONE", cpub |-> "none"]
NoView == [auth |-> FALSE, report |-> FALSE, enc |-> FALSE, cipher |-> "NONE", spub |-> "none"]

EndCfgs(A, E, M, X) == [auth : A, enc : E, methods : M, ciphers : X]

MkCfg(ca, ce, cm, cx, sa, se, sm, sx, cmd) ==
  [c |-> [auth |-> ca, enc |-> ce, methods |-> cm, ciphers |-> cx],
   s |-> [auth |-> sa, enc |-> se, methods |-> sm, ciphers |-> sx], cmd |-> cmd]

(* The policy LEVELS are fixed in the initial state; the lists and the command
   mode are filled in by the first action, Configure.  (Same reachable
   configurations as choosing everything at Init, but TLC computes initial
   states on one thread and successors on all of them.)                      *)
LevelsFromConstants ==
  \E ca \in CAuth, sa \in SAuth, ce \in CEnc, se \in SEnc :
       cfg = MkCfg(ca, ce, << >>, << >>, sa, se, << >>, << >>, TRUE)

InitRest ==
  /\ shape \in Shapes
  /\ pc = [c |-> "config", s |-> "waitHello"]
  /\ chan = [d \in Dir |-> << >>]
  /\ nsent = [d \in Dir |-> 0]
  /\ dec = NoDec /\ cview = NoView
  /\ offer = << >>
  /\ sel = [e \in End |-> "NONE"] /\ mstep = [e \in End |-> 0]
  /\ ran = [e \in End |-> "NONE"]
  /\ key = [e \in End |-> NoKey]
  /\ sentClear = [e \in End |-> << >>] /\ recvClear = [e \in End |-> << >>]
  /\ frozen = [e \in End |-> FALSE]
  /\ protSent = [e \in End |-> 0] /\ protRecv = [e \in End |-> 0]
  /\ confirmed = [e \in End |-> FALSE]
  /\ outcome = [e \in End |-> NoOutcome]
  /\ stored = [e \in End |-> shape \in {"resume", "resume1"}]    \* a resumable session is cached on both ends
  /\ appAccepted = [e \in End |-> FALSE]
  /\ relayLeft = RelayBudget /\ tampered = FALSE

Init == LevelsFromConstants /\ InitRest

-----------------------------------------------------------------------------
(* Frames.  k: kind; n: index among the frames of its direction; v: what the
   relay did to it; prot: sealed under key kk; digs: the sender's frozen
   transcripts when this is its first protected frame.                       *)
NoDigs == << >>
PreShapes == {"pre00", "pre10", "pre01", "pre11"}
PreC == shape \in {"pre10", "pre11"}       \* the client sends a cleartext frame before the key
PreS == shape \in {"pre01", "pre11"}       \* the server does
Frame(e, k, body) ==
  [k |-> k, d |-> Out(e), n |-> nsent[Out(e)] + 1, v |-> "orig",
   prot |-> FALSE, kk |-> NoKey, digs |-> NoDigs, body |-> body]

Item(f) == IF "HeaderNotHashed" \in Bug /\ f.v = "hdr" THEN <<f.d, f.n, "orig">> ELSE <<f.d, f.n, f.v>>

(* Bug "FreezeEarly": the digests stop before the authentication exchange *)
Hashed(f) == ~("FreezeEarly" \in Bug /\ f.k \in {"meth", "kx"})

(* e sends a cleartext frame: it enters e's running transcript unless frozen *)
SendClear(e, f) ==
  /\ chan' = [chan EXCEPT ![Out(e)] = Append(@, f)]
  /\ nsent' = [nsent EXCEPT ![Out(e)] = @ + 1]
  /\ sentClear' = IF frozen[e] \/ ~Hashed(f) THEN sentClear ELSE [sentClear EXCEPT ![e] = Append(@, Item(f))]

(* The two frozen transcripts an end binds into (expects in) the first protected
   frame.  A direction that carried nothing contributes the all-zero placeholder
   - here the empty sequence - and that is decided PER DIRECTION: the other
   direction's transcript still counts.  Bug "ZeroBothWhenOneEmpty": both become
   the placeholder as soon as one of them is empty.                          *)
Frozen(e) ==
  IF "ZeroBothWhenOneEmpty" \in Bug /\ (sentClear[e] = << >> \/ recvClear[e] = << >>)
  THEN << << >>, << >> >>
  ELSE <<sentClear[e], recvClear[e]>>
Mirror(p) == <<p[2], p[1]>>

(* e sends a frame after InstallKey: protected iff it holds a key *)
SendMaybeProt(e, f) ==
  LET p == key[e] # NoKey
      first == p /\ protSent[e] = 0
      omit == "NoDigestOnResume" \in Bug /\ shape = "resume"
      g == [f EXCEPT !.prot = p, !.kk = key[e],
                     !.digs = IF first /\ ~omit THEN Frozen(e) ELSE NoDigs]
  IN /\ chan' = [chan EXCEPT ![Out(e)] = Append(@, g)]
     /\ nsent' = [nsent EXCEPT ![Out(e)] = @ + 1]
     /\ protSent' = IF p THEN [protSent EXCEPT ![e] = @ + 1] ELSE protSent

HasIn(e) == chan[In(e)] # << >>
HeadIn(e) == Head(chan[In(e)])
PopIn(e) == [chan EXCEPT ![In(e)] = Tail(@)]

(* e takes a cleartext frame off the wire: it enters e's transcript *)
RecvClearT(e, f) == IF frozen[e] \/ ~Hashed(f) THEN recvClear ELSE [recvClear EXCEPT ![e] = Append(@, Item(f))]

(* Does a frame sent after the peer's InstallKey open at e?                  *)
Opens(e, f) ==
  IF ~f.prot THEN key[e] = NoKey                       \* cleartext is readable only by an unkeyed end
  ELSE /\ key[e] # NoKey /\ f.kk = key[e]
       /\ \/ "NoDigestOnResume" \in Bug /\ shape = "resume"
          \/ IF protRecv[e] = 0
             THEN f.digs = Mirror(Frozen(e))
             ELSE f.digs = NoDigs
       /\ f.v = "orig"

Fail(e, why) ==
  /\ pc' = [pc EXCEPT ![e] = "failed"]
  /\ outcome' = [outcome EXCEPT ![e] = [NoOutcome EXCEPT !.st = "fail", !.why = why]]

Terminal(e) == pc[e] \in {"done", "failed"}

-----------------------------------------------------------------------------
(* The configuration is completed: method lists, cipher lists, command mode.  *)
ConfigureWith(cm, sm, cx, sx, cmd) ==
  /\ pc["c"] = "config"
  /\ SameLists => cm = sm
  /\ cfg' = MkCfg(cfg.c.auth, cfg.c.enc, cm, cx, cfg.s.auth, cfg.s.enc, sm, sx, cmd)
  /\ pc' = [pc EXCEPT !["c"] = CASE shape \in {"resume", "resume1"} -> "rstart"
                                  [] shape \in PreShapes -> "psend"
                                  [] OTHER -> "start"]
  /\ UNCHANGED <<shape, chan, nsent, dec, cview, offer, sel, mstep, ran, key, sentClear, recvClear,
                 frozen, protSent, protRecv, confirmed, outcome, stored, appAccepted, relayLeft, tampered>>
Configure ==
  \E cm \in CMethods, sm \in SMethods, cx \in CCiphers, sx \in SCiphers, cmd \in CmdModes :
     ConfigureWith(cm, sm, cx, sx, cmd)

(* Full handshake, client side *)

ClientHello ==
  /\ pc["c"] = "start"
  /\ SendClear("c", Frame("c", "hello", [cfg |-> cfg.c, pub |-> "cpub"]))
  /\ pc' = [pc EXCEPT !["c"] = "waitAd"]
  /\ UNCHANGED <<cfg, shape, dec, cview, offer, sel, mstep, ran, key, recvClear, frozen,
                 protSent, protRecv, confirmed, outcome, stored, appAccepted, relayLeft, tampered>>

(* The server's decision, from its own policy and the client's ad.           *)
ServerNegotiate ==
  /\ pc["s"] = "waitHello" /\ HasIn("s") /\ HeadIn("s").k = "hello"
  /\ LET f  == HeadIn("s")
         cl == f.body.cfg
         sv == cfg.s
         cands == Filter(sv.methods, LAMBDA m : InSeq(m, cl.methods)
                                         /\ ("NoImplFilter" \in Bug \/ Implemented(m)))
         cm == CommonCipher(cl.ciphers, sv.ciphers)
         mustA == Either(cl.auth, sv.auth, "REQUIRED")
         mustE == Either(cl.enc, sv.enc, "REQUIRED")
         authChoices ==
           IF mustA THEN {TRUE}
           ELSE IF Either(cl.auth, sv.auth, "NEVER") THEN {FALSE}
           ELSE IF Either(cl.auth, sv.auth, "PREFERRED") THEN {cands # << >>}
           ELSE IF cands # << >> THEN BOOLEAN ELSE {FALSE}
         encChoices == IF mustE THEN {TRUE} ELSE IF cm = "NONE" THEN {FALSE} ELSE BOOLEAN
         deny == \/ Conflict(cl.auth, sv.auth) \/ Conflict(cl.enc, sv.enc)
                 \/ (mustA /\ cands = << >>) \/ (mustE /\ cm = "NONE")
     IN /\ recvClear' = RecvClearT("s", f)
        /\ IF deny
           THEN /\ IF "DenyByClose" \in Bug
                   THEN UNCHANGED <<nsent, sentClear>> /\ chan' = PopIn("s")
                   ELSE LET g == Frame("s", "deny", [x |-> 0]) IN
                        /\ chan' = [PopIn("s") EXCEPT !["s2c"] = Append(@, g)]
                        /\ nsent' = [nsent EXCEPT !["s2c"] = @ + 1]
                        /\ sentClear' = [sentClear EXCEPT !["s"] = Append(@, Item(g))]
                /\ Fail("s", "negotiation")
                /\ UNCHANGED dec
           ELSE \E a \in authChoices, en \in encChoices :
                LET d == [auth |-> a, enc |-> en, must |-> mustA, cands |-> cands,
                          cipher |-> cm, cpub |-> f.body.pub]
                    g == Frame("s", "srvad", [auth |-> a, enc |-> en, ms |-> sv.methods,
                                              cipher |-> cm, pub |-> "spub"])
                IN /\ dec' = d
                   /\ chan' = [PopIn("s") EXCEPT !["s2c"] = Append(@, g)]
                   /\ nsent' = [nsent EXCEPT !["s2c"] = @ + 1]
                   /\ sentClear' = [sentClear EXCEPT !["s"] = Append(@, Item(g))]
                   /\ pc' = [pc EXCEPT !["s"] = IF a THEN "waitOffer" ELSE "install"]
                   /\ UNCHANGED outcome
  /\ UNCHANGED <<cfg, shape, cview, offer, sel, mstep, ran, key, frozen, protSent, protRecv,
                 confirmed, stored, appAccepted, relayLeft, tampered>>

(* The client takes the server's answer as the result of the negotiation; it
   refuses an answer that contradicts its own REQUIRED / NEVER (C03).        *)
ClientReadServerAd ==
  /\ pc["c"] = "waitAd" /\ HasIn("c") /\ HeadIn("c").k \in {"srvad", "deny"}
  /\ LET f == HeadIn("c") IN
     /\ chan' = PopIn("c")
     /\ recvClear' = RecvClearT("c", f)
     /\ IF f.k = "deny"
        THEN Fail("c", "denied") /\ UNCHANGED <<cview, offer>>
        ELSE LET b == f.body
                 contradicts == \/ (cfg.c.auth = "REQUIRED" /\ ~b.auth) \/ (cfg.c.auth = "NEVER" /\ b.auth)
                                \/ (cfg.c.enc = "REQUIRED" /\ ~b.enc)
                 mine == Filter(cfg.c.methods, LAMBDA m : InSeq(m, b.ms))
                 rederived == CASE cfg.c.auth = "REQUIRED"  -> TRUE
                                [] cfg.c.auth = "NEVER"     -> FALSE
                                [] cfg.c.auth = "PREFERRED" -> mine # << >>
                                [] OTHER -> FALSE
             IN IF contradicts
                THEN Fail("c", "policy") /\ UNCHANGED <<cview, offer>>
                ELSE /\ cview' = [auth |-> b.auth,
                                  report |-> IF "ClientRederives" \in Bug THEN rederived ELSE b.auth,
                                  enc |-> b.enc, cipher |-> b.cipher, spub |-> b.pub]
                     /\ offer' = mine
                     /\ pc' = [pc EXCEPT !["c"] = IF b.auth THEN "offer" ELSE "install"]
                     /\ UNCHANGED outcome
  /\ UNCHANGED <<cfg, shape, nsent, dec, sel, mstep, ran, key, sentClear, frozen, protSent,
                 protRecv, confirmed, stored, appAccepted, relayLeft, tampered>>

(* The client offers what is left (an empty offer = the 0 bitmask: giving up) *)
BitmaskOffer ==
  /\ pc["c"] = "offer"
  /\ SendClear("c", Frame("c", "offer", [ms |-> offer]))
  /\ pc' = [pc EXCEPT !["c"] = "waitSel"]
  /\ UNCHANGED <<cfg, shape, dec, cview, offer, sel, mstep, ran, key, recvClear, frozen,
                 protSent, protRecv, confirmed, outcome, stored, appAccepted, relayLeft, tampered>>

(* The server picks, in ITS order, among what is offered.  When the client has
   given up: deny if somebody requires authentication, otherwise go on without.*)
ServerSelect ==
  /\ pc["s"] = "waitOffer" /\ HasIn("s") /\ HeadIn("s").k = "offer"
  /\ LET f == HeadIn("s")
         pick == First(Filter(dec.cands, LAMBDA m : InSeq(m, f.body.ms)))
         giveUp == f.body.ms = << >> \/ pick = "NONE"
         preferredFails == "NoImplFilter" \in Bug   \* today's code: exhaustion always fails
     IN /\ recvClear' = RecvClearT("s", f)
        /\ IF giveUp /\ (dec.must \/ preferredFails)
           THEN LET g == Frame("s", "deny", [x |-> 0]) IN
                /\ chan' = [PopIn("s") EXCEPT !["s2c"] = Append(@, g)]
                /\ nsent' = [nsent EXCEPT !["s2c"] = @ + 1]
                /\ sentClear' = [sentClear EXCEPT !["s"] = Append(@, Item(g))]
                /\ Fail("s", "exhausted")
                /\ UNCHANGED <<dec, sel, mstep>>
           ELSE LET g == Frame("s", "select", [m |-> IF giveUp THEN "NONE" ELSE pick]) IN
                /\ chan' = [PopIn("s") EXCEPT !["s2c"] = Append(@, g)]
                /\ nsent' = [nsent EXCEPT !["s2c"] = @ + 1]
                /\ sentClear' = [sentClear EXCEPT !["s"] = Append(@, Item(g))]
                /\ IF giveUp
                   THEN /\ dec' = [dec EXCEPT !.auth = FALSE]
                        /\ pc' = [pc EXCEPT !["s"] = "install"]
                        /\ UNCHANGED <<sel, mstep>>
                   ELSE /\ sel' = [sel EXCEPT !["s"] = pick]
                        /\ mstep' = [mstep EXCEPT !["s"] = 0]
                        /\ pc' = [pc EXCEPT !["s"] = "meth"]
                        /\ UNCHANGED dec
                /\ UNCHANGED outcome
  /\ UNCHANGED <<cfg, shape, cview, offer, ran, key, frozen, protSent, protRecv, confirmed,
                 stored, appAccepted, relayLeft, tampered>>

ClientReadSelect ==
  /\ pc["c"] = "waitSel" /\ HasIn("c") /\ HeadIn("c").k \in {"select", "deny"}
  /\ LET f == HeadIn("c") IN
     /\ chan' = PopIn("c")
     /\ recvClear' = RecvClearT("c", f)
     /\ IF f.k = "deny"
        THEN Fail("c", "denied") /\ UNCHANGED <<cview, sel, mstep>>
        ELSE IF f.body.m = "NONE"
        THEN /\ cview' = [cview EXCEPT !.auth = FALSE, !.report = FALSE]
             /\ pc' = [pc EXCEPT !["c"] = "install"]
             /\ UNCHANGED <<sel, mstep, outcome>>
        ELSE /\ sel' = [sel EXCEPT !["c"] = f.body.m]
             /\ mstep' = [mstep EXCEPT !["c"] = 0]
             /\ pc' = [pc EXCEPT !["c"] = "meth"]
             /\ UNCHANGED <<cview, outcome>>
  /\ UNCHANGED <<cfg, shape, nsent, dec, offer, ran, key, sentClear, frozen, protSent, protRecv,
                 confirmed, stored, appAccepted, relayLeft, tampered>>

(* One step of the selected method's exchange at endpoint e: send or take the
   next frame of the script; after the last one the method reports its result.*)
RunMethod(e) ==
  /\ pc[e] = "meth"
  /\ LET m == sel[e]
         sc == Script(m)
         i == mstep[e] + 1
     IN IF i <= Len(sc)
        THEN /\ IF sc[i] = Out(e)
                THEN /\ SendClear(e, Frame(e, "meth", [m |-> m, i |-> i]))
                     /\ UNCHANGED recvClear
                ELSE /\ HasIn(e) /\ HeadIn(e).k = "meth"
                     /\ chan' = PopIn(e)
                     /\ recvClear' = RecvClearT(e, HeadIn(e))
                     /\ UNCHANGED <<nsent, sentClear>>
             /\ mstep' = [mstep EXCEPT ![e] = i]
             /\ UNCHANGED <<pc, ran, offer, sel>>
        ELSE /\ IF Usable(m)
                THEN /\ ran' = [ran EXCEPT ![e] = m]
                     /\ pc' = [pc EXCEPT ![e] = IF e = "c" THEN "waitKx" ELSE "kx"]
                     /\ UNCHANGED offer
                ELSE /\ pc' = [pc EXCEPT ![e] = IF e = "c" THEN "offer" ELSE "waitOffer"]
                     /\ offer' = IF e = "c" THEN Without(offer, m) ELSE offer
                     /\ UNCHANGED ran
             /\ sel' = [sel EXCEPT ![e] = "NONE"]
             /\ UNCHANGED <<chan, nsent, sentClear, recvClear, mstep>>
  /\ UNCHANGED <<cfg, shape, dec, cview, key, frozen, protSent, protRecv, confirmed, outcome,
                 stored, appAccepted, relayLeft, tampered>>

KeyExchange(e) ==
  /\ IF e = "s"
     THEN /\ pc["s"] = "kx"
          /\ SendClear("s", Frame("s", "kx", [x |-> 0]))
          /\ UNCHANGED recvClear
     ELSE /\ pc["c"] = "waitKx" /\ HasIn("c") /\ HeadIn("c").k = "kx"
          /\ chan' = PopIn("c")
          /\ recvClear' = RecvClearT("c", HeadIn("c"))
          /\ UNCHANGED <<nsent, sentClear>>
  /\ pc' = [pc EXCEPT ![e] = "install"]
  /\ UNCHANGED <<cfg, shape, dec, cview, offer, sel, mstep, ran, key, frozen, protSent, protRecv,
                 confirmed, outcome, stored, appAccepted, relayLeft, tampered>>

(* Key agreement.  An end that was told (or decided) to encrypt derives the key
   from the two public values it saw; otherwise it finalizes its digests.  An
   end that must encrypt and cannot, aborts (C03).                           *)
InstallKey(e) ==
  /\ pc[e] = "install"
  /\ LET want == IF e = "c" THEN cview.enc ELSE dec.enc
         cp == IF e = "c" THEN "cpub" ELSE dec.cpub
         sp == IF e = "c" THEN cview.spub ELSE "spub"
         can == cp # "none" /\ sp # "none"
     IN IF want /\ ~can
        THEN Fail(e, "nokey") /\ UNCHANGED <<key, frozen>>
        ELSE /\ key' = [key EXCEPT ![e] = IF want THEN <<"k", cp, sp>> ELSE NoKey]
             /\ frozen' = [frozen EXCEPT ![e] = TRUE]
             /\ pc' = [pc EXCEPT ![e] = IF e = "c" THEN "waitPost" ELSE "store"]
             /\ UNCHANGED outcome
  /\ UNCHANGED <<cfg, shape, chan, nsent, dec, cview, offer, sel, mstep, ran, sentClear, recvClear,
                 protSent, protRecv, confirmed, stored, appAccepted, relayLeft, tampered>>

Report(e, resumed) ==
  LET a == IF e = "c" THEN cview.report ELSE dec.auth IN
  [st |-> "ok", why |-> "", auth |-> a, enc |-> key[e] # NoKey,
   method |-> IF a THEN ran[e] ELSE "NONE", sid |-> IF resumed THEN "sid0" ELSE "sid1",
   key |-> key[e], resumed |-> resumed]

Store(e) ==
  /\ pc[e] = "store"
  /\ stored' = [stored EXCEPT ![e] = TRUE]
  /\ pc' = [pc EXCEPT ![e] = IF e = "s" THEN "post" ELSE "app"]
  /\ outcome' = IF e = "c" THEN [outcome EXCEPT !["c"] = Report("c", FALSE)] ELSE outcome
  /\ UNCHANGED <<cfg, shape, chan, nsent, dec, cview, offer, sel, mstep, ran, key, sentClear,
                 recvClear, frozen, protSent, protRecv, confirmed, appAccepted, relayLeft, tampered>>

PostAuthSend ==
  /\ pc["s"] = "post"
  /\ SendMaybeProt("s", Frame("s", "postauth", [sid |-> "sid1"]))
  /\ outcome' = [outcome EXCEPT !["s"] = Report("s", FALSE)]
  /\ pc' = [pc EXCEPT !["s"] = "app"]
  /\ UNCHANGED <<cfg, shape, dec, cview, offer, sel, mstep, ran, key, sentClear, recvClear, frozen,
                 protRecv, confirmed, stored, appAccepted, relayLeft, tampered>>

PostAuthRecv ==
  /\ pc["c"] = "waitPost" /\ HasIn("c") /\ HeadIn("c").k = "postauth"
  /\ LET f == HeadIn("c") IN
     /\ chan' = PopIn("c")
     /\ IF Opens("c", f)
        THEN /\ pc' = [pc EXCEPT !["c"] = "store"]
             /\ protRecv' = IF f.prot THEN [protRecv EXCEPT !["c"] = @ + 1] ELSE protRecv
             /\ confirmed' = IF f.prot THEN [confirmed EXCEPT !["c"] = TRUE] ELSE confirmed
             /\ UNCHANGED outcome
        ELSE Fail("c", "postauth") /\ UNCHANGED <<protRecv, confirmed>>
  /\ UNCHANGED <<cfg, shape, nsent, dec, cview, offer, sel, mstep, ran, key, sentClear, recvClear,
                 frozen, protSent, stored, appAccepted, relayLeft, tampered>>

-----------------------------------------------------------------------------
(* Resumption: the client names a cached session; both ends install its key.  *)
ResumedOutcome == [st |-> "ok", why |-> "", auth |-> TRUE, enc |-> TRUE, method |-> "A",
                   sid |-> "sid0", key |-> <<"k0">>, resumed |-> TRUE]

(* "resume1": the request asks for no reply (ResumeResponse=false): the client
   goes straight to the cached key; only the c2s direction carries cleartext. *)
ResumeRequest ==
  /\ pc["c"] = "rstart"
  /\ SendClear("c", Frame("c", "rreq", [sid |-> "sid0", reply |-> shape = "resume"]))
  /\ IF shape = "resume1"
     THEN /\ key' = [key EXCEPT !["c"] = <<"k0">>]
          /\ frozen' = [frozen EXCEPT !["c"] = TRUE]
          /\ outcome' = [outcome EXCEPT !["c"] = ResumedOutcome]
          /\ pc' = [pc EXCEPT !["c"] = "app"]
     ELSE /\ pc' = [pc EXCEPT !["c"] = "rwait"]
          /\ UNCHANGED <<key, frozen, outcome>>
  /\ UNCHANGED <<cfg, shape, dec, cview, offer, sel, mstep, ran, recvClear,
                 protSent, protRecv, confirmed, stored, appAccepted, relayLeft, tampered>>

ResumeReply ==
  /\ pc["s"] = "waitHello" /\ HasIn("s") /\ HeadIn("s").k = "rreq"
  /\ LET f == HeadIn("s")
         g == Frame("s", "rrsp", [ok |-> stored["s"]])
     IN /\ recvClear' = [recvClear EXCEPT !["s"] = Append(@, Item(f))]
        /\ IF f.body.reply
           THEN /\ chan' = [PopIn("s") EXCEPT !["s2c"] = Append(@, g)]
                /\ nsent' = [nsent EXCEPT !["s2c"] = @ + 1]
                /\ sentClear' = [sentClear EXCEPT !["s"] = Append(@, Item(g))]
           ELSE /\ chan' = PopIn("s")                    \* nothing is said in the clear
                /\ UNCHANGED <<nsent, sentClear>>
        /\ IF stored["s"]
           THEN /\ key' = [key EXCEPT !["s"] = <<"k0">>]
                /\ frozen' = [frozen EXCEPT !["s"] = TRUE]
                /\ pc' = [pc EXCEPT !["s"] = "app"]
                /\ outcome' = [outcome EXCEPT !["s"] = ResumedOutcome]
           ELSE Fail("s", "nosession") /\ UNCHANGED <<key, frozen>>
  /\ UNCHANGED <<cfg, shape, dec, cview, offer, sel, mstep, ran, protSent, protRecv, confirmed,
                 stored, appAccepted, relayLeft, tampered>>

ResumeRecv ==
  /\ pc["c"] = "rwait" /\ HasIn("c") /\ HeadIn("c").k = "rrsp"
  /\ LET f == HeadIn("c") IN
     /\ chan' = PopIn("c")
     /\ recvClear' = [recvClear EXCEPT !["c"] = Append(@, Item(f))]
     /\ IF f.body.ok
        THEN /\ key' = [key EXCEPT !["c"] = <<"k0">>]
             /\ frozen' = [frozen EXCEPT !["c"] = TRUE]
             /\ pc' = [pc EXCEPT !["c"] = "app"]
             /\ outcome' = [outcome EXCEPT !["c"] = ResumedOutcome]
        ELSE Fail("c", "nosession") /\ UNCHANGED <<key, frozen>>
  /\ UNCHANGED <<cfg, shape, nsent, dec, cview, offer, sel, mstep, ran, sentClear, protSent, protRecv,
                 confirmed, stored, appAccepted, relayLeft, tampered>>

-----------------------------------------------------------------------------
(* Pre-keyed streams ("preXY"): the bare digest mechanism of stream.Stream.  Both
   ends hold the key k0 beforehand; the client sends X cleartext frames, the
   server takes them and sends Y, the client takes those; then each end installs
   the key (SetSymmetricKey) and the application messages follow.            *)
PreOutcome == [st |-> "ok", why |-> "", auth |-> FALSE, enc |-> TRUE, method |-> "NONE",
               sid |-> "pre", key |-> <<"k0">>, resumed |-> FALSE]

PreInstalled(e) ==
  /\ key' = [key EXCEPT ![e] = <<"k0">>]
  /\ frozen' = [frozen EXCEPT ![e] = TRUE]
  /\ outcome' = [outcome EXCEPT ![e] = PreOutcome]
  /\ pc' = [pc EXCEPT ![e] = "app"]

PreClientSend ==
  /\ pc["c"] = "psend"
  /\ IF PreC THEN SendClear("c", Frame("c", "pre", [x |-> 0])) ELSE UNCHANGED <<chan, nsent, sentClear>>
  /\ pc' = [pc EXCEPT !["c"] = "precv"]
  /\ UNCHANGED <<cfg, shape, dec, cview, offer, sel, mstep, ran, key, recvClear, frozen, protSent,
                 protRecv, confirmed, outcome, stored, appAccepted, relayLeft, tampered>>

PreClientRecv ==
  /\ pc["c"] = "precv"
  /\ IF PreS
     THEN /\ HasIn("c") /\ HeadIn("c").k = "pre"
          /\ chan' = PopIn("c")
          /\ recvClear' = RecvClearT("c", HeadIn("c"))
     ELSE UNCHANGED <<chan, recvClear>>
  /\ PreInstalled("c")
  /\ UNCHANGED <<cfg, shape, nsent, dec, cview, offer, sel, mstep, ran, sentClear, protSent,
                 protRecv, confirmed, stored, appAccepted, relayLeft, tampered>>

PreServer ==
  /\ shape \in PreShapes /\ pc["s"] = "waitHello" /\ pc["c"] # "config"
  /\ PreC => (HasIn("s") /\ HeadIn("s").k = "pre")
  /\ LET g == Frame("s", "pre", [x |-> 0])
         ch == IF PreC THEN PopIn("s") ELSE chan
     IN /\ recvClear' = IF PreC THEN RecvClearT("s", HeadIn("s")) ELSE recvClear
        /\ IF PreS
           THEN /\ chan' = [ch EXCEPT !["s2c"] = Append(@, g)]
                /\ nsent' = [nsent EXCEPT !["s2c"] = @ + 1]
                /\ sentClear' = [sentClear EXCEPT !["s"] = Append(@, Item(g))]
           ELSE /\ chan' = ch
                /\ UNCHANGED <<nsent, sentClear>>
  /\ PreInstalled("s")
  /\ UNCHANGED <<cfg, shape, dec, cview, offer, sel, mstep, ran, protSent, protRecv, confirmed,
                 stored, appAccepted, relayLeft, tampered>>

-----------------------------------------------------------------------------
(* One application message each way straight after the handshake.            *)
AppSend(e) ==
  /\ pc[e] = "app"
  /\ SendMaybeProt(e, Frame(e, "app", [x |-> 0]))
  /\ pc' = [pc EXCEPT ![e] = "appwait"]
  /\ UNCHANGED <<cfg, shape, dec, cview, offer, sel, mstep, ran, key, sentClear, recvClear, frozen,
                 protRecv, confirmed, outcome, stored, appAccepted, relayLeft, tampered>>

AppRecv(e) ==
  /\ pc[e] = "appwait" /\ HasIn(e) /\ HeadIn(e).k = "app"
  /\ LET f == HeadIn(e) IN
     /\ chan' = PopIn(e)
     /\ IF Opens(e, f)
        THEN /\ appAccepted' = [appAccepted EXCEPT ![e] = TRUE]
             /\ protRecv' = IF f.prot THEN [protRecv EXCEPT ![e] = @ + 1] ELSE protRecv
             /\ confirmed' = IF f.prot THEN [confirmed EXCEPT ![e] = TRUE] ELSE confirmed
             /\ pc' = [pc EXCEPT ![e] = "done"]
        ELSE /\ pc' = [pc EXCEPT ![e] = "failed"]      \* the handshake result stands; the channel is dead
             /\ UNCHANGED <<appAccepted, protRecv, confirmed>>
  /\ UNCHANGED <<cfg, shape, nsent, dec, cview, offer, sel, mstep, ran, key, sentClear, recvClear,
                 frozen, protSent, outcome, stored, relayLeft, tampered>>

-----------------------------------------------------------------------------
(* Failure of an endpoint other than a protocol decision.
   "closed": the peer is gone and nothing more will arrive (a bare close).
   "abort" : timeout / parse error / local failure - always possible once the
             wire was tampered with, and on an honest wire when AllowAbort.  *)
Waiting(e) == pc[e] \in {"waitHello", "waitAd", "waitOffer", "waitSel", "waitKx", "waitPost",
                         "rwait", "precv", "appwait"}
              \/ (pc[e] = "meth" /\ mstep[e] < Len(Script(sel[e])) /\ Script(sel[e])[mstep[e] + 1] = In(e))
Abort(e) ==
  /\ ~Terminal(e)
  /\ \/ /\ Waiting(e) /\ Terminal(Peer(e)) /\ pc[Peer(e)] = "failed" /\ ~HasIn(e)
        /\ IF outcome[e].st = "ok"
           THEN pc' = [pc EXCEPT ![e] = "failed"] /\ UNCHANGED outcome
           ELSE Fail(e, "closed")
     \/ /\ Waiting(e) /\ pc[Peer(e)] = "done" /\ ~HasIn(e)        \* peer finished, nothing more comes
        /\ IF outcome[e].st = "ok"
           THEN pc' = [pc EXCEPT ![e] = "failed"] /\ UNCHANGED outcome
           ELSE Fail(e, "closed")
     \/ /\ (AllowAbort \/ tampered)
        /\ IF outcome[e].st = "ok"
           THEN pc' = [pc EXCEPT ![e] = "failed"] /\ UNCHANGED outcome
           ELSE Fail(e, "abort")
  /\ UNCHANGED <<cfg, shape, chan, nsent, dec, cview, offer, sel, mstep, ran, key, sentClear,
                 recvClear, frozen, protSent, protRecv, confirmed, stored, appAccepted, relayLeft, tampered>>

(* A frame the honest protocol does not expect here (only a relay makes one):
   the end swallows it into its transcript and keeps waiting, or aborts.     *)
SkipOdd(e) ==
  /\ ~Terminal(e) /\ Waiting(e) /\ ~frozen[e] /\ HasIn(e) /\ HeadIn(e).v \in {"ins", "splitA"} /\ ~HeadIn(e).prot
  /\ chan' = PopIn(e)
  /\ recvClear' = RecvClearT(e, HeadIn(e))
  /\ UNCHANGED <<cfg, shape, pc, nsent, dec, cview, offer, sel, mstep, ran, key, sentClear, frozen,
                 protSent, protRecv, confirmed, outcome, stored, appAccepted, relayLeft, tampered>>

-----------------------------------------------------------------------------
(* The relay acts on a cleartext frame in flight.  i is the frame's index in
   its direction as the sender counted it.                                   *)
RelayOn(d, p) == relayLeft > 0 /\ p \in 1..Len(chan[d]) /\ ~chan[d][p].prot /\ chan[d][p].v = "orig"
Replace(s, p, new) == SubSeq(s, 1, p - 1) \o new \o SubSeq(s, p + 1, Len(s))
RelayDone == /\ relayLeft' = relayLeft - 1 /\ tampered' = TRUE
             /\ UNCHANGED <<cfg, shape, pc, nsent, dec, cview, offer, sel, mstep, ran, key, sentClear,
                            recvClear, frozen, protSent, protRecv, confirmed, outcome, stored, appAccepted>>

Modify(d, p, part) ==
  /\ RelayOn(d, p) /\ part \in {"hdr", "pay"}
  /\ chan' = [chan EXCEPT ![d] = Replace(@, p, << [chan[d][p] EXCEPT !.v = part] >>)]
  /\ RelayDone
InsertFrame(d, p) ==
  /\ RelayOn(d, p)
  /\ chan' = [chan EXCEPT ![d] = Replace(@, p, << [chan[d][p] EXCEPT !.v = "ins", !.k = "ins"], chan[d][p] >>)]
  /\ RelayDone
RemoveFrame(d, p) ==
  /\ RelayOn(d, p)
  /\ chan' = [chan EXCEPT ![d] = Replace(@, p, << >>)]
  /\ RelayDone
Split(d, p) ==
  /\ RelayOn(d, p)
  /\ chan' = [chan EXCEPT ![d] = Replace(@, p, << [chan[d][p] EXCEPT !.v = "splitA", !.k = "ins"],
                                                  [chan[d][p] EXCEPT !.v = "splitB"] >>)]
  /\ RelayDone
Merge(d, p) ==
  /\ RelayOn(d, p) /\ p + 1 <= Len(chan[d]) /\ ~chan[d][p + 1].prot
  /\ chan' = [chan EXCEPT ![d] = SubSeq(@, 1, p - 1) \o << [chan[d][p] EXCEPT !.v = "merged"] >>
                                   \o SubSeq(@, p + 2, Len(@))]
  /\ RelayDone

Relay == relayLeft > 0 /\ \E d \in Dir, p \in 1..3 :
           \/ \E part \in {"hdr", "pay"} : Modify(d, p, part)
           \/ InsertFrame(d, p) \/ RemoveFrame(d, p) \/ Split(d, p) \/ Merge(d, p)

-----------------------------------------------------------------------------
Protocol ==
  \/ ClientHello \/ ServerNegotiate \/ ClientReadServerAd \/ BitmaskOffer \/ ServerSelect
  \/ ClientReadSelect \/ PostAuthSend \/ PostAuthRecv
  \/ ResumeRequest \/ ResumeReply \/ ResumeRecv
  \/ PreClientSend \/ PreClientRecv \/ PreServer
  \/ \E e \in End : RunMethod(e) \/ KeyExchange(e) \/ InstallKey(e) \/ Store(e) \/ AppSend(e) \/ AppRecv(e)

Honest == Configure \/ Protocol

Next == Honest \/ Relay \/ \E e \in End : Abort(e) \/ SkipOdd(e)

Spec == Init /\ [][Next]_vars

Done == \A e \in End : Terminal(e)

-----------------------------------------------------------------------------
(* Invariants *)

OutcomeOK(e) == outcome[e].st = "ok"
Exp == Expected(cfg.c, cfg.s)
Untouched == ~tampered /\ ~AllowAbort /\ shape = "full"

(* C10 *)
FailsExactlyWhen ==
  (Done /\ Untouched) => \A e \in End : OutcomeOK(e) <=> Exp.ok
DenialIsExplicit ==
  (Done /\ Untouched /\ ~Exp.ok) => outcome["c"].st = "fail" /\ outcome["c"].why = "denied"
BothAgree ==
  (OutcomeOK("c") /\ OutcomeOK("s") /\ ~tampered) =>
     /\ outcome["c"].auth = outcome["s"].auth
     /\ outcome["c"].enc = outcome["s"].enc
     /\ outcome["c"].method = outcome["s"].method
     /\ outcome["c"].sid = outcome["s"].sid
     /\ outcome["c"].key = outcome["s"].key
FollowsTable ==
  (OutcomeOK("c") /\ OutcomeOK("s") /\ Untouched) =>
     /\ (Exp.auth = "yes" => outcome["s"].auth /\ outcome["s"].method = Exp.method)
     /\ (Exp.auth = "no" => ~outcome["s"].auth)
     /\ (Exp.enc = "yes" => outcome["s"].enc)
     /\ (Exp.enc = "no" => ~outcome["s"].enc)
     /\ (outcome["s"].auth => Usable(outcome["s"].method) /\ ran["s"] = outcome["s"].method
                              /\ ran["c"] = outcome["s"].method)
CanTalkBothWays ==
  (Done /\ Untouched /\ Exp.ok) => \A e \in End : appAccepted[e] /\ pc[e] = "done"

(* C04 *)
SameTranscripts(e) == sentClear[e] = recvClear[Peer(e)] /\ recvClear[e] = sentClear[Peer(e)]
EncOnImpliesSameTranscripts == \A e \in End : confirmed[e] => SameTranscripts(e)
(* (an end that never installed a key has no protected frame to check; the
   property speaks of handshakes that end with encryption on)               *)
TamperedMeansNoAppData == tampered => \A e \in End : ~(appAccepted[e] /\ key[e] # NoKey)
(* non-vacuity of the C04 shapes: an untouched encrypted session does carry data *)
HonestEncryptedTalks ==
  (Done /\ ~tampered /\ ~AllowAbort /\ OutcomeOK("c") /\ OutcomeOK("s") /\ outcome["c"].enc)
     => \A e \in End : appAccepted[e] /\ confirmed[e]

TypeOK ==
  /\ pc \in [End -> {"config", "start", "psend", "precv", "waitAd", "offer", "waitSel", "meth", "waitKx", "install", "waitPost",
                     "store", "post", "app", "appwait", "done", "failed", "waitHello", "waitOffer",
                     "kx", "rstart", "rwait"}]
  /\ relayLeft \in 0..RelayBudget
  /\ \A e \in End : outcome[e].st \in {"run", "ok", "fail"}
=============================================================================
