\* C08: every text over the 15-token literal alphabet up to length 5 (813 615 texts)
SPECIFICATION Spec
CONSTANTS
  MaxLen = 5
  Bug = {}
INVARIANTS TypeOK ShortcutSound ShortcutTakesCanonical
CHECK_DEADLOCK FALSE
