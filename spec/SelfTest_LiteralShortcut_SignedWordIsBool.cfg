\* non-vacuity: with the known wrong design "SignedWordIsBool" TLC must report ShortcutSound violated
SPECIFICATION Spec
CONSTANTS
  MaxLen = 5
  Bug = {"SignedWordIsBool"}
INVARIANTS ShortcutSound
CHECK_DEADLOCK FALSE
