\* C13 quick generator
SPECIFICATION GenSpec
CONSTANTS
  Bug = {}
  Families = {"frame","pass","typed","ad","hs","blob","text","watch"}
  Modes = {"plain","enc"}
  ExprMax = 1
  TokLen = 3
INVARIANTS TypeOK NoPanic Bounded CapHonoured CapFails EmitScn
CHECK_DEADLOCK FALSE
