\* non-vacuity: with Bug = {"KeepConnOnCancel"} TLC must report StoppedClean violated
SPECIFICATION Spec
CONSTANTS
  NB = 1
  MaxConn = 2
  MaxReq = 2
  MaxTick = 1
  MaxMsg = 1
  RegAnswers = {"fresh", "same", "refuse", "hangup"}
  Targets = {"accept", "refuse"}
  Msgs = {"malformed"}
  Bug = {"KeepConnOnCancel"}
INVARIANTS StoppedClean
CHECK_DEADLOCK FALSE
