\* self-test: with Bug = {MinterLeaseRenews} TLC must report an invariant violated
SPECIFICATION Spec
CONSTANTS
  Tier = "quick"
  SecretRels = {"same", "diff"}
  Bug = {"MinterLeaseRenews"}
INVARIANTS TypeOK SameSession ResumesBothWays ResumesByCommand WrongSecretFails PublicFormHidesSecret PolicyRoundTrips
CHECK_DEADLOCK FALSE
