\* non-vacuity: proxy mode, with Bug = {"NoCloseMismatch"} TLC must report OthersClosed violated
SPECIFICATION Spec
CONSTANTS
  NB = 1
  MaxRogue = 0
  RogueKinds = {}
  MaxMsgs = 2
  Mode = "proxy"
  Bug = {"NoCloseMismatch"}
INVARIANTS OthersClosed
CHECK_DEADLOCK FALSE
