\* one session, longer life cycles (establish, renew, idle past the lease, ...) then every attack
SPECIFICATION GenSpec
CONSTANTS
  Tags = {"none"}
  Addrs = {"s1"}
  Cmds = {"c1"}
  ValidCmds = {"c1"}
  MaxSid = 1
  MaxTime = 3
  Duration = 2
  Lease = 1
  ImportOn = TRUE
  MaxRec = 1
  Bug = {}
  GenMode = "C06"
  GenDepth = 0
  LifeDepth = 4
  Canon = FALSE
VIEW GenView06
INVARIANT EmitTrace
CHECK_DEADLOCK FALSE
