\* C05 quick: every behaviour the property allows (Permissive), <= 2 commands
\* per connection, <= 2 connections, all client kinds, policy and authorizer changes (one identity; MC_C05.cfg has two)
SPECIFICATION Spec
CONSTANTS
  MaxConns = 2
  MaxCmds = 2
  PolicyTabs = {1, 2}
  AuthzTabs = {0, 1, 2}
  InitAuthz = {0, 1}
  InitPtab = {1}
  Users = {"alice"}
  Permissive = TRUE
  Bug = {}
INVARIANTS TypeOK HandlerOnlyOnAdequateSession RawAuthSeparated RefusedClosesWithoutHandler
CHECK_DEADLOCK FALSE
