\* G04: one behaviour per configuration of the INTENDED protocol
SPECIFICATION GenSpec
CONSTANTS
  Bug = {}
  CStyles = {"cedar", "htcondor"}
  SStyles = {"cedar", "htcondor"}
  Faults = {"none", "c_err_init", "s_err_init", "c_quit_mid", "s_quit_mid", "c_quit_conf", "s_quit_conf"}
INVARIANT EmitTrace
CHECK_DEADLOCK FALSE
