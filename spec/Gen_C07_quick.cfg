SPECIFICATION GenSpec
CONSTANTS
  Tags = {"none", "A", "B"}
  Addrs = {"s1", "s2"}
  Cmds = {"c1", "c2", "c3"}
  ValidCmds = {"c1", "c2"}
  MaxSid = 4
  MaxTime = 0
  Duration = 1
  Lease = 1
  ImportOn = FALSE
  MaxRec = 0
  Bug = {}
  GenMode = "C07"
  GenDepth = 4
  LifeDepth = 0
  Canon = TRUE
VIEW GenView
INVARIANT EmitTrace
CHECK_DEADLOCK FALSE
