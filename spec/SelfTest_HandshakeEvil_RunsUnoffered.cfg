\* C03 (self-test: Bug RunsUnoffered must violate an invariant)
SPECIFICATION Spec
CONSTANTS
  Roles = {"client","server"}
  AuthLevels = {"REQUIRED","PREFERRED","OPTIONAL","NEVER"}
  EncLevels = {"REQUIRED","PREFERRED","OPTIONAL","NEVER"}
  IntegChoices = {"SAME","REQUIRED"}
  MethodLists <- ListsQuick
  AllMethods = {"C","P","K"}
  Runnable = {"C"}
  PeerLevels = {"OPTIONAL","REQUIRED"}
  Modes = {"fresh","resumed"}
  PolicySources = {"base","hook"}
  IntegScope = "serverFresh"
  EstChoices = {"Honest","OmitECDH","TruncateECDH","NoCommonCipher"}
  Deviations = {"AnswerAuthNo","AnswerEncNo","OmitECDH","TruncateECDH","RandomECDH","ForeignECDH","NoCommonCipher","SelectUnofferedBit","SelectSeveralBits","SelectZero","ReportDenied","PostAuthDenied","PostAuthInClear","ResumeKeyless","ReplyWithoutKey"}
  MaxDev = 1
  Composites = {{"AnswerAuthNo","OmitECDH"}}
  Bug = {"RunsUnoffered"}
INVARIANTS TypeOK RequiredAuthRan RequiredEncOn ReportedEncTruthful ReportedAuthTruthful NoClearAfterKey
CHECK_DEADLOCK FALSE
