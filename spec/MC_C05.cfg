\* C05 thorough (one identity, <= 3 commands; MC_C05_users.cfg has two identities): every behaviour the property allows (Permissive), <= 3 commands
\* per connection, <= 2 connections, all client kinds, policy and authorizer changes
SPECIFICATION Spec
CONSTANTS
  MaxConns = 2
  MaxCmds = 3
  PolicyTabs = {1, 2}
  AuthzTabs = {0, 1, 2}
  InitAuthz = {0, 1}
  InitPtab = {1}
  Users = {"alice"}
  Permissive = TRUE
  Bug = {}
INVARIANTS TypeOK HandlerOnlyOnAdequateSession RawAuthSeparated RefusedClosesWithoutHandler
CHECK_DEADLOCK FALSE
