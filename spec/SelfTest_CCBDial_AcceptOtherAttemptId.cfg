\* non-vacuity: with Bug = {"AcceptOtherAttemptId"} TLC must report ReturnedPresentedFreshId violated
SPECIFICATION Spec
CONSTANTS
  NB = 2
  MaxRogue = 1
  RogueKinds = {"wrongId", "emptyId", "staleId", "otherId", "garbage", "close"}
  MaxMsgs = 2
  Mode = "standard"
  Bug = {"AcceptOtherAttemptId"}
INVARIANTS ReturnedPresentedFreshId
CHECK_DEADLOCK FALSE
