\* non-vacuity: with Bug = {"SockBeatsCCB"} TLC must report TablesOK violated
SPECIFICATION SpecT
CONSTANTS
  Hows = {"new"}
  Routes = {"direct"}
  Secs = {"none"}
  EnvsNew = {}
  EnvsCA = {}
  Ctxs = {}
  MaxCalls = 0
  MaxSock = 0
  MaxConn = 0
  Kinds = {}
  Bug = {"SockBeatsCCB"}
INVARIANTS TablesOK
CHECK_DEADLOCK FALSE
