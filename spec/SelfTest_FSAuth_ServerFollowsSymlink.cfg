\* non-vacuity: with Bug = {"ServerFollowsSymlink"} TLC must report ServerAcceptsOnlyOwnerOnlyDir violated
SPECIFICATION Spec
CONSTANTS
  MaxLen = 3
  ConnFams = {4, 6}
  Faults = {"none", "sendFail", "verdictLost"}
  Roles = {"client", "server"}
  Bug = {"ServerFollowsSymlink"}
INVARIANTS ServerAcceptsOnlyOwnerOnlyDir
CHECK_DEADLOCK FALSE
