\* non-vacuity: with Bug = {"NoValidate"} TLC must report InvalidNeverSent violated
SPECIFICATION Spec
CONSTANTS
  Mode = "route"
  Origins = {"listen"}
  MaxD = 1
  MaxAcc = 1
  MaxClose = 1
  Scripts <- QuickScripts
  Shapes <- RouteShapesQuick
  ErrClasses = {}
  Bug = {"NoValidate"}
INVARIANTS InvalidNeverSent
CHECK_DEADLOCK FALSE
