\* C16 generator, thorough: all 7560 configurations, secret same / corrupted
SPECIFICATION GenSpec
CONSTANTS
  Tier = "all"
  SecretRels = {"same", "diff"}
  Bug = {}
INVARIANT EmitTrace
CHECK_DEADLOCK FALSE
