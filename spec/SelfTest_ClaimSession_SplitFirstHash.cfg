\* self-test: with Bug = {SplitFirstHash} TLC must report an invariant violated
SPECIFICATION Spec
CONSTANTS
  Tier = "quick"
  SecretRels = {"same", "diff"}
  Bug = {"SplitFirstHash"}
INVARIANTS TypeOK SameSession ResumesBothWays ResumesByCommand WrongSecretFails PublicFormHidesSecret PolicyRoundTrips
CHECK_DEADLOCK FALSE
