\* non-vacuity: with Bug = {"ReturnNilWhenStopFails"} TLC must report SuccessMeansAllDone violated
SPECIFICATION LiveSpec
CONSTANTS
  Ns = {1, 2, 3}
  Kinds = {"cancel", "deadline", "background"}
  Bug = {"ReturnNilWhenStopFails"}
INVARIANT SuccessMeansAllDone
CHECK_DEADLOCK FALSE
