\* non-vacuity: with Bug = {"SharedFate"} TLC must report Independent violated
SPECIFICATION Spec
CONSTANTS
  NB = 2
  MaxConn = 2
  MaxReq = 1
  MaxTick = 0
  MaxMsg = 0
  RegAnswers = {"fresh", "same", "refuse", "hangup"}
  Targets = {"accept", "refuse"}
  Msgs = {}
  Bug = {"SharedFate"}
PROPERTY Independent
CHECK_DEADLOCK FALSE
