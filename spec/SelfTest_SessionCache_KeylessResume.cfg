\* non-vacuity: with the known wrong design TLC must report ResumeOnlyKeyed violated
SPECIFICATION Spec06
CONSTANTS
  Tags = {"none"}
  Addrs = {"s1"}
  Cmds = {"c1"}
  ValidCmds = {"c1"}
  MaxSid = 2
  MaxTime = 3
  Duration = 2
  Lease = 1
  MaxRec = 1
  Bug = {"KeylessResume"}
CONSTRAINT LegitOnly
INVARIANTS ResumeOnlyKeyed
CHECK_DEADLOCK FALSE
