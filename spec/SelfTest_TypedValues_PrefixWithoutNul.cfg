\* non-vacuity: PrefixWithoutNul must violate CutIndependence
SPECIFICATION Spec
CONSTANTS
  ValueNames = {"char_ff", "int_m256", "wide_max64", "dbl_1", "str_ab", "str_a0b", "str_empty"}
  MaxVals = 2
  MaxCuts = 1
  Encs = {TRUE, FALSE}
  Bug = {"PrefixWithoutNul"}
INVARIANTS CutIndependence
CHECK_DEADLOCK FALSE
