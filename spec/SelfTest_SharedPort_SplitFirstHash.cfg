\* non-vacuity: with Bug = {"SplitFirstHash"} TLC must report CCBLastHash violated
SPECIFICATION Spec
CONSTANTS
  Mode = "route"
  Origins = {"listen"}
  MaxD = 1
  MaxAcc = 1
  MaxClose = 1
  Scripts <- QuickScripts
  Shapes <- RouteShapesQuick
  ErrClasses = {}
  Bug = {"SplitFirstHash"}
INVARIANTS CCBLastHash
CHECK_DEADLOCK FALSE
