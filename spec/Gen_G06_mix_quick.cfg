\* G06 generator (quick): two daemon connections (good / malformed / stalling), two Accept calls, one Close, at rest or racing
SPECIFICATION GenSpec
CONSTANTS
  Mode = "listener"
  Origins = {"listen"}
  MaxD = 2
  MaxAcc = 2
  MaxClose = 1
  Scripts <- QuickScripts
  Shapes <- NoShapes
  ErrClasses = {}
  MaxEnv = 5
  Bug = {}
INVARIANT EmitTrace
CHECK_DEADLOCK FALSE
