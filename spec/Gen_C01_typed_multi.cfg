\* C01 (iii): typed messages of <= 3 values of 100 B (explicit FlushFrame) and 12 KiB (16 KiB auto-flush), read by <= 3 GetBytes + GetRemainingBytes
SPECIFICATION GenSpec
CONSTANTS
  Max = 1048576
  FlushAt = 4096
  Target = 16384
  Tag = 16
  IVLen = 16
  Hdr = 5
  Encs = {TRUE, FALSE}
  SendApis = {"typed"}
  RecvApis = {"typed"}
  WriteSizes = {100, 12288}
  StrSizes = {}
  StrBytesSizes = {}
  ReadSizes = {100, 12288}
  MaxMsgs = 1
  MaxWrites = 3
  MaxReads = 3
  MaxLen = 36864
  PairFirst = {}
  TypedFlush = {TRUE}
  Interleave = FALSE
  MaxAbandon = 0
  Bug = {}
INVARIANT EmitTrace
CHECK_DEADLOCK FALSE
