\* C01 (i) thorough: every pair of one-write messages over the critical size set
SPECIFICATION GenSpec
CONSTANTS
  Max = 1048576
  FlushAt = 4096
  Target = 16384
  Tag = 16
  IVLen = 16
  Hdr = 5
  Encs = {TRUE, FALSE}
  SendApis = {"frames", "buffered", "typed"}
  RecvApis = {"complete", "startread", "typed"}
  WriteSizes = {0, 1, 4095, 4096, 4097, 16383, 16384, 16385, 1048543, 1048544, 1048545, 1048559, 1048560, 1048561, 1048575, 1048576, 1048577, 2097157}
  StrSizes = {0, 16375, 1048534, 1048535, 1048536, 1048567, 1048576}
  StrBytesSizes = {}
  ReadSizes = {0}
  MaxMsgs = 2
  MaxWrites = 1
  MaxReads = 1
  MaxLen = 4194400
  PairFirst = {0, 1, 4095, 4096, 4097, 16383, 16384, 16385, 1048543, 1048544, 1048545, 1048559, 1048560, 1048561, 1048575, 1048576, 1048577, 2097157}
  TypedFlush = {FALSE}
  Interleave = FALSE
  MaxAbandon = 0
  Bug = {}
INVARIANT EmitTrace
CHECK_DEADLOCK FALSE
