----------------------------- MODULE TokenAuth -----------------------------
(***************************************************************************)
(* Property C11: HTCondor TOKEN (IDTOKENS) authentication as cedar         *)
(* implements it (security/token_auth.go, token_verify.go, token_utils.go): *)
(* an AKEP2 three-message exchange keyed by the signature of a JWT.        *)
(*                                                                         *)
(*   token  = (kid, sub, iss, iat, exp), sig = Mac(key[kid], header.payload)*)
(*   K      = Kdf(sig, header.payload)                                      *)
(*   msg 1  C->S  status, A, header.payload, rA                             *)
(*   msg 2  S->C  status, A, B, rA, rB, Mac_K("m2", A, B, rA, rB)            *)
(*   msg 3  C->S  status, A, rB, Mac_K("m3", A, rB)                          *)
(*                                                                         *)
(* Cryptography is symbolic: a signature, a derived key and a MAC are      *)
(* terms; a MAC term additionally carries two ghost fields (who computed    *)
(* it, in which session) that no endpoint can read (comparisons go through  *)
(* Core).  Time is a virtual clock Now.                                     *)
(*                                                                         *)
(* One behaviour = one exchange with exactly ONE deviation `dev` from the   *)
(* honest run, drawn from Catalogue (or one standalone verification of one  *)
(* token variant drawn from VCatalogue).  The endpoints are the INTENDED     *)
(* design as the statement of C11 gives it: every check of the              *)
(* implementation appears by name, split into                               *)
(*   necessary checks (NecFailN) - entailed by the statement; an endpoint that *)
(*                              fails one MUST fail;                        *)
(*   strict checks (StrictViolatedN) - things the implementation may also insist   *)
(*                              on (echoes, status words, trailing bytes,   *)
(*                              boundary instants); the statement is silent, *)
(*                              so the endpoint MAY fail or go on.           *)
(* The invariants hold although every strict check may be skipped; each     *)
(* necessary check has a member of Bug that drops it, and TLC then reports  *)
(* the matching invariant violated (SelfTest_TokenAuth_*.cfg).              *)
(***************************************************************************)
EXTENDS Integers, Sequences, FiniteSets, TLC

CONSTANTS
  Bug,      \* subset of BugNames; {} = intended design
  Kinds,    \* deviation kinds explored   (cfg: Kinds <- AllKinds)
  VKinds    \* verification variants explored (cfg: VKinds <- AllVKinds)

BugNames == {"SkipClientMac", "SkipServerMac", "MacOverEcho", "ServerProofNoNonce", "NoFormatTag",
             "KidPrefixContainment", "KidNoSanitize",
             "IdentityFromClaim", "SkipExpiry", "SkipMaxAge",
             "VerifySkipsSig", "VerifySkipsTime"}

ASSUME Bug \subseteq BugNames

-----------------------------------------------------------------------------
(* virtual clock and the real constants' stand-ins *)
Now    == 1000
MaxAge == 600
Near   == 60      \* "comfortably inside" (the harness uses >= 5 s margins)

Alice   == "alice"
Mallory == "mallory"
ServerId == "server"

Pos == {"first", "mid", "last"}   \* abstract position of a character / byte edit

(* ---- the key id as a PATH ---------------------------------------------------
   The server holds named signing keys as files DIRECTLY inside its signing-key
   directory (k1, k2) and the pool key (kid "POOL"; an empty kid means POOL).
   A kid is attacker-chosen text, and the implementation turns it into a file
   name, so the kid dimension has path-shaped classes.  FileOf(shape) is the key
   material in the file that a path resolution of <keydir>/<kid> reaches, i.e.
   what a forger who can read THAT file knows and signs with:
     up_sibling    ../<keydir-name><suffix>/x : a SIBLING directory whose name
                   merely extends the key directory's name (.old, -backup, ~)
     up_unrelated  ../elsewhere/x             : traversal to an unrelated file
     abs_out       /abs/path/x                : absolute path outside
     backslash     ..\\<keydir>.old\\x          : other separator (a plain, absent name here)
   none of which is a key the server holds; and spellings on which the
   statement is silent (the server MAY resolve them or refuse them):
     up_back_in    ../<keydir-name>/k1   dot_k1  ./k1 , k1/
     sub_inner     sub/inner (a file BELOW the key directory)
     dotdot_name   k1..bak   (a plain name containing "..")
     nul           k1<NUL>junk (C string semantics would read k1) *)
ForeignKids == {"up_sibling", "up_unrelated", "abs_out", "backslash"}
SilentKids  == {"up_back_in", "dot_k1", "sub_inner", "dotdot_name", "nul"}
PoolKids    == {"empty", "POOL"}
KidShapes   == ForeignKids \cup SilentKids \cup PoolKids

FileOf(shape) ==
  CASE shape \in {"up_sibling", "backslash"} -> "KS"
    [] shape = "up_unrelated" -> "KU"
    [] shape = "abs_out" -> "KA"
    [] shape \in {"up_back_in", "dot_k1", "nul"} -> "K1"
    [] shape = "sub_inner" -> "KI"
    [] shape = "dotdot_name" -> "KD"
    [] shape \in PoolKids -> "KP"
    [] OTHER -> "none"

(* the key the INTENDED design uses for a kid: held named keys, the pool rule,
   and - only if the server chooses to (lenient) - the statement-silent spellings *)
IntendedKey(kid, d, lenient) ==
  CASE kid = "k1" /\ d.kind \in {"srv_otherkey", "v_srv_otherkey"} -> "KX"
    [] kid = "k1" -> "K1"
    [] kid = "k2" -> "K2"
    [] kid \in PoolKids -> "KP"
    [] kid \in SilentKids /\ lenient -> FileOf(kid)
    [] OTHER -> "none"

(* the keys the statement allows the server to use for a kid *)
AllowedKeys(kid, d) == {IntendedKey(kid, d, l) : l \in BOOLEAN} \ {"none"}

(* token text = header.payload; halt / palt say that the header / payload text
   was altered at an abstract position ("" = untouched) *)
Tok(kid, sub, iat, exp) ==
  [kid |-> kid, sub |-> sub, iss |-> "dom", iat |-> iat, exp |-> exp, halt |-> "", palt |-> ""]

BaseTok == Tok("k1", Alice, Now - 5, Now + 600)

Sig(key, text) == [key |-> key, text |-> text]
Kdf(sig, text) == [sig |-> sig, text |-> text]
NoKdf == Kdf(Sig("none", BaseTok), BaseTok)

(* MAC term.  shape: "full" (well formed), "flipped", "short", "long", "empty".
   by / sess are ghosts. *)
Mac(k, fmt, a, b, ra, rb, by, sess) ==
  [k |-> k, fmt |-> fmt, a |-> a, b |-> b, ra |-> ra, rb |-> rb, shape |-> "full", by |-> by, sess |-> sess]
NoMac == [k |-> NoKdf, fmt |-> "none", a |-> "", b |-> "", ra |-> "", rb |-> "", shape |-> "empty", by |-> "nobody", sess |-> -1]
Core(m) == [k |-> m.k, fmt |-> m.fmt, a |-> m.a, b |-> m.b, ra |-> m.ra, rb |-> m.rb, shape |-> m.shape]

OK == 0
ERR == -1

Msg1(st, a, tok, ra) == [status |-> st, a |-> a, tok |-> tok, ra |-> ra, trail |-> FALSE, bad |-> FALSE]
Msg2(st, a, b, ra, rb, mac) == [status |-> st, a |-> a, b |-> b, ra |-> ra, rb |-> rb, mac |-> mac, trail |-> FALSE, bad |-> FALSE]
Msg3(st, a, rb, mac) == [status |-> st, a |-> a, rb |-> rb, mac |-> mac, trail |-> FALSE, bad |-> FALSE]
NoMsg1 == Msg1(ERR, "", BaseTok, "empty")
NoMsg2 == Msg2(ERR, "", "", "empty", "empty", NoMac)
NoMsg3 == Msg3(ERR, "", "empty", NoMac)

-----------------------------------------------------------------------------
(* The deviation catalogue.  via: "config" = the real endpoint is configured
   with the deviating credential; "wire" = an on-path party that does NOT know
   the signature edits a message; "insider" = a scripted client that DOES know
   the signature of the token it presents speaks messages 1 and 3. *)
D(kind, msg, pos, via) == [kind |-> kind, msg |-> msg, pos |-> pos, via |-> via]

TokenDevs ==
       {D("none", 0, "-", "-")}
  \cup {D(k, 0, p, "config") : k \in {"tok_hdr", "tok_pay"}, p \in Pos}
  \cup {D(k, 1, p, "wire") : k \in {"tok_hdr", "tok_pay"}, p \in Pos}
  \cup {D("tok_pay_sub", 1, "-", "wire")}
  \cup {D("tok_sig", 0, p, "config") : p \in Pos}
  \cup {D("tok_sig_same", 0, "last", "config")}
  \cup {D(k, 0, "-", "config") : k \in {"tok_otherkey", "tok_unknownkid", "srv_otherkey"}}
  \cup {D(k, 0, "-", v) : k \in {"exp_past", "exp_now", "exp_near", "iat_old", "iat_limit", "iat_near", "iat_future",
                                  "time_both_bad", "no_exp", "no_iat", "nbf_future"},
                          v \in {"config", "insider"}}
  \* the key id names a path: pos carries the shape; the presenter signs with the file the path reaches
  \cup {D("kid_path", 0, sh, v) : sh \in KidShapes, v \in {"config", "insider"}}

IdentityDevs ==
  {D("claim_m1", 1, "-", "wire"), D("claim_m3", 3, "-", "wire"), D("claim_all", 0, "-", "insider"),
   D("echo_a", 2, "-", "wire"), D("server_id", 2, "-", "wire")}

MessageDevs ==
       {D(k, m, "-", "wire") : k \in {"status_err", "status_abort", "status_other", "trail", "cut"}, m \in 1..3}
  \cup {D("mac_wrong", m, p, "wire") : m \in {2, 3}, p \in Pos}
  \cup {D(k, m, "-", "wire") : k \in {"mac_trunc", "mac_empty", "mac_long", "replay_msg", "replay_mac", "forge"}, m \in {2, 3}}
  \cup {D("reflect", 3, "-", "wire"), D("replay_proof", 2, "-", "wire")}
  \cup {D("echo_wrong", m, p, "wire") : m \in {2, 3}, p \in Pos}
  \cup {D(k, m, "-", "wire") : k \in {"echo_trunc", "echo_empty"}, m \in {2, 3}}
  \cup {D("nonce_wrong", m, p, "wire") : m \in {1, 2}, p \in Pos}
  \cup {D(k, m, "-", "wire") : k \in {"nonce_trunc", "nonce_empty"}, m \in {1, 2}}

Catalogue == TokenDevs \cup IdentityDevs \cup MessageDevs
AllKinds == {d.kind : d \in Catalogue}

(* the end the deviation is aimed at *)
Role(d) ==
  CASE d.kind = "none" -> "both"
    [] d.kind = "srv_otherkey" -> "client"
    [] d.msg = 2 -> "client"
    [] OTHER -> "server"

VD(kind, pos) == [kind |-> kind, pos |-> pos]
VCatalogue ==
       {VD(k, "-") : k \in {"v_none", "v_pool", "v_otherkey", "v_unknownkid", "v_srv_otherkey",
                            "v_exp_past", "v_exp_now", "v_exp_near", "v_iat_old", "v_iat_limit",
                            "v_iat_near", "v_iat_future", "v_sig_same", "v_space",
                            "v_time_both_bad", "v_no_exp", "v_no_iat", "v_nbf_future"}}
  \cup {VD("v_kid_path", sh) : sh \in KidShapes}
  \cup {VD(k, p) : k \in {"v_hdr", "v_pay", "v_sig"}, p \in Pos}
AllVKinds == {d.kind : d \in VCatalogue}

-----------------------------------------------------------------------------
VARIABLES
  pc,      \* "init" | "c1" | "s1" | "c2" | "s3" | "done"
  mode,    \* "exchange" | "verify"
  dev,     \* the deviation of this behaviour (element of Catalogue) or the verification variant
  cTok, cSig,        \* the client's credential
  m1, m2, m3,        \* messages as received (after the deviation)
  m2s,               \* message 2 as the server sent it
  sErr,              \* the server has stored an error (deferred failure)
  tol,               \* an endpoint went on although a strict check was violated
  lenK,              \* the server resolves the statement-silent kid spellings (fixed per behaviour)
  cOut, sOut, sUser, \* results: "pending" | "ok" | "fail" | "na" ; recorded identity
  vOut               \* "pending" | "accept" | "reject"

vars == <<pc, mode, dev, cTok, cSig, m1, m2, m3, m2s, sErr, tol, lenK, cOut, sOut, sUser, vOut>>

(* the token a party presents under deviation d, and the key it was signed with *)
TimeTok(kind) ==
  CASE kind \in {"exp_past", "v_exp_past"}     -> Tok("k1", Alice, Now - 300, Now - Near)  \* expired only, NOT also too old
    [] kind \in {"exp_now", "v_exp_now"}       -> Tok("k1", Alice, Now - 5, Now)
    [] kind \in {"exp_near", "v_exp_near"}     -> Tok("k1", Alice, Now - 5, Now + Near)
    [] kind \in {"iat_old", "v_iat_old"}       -> Tok("k1", Alice, Now - MaxAge - Near, Now + 600)
    [] kind \in {"iat_limit", "v_iat_limit"}   -> Tok("k1", Alice, Now - MaxAge, Now + 600)
    [] kind \in {"iat_near", "v_iat_near"}     -> Tok("k1", Alice, Now - MaxAge + Near, Now + 600)
    [] kind \in {"iat_future", "v_iat_future"} -> Tok("k1", Alice, Now + Near, Now + 600)
    [] kind \in {"time_both_bad", "v_time_both_bad"} -> Tok("k1", Alice, Now - MaxAge - Near, Now - Near)
    [] OTHER -> BaseTok

PresentedTok(d) ==
  CASE d.kind \in {"tok_unknownkid", "v_unknownkid"} -> Tok("k9", Alice, Now - 5, Now + 600)
    [] d.kind \in {"kid_path", "v_kid_path"} -> Tok(d.pos, Mallory, Now - 5, Now + 600)   \* any subject the forger likes
    [] d.kind = "v_pool" -> Tok("POOL", Alice, Now - 5, Now + 600)
    [] OTHER -> TimeTok(d.kind)

SigningKey(d) ==
  CASE d.kind \in {"tok_otherkey", "v_otherkey"} -> "K2"       \* names k1, made with another key
    [] d.kind \in {"tok_unknownkid", "v_unknownkid"} -> "KX"
    [] d.kind \in {"kid_path", "v_kid_path"} -> FileOf(d.pos)
    [] d.kind = "v_pool" -> "KP"
    [] OTHER -> "K1"

AlterHdr(t, p) == [t EXCEPT !.halt = p]
AlterPay(t, p) == [t EXCEPT !.palt = p]

-----------------------------------------------------------------------------
(* time predicates of the statement: "unexpired, not-too-old" *)
Expired(t)  == Now > t.exp
TooOld(t)   == Now - t.iat > MaxAge
TimeEdge(t) == Now = t.exp \/ Now - t.iat = MaxAge \/ t.iat > Now   \* statement silent
(* claim combinations the statement says nothing about: a token without exp or
   without iat, a not-before claim in the future *)
SilentClaims(d) == d.kind \in {"no_exp", "no_iat", "nbf_future", "v_no_exp", "v_no_iat", "v_nbf_future"}

-----------------------------------------------------------------------------
Init ==
  /\ pc = "init"
  /\ \/ mode = "exchange" /\ dev \in {d \in Catalogue : d.kind \in Kinds}
     \/ mode = "verify" /\ dev \in {[kind |-> d.kind, msg |-> 0, pos |-> d.pos, via |-> "verify"] : d \in {x \in VCatalogue : x.kind \in VKinds}}
  /\ cTok = BaseTok /\ cSig = Sig("K1", BaseTok)
  /\ m1 = NoMsg1 /\ m2 = NoMsg2 /\ m3 = NoMsg3 /\ m2s = NoMsg2
  /\ sErr = FALSE /\ tol = FALSE
  /\ lenK \in (IF dev.kind \in {"kid_path", "v_kid_path"} /\ dev.pos \in SilentKids THEN BOOLEAN ELSE {FALSE})
  /\ cOut = "pending" /\ sOut = "pending" /\ sUser = "" /\ vOut = "pending"

(* ---- the client obtains its credential (configuration deviations) ------- *)
ConfigTok(d) ==
  CASE d.via # "config" -> BaseTok
    [] d.kind = "tok_hdr" -> AlterHdr(BaseTok, d.pos)
    [] d.kind = "tok_pay" -> AlterPay(BaseTok, d.pos)
    [] OTHER -> PresentedTok(d)

ConfigSig(d) ==
  CASE d.via # "config" -> Sig("K1", BaseTok)
    [] d.kind \in {"tok_hdr", "tok_pay"} -> Sig("K1", BaseTok)          \* the signature of the unaltered text
    [] d.kind = "tok_sig" -> Sig("junk", BaseTok)
    [] OTHER -> Sig(SigningKey(d), PresentedTok(d))

(* A client may refuse locally to use a credential it can see is unusable
   (altered text it cannot parse, an expired token): the statement allows it. *)
ClientMayRefuse(d) ==
  d.via = "config" /\ d.kind \in {"tok_hdr", "tok_pay", "tok_sig", "tok_sig_same", "exp_past", "exp_now"}

LoadCredential ==
  /\ pc = "init" /\ mode = "exchange"
  /\ cTok' = ConfigTok(dev) /\ cSig' = ConfigSig(dev)
  /\ \/ pc' = "c1" /\ UNCHANGED <<cOut, sOut>>
     \/ ClientMayRefuse(dev) /\ pc' = "done" /\ cOut' = "fail" /\ sOut' = "fail"
  /\ UNCHANGED <<mode, dev, m1, m2, m3, m2s, sErr, tol, sUser, vOut>>

(* ---- message 1 and its deviation ----------------------------------------- *)
Honest1 == Msg1(OK, cTok.sub, cTok, "ra1")

(* the insider speaks for itself: it presents the token of the scenario *)
InsiderTok(d) == IF d.kind = "claim_all" THEN BaseTok ELSE PresentedTok(d)
InsiderId(d)  == IF d.kind = "claim_all" THEN Mallory ELSE InsiderTok(d).sub

Dev1(d, m) ==
  IF d.via = "insider" THEN Msg1(OK, InsiderId(d), InsiderTok(d), "ra1")
  ELSE IF d.msg # 1 THEN m ELSE
  CASE d.kind = "tok_hdr" -> [m EXCEPT !.tok = AlterHdr(m.tok, d.pos)]
    [] d.kind = "tok_pay" -> [m EXCEPT !.tok = AlterPay(m.tok, d.pos)]
    [] d.kind = "tok_pay_sub" -> [m EXCEPT !.tok = [m.tok EXCEPT !.sub = Mallory]]
    [] d.kind = "claim_m1" -> [m EXCEPT !.a = Mallory]
    [] d.kind = "status_err" -> [m EXCEPT !.status = ERR]
    [] d.kind = "status_abort" -> [m EXCEPT !.status = 1]
    [] d.kind = "status_other" -> [m EXCEPT !.status = 7]
    [] d.kind = "trail" -> [m EXCEPT !.trail = TRUE]
    [] d.kind = "cut" -> [m EXCEPT !.ra = "short", !.bad = TRUE]
    [] d.kind = "nonce_wrong" -> [m EXCEPT !.ra = "raX"]
    [] d.kind = "nonce_trunc" -> [m EXCEPT !.ra = "short"]
    [] d.kind = "nonce_empty" -> [m EXCEPT !.ra = "empty"]
    [] OTHER -> m

ClientSend1 ==
  /\ pc = "c1"
  /\ m1' = Dev1(dev, Honest1)
  /\ pc' = "s1"
  /\ UNCHANGED <<mode, dev, cTok, cSig, m2, m3, m2s, sErr, tol, cOut, sOut, sUser, vOut>>

(* ---- server: receive 1, validate the token, derive keys, send 2 ---------- *)
(* receiveServerTokenStep1 + validateTokenAndDeriveKeys + validateTokenTiming *)
TextAltered(t) == t.halt # "" \/ t.palt # ""
(* loadSigningKey.  Known-wrong designs: KidPrefixContainment resolves the path
   and tests containment by STRING PREFIX of the key directory's name, which a
   sibling directory whose name extends it passes; KidNoSanitize just opens
   <keydir>/<kid>. *)
SrvKeyOf(kid, d) ==
  IF "KidNoSanitize" \in Bug /\ kid \in {"up_sibling", "up_unrelated", "up_back_in", "dot_k1", "sub_inner", "dotdot_name"}
    THEN FileOf(kid)
  ELSE IF "KidPrefixContainment" \in Bug /\ kid \in {"up_sibling", "up_back_in", "dot_k1", "sub_inner", "dotdot_name"}
    THEN FileOf(kid)
  ELSE IntendedKey(kid, d, lenK)
SKey(t) == SrvKeyOf(t.kid, dev)                 \* loadSigningKey
SSig(t) == Sig(SKey(t), t)                      \* computeTokenSignature
SK(t)   == Kdf(SSig(t), t)                      \* deriveTokenKeys

NecFail1(m) ==
  \/ SKey(m.tok) = "none"                                   \* no such key: the signature cannot be recomputed
  \/ ("SkipExpiry" \notin Bug /\ Expired(m.tok))
  \/ ("SkipMaxAge" \notin Bug /\ TooOld(m.tok))
StrictViolated1(m) ==
  \/ m.status # OK \/ m.trail \/ m.bad
  \/ m.ra \in {"short", "empty"}
  \/ TextAltered(m.tok)                                       \* may be unparsable
  \/ TimeEdge(m.tok) \/ SilentClaims(dev)
  \/ m.a # m.tok.sub

SubjectOf(m) == IF "IdentityFromClaim" \in Bug THEN m.a ELSE m.tok.sub

Honest2(m, err) ==
  IF err THEN NoMsg2
  ELSE Msg2(OK, SubjectOf(m), ServerId, m.ra, "rb1",
            Mac(SK(m.tok), "m2", SubjectOf(m), ServerId, m.ra, "rb1", "server", 1))

(* messages of an earlier honest session with the same (baseline) token, which
   an on-path party has recorded *)
OldK == Kdf(Sig("K1", BaseTok), BaseTok)
Old2 == Msg2(OK, Alice, ServerId, "ra0", "rb0", Mac(OldK, "m2", Alice, ServerId, "ra0", "rb0", "server", 0))
Old3 == Msg3(OK, Alice, "rb0", Mac(OldK, "m3", Alice, "", "", "rb0", "client", 0))
JunkK == Kdf(Sig("junk", BaseTok), BaseTok)

Dev2(d, m) ==
  IF d.msg # 2 THEN m ELSE
  CASE d.kind = "echo_a" -> [m EXCEPT !.a = Mallory]
    [] d.kind = "server_id" -> [m EXCEPT !.b = "other"]
    [] d.kind = "status_err" -> [m EXCEPT !.status = ERR]
    [] d.kind = "status_abort" -> [m EXCEPT !.status = 1]
    [] d.kind = "status_other" -> [m EXCEPT !.status = 7]
    [] d.kind = "trail" -> [m EXCEPT !.trail = TRUE]
    [] d.kind = "cut" -> [m EXCEPT !.mac = [m.mac EXCEPT !.shape = "short"], !.bad = TRUE]
    [] d.kind = "mac_wrong" -> [m EXCEPT !.mac = [m.mac EXCEPT !.shape = "flipped"]]
    [] d.kind = "mac_trunc" -> [m EXCEPT !.mac = [m.mac EXCEPT !.shape = "short"]]
    [] d.kind = "mac_long" -> [m EXCEPT !.mac = [m.mac EXCEPT !.shape = "long"]]
    [] d.kind = "mac_empty" -> [m EXCEPT !.mac = NoMac]
    [] d.kind = "replay_msg" -> Old2
    [] d.kind = "replay_mac" -> [m EXCEPT !.mac = Old2.mac]
    [] d.kind = "replay_proof" -> [m EXCEPT !.rb = Old2.rb, !.mac = Old2.mac]   \* old nonce and proof, current echo
    [] d.kind = "forge" -> [m EXCEPT !.mac = Mac(JunkK, "m2", m.a, m.b, m.ra, m.rb, "outsider", 1)]
    [] d.kind = "echo_wrong" -> [m EXCEPT !.ra = "raX"]
    [] d.kind = "echo_trunc" -> [m EXCEPT !.ra = "short"]
    [] d.kind = "echo_empty" -> [m EXCEPT !.ra = "empty"]
    [] d.kind = "nonce_wrong" -> [m EXCEPT !.rb = "rbX"]
    [] d.kind = "nonce_trunc" -> [m EXCEPT !.rb = "short"]
    [] d.kind = "nonce_empty" -> [m EXCEPT !.rb = "empty"]
    [] OTHER -> m

ServerStep12 ==
  /\ pc = "s1"
  /\ \E strict \in BOOLEAN :
       /\ strict => StrictViolated1(m1)
       /\ LET err == NecFail1(m1) \/ strict
              sent == Honest2(m1, err)
          IN /\ sErr' = err
             /\ tol' = (~err /\ StrictViolated1(m1))
             /\ m2s' = sent
             /\ m2' = Dev2(dev, sent)
  /\ pc' = "c2"
  /\ UNCHANGED <<mode, dev, cTok, cSig, m1, m3, cOut, sOut, sUser, vOut>>

(* ---- client: receive 2, verify, send 3 ----------------------------------- *)
CK == Kdf(cSig, cTok)
WellFormed(mac) == mac.shape = "full"

(* verifyTokenMAC: the proof must be keyed by the key derived from MY signature,
   be a message-2 proof, and cover MY fresh nonce *)
NecFail2(m) ==
  "SkipServerMac" \notin Bug /\
  ~ ( /\ WellFormed(m.mac)
      /\ m.mac.k = CK
      /\ ("NoFormatTag" \in Bug \/ m.mac.fmt = "m2")
      /\ ("ServerProofNoNonce" \in Bug \/ m.mac.ra = "ra1") )
StrictViolated2(m) ==
  \/ m.status # OK \/ m.trail \/ m.bad
  \/ m.a # cTok.sub \/ m.ra # "ra1"
  \/ m.rb \in {"short", "empty"}
  \/ m.mac.a # m.a \/ m.mac.b # m.b \/ m.mac.rb # m.rb

Honest3(m, err) ==
  IF err THEN NoMsg3
  ELSE Msg3(OK, cTok.sub, m.rb, Mac(CK, "m3", cTok.sub, "", "", m.rb, "client", 1))

InsiderK(d) == Kdf(Sig(SigningKey(d), InsiderTok(d)), InsiderTok(d))

Dev3(d, m) ==
  IF d.via = "insider" THEN
         \* the insider answers the server's message 2 itself (it needs only rB from it)
         IF m2s.status # OK THEN NoMsg3
         ELSE Msg3(OK, InsiderId(d), m2s.rb, Mac(InsiderK(d), "m3", InsiderId(d), "", "", m2s.rb, "insider", 1))
  ELSE IF d.msg # 3 THEN m ELSE
  CASE d.kind = "claim_m3" -> [m EXCEPT !.a = Mallory]
    [] d.kind = "status_err" -> [m EXCEPT !.status = ERR]
    [] d.kind = "status_abort" -> [m EXCEPT !.status = 1]
    [] d.kind = "status_other" -> [m EXCEPT !.status = 7]
    [] d.kind = "trail" -> [m EXCEPT !.trail = TRUE]
    [] d.kind = "cut" -> [m EXCEPT !.mac = [m.mac EXCEPT !.shape = "short"], !.bad = TRUE]
    [] d.kind = "mac_wrong" -> [m EXCEPT !.mac = [m.mac EXCEPT !.shape = "flipped"]]
    [] d.kind = "mac_trunc" -> [m EXCEPT !.mac = [m.mac EXCEPT !.shape = "short"]]
    [] d.kind = "mac_long" -> [m EXCEPT !.mac = [m.mac EXCEPT !.shape = "long"]]
    [] d.kind = "mac_empty" -> [m EXCEPT !.mac = NoMac]
    [] d.kind = "replay_msg" -> Old3
    [] d.kind = "replay_mac" -> [m EXCEPT !.mac = Old3.mac]
    [] d.kind = "reflect" -> [m EXCEPT !.mac = m2s.mac]
    [] d.kind = "forge" -> [m EXCEPT !.mac = Mac(JunkK, "m3", m.a, "", "", m.rb, "outsider", 1)]
    [] d.kind = "echo_wrong" -> [m EXCEPT !.rb = "rbX"]
    [] d.kind = "echo_trunc" -> [m EXCEPT !.rb = "short"]
    [] d.kind = "echo_empty" -> [m EXCEPT !.rb = "empty"]
    [] OTHER -> m

ClientStep23 ==
  /\ pc = "c2"
  /\ \E strict \in BOOLEAN :
       \* once a peer has tolerated an irregular message, what it then sends may
       \* itself be irregular in ways the statement does not constrain
       /\ strict => (StrictViolated2(m2) \/ tol)
       /\ LET err == NecFail2(m2) \/ strict
          IN /\ cOut' = IF dev.via = "insider" THEN "na" ELSE IF err THEN "fail" ELSE "ok"
             /\ tol' = (tol \/ (~err /\ StrictViolated2(m2)))
             /\ m3' = Dev3(dev, Honest3(m2, err))
  /\ pc' = "s3"
  /\ UNCHANGED <<mode, dev, cTok, cSig, m1, m2, m2s, sErr, sOut, sUser, vOut>>

(* ---- server: receive 3, verify the client's proof ------------------------ *)
(* the proof must be keyed by the key derived from the signature the server
   RECOMPUTED for the token it received, be a message-3 proof and cover the
   server's OWN fresh nonce *)
NecFail3(m) ==
  \/ sErr
  \/ ( "SkipClientMac" \notin Bug /\
       ~ ( /\ WellFormed(m.mac)
           /\ m.mac.k = SK(m1.tok)
           /\ ("NoFormatTag" \in Bug \/ m.mac.fmt = "m3")
           /\ (IF "MacOverEcho" \in Bug THEN m.mac.rb = m.rb ELSE m.mac.rb = "rb1") ) )
StrictViolated3(m) ==
  \/ m.status # OK \/ m.trail \/ m.bad
  \/ m.a # SubjectOf(m1) \/ m.mac.a # SubjectOf(m1)
  \/ m.rb # "rb1"

ServerStep3 ==
  /\ pc = "s3"
  /\ \E strict \in BOOLEAN :
       /\ strict => (StrictViolated3(m3) \/ tol)
       /\ IF NecFail3(m3) \/ strict
          THEN sOut' = "fail" /\ sUser' = ""
          ELSE sOut' = "ok" /\ sUser' = SubjectOf(m1)
  /\ pc' = "done"
  /\ UNCHANGED <<mode, dev, cTok, cSig, m1, m2, m3, m2s, sErr, tol, cOut, vOut>>

(* ---- standalone verification (VerifyIDToken) ----------------------------- *)
VTok ==
  CASE dev.kind = "v_hdr" -> AlterHdr(BaseTok, dev.pos)
    [] dev.kind = "v_pay" -> AlterPay(BaseTok, dev.pos)
    [] OTHER -> PresentedTok(dev)
VSig ==
  CASE dev.kind \in {"v_hdr", "v_pay"} -> Sig("K1", BaseTok)
    [] dev.kind = "v_sig" -> Sig("junk", BaseTok)
    [] OTHER -> Sig(SigningKey(dev), PresentedTok(dev))
VSrvKey == SrvKeyOf(VTok.kid, dev)

SigVerifies == VSrvKey # "none" /\ VSig = Sig(VSrvKey, VTok)
TimeValid   == ~Expired(VTok) /\ ~TooOld(VTok)
VSilent     == TimeEdge(VTok) \/ SilentClaims(dev) \/ dev.kind \in {"v_sig_same", "v_space"}   \* same signature bytes, other spelling

Verify ==
  /\ pc = "init" /\ mode = "verify"
  /\ \E strict \in BOOLEAN :
       /\ strict => VSilent
       /\ vOut' = IF \/ ("VerifySkipsSig" \notin Bug /\ ~SigVerifies)
                     \/ ("VerifySkipsTime" \notin Bug /\ ~TimeValid)
                     \/ strict
                  THEN "reject" ELSE "accept"
  /\ pc' = "done"
  /\ UNCHANGED <<mode, dev, cTok, cSig, m1, m2, m3, m2s, sErr, tol, cOut, sOut, sUser>>

Next == (LoadCredential \/ ClientSend1 \/ ServerStep12 \/ ClientStep23 \/ ServerStep3 \/ Verify) /\ UNCHANGED lenK

Spec == Init /\ [][Next]_vars

-----------------------------------------------------------------------------
(* Invariants = the statement of C11 *)

TypeOK ==
  /\ pc \in {"init", "c1", "s1", "c2", "s3", "done"}
  /\ mode \in {"exchange", "verify"}
  /\ cOut \in {"pending", "ok", "fail", "na"}
  /\ sOut \in {"pending", "ok", "fail"}
  /\ vOut \in {"pending", "accept", "reject"}

ClientSide == {"client", "insider"}

(* The server succeeds only if a party on the client's side of the wire
   computed, IN THIS SESSION, a proof keyed by the signature the server derives
   for the presented token from a key it holds. *)
ServerOkImpliesClientKnewSig ==
  sOut = "ok" =>
    /\ SKey(m1.tok) # "none"
    /\ m3.mac.shape = "full"
    /\ m3.mac.by \in ClientSide /\ m3.mac.sess = 1
    /\ m3.mac.k.sig = SSig(m1.tok)

(* ... and that key is one the server HOLDS as signing key: a file directly in
   its key directory named by the kid, or the pool key - never a file that a
   crafted kid merely reaches *)
ServerOkImpliesKeyHeld ==
  sOut = "ok" => SKey(m1.tok) \in AllowedKeys(m1.tok.kid, dev)

(* ... of an unexpired, not-too-old token *)
ServerOkImpliesTokenCurrent ==
  sOut = "ok" => Now <= m1.tok.exp /\ Now - m1.tok.iat <= MaxAge

(* the recorded identity is the subject inside the presented token *)
ServerIdentityIsSubject ==
  sOut = "ok" => sUser = m1.tok.sub

(* The client succeeds only if the server side computed, in this session, a
   proof keyed by the client's own signature. *)
ClientOkImpliesServerKnewSig ==
  cOut = "ok" =>
    /\ m2.mac.shape = "full"
    /\ m2.mac.by = "server" /\ m2.mac.sess = 1
    /\ m2.mac.k.sig = cSig

(* standalone verification accepts exactly the tokens whose signature verifies
   under the named key and whose time claims are currently valid *)
VerifyAcceptsExactly ==
  (mode = "verify" /\ pc = "done") =>
    /\ vOut = "accept" => ( /\ \E k \in AllowedKeys(VTok.kid, dev) : VSig = Sig(k, VTok)   \* under the NAMED, HELD key
                            /\ Now <= VTok.exp /\ Now - VTok.iat <= MaxAge )
    /\ (SigVerifies /\ TimeValid /\ ~VSilent) => vOut = "accept"

(* non-vacuity: the honest exchange, and exchanges whose only "deviation" is a
   comfortably valid time claim, succeed with the subject as identity *)
HonestRunSucceeds ==
  (mode = "exchange" /\ pc = "done" /\ dev.kind \in {"none", "exp_near", "iat_near"}) =>
    /\ sOut = "ok" /\ sUser = Alice
    /\ cOut \in {"ok", "na"}

(* the documented pool rule: kid "POOL" or an empty kid names the pool key *)
PoolRuleSucceeds ==
  (pc = "done" /\ dev.kind \in {"kid_path", "v_kid_path"} /\ dev.pos \in PoolKids) =>
    IF mode = "verify" THEN vOut = "accept" ELSE sOut = "ok" /\ sUser = Mallory /\ cOut \in {"ok", "na"}

=============================================================================
