\* C01 (ii): every composition of a message of 1..6 bytes into frames (explicit partial-frame
\* APIs of the stream and of the typed layer) x every composition of the reads; both modes
SPECIFICATION GenSpec
CONSTANTS
  Max = 1048576
  FlushAt = 4096
  Target = 16384
  Tag = 16
  IVLen = 16
  Hdr = 5
  Encs = {TRUE, FALSE}
  SendApis = {"frames", "typed"}
  RecvApis = {"complete", "startread", "typed"}
  WriteSizes = {1, 2, 3, 4, 5, 6}
  StrSizes = {}
  StrBytesSizes = {}
  ReadSizes = {1, 2, 3, 4, 5, 6}
  MaxMsgs = 1
  MaxWrites = 6
  MaxReads = 6
  MaxLen = 6
  PairFirst = {}
  TypedFlush = {TRUE}
  Interleave = FALSE
  MaxAbandon = 0
  Bug = {}
INVARIANT EmitTrace
CHECK_DEADLOCK FALSE
