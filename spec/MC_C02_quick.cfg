\* C02 quick: one direction
SPECIFICATION Spec
CONSTANTS
  MaxMsgsAB = 2
  MaxMsgsBA = 0
  MaxFrames = 2
  MaxCtr = 6
  StartCtrs = {0}
  PreFrames = {0}
  BaseEncs = {TRUE}
  MaxFaults = 1
  MaxHandoffs = 0
  Bug = {}
INVARIANTS TypeOK DeliveredPrefix NoSpuriousError NonceFresh FrameFormat
CHECK_DEADLOCK FALSE
