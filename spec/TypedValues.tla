---------------------------- MODULE TypedValues ----------------------------
(***************************************************************************)
(* HTCondor's typed-value layout as cedar's message.Message must produce   *)
(* and consume it (property C14), at byte level:                           *)
(*   char      1 byte                                                      *)
(*   integers  every width: 8 bytes, big-endian two's complement of the    *)
(*             value widened to 64 bits                                    *)
(*   double    two integers: fraction * (2^31 - 1) truncated to int32,     *)
(*             then the binary exponent  (frexp / ldexp)                   *)
(*   string    the bytes before the first NUL, then one NUL; on an         *)
(*             encrypting stream preceded by an integer holding the length *)
(*             INCLUDING the terminator                                    *)
(* plus the frame reader (ensureData of message.go, = Framing!PullNeed at  *)
(* byte level): the encoded byte string is cut into frames at arbitrary    *)
(* positions and decoded by GetChar / GetInt / GetDouble / GetString, which*)
(* refill across frame boundaries.                                         *)
(*                                                                         *)
(* Values are tokens chosen by name (ValueNames).  32-bit integers are     *)
(* computed byte by byte in TLA+; values outside TLC's 32-bit integers     *)
(* (int64 extremes, uint32 max) are constant byte tuples ("wide").  A      *)
(* double is its (fraction, exponent) pair: TLC has no reals, the harness  *)
(* computes the pair with frexp and checks the accuracy of the round trip. *)
(*                                                                         *)
(* Known wrong designs (Bug, non-vacuity only):                            *)
(*   "LittleEndian"          integers least significant byte first         *)
(*   "PrefixWithoutNul"      length prefix does not count the terminator   *)
(*   "StringStopsAtFrameEnd" GetString does not refill at a frame boundary *)
(*   "NoNulTruncation"       PutString sends bytes after an embedded NUL   *)
(***************************************************************************)
EXTENDS Integers, Sequences, FiniteSets, TLC

CONSTANTS
  ValueNames,   \* names of the value tokens to draw sequences from
  MaxVals,      \* length of the value sequence
  MaxCuts,      \* 0, 1 or 2 cut positions
  Encs,         \* subset of BOOLEAN
  Bug

FracConst == 2147483647

VARIABLES
  names,    \* Seq(ValueNames): the values written, in order
  encm,     \* encrypting stream?
  cuts,     \* set of cut positions in 1..Len(bytes)-1
  frames,   \* the byte string cut at `cuts`
  idx,      \* next value to decode
  fpos,     \* frames consumed
  buf,      \* reader buffer (bytes)
  eom,      \* last frame consumed
  out,      \* decoded values
  err

vars == <<names, encm, cuts, frames, idx, fpos, buf, eom, out, err>>

-----------------------------------------------------------------------------
(* Layout                                                                  *)
Rev(s) == [i \in 1..Len(s) |-> s[Len(s) + 1 - i]]

Byte(v, k) == (v \div (256 ^ k)) % 256        \* floor division: two's complement for v < 0

IntBytesBE(v) ==
  LET s == IF v < 0 THEN 255 ELSE 0 IN
    <<s, s, s, s, Byte(v, 3), Byte(v, 2), Byte(v, 1), Byte(v, 0)>>

IntBytes(v) == IF "LittleEndian" \in Bug THEN Rev(IntBytesBE(v)) ELSE IntBytesBE(v)

\* the value of 8 big-endian bytes when it fits 32 bits, else the bytes themselves
FromBytes(b) ==
  IF b[1] = 0 /\ b[2] = 0 /\ b[3] = 0 /\ b[4] = 0 /\ b[5] < 128
    THEN [t |-> "int", v |-> b[5] * 16777216 + b[6] * 65536 + b[7] * 256 + b[8]]
  ELSE IF b[1] = 255 /\ b[2] = 255 /\ b[3] = 255 /\ b[4] = 255 /\ b[5] >= 128
    THEN [t |-> "int", v |-> (b[5] - 256) * 16777216 + b[6] * 65536 + b[7] * 256 + b[8]]
  ELSE [t |-> "wide", b |-> b]

RECURSIVE UpToNul(_)
UpToNul(s) == IF s = <<>> \/ Head(s) = 0 THEN <<>> ELSE <<Head(s)>> \o UpToNul(Tail(s))

Content(s) == IF "NoNulTruncation" \in Bug THEN s ELSE UpToNul(s)

\* value tokens
Value(n) ==
  CASE n = "char_A"      -> [t |-> "char", v |-> 65]
    [] n = "char_ff"     -> [t |-> "char", v |-> 255]
    [] n = "int_12345"   -> [t |-> "int", v |-> 12345]
    [] n = "int_0"       -> [t |-> "int", v |-> 0]
    [] n = "int_m1"      -> [t |-> "int", v |-> -1]
    [] n = "int_max32"   -> [t |-> "int", v |-> 2147483647]
    [] n = "int_min32p1" -> [t |-> "int", v |-> -2147483647]
    [] n = "int_m256"    -> [t |-> "int", v |-> -256]
    [] n = "wide_max64"  -> [t |-> "wide", b |-> <<127, 255, 255, 255, 255, 255, 255, 255>>]
    [] n = "wide_min64"  -> [t |-> "wide", b |-> <<128, 0, 0, 0, 0, 0, 0, 0>>]
    [] n = "wide_u32max" -> [t |-> "wide", b |-> <<0, 0, 0, 0, 255, 255, 255, 255>>]
    [] n = "dbl_1"       -> [t |-> "double", frac |-> 1073741823, exp |-> 1]          \* 1.0 = 0.5 * 2^1
    [] n = "dbl_m0375"   -> [t |-> "double", frac |-> -1610612735, exp |-> -1]        \* -0.375 = -0.75 * 2^-1
    [] n = "dbl_0"       -> [t |-> "double", frac |-> 0, exp |-> 0]
    [] n = "dbl_tiny"    -> [t |-> "double", frac |-> 1073741823, exp |-> -1073]      \* 2^-1074
    [] n = "str_empty"   -> [t |-> "string", s |-> <<>>]
    [] n = "str_ab"      -> [t |-> "string", s |-> <<97, 98>>]
    [] n = "str_euro"    -> [t |-> "string", s |-> <<226, 130, 172>>]                 \* U+20AC in UTF-8
    [] n = "str_a0b"     -> [t |-> "string", s |-> <<97, 0, 98>>]                     \* embedded NUL

Layout(v, e) ==
  CASE v.t = "char"   -> <<v.v>>
    [] v.t = "int"    -> IntBytes(v.v)
    [] v.t = "wide"   -> IF "LittleEndian" \in Bug THEN Rev(v.b) ELSE v.b
    [] v.t = "double" -> IntBytes(v.frac) \o IntBytes(v.exp)
    [] v.t = "string" ->
         LET c == Content(v.s)
             n == IF "PrefixWithoutNul" \in Bug THEN Len(c) ELSE Len(c) + 1
         IN (IF e THEN IntBytes(n) ELSE <<>>) \o c \o <<0>>

Size(v, e) ==
  CASE v.t = "char"   -> 1
    [] v.t = "int"    -> 8
    [] v.t = "wide"   -> 8
    [] v.t = "double" -> 16
    [] v.t = "string" -> Len(UpToNul(v.s)) + 1 + (IF e THEN 8 ELSE 0)

\* what the receiver must get back
Canon(v) == IF v.t = "string" THEN [t |-> "string", s |-> UpToNul(v.s)] ELSE v

RECURSIVE Encode(_, _)
Encode(ns, e) == IF ns = <<>> THEN <<>> ELSE Layout(Value(Head(ns)), e) \o Encode(Tail(ns), e)

\* cut a byte string at a set of positions (a cut at p separates byte p from byte p+1)
RECURSIVE CutAt(_, _, _)
CutAt(bs, cs, from) ==
  IF cs = {} THEN <<SubSeq(bs, from, Len(bs))>>
  ELSE LET p == CHOOSE x \in cs : \A y \in cs : x <= y IN
         <<SubSeq(bs, from, p)>> \o CutAt(bs, cs \ {p}, p + 1)

CutSets(n) ==
  IF MaxCuts = 0 \/ n < 2 THEN {{}}
  ELSE IF MaxCuts = 1 THEN {{}} \cup {{i} : i \in 1..(n - 1)}
  ELSE {({i, j} \ {0}) : i \in 0..(n - 1), j \in 0..(n - 1)}

-----------------------------------------------------------------------------
(* The frame reader                                                        *)
R0 == [fpos |-> fpos, buf |-> buf, eom |-> eom]

\* ensureData(need): pull frames while short and not at end of message
RECURSIVE Ensure(_, _)
Ensure(r, need) ==
  IF Len(r.buf) >= need \/ r.eom THEN r
  ELSE Ensure([fpos |-> r.fpos + 1, buf |-> r.buf \o frames[r.fpos + 1],
               eom |-> (r.fpos + 1 = Len(frames))], need)

\* result of a read: [r, ok, val]
Fail(r) == [r |-> r, ok |-> FALSE, val |-> <<>>]

TakeN(r, n) ==
  LET r1 == Ensure(r, n) IN
    IF Len(r1.buf) < n THEN Fail(r1)
    ELSE [r |-> [r1 EXCEPT !.buf = SubSeq(@, n + 1, Len(@))], ok |-> TRUE, val |-> SubSeq(r1.buf, 1, n)]

ReadInt(r) ==
  LET x == TakeN(r, 8) IN
    IF ~x.ok THEN x
    ELSE [x EXCEPT !.val = FromBytes(IF "LittleEndian" \in Bug THEN Rev(x.val) ELSE x.val)]

\* plain string: byte by byte up to the terminator, refilling at frame ends
RECURSIVE ReadToNul(_, _)
ReadToNul(r, acc) ==
  LET r1 == IF "StringStopsAtFrameEnd" \in Bug THEN r ELSE Ensure(r, 1) IN
    IF r1.buf = <<>> THEN
      IF "StringStopsAtFrameEnd" \in Bug THEN [r |-> r1, ok |-> TRUE, val |-> acc] ELSE Fail(r1)
    ELSE LET b  == Head(r1.buf)
             r2 == [r1 EXCEPT !.buf = Tail(@)] IN
           IF b = 0 THEN [r |-> r2, ok |-> TRUE, val |-> acc] ELSE ReadToNul(r2, Append(acc, b))

ReadString(r) ==
  IF encm THEN
    LET n == ReadInt(r) IN
      IF ~n.ok \/ n.val.t # "int" \/ n.val.v < 0 THEN Fail(n.r)
      ELSE LET x == TakeN(n.r, n.val.v) IN
             IF ~x.ok THEN x
             ELSE [x EXCEPT !.val = [t |-> "string",
                     s |-> IF x.val # <<>> /\ x.val[Len(x.val)] = 0
                           THEN SubSeq(x.val, 1, Len(x.val) - 1) ELSE x.val]]
  ELSE LET x == ReadToNul(IF "StringStopsAtFrameEnd" \in Bug THEN Ensure(r, 1) ELSE r, <<>>) IN
         IF ~x.ok THEN x ELSE [x EXCEPT !.val = [t |-> "string", s |-> x.val]]

ReadValue(r, t) ==
  CASE t = "char" ->
         LET x == TakeN(r, 1) IN IF ~x.ok THEN x ELSE [x EXCEPT !.val = [t |-> "char", v |-> x.val[1]]]
    [] t \in {"int", "wide"} -> ReadInt(r)
    [] t = "double" ->
         LET f == ReadInt(r) IN
           IF ~f.ok THEN f
           ELSE LET e == ReadInt(f.r) IN
                  IF ~e.ok THEN e
                  ELSE IF f.val.t # "int" \/ e.val.t # "int" THEN Fail(e.r)
                  ELSE [e EXCEPT !.val = [t |-> "double", frac |-> f.val.v, exp |-> e.val.v]]
    [] t = "string" -> ReadString(r)

-----------------------------------------------------------------------------
Seqs == UNION {[1..n -> ValueNames] : n \in 1..MaxVals}

Init ==
  /\ names \in Seqs
  /\ encm \in Encs
  /\ cuts \in CutSets(Len(Encode(names, encm)))
  /\ frames = CutAt(Encode(names, encm), cuts, 1)
  /\ idx = 1 /\ fpos = 0 /\ buf = <<>> /\ eom = FALSE /\ out = <<>> /\ err = FALSE

\* one Get* call of the receiving application, which knows the type sequence
Get ==
  /\ idx <= Len(names) /\ ~err
  /\ LET x == ReadValue(R0, Value(names[idx]).t) IN
       /\ fpos' = x.r.fpos /\ buf' = x.r.buf /\ eom' = x.r.eom
       /\ err' = ~x.ok
       /\ out' = IF x.ok THEN Append(out, x.val) ELSE out
  /\ idx' = idx + 1
  /\ UNCHANGED <<names, encm, cuts, frames>>

Next == Get
Spec == Init /\ [][Next]_vars

Done == idx > Len(names) \/ err

-----------------------------------------------------------------------------
(* Properties                                                              *)
TypeOK ==
  /\ \A i \in 1..Len(frames) : \A j \in 1..Len(frames[i]) : frames[i][j] \in 0..255
  /\ fpos \in 0..Len(frames)

\* the examples the protocol document gives
LayoutExamples ==
  /\ encm \in BOOLEAN      \* (state-level, so that TLC reports it like the other invariants)
  /\ IntBytes(12345) = <<0, 0, 0, 0, 0, 0, 48, 57>>
  /\ IntBytes(-1) = <<255, 255, 255, 255, 255, 255, 255, 255>>
  /\ IntBytes(-2147483647) = <<255, 255, 255, 255, 128, 0, 0, 1>>
  /\ Layout(Value("str_empty"), FALSE) = <<0>>
  /\ Layout(Value("str_ab"), FALSE) = <<97, 98, 0>>
  /\ Layout(Value("str_ab"), TRUE) = <<0, 0, 0, 0, 0, 0, 0, 3, 97, 98, 0>>
  /\ Layout(Value("str_a0b"), FALSE) = <<97, 0>>
  /\ Layout(Value("dbl_1"), FALSE) = <<0, 0, 0, 0, 63, 255, 255, 255, 0, 0, 0, 0, 0, 0, 0, 1>>

SizeOK == \A i \in 1..Len(names) : Len(Layout(Value(names[i]), encm)) = Size(Value(names[i]), encm)

DoubleShape ==
  \A i \in 1..Len(names) :
    LET v == Value(names[i]) IN
      v.t = "double" =>
        \/ v.frac = 0
        \/ (v.frac >= 1073741823 /\ v.frac <= FracConst)
        \/ (v.frac <= -1073741823 /\ v.frac >= -FracConst)

(* Decoding what was encoded returns the values, wherever the frame
   boundaries fall: for EVERY cut set the outcome is the canonical value
   sequence, hence the same for all of them.                                *)
CutIndependence ==
  /\ ~err
  /\ Len(out) = idx - 1
  /\ \A i \in 1..Len(out) : out[i] = Canon(Value(names[i]))
  /\ idx > Len(names) => (buf = <<>> /\ \A i \in (fpos + 1)..Len(frames) : frames[i] = <<>>)
=============================================================================
