------------------------------ MODULE ClientConn ------------------------------
(***************************************************************************)
(* G07 -- connection life cycle of cedar's client and server scaffolding.  *)
(*                                                                         *)
(*  Part T  pure tables: ClientConfig.KeepAlive -> TCP keep-alive options  *)
(*          (client/client.go keepAliveConfig, stream/keepalive.go Apply,  *)
(*          server.New) and address -> routing (client.Connect).           *)
(*  Part C  HTCondorClient: NewClient / Connect / ConnectAndAuthenticate / *)
(*          Close / a blocked read, one action per public call, against an *)
(*          environment that refuses, stalls the dial, accepts and closes, *)
(*          accepts and stalls, answers garbage, serves or rejects the     *)
(*          handshake; the context of a call is live, already cancelled,   *)
(*          cancelled while the call blocks, or carries a deadline.        *)
(*  Part S  server.Server.Serve: accept loop, per-connection goroutines,   *)
(*          handlers that succeed / fail / panic / block / keep the        *)
(*          connection, cancellation of the context (the only shutdown the *)
(*          package has), the listener closed from outside, a temporary    *)
(*          Accept error.  Dispatch adequacy is Server.tla (C05), not here.*)
(*                                                                         *)
(* Known-wrong designs are members of Bug; `act` (chosen once, a subset of *)
(* Bug) is the set that is active in a behaviour, so that MC configs use   *)
(* Bug = {} and a SelfTest config with Bug = {"X"} must violate.           *)
(***************************************************************************)
EXTENDS Integers, Sequences, FiniteSets, TLC

CONSTANTS
  Hows,      \* how the client object comes to be: "new" (NewClient) / "ca" (ConnectAndAuthenticate*)
  Routes,    \* "direct" | "shared" | "ccb"
  Secs,      \* ClientConfig.Security: "none" (nil) | "sec"
  EnvsNew,   \* environments offered to Connect on a NewClient client
  EnvsCA,    \* environments offered to ConnectAndAuthenticate
  Ctxs,      \* "live" | "pre" | "during" | "deadline"
  MaxCalls,  \* public calls per behaviour
  MaxSock,   \* sockets handed to the user per behaviour
  MaxConn,   \* Part S: connections
  Kinds,     \* Part S: handler kinds "ok" "err" "panic" "block" "keepopen" "unknown"
  Bug

VARIABLES
  act,                                             \* active bugs
  how, route, sec, cl, cur, socks, neg, authed,    \* Part C
  leak, pend, ctxc, tmo, ncalls, ret,
  srv, cause, cancelled, lopen, tempq, conns       \* Part S

cvars == <<how, route, sec, cl, cur, socks, neg, authed, leak, pend, ctxc, tmo, ncalls, ret>>
svars == <<srv, cause, cancelled, lopen, tempq, conns>>
vars  == <<act, cvars, svars>>

Has(b) == b \in act

-----------------------------------------------------------------------------
(* Part T: tables                                                          *)

FieldClasses == {"neg", "zero", "pos"}
KAInputs ==
  {[given |-> FALSE, en |-> FALSE, idle |-> "zero", intvl |-> "zero", cnt |-> "zero"]} \cup
  [given : {TRUE}, en : BOOLEAN, idle : FieldClasses, intvl : FieldClasses, cnt : FieldClasses]

\* the socket option a field class leads to: "given" = the configured value,
\* "base" = whatever the socket had before (OS / Go default), "dNNN" = HTCondor default
KAField(B, c) == IF c = "pos" THEN "given"
                 ELSE IF c = "zero" /\ "KAZeroIsValue" \in B THEN "given" ELSE "base"

KAEffB(B, in) ==
  IF ~in.given
    THEN IF "KADefaultOff" \in B
           THEN [on |-> FALSE, idle |-> "any", intvl |-> "any", cnt |-> "any"]
           ELSE [on |-> TRUE, idle |-> "d360", intvl |-> "d5", cnt |-> "d5"]
    ELSE IF ~in.en /\ "KADisableIgnored" \notin B
           THEN [on |-> FALSE, idle |-> "any", intvl |-> "any", cnt |-> "any"]
           ELSE [on |-> TRUE, idle |-> KAField(B, in.idle), intvl |-> KAField(B, in.intvl), cnt |-> KAField(B, in.cnt)]

\* what a user of ClientConfig.KeepAlive / Server.KeepAlive relies on
KATableOK(B) ==
  \A in \in KAInputs :
    LET e == KAEffB(B, in) IN
      /\ (~in.given => e = [on |-> TRUE, idle |-> "d360", intvl |-> "d5", cnt |-> "d5"])   \* nil = HTCondor defaults
      /\ (in.given /\ ~in.en => ~e.on)                                                      \* Enable=false turns it off
      /\ (in.given /\ in.en =>
            /\ e.on
            /\ (in.idle = "pos" <=> e.idle = "given") /\ (in.idle # "pos" => e.idle = "base")
            /\ (in.intvl = "pos" <=> e.intvl = "given") /\ (in.intvl # "pos" => e.intvl = "base")
            /\ (in.cnt = "pos" <=> e.cnt = "given") /\ (in.cnt # "pos" => e.cnt = "base"))

\* address classes: ccb contact (none / well formed / no '#'), sock parameter
\* (none / valid / invalid id), the address empty
AddrInputs == [ccb : {"none", "ok", "nohash"}, sock : {"none", "ok", "bad"}, empty : BOOLEAN]

RouteOfB(B, a) ==
  IF a.empty THEN "error"
  ELSE IF a.ccb = "ok" /\ ~("SockBeatsCCB" \in B /\ a.sock = "ok") THEN "ccb"
  ELSE IF a.sock = "ok" THEN "shared"
  ELSE IF a.sock = "bad" THEN (IF "BadSockDirect" \in B THEN "direct" ELSE "error")
  ELSE "direct"

RouteTableOK(B) ==
  \A a \in AddrInputs :
    LET r == RouteOfB(B, a) IN
      /\ (a.empty => r = "error")
      /\ (~a.empty /\ a.ccb = "ok" => r = "ccb")                      \* a CCB contact wins over everything
      /\ (~a.empty /\ a.ccb # "ok" /\ a.sock = "ok" => r = "shared")
      /\ (~a.empty /\ a.ccb # "ok" /\ a.sock = "bad" => r = "error")  \* never a silent direct dial
      /\ (~a.empty /\ a.ccb # "ok" /\ a.sock = "none" => r = "direct")

TablesOK == KATableOK(act) /\ RouteTableOK(act)

-----------------------------------------------------------------------------
(* Part C: the client                                                      *)

NoPend == [op |-> "none", e |-> "none", x |-> "none", ph |-> "none", sock |-> 0]
NoRet  == [call |-> "none", res |-> "none", by |-> "none"]

Accepts(e) == e \in {"close", "stall", "garbage", "serve", "reject"}

\* the TCP / broker phase of a call: "ok" (a stream results), "err", "block"
ConnPhase(e, x) ==
  IF route = "ccb"
    THEN IF sec = "none" \/ e = "absent" THEN "err"
         ELSE IF x = "pre" THEN "err"
         ELSE IF e \in {"dialstall", "stall"} THEN "block"
         ELSE "err"                                     \* no broker among the environments: close / garbage / ...
    ELSE IF e = "absent" THEN "err"
         ELSE IF e = "dialstall"
                THEN IF x = "pre" /\ ~(route = "shared" /\ Has("SharedPortDialIgnoresCtx")) THEN "err" ELSE "block"
         ELSE IF x = "pre" THEN "err" ELSE "ok"

\* does the configured Timeout end the blocked phase?  (it bounds the dial and the
\* whole CCB exchange; nothing but the context bounds the security handshake)
TimeoutApplies == pend.ph = "dial"
CtxIgnored     == pend.ph = "dial" /\ route = "shared" /\ pend.e = "dialstall" /\ Has("SharedPortDialIgnoresCtx")

IsConn == cur # 0 /\ (socks[cur].open \/ Has("StaleIsConnected"))

OpenSock(e, hs) == [open |-> TRUE, env |-> e, hs |-> hs]
CloseAt(s, i)   == [s EXCEPT ![i].open = FALSE]

CanCall == pend.op = "none" /\ ncalls < MaxCalls

\* what a failed Connect does to the connection the client already had: nothing, or it
\* closes it; GetStream may afterwards still return the old (closed) stream or nil
FailedConnectKeeps ==
  \/ UNCHANGED <<cur, socks>>
  \/ cur # 0 /\ socks[cur].open /\ socks' = CloseAt(socks, cur) /\ cur' \in {cur, 0}
  \/ cur # 0 /\ ~socks[cur].open /\ cur' = 0 /\ UNCHANGED socks
  \/ Has("ReconnectLeaks") /\ route = "shared" /\ cur # 0 /\ socks[cur].open /\ cur' = 0 /\ UNCHANGED socks

\* Connect does not authenticate: the record of an earlier handshake may survive it
\* (it describes that handshake) or be dropped (the new connection has none)
NegAfterConnect(returns) == IF returns THEN neg' \in {neg, FALSE} ELSE neg' = neg

\* Connect on a client object: one public call
Connect(e, x) ==
  /\ CanCall /\ cl = "live" /\ e \in EnvsNew /\ x \in Ctxs
  /\ ncalls' = ncalls + 1
  /\ LET ph == ConnPhase(e, x) IN
     CASE ph = "block" ->
            /\ pend' = [op |-> "connect", e |-> e, x |-> x, ph |-> "dial", sock |-> 0]
            /\ ctxc' = (x = "pre") /\ tmo' = FALSE
            /\ UNCHANGED <<cur, socks, ret, leak>>
       [] ph = "err" ->
            /\ ret' = [call |-> "connect", res |-> "err", by |-> "fast"]
            /\ FailedConnectKeeps
            /\ UNCHANGED <<pend, ctxc, tmo, leak>>
       [] ph = "ok" ->
            \/ /\ Len(socks) < MaxSock
               /\ ret' = [call |-> "connect", res |-> "ok", by |-> "fast"]
               /\ LET old == IF cur # 0 /\ socks[cur].open /\ ~Has("ReconnectLeaks") THEN CloseAt(socks, cur) ELSE socks
                  IN socks' = Append(old, OpenSock(e, FALSE))
               /\ cur' = Len(socks) + 1
               /\ UNCHANGED <<pend, ctxc, tmo, leak>>
            \/ /\ cur # 0 /\ socks[cur].open                                   \* refusing to reconnect is admissible
               /\ ret' = [call |-> "connect", res |-> "err", by |-> "fast"]
               /\ UNCHANGED <<cur, socks, pend, ctxc, tmo, leak>>
  /\ NegAfterConnect(pend'.op = "none")
  /\ UNCHANGED <<how, route, sec, cl, authed>>

\* a dial error that is swallowed: Connect says nil and there is no stream
ConnectSwallow(e, x) ==
  /\ Has("SwallowDialError") /\ CanCall /\ cl = "live" /\ e \in EnvsNew /\ x \in Ctxs
  /\ ConnPhase(e, x) = "err" /\ cur = 0
  /\ ncalls' = ncalls + 1
  /\ ret' = [call |-> "connect", res |-> "ok", by |-> "fast"]
  /\ UNCHANGED <<how, route, sec, cl, neg, authed, cur, socks, pend, ctxc, tmo, leak>>

Close ==
  /\ cl = "live" /\ ncalls < MaxCalls
  /\ pend.op \in {"none", "read"}                       \* Close may race with a blocked read
  /\ ncalls' = ncalls + 1
  /\ IF cur = 0
       THEN ret' = [call |-> "close", res |-> "ok", by |-> "fast"] /\ UNCHANGED <<cur, socks>>
     ELSE IF socks[cur].open
       THEN /\ ret' = [call |-> "close", res |-> "ok", by |-> "fast"]
            /\ IF Has("CloseLeavesSocket") THEN cur' = 0 /\ UNCHANGED socks
                                           ELSE socks' = CloseAt(socks, cur) /\ UNCHANGED cur
       ELSE /\ \E r \in {"ok", "err"} : ret' = [call |-> "close", res |-> r, by |-> "fast"]   \* double Close: either
            /\ UNCHANGED <<cur, socks>>
  /\ UNCHANGED <<how, route, sec, cl, neg, authed, pend, ctxc, tmo, leak>>

\* a read on the stream of a silent peer blocks; only Close (or the peer) ends it
ReadBegin ==
  /\ CanCall /\ cl = "live" /\ cur # 0 /\ socks[cur].open /\ socks[cur].env \in {"stall", "serve"}
  /\ ncalls' = ncalls + 1
  /\ pend' = [op |-> "read", e |-> socks[cur].env, x |-> "live", ph |-> "read", sock |-> cur]
  /\ ctxc' = FALSE /\ tmo' = FALSE
  /\ UNCHANGED <<how, route, sec, cl, cur, socks, neg, authed, ret, leak>>

ReadEnd ==
  /\ pend.op = "read" /\ ~socks[pend.sock].open
  /\ pend' = NoPend
  /\ ret' = [call |-> "read", res |-> "err", by |-> "fast"]
  /\ UNCHANGED <<how, route, sec, cl, cur, socks, neg, authed, ctxc, tmo, ncalls, leak>>

\* ConnectAndAuthenticate[WithConfig]: a client comes back only on success
CASucceed(e, hs) ==
  /\ cl' = "live" /\ socks' = Append(socks, OpenSock(e, hs)) /\ cur' = Len(socks) + 1
  /\ neg' = (hs /\ ~Has("NegDropped")) /\ authed' = hs
  /\ ret' = [call |-> "ca", res |-> "ok", by |-> "fast"]

CAFail(by) ==
  /\ ret' = [call |-> "ca", res |-> "err", by |-> by]
  /\ UNCHANGED <<cl, socks, cur, neg, authed>>

CA(e, x) ==
  /\ CanCall /\ how = "ca" /\ cl = "none" /\ e \in EnvsCA /\ x \in Ctxs
  /\ ncalls' = ncalls + 1
  /\ LET ph == ConnPhase(e, x) IN
     CASE ph = "block" ->
            /\ pend' = [op |-> "ca", e |-> e, x |-> x, ph |-> "dial", sock |-> 0]
            /\ ctxc' = (x = "pre") /\ tmo' = FALSE
            /\ UNCHANGED <<cl, socks, cur, neg, authed, ret, leak>>
       [] ph = "err" -> CAFail("fast") /\ UNCHANGED <<pend, ctxc, tmo, leak>>
       [] ph = "ok" ->
            IF sec = "none" THEN CASucceed(e, FALSE) /\ UNCHANGED <<pend, ctxc, tmo, leak>>
            ELSE CASE e = "serve" -> CASucceed(e, TRUE) /\ UNCHANGED <<pend, ctxc, tmo, leak>>
                   [] e = "stall" ->
                        /\ pend' = [op |-> "ca", e |-> e, x |-> x, ph |-> "hs", sock |-> 0]
                        /\ ctxc' = FALSE /\ tmo' = FALSE
                        /\ UNCHANGED <<cl, socks, cur, neg, authed, ret, leak>>
                   [] OTHER ->                                      \* close / garbage / reject: the handshake fails
                        /\ CAFail("fast")
                        /\ leak' = IF Has("LeakOnAuthFailure") THEN leak + 1 ELSE leak
                        /\ UNCHANGED <<pend, ctxc, tmo>>
  /\ UNCHANGED <<how, route, sec>>

\* the environment ends the context of the blocked call / the Timeout expires
EnvCancel ==
  /\ pend.op \in {"connect", "ca"} /\ pend.x \in {"during", "deadline"} /\ ~ctxc
  /\ ctxc' = TRUE
  /\ UNCHANGED <<act, how, route, sec, cl, cur, socks, neg, authed, leak, pend, tmo, ncalls, ret, svars>>

EnvTimeout ==
  /\ pend.op \in {"connect", "ca"} /\ TimeoutApplies /\ ~tmo
  /\ tmo' = TRUE
  /\ UNCHANGED <<act, how, route, sec, cl, cur, socks, neg, authed, leak, pend, ctxc, ncalls, ret, svars>>

\* the blocked call returns: always an error, nothing left open
CallEnd ==
  /\ pend.op \in {"connect", "ca"}
  /\ \/ ctxc /\ ~CtxIgnored
     \/ tmo /\ TimeoutApplies
  /\ pend' = NoPend
  /\ ret' = [call |-> pend.op, res |-> "err",
             by |-> IF ctxc /\ ~CtxIgnored THEN "fast" ELSE "timeout"]
  /\ leak' = IF pend.ph = "hs" /\ Has("LeakOnAuthFailure") THEN leak + 1 ELSE leak
  /\ IF pend.op = "connect" THEN FailedConnectKeeps /\ NegAfterConnect(TRUE) ELSE UNCHANGED <<cur, socks, neg>>
  /\ UNCHANGED <<how, route, sec, cl, authed, ctxc, tmo, ncalls>>

CInit ==
  /\ how \in Hows /\ route \in Routes /\ sec \in Secs
  /\ cl = (IF how = "new" THEN "live" ELSE "none")
  /\ cur = 0 /\ socks = <<>> /\ neg = FALSE /\ authed = FALSE /\ leak = 0
  /\ pend = NoPend /\ ctxc = FALSE /\ tmo = FALSE /\ ncalls = 0 /\ ret = NoRet

SIdle ==
  /\ srv = "init" /\ cause = "none" /\ cancelled = FALSE /\ lopen = FALSE /\ tempq = "none" /\ conns = <<>>

CCalls ==
  \/ \E e \in EnvsNew, x \in Ctxs : Connect(e, x) \/ ConnectSwallow(e, x)
  \/ \E e \in EnvsCA, x \in Ctxs : CA(e, x)
  \/ Close \/ ReadBegin \/ ReadEnd \/ CallEnd

CNext == \/ CCalls /\ UNCHANGED <<act, svars>>
         \/ EnvCancel \/ EnvTimeout

InitC == act \in SUBSET Bug /\ CInit /\ SIdle
SpecC == InitC /\ [][CNext]_vars
LiveC == SpecC /\ WF_vars(CallEnd /\ UNCHANGED <<act, svars>>) /\ WF_vars(ReadEnd /\ UNCHANGED <<act, svars>>)

(* ---- what a user of the client relies on ---- *)

SockT == [open : BOOLEAN, env : EnvsNew \cup EnvsCA, hs : BOOLEAN]
TypeOKC ==
  /\ how \in Hows /\ route \in Routes /\ sec \in Secs /\ cl \in {"none", "live"}
  /\ socks \in Seq(SockT) /\ Len(socks) <= MaxSock /\ cur \in 0..Len(socks)
  /\ neg \in BOOLEAN /\ authed \in BOOLEAN /\ leak \in 0..MaxCalls
  /\ pend.op \in {"none", "connect", "ca", "read"} /\ ctxc \in BOOLEAN /\ tmo \in BOOLEAN
  /\ ncalls \in 0..MaxCalls /\ ret.res \in {"none", "ok", "err"}

\* IsConnected is true exactly between a successful Connect and Close
ConnectedIffOpen == IsConn <=> (cur # 0 /\ socks[cur].open)

\* no socket outlives the reference to it: a failed Connect / authenticate leaves
\* nothing open, a replaced or closed stream is closed
NoOrphan == leak = 0 /\ \A i \in DOMAIN socks : socks[i].open => i = cur

\* GetSecurityNegotiation: non-nil only after a handshake, and always after one
NegIffAuth ==
  /\ neg => authed
  /\ (ret.call = "ca" /\ ret.res = "ok") => (neg <=> sec = "sec")

\* errors are returned, never swallowed: success means there is an open stream
SuccessMeansStream ==
  (ret.call \in {"connect", "ca"} /\ ret.res = "ok") => (cl = "live" /\ cur # 0 /\ socks[cur].open)

\* no client object, no sockets
NothingWithoutClient == cl = "none" => socks = <<>> /\ cur = 0 /\ ~neg

\* Connect / ConnectAndAuthenticate honour the context; Close unblocks a read
CtxHonoured   == (pend.op \in {"connect", "ca"} /\ ctxc) ~> (pend.op = "none")
CloseUnblocks == (pend.op = "read" /\ (cur = 0 \/ ~socks[pend.sock].open)) ~> (pend.op = "none")

-----------------------------------------------------------------------------
(* Part S: server.Server.Serve                                             *)

ConnT == [st : {"queued", "idle", "half", "cmd", "run", "closed", "kept", "refused"},
          k : Kinds \cup {"none"}, ran : 0..2, ctxd : BOOLEAN, rel : BOOLEAN, late : BOOLEAN]
NewConn(st) == [st |-> st, k |-> "none", ran |-> 0, ctxd |-> FALSE, rel |-> FALSE, late |-> FALSE]
CI == DOMAIN conns
SetC(i, r) == conns' = [conns EXCEPT ![i] = r]

\* ---- environment ----
EStart ==
  /\ srv = "init" /\ srv' = "serving" /\ lopen' = TRUE
  /\ UNCHANGED <<cause, cancelled, tempq, conns>>

EDial ==
  /\ srv # "init" /\ Len(conns) < MaxConn
  /\ conns' = Append(conns, NewConn(IF lopen THEN "queued" ELSE "refused"))
  /\ UNCHANGED <<srv, cause, cancelled, lopen, tempq>>

ESend(i, k) ==
  /\ conns[i].st = "idle" /\ k \in Kinds
  /\ SetC(i, [conns[i] EXCEPT !.st = "cmd", !.k = k, !.late = cancelled])
  /\ UNCHANGED <<srv, cause, cancelled, lopen, tempq>>

EHalf(i) ==
  /\ conns[i].st = "idle"
  /\ SetC(i, [conns[i] EXCEPT !.st = "half"])
  /\ UNCHANGED <<srv, cause, cancelled, lopen, tempq>>

ERelease(i) ==
  /\ conns[i].st = "run" /\ conns[i].k = "block" /\ ~conns[i].rel
  /\ SetC(i, [conns[i] EXCEPT !.rel = TRUE])
  /\ UNCHANGED <<srv, cause, cancelled, lopen, tempq>>

ECancel ==
  /\ srv # "init" /\ ~cancelled /\ cancelled' = TRUE
  /\ UNCHANGED <<srv, cause, lopen, tempq, conns>>

EExtClose ==
  /\ srv # "init" /\ lopen /\ ~cancelled /\ lopen' = FALSE
  /\ UNCHANGED <<srv, cause, cancelled, tempq, conns>>

ETempErr ==
  /\ srv = "serving" /\ lopen /\ ~cancelled /\ tempq = "none" /\ tempq' = "pending"
  /\ UNCHANGED <<srv, cause, cancelled, lopen, conns>>

\* ---- the server ----
Busy == \E j \in CI : conns[j].st \in {"idle", "half", "cmd", "run"}

IAccept(i) ==
  /\ i \in CI /\ srv = "serving" /\ lopen /\ tempq # "pending" /\ conns[i].st = "queued"
  /\ ~(Has("SerialAccept") /\ Busy)
  /\ SetC(i, [conns[i] EXCEPT !.st = "idle"])
  /\ UNCHANGED <<srv, cause, cancelled, lopen, tempq>>

IDispatch(i) ==
  /\ conns[i].st = "cmd"
  /\ ~conns[i].late \/ Has("ServeAfterCancel")      \* a read that completes after the cancellation reports the cancellation
  /\ IF conns[i].k = "unknown"
       THEN SetC(i, [conns[i] EXCEPT !.st = "closed"])
       ELSE SetC(i, [conns[i] EXCEPT !.st = "run", !.ran = @ + 1])
  /\ UNCHANGED <<srv, cause, cancelled, lopen, tempq>>

IReturn(i) ==
  /\ conns[i].st = "run"
  /\ conns[i].k = "block" => (conns[i].rel \/ cancelled)
  /\ LET c == conns[i]
         kills == (c.k = "panic" /\ Has("PanicKillsLoop")) \/ (c.k = "err" /\ Has("ErrKillsLoop"))
         keep  == c.k = "keepopen" \/ (c.k = "err" /\ Has("LeakOnHandlerError"))
     IN /\ SetC(i, [c EXCEPT !.st = IF keep THEN "kept" ELSE "closed",
                             !.ctxd = (c.k = "block" /\ ~c.rel)])
        /\ IF kills /\ srv = "serving" THEN srv' = "returned" /\ cause' = "handler"
                                       ELSE UNCHANGED <<srv, cause>>
  /\ UNCHANGED <<cancelled, lopen, tempq>>

\* cancellation reaches a connection that waits for its command / is mid-handshake
\* (a command already received may still be dispatched: that race is left open)
ICancelConn(i) ==
  /\ cancelled /\ ~Has("ServeAfterCancel")
  /\ conns[i].st \in {"idle", "half", "cmd"}
  /\ SetC(i, [conns[i] EXCEPT !.st = "closed"])
  /\ UNCHANGED <<srv, cause, cancelled, lopen, tempq>>

ICancelListener ==
  /\ cancelled /\ lopen /\ ~Has("ListenerLeftOpen") /\ lopen' = FALSE
  /\ UNCHANGED <<srv, cause, cancelled, tempq, conns>>

\* the kernel resets what sits in the accept queue of a closed listener
IQueuedReset(i) ==
  /\ ~lopen /\ conns[i].st = "queued"
  /\ SetC(i, [conns[i] EXCEPT !.st = "closed"])
  /\ UNCHANGED <<srv, cause, cancelled, lopen, tempq>>

ITempErr ==
  /\ tempq = "pending" /\ srv = "serving" /\ tempq' = "done"
  /\ IF Has("TempAcceptFatal") THEN srv' = "returned" /\ cause' = "accepterr"
                               ELSE UNCHANGED <<srv, cause>>
  /\ UNCHANGED <<cancelled, lopen, conns>>

IServeReturn ==
  /\ srv = "serving"
  /\ ~lopen \/ (cancelled /\ Has("ListenerLeftOpen"))
  /\ srv' = "returned" /\ cause' = (IF cancelled THEN "cancel" ELSE "lclose")
  /\ UNCHANGED <<cancelled, lopen, tempq, conns>>

SEnv == \/ EStart \/ EDial \/ ECancel \/ EExtClose \/ ETempErr
        \/ \E i \in CI : EHalf(i) \/ ERelease(i) \/ \E k \in Kinds : ESend(i, k)
SInt == \/ ICancelListener \/ ITempErr \/ IServeReturn
        \/ \E i \in CI : IAccept(i) \/ IDispatch(i) \/ IReturn(i) \/ ICancelConn(i) \/ IQueuedReset(i)

CIdle == /\ how = "new" /\ route = "direct" /\ sec = "none" /\ cl = "none" /\ cur = 0 /\ socks = <<>>
         /\ neg = FALSE /\ authed = FALSE /\ leak = 0 /\ pend = NoPend /\ ctxc = FALSE /\ tmo = FALSE
         /\ ncalls = 0 /\ ret = NoRet

InitS == act \in SUBSET Bug /\ SIdle /\ CIdle
SNext == (SEnv \/ SInt) /\ UNCHANGED <<act, cvars>>
SpecS == InitS /\ [][SNext]_vars
\* every internal step makes progress in a finite order, so fairness of their disjunction is enough
LiveS == SpecS /\ WF_vars(SInt /\ UNCHANGED <<act, cvars>>)

(* ---- what a user of Serve relies on ---- *)
TypeOKS ==
  /\ srv \in {"init", "serving", "returned"} /\ cause \in {"none", "cancel", "lclose", "handler", "accepterr"}
  /\ cancelled \in BOOLEAN /\ lopen \in BOOLEAN /\ tempq \in {"none", "pending", "done"}
  /\ conns \in Seq(ConnT) /\ Len(conns) <= MaxConn

\* Serve ends only because its context ended or its listener was closed: no
\* handler (error, panic) and no temporary Accept error takes the loop down
LoopSurvives == srv = "returned" => cause \in {"cancel", "lclose"}
\* after Serve returned for a cancelled context the port is free again
PortReleased == (srv = "returned" /\ cause = "cancel") => ~lopen
\* a command that arrives after the cancellation never reaches a handler
NoLateHandler == \A i \in CI : conns[i].ran > 0 => ~conns[i].late
\* a handler runs at most once per command, and never for an unregistered one
HandlerOnce == \A i \in CI : conns[i].ran <= 1 /\ (conns[i].k = "unknown" => conns[i].ran = 0)
\* only KeepOpen leaves the connection to the handler
KeptOnlyIfKeepOpen == \A i \in CI : conns[i].st = "kept" => conns[i].k = "keepopen"

St(i) == IF i \in CI THEN conns[i].st ELSE "none"
ServeReturns     == cancelled ~> (srv = "returned")
CancelClosesIdle == \A i \in 1..MaxConn : (cancelled /\ St(i) \in {"idle", "half"}) ~> (St(i) = "closed")
\* connections are served concurrently: a blocked handler does not hold up the others
AcceptedAnyway   == \A i \in 1..MaxConn : (St(i) = "queued") ~> (St(i) # "queued")

-----------------------------------------------------------------------------
(* Part T as a (one-state) specification                                    *)
InitT == act \in SUBSET Bug /\ SIdle /\ CIdle
SpecT == InitT /\ [][UNCHANGED vars]_vars
=============================================================================
