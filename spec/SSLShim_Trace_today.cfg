\* code -> spec against the protocol with the known deviations of today's cedar roles (to recognise a rejection as a KNOWN observation)
SPECIFICATION TraceSpec
CONSTANTS
  Bug = {"ServerNeverHolding", "SilentInitFailure", "IgnorePeerQuitting"}
  CStyles = {"cedar", "htcondor"}
  SStyles = {"cedar", "htcondor"}
  Faults = {"none", "c_err_init", "s_err_init", "c_quit_mid", "s_quit_mid", "c_quit_conf", "s_quit_conf"}
POSTCONDITION TraceAccepted
CHECK_DEADLOCK FALSE
