\* non-vacuity: with Bug = {"OkWithoutHello"} TLC must report ReplyMatchesOutcome violated
SPECIFICATION Spec
CONSTANTS
  NB = 1
  MaxConn = 2
  MaxReq = 2
  MaxTick = 1
  MaxMsg = 1
  RegAnswers = {"fresh", "same", "refuse", "hangup"}
  Targets = {"accept", "refuse"}
  Msgs = {"malformed"}
  Bug = {"OkWithoutHello"}
INVARIANTS ReplyMatchesOutcome
CHECK_DEADLOCK FALSE
