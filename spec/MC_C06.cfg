\* C06 exhaustive (thorough): one server, 2 sessions, clock 0..3, Duration 2 > Lease 1 (renewal can shorten or extend)
SPECIFICATION Spec06
CONSTANTS
  Tags = {"none"}
  Addrs = {"s1"}
  Cmds = {"c1"}
  ValidCmds = {"c1"}
  MaxSid = 2
  MaxTime = 3
  Duration = 2
  Lease = 1
  ImportOn = TRUE
  MaxRec = 2
  Bug = {}
CONSTRAINT LegitOnly
VIEW McView
INVARIANTS TypeOK ResumeOnlyKeyed AllBytesAfterReplyProtected NoKeyNoAcceptedByte NoKeyNoReadableByte DeadStaysDead ToldWhenAsked ResumedStateEqualsOriginal
CHECK_DEADLOCK FALSE
