\* non-vacuity: with Bug = {"SerialAccept"} TLC must report AcceptedAnyway violated
SPECIFICATION LiveS
CONSTANTS
  Hows = {"new"}
  Routes = {"direct"}
  Secs = {"none"}
  EnvsNew = {}
  EnvsCA = {}
  Ctxs = {}
  MaxCalls = 0
  MaxSock = 0
  MaxConn = 2
  Kinds = {"ok", "err", "panic", "block", "keepopen", "unknown"}
  Bug = {"SerialAccept"}
PROPERTY AcceptedAnyway
CHECK_DEADLOCK FALSE
