-------------------------- MODULE Gen_CCBListener --------------------------
(***************************************************************************)
(* Behaviour generator for CCBListener (one broker; the harness pairs two  *)
(* scripts for a listener with two brokers, see Independent).  `hist`      *)
(* records what the ENVIRONMENT does and what it can observe in order: a   *)
(* registration arriving at the broker ("reg", with what it presents), a   *)
(* heartbeat arriving ("tick"); the listener's own steps are not recorded, *)
(* so all behaviours that differ only in the interleaving of internal      *)
(* steps share one script and the harness takes the SET of outcomes        *)
(* printed for a script as the admissible outcomes (goroutine scheduling,  *)
(* and everything CCBListener leaves open).                                *)
(*                                                                         *)
(* Timing of an environment step (field q):                                *)
(*   q = TRUE   the harness first waits until the listener is at rest:     *)
(*              registered, every request forwarded on the current         *)
(*              connection answered;                                       *)
(*   q = FALSE  the harness fires at once -- right after forwarding a      *)
(*              request (a second request, a drop, the end of the context  *)
(*              racing with the dial-back), or, for the end of the         *)
(*              context, at any point (mid-registration, broker silent,    *)
(*              backing off).                                              *)
(* Order restrictions (harness timing assumptions):                        *)
(*   - a lost connection is always followed by the next registration, so   *)
(*     the model's last connection (MaxConn) is never lost or refused;     *)
(*   - a heartbeat is waited for only at rest;                             *)
(*   - at most MaxEnv environment steps besides the end of the context.    *)
(***************************************************************************)
EXTENDS CCBListener, Json

CONSTANT MaxEnv

VARIABLE hist

gvars == <<vars, hist>>
Log(r) == hist' = Append(hist, r)

B == 1

\* a request of the CURRENT connection is still being handled (an orphan's handler is not waited for)
HandlerBusy == \E r \in DOMAIN req[B] :
                 req[B][r].conn = Cur(B) /\ req[B][r].st \in {"sent", "run", "dialed", "nodial", "writing"}
AtRest == lst[B] = "up" /\ inq[B] = <<>> /\ ~HandlerBusy /\ HB \notin wr[B]

EnvSteps == Cardinality({i \in DOMAIN hist : hist[i].e \in {"ans", "fwd", "snd", "drop", "tick"}})
Budget == ~cancelled /\ EnvSteps < MaxEnv
LastIsFwd == hist # <<>> /\ hist[Len(hist)].e = "fwd"
Timing(q) == IF q THEN AtRest ELSE LastIsFwd
MoreConns == Len(conns[B]) < MaxConn

GenInit == Init /\ hist = <<>>

GenNext ==
  \/ LRegister(B) /\ Log([e |-> "reg", p |-> conns'[B][Len(conns'[B])].pres])
  \/ \E a \in RegAnswers :
       /\ Budget /\ (a \notin Grants => MoreConns)
       /\ BAnswer(B, a) /\ Log([e |-> "ans", a |-> a])
  \/ LRegReply(B) /\ UNCHANGED hist
  \/ \E t \in Targets, q \in BOOLEAN :
       Budget /\ Timing(q) /\ BForward(B, t) /\ Log([e |-> "fwd", t |-> t, q |-> q])
  \/ \E m \in Msgs :
       /\ Budget /\ AtRest /\ (m = "malformed" => MoreConns)
       /\ BSend(B, m) /\ Log([e |-> "snd", m |-> m])
  \/ \E q \in BOOLEAN :
       Budget /\ MoreConns /\ Timing(q) /\ BDrop(B) /\ Log([e |-> "drop", q |-> q])
  \/ LRead(B) /\ UNCHANGED hist
  \/ \E r \in 1..MaxReq : (LDial(B, r) \/ LWriteBegin(B, r) \/ LWriteEnd(B, r)) /\ UNCHANGED hist
  \/ Budget /\ AtRest /\ LTickBegin(B) /\ UNCHANGED hist
  \/ LTickEnd(B) /\ (IF TickDelivered(B) /\ hbc[B] = Cur(B) /\ ~cancelled THEN Log([e |-> "tick"]) ELSE UNCHANGED hist)
  \/ \E q \in BOOLEAN : (q => AtRest) /\ EnvCancel /\ Log([e |-> "cancel", q |-> q])
  \/ LStop(B) /\ UNCHANGED hist

GenSpec == GenInit /\ [][GenNext]_gvars

Done == /\ cancelled /\ lst[B] = "stopped" /\ wr[B] = {}
        /\ \A r \in DOMAIN req[B] : req[B][r].st \in {"sent", "done", "aborted"}

Out == [reqs  |-> [r \in DOMAIN req[B] |->
                     [rep   |-> req[B][r].nrep,
                      on    |-> IF req[B][r].nrep > 0 THEN req[B][r].repconn ELSE 0,
                      res   |-> IF req[B][r].nrep > 0 THEN req[B][r].res ELSE "none",
                      hello |-> req[B][r].hello,
                      handed |-> req[B][r].handed]],
        conns |-> [i \in DOMAIN conns[B] |-> conns[B][i].l],
        shown |-> Shown(B)]

EmitTrace == Done => PrintT(ToJson([trace |-> hist, out |-> Out]))
=============================================================================
