----------------------- MODULE HandshakeOutcome_Trace -----------------------
(***************************************************************************)
(* Trace validation (code -> spec) of handshake outcomes and dispatches.   *)
(* The trace holds, per Authenticator object, its AuthRan events followed  *)
(* by HandshakeDone, and the server's Dispatch events; objects are          *)
(* separated by Reset lines.  The only state is `ran`: the method whose    *)
(* exchange last completed successfully in the current object.             *)
(***************************************************************************)
EXTENDS HandshakeOutcome, Json, IOUtils

Trace == ndJsonDeserialize(IOEnv.TRACE_FILE)

VARIABLES ran, l
Ev == Trace[l]
Is(e) == l <= Len(Trace) /\ Ev.ev = e /\ l' = l + 1

TInit == ran = "" /\ l = 1
TReset == Is("Reset") /\ ran' = ""
TAuthRan == Is("AuthRan") /\ ran' = IF Ev.ok /\ Ev.ran # "NONE" THEN Ev.ran ELSE ran
TDone == Is("HandshakeDone") /\ HandshakeOK(Ev, ran) /\ (Ev.strictResume => ResumedIsKeyed(Ev)) /\ UNCHANGED ran
TDispatch == Is("Dispatch") /\ DispatchOK(Ev) /\ UNCHANGED ran

TNext == TReset \/ TAuthRan \/ TDone \/ TDispatch
TraceSpec == TInit /\ [][TNext]_<<ran, l>>
TraceAccepted == TLCGet("stats").diameter - 1 = Len(Trace)
=============================================================================
