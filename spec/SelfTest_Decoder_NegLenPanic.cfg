\* non-vacuity: with the known wrong design "NegLenPanic" TLC must report NoPanic violated
SPECIFICATION Spec
CONSTANTS
  Bug = {"NegLenPanic"}
  Families = {"typed"}
  Modes = {"plain","enc"}
  ExprMax = 1
  TokLen = 3
INVARIANTS TypeOK NoPanic Bounded CapHonoured CapFails
CHECK_DEADLOCK FALSE
