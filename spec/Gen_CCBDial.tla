---------------------------- MODULE Gen_CCBDial ----------------------------
(***************************************************************************)
(* Behaviour generator for CCBDial.  `hist` records what the ENVIRONMENT   *)
(* does and what it can observe while a dial is running (a broker          *)
(* receiving its request = the attempt was launched); the requester's own  *)
(* steps are not recorded, so all behaviours that differ only in the       *)
(* interleaving of internal steps share one script and the harness takes   *)
(* the SET of outcomes printed for a script as the allowed outcomes        *)
(* (Go's select, goroutine scheduling).                                    *)
(* Order restrictions (timing assumptions of the harness, DESIGN 5):       *)
(*   - the stagger timer (250 ms) fires only when the requester has        *)
(*     nothing left to do with what it has received so far;                *)
(*   - scripts are bounded by MaxEnv environment steps;                     *)
(*   - the caller's context is cancelled only after the script, when the   *)
(*     requester has come to rest (the harness waits; on a mismatch it     *)
(*     re-runs with a ten times longer wait before reporting).             *)
(***************************************************************************)
EXTENDS CCBDial, Json

CONSTANT MaxEnv   \* total number of broker replies / messages and reverse connections in a script

VARIABLES hist

gvars == <<vars, hist>>
Log(r) == hist' = Append(hist, r)

CanAccept(b)  == Mode = "standard" /\ att[b].st = "run" /\ att[b].acceptor = "accepting"
                 /\ att[b].lsn = "open" /\ Queued(b) # {}
CanSelect(b)  == Mode = "standard" /\ att[b].st = "run"
                 /\ (att[b].acceptor = "matched" \/ (att[b].reply # "none" /\ ~att[b].seen))
CanRead(b)    == Mode = "proxy" /\ att[b].st = "run" /\ msgs[b] # <<>>
CanConsume(b) == Running /\ att[b].st \in {"ok", "err"} /\ ~att[b].consumed
Quiescent == /\ \A b \in Brokers : ~CanAccept(b) /\ ~CanSelect(b) /\ ~CanRead(b) /\ ~CanConsume(b)
             /\ ~(Running /\ cancelled)

EnvSteps == Cardinality({i \in DOMAIN hist : hist[i].e \in {"arrive", "reply", "send"}})
Budget == EnvSteps < MaxEnv

GenInit == Init /\ hist = <<>>

GenNext ==
  \/ LaunchFirst /\ Log([e |-> "req", b |-> 1])
  \/ Quiescent /\ LaunchByTimer /\ Log([e |-> "req", b |-> launched + 1])
  \/ \E b \in Brokers :
       \/ AcceptStep(b) /\ UNCHANGED hist
       \/ AttemptSelect(b) /\ UNCHANGED hist
       \/ ProxyRead(b) /\ UNCHANGED hist
       \/ DialConsume(b) /\ (IF launched' > launched THEN Log([e |-> "req", b |-> launched']) ELSE UNCHANGED hist)
       \/ \E k \in HelloKinds : Budget /\ EnvArrive(b, k) /\ Log([e |-> "arrive", b |-> b, k |-> k])
       \/ \E r \in {"ok", "fail"} : Budget /\ EnvReply(b, r) /\ Log([e |-> "reply", b |-> b, r |-> r])
       \/ \E m \in ProxyMsgs : Budget /\ EnvSend(b, m) /\ Log([e |-> "send", b |-> b, m |-> m])
  \/ DialCancelled /\ UNCHANGED hist
  \/ EnvStop /\ Log([e |-> "stop"])
  \/ Quiescent /\ EnvCancel /\ Log([e |-> "cancel"])

GenSpec == GenInit /\ [][GenNext]_gvars

Done == envDone /\ ~Running

Out == [ret |-> ret.kind, c |-> ret.c, why |-> ret.why, fails |-> ret.fails,
        conns |-> [i \in DOMAIN conns |-> conns[i].st], bconn |-> bconn]

EmitTrace == Done => PrintT(ToJson([trace |-> hist, out |-> Out]))
=============================================================================
