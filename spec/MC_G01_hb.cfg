\* G01 heartbeat: the heartbeat writer races with two request writers on the broker stream
SPECIFICATION Spec
CONSTANTS
  NB = 1
  MaxConn = 2
  MaxReq = 2
  MaxTick = 2
  MaxMsg = 0
  RegAnswers = {"fresh", "hangup"}
  Targets = {"accept", "refuse"}
  Msgs = {}
  Bug = {}
INVARIANTS TypeOK PresentsLastCookie ContactIsGrant HelloCarriesOwnId AtMostOneReply ReplyMatchesOutcome EveryRequestAnswered ReplyOnOwnOrLaterConn WritesSerialised NoWedge StoppedClean OneConnPerBroker

PROPERTY KeepsRegistration
CHECK_DEADLOCK FALSE
