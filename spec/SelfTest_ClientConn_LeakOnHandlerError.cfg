\* non-vacuity: with Bug = {"LeakOnHandlerError"} TLC must report KeptOnlyIfKeepOpen violated
SPECIFICATION SpecS
CONSTANTS
  Hows = {"new"}
  Routes = {"direct"}
  Secs = {"none"}
  EnvsNew = {}
  EnvsCA = {}
  Ctxs = {}
  MaxCalls = 0
  MaxSock = 0
  MaxConn = 2
  Kinds = {"ok", "err", "panic", "block", "keepopen", "unknown"}
  Bug = {"LeakOnHandlerError"}
INVARIANTS KeptOnlyIfKeepOpen
CHECK_DEADLOCK FALSE
