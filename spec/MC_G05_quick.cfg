\* G05 quick: a pair-covering third of the well-formed single triples, the standard pairs, every near miss (alone / before / after a
\* well-formed mate), duplicates, triples over every CONDOR_INHERIT shape; x {parent holds the secret, parent holds another}; direction / mode rotated
SPECIFICATION Spec
CONSTANTS
  Tier = "quick"
  SecretRels = {"same", "diff"}
  Bug = {}
INVARIANTS TypeOK ParseMatchesIntent RoundTrips NoPartialEntry KeyDerived IdentityRight ExpiryHonoured PolicyCopied EntryIsOneTriple MappingExact EnvCleared ResumeAsIntended
CHECK_DEADLOCK FALSE
