----------------------------- MODULE Gen_Server -----------------------------
(***************************************************************************)
(* Behaviour generator for Server.tla (C05).  Same actions, plus a history *)
(* variable `hist` recording every step with its arguments and - because   *)
(* the generator runs the specification with Permissive = FALSE, i.e. the  *)
(* intended design as a deterministic function of the inputs - the         *)
(* expected handshake outcome and dispatch decision.  GenNext restricts    *)
(* only the ORDER of Server's actions (phases), so every generated         *)
(* behaviour is a behaviour of Server:                                     *)
(*                                                                         *)
(*  GenMode "single": one connection: any first command (authenticated     *)
(*       path with every client kind / level / identity, raw path), then   *)
(*       follow-on commands up to MaxCmds.                                 *)
(*  GenMode "resume": connection 1 = fresh handshake for an authenticated  *)
(*       command (no follow-on); up to MaxChanges reconfigurations         *)
(*       (ChangePolicy, ChangeAuthorizer); connection 2 = ReconnectResume  *)
(*       of that session with any command, then follow-ons.                *)
(*  GenMode "two": two arbitrary connections with reconfigurations in      *)
(*       between (thorough tier / simulation).                             *)
(*                                                                         *)
(* The replayer feeds the INPUTS of each behaviour to a real server.Server *)
(* and records what really happened; that recorded trace is then judged by *)
(* TLC against the permissive specification (Server_Trace.tla).  The       *)
(* expectations printed here are compared too, but a difference from the   *)
(* intended design is a violation only if the permissive specification     *)
(* rejects the recorded trace.                                             *)
(***************************************************************************)
EXTENDS Server, Json

CONSTANTS GenMode, MaxChanges,
          FollowCmds   \* commands tried as follow-ons (the whole alphabet, or the registered ones)

VARIABLES hist, gph, gchg, gconn, gn

gvars == <<vars, hist, gph, gchg, gconn, gn>>

H(r) == hist' = Append(hist, r)

\* arguments worth distinguishing: identities matter for honest clients only;
\* raw / unregistered commands through the authenticated path with one client
GConnectArgs ==
  { <<cmd, kind, want, user>> \in AllCmds \X Kinds \X Wants \X Users :
      /\ (kind # "honest" => user = "alice")
      /\ (kind = "noCipher" => want = "weak")     \* demanding encryption without a cipher just fails
      \* a client that merely PREFERS protection matters where it ends up without a key
      \* (and is kept alive: key-less sessions are not resumable, so not in mode "resume")
      /\ (want = "prefer" => (kind = "skipsKeyAgreement" /\ GenMode # "resume"))
      /\ (cmd \notin AuthCmds => (kind = "honest" /\ want = "weak" /\ user = "alice")) }

GConnect ==
  \E x \in GConnectArgs :
    LET out == Ideal(x[1], x[2], x[3]) IN
    /\ Connect(x[1], x[2], x[3], x[4], out)
    /\ H([a |-> "Connect", cmd |-> x[1], kind |-> x[2], want |-> x[3], user |-> x[4],
          exp |-> out, sid |-> IF out.ok THEN Len(sessions) + 1 ELSE 0])

\* The script is a sequence of things the CLIENT does; it does not stop where
\* the intended design would have closed the connection or established no
\* session: such steps are attempted all the same ("ghost": no action of the
\* specification corresponds to them in the intended design), so that a real
\* server which deviates there is still explored.
GResume(sid) ==
  \E cmd \in AllCmds :
    IF Len(sessions) >= sid
    THEN LET out == [ok |-> TRUE, encReal |-> sessions[sid].keyed] IN
         /\ ReconnectResume(sid, cmd, out)
         /\ H([a |-> "Resume", sid |-> sid, cmd |-> cmd, exp |-> out, ghost |-> FALSE,
               \* whether a key-less session may be resumed is C06's business
               either |-> ~sessions[sid].keyed])
    ELSE /\ UNCHANGED vars
         /\ H([a |-> "Resume", sid |-> sid, cmd |-> cmd, exp |-> [ok |-> FALSE, encReal |-> FALSE],
               ghost |-> TRUE, either |-> TRUE])

GRaw ==
  \E cmd \in {"X", "R", "U"} :
    /\ RawCommand(cmd)
    /\ H([a |-> "Raw", cmd |-> cmd])

\* a connection is open for business (a handler kept it alive)
Alive == conn.st = "open" /\ conn.pending = None /\ conn.via # "raw"

GFollowOn ==
  \E cmd \in FollowCmds :
    IF Alive
    THEN FollowOn(cmd) /\ H([a |-> "FollowOn", cmd |-> cmd, ghost |-> FALSE])
    ELSE UNCHANGED vars /\ H([a |-> "FollowOn", cmd |-> cmd, ghost |-> TRUE])

GDispatch ==
  \/ Run    /\ H([a |-> "Dispatch", cmd |-> conn.pending, exp |-> "run", lacks |-> "nothing"])
  \/ RunRaw /\ H([a |-> "Dispatch", cmd |-> conn.pending, exp |-> "runraw", lacks |-> "nothing"])
  \/ Refuse /\ H([a |-> "Dispatch", cmd |-> conn.pending, exp |-> "refuse",
                  lacks |-> IF conn.via = "raw" THEN "registration" ELSE Lacks(conn.pending, conn.neg)])

GChange ==
  \/ \E t \in PolicyTabs : ChangePolicy(t) /\ H([a |-> "ChangePolicy", t |-> t])
  \/ \E t \in AuthzTabs : ChangeAuthorizer(t) /\ H([a |-> "ChangeAuthorizer", t |-> t])

GenInit ==
  /\ Init
  /\ hist = << [a |-> "Init", ptab |-> ptab, atab |-> atab] >>
  /\ gph = "open"
  /\ gchg = 0 /\ gconn = 0 /\ gn = 0

Busy == conn.pending # None

GenNext ==
  \/ /\ Busy /\ GDispatch /\ UNCHANGED <<gph, gchg, gconn, gn>>
  \* first action of a connection
  \/ /\ ~Busy /\ gph = "open" /\ gconn = 0
     /\ \/ GConnect
        \/ (GenMode # "resume" /\ GRaw)
     /\ gph' = "conn" /\ gconn' = 1 /\ gn' = 1 /\ UNCHANGED gchg
  \/ /\ ~Busy /\ gph = "open" /\ gconn = 1
     /\ \/ (GenMode = "two" /\ (GConnect \/ GRaw))
        \/ GResume(1)
     /\ gph' = "conn" /\ gconn' = 2 /\ gn' = 1 /\ UNCHANGED gchg
  \* follow-on commands (not on connection 1 of mode "resume"; none after a raw command:
  \* Server.run always closes)
  \/ /\ ~Busy /\ gph = "conn" /\ gn < MaxCmds /\ conn.via # "raw"
     /\ ~(GenMode = "resume" /\ gconn = 1)
     /\ GFollowOn /\ gn' = gn + 1 /\ UNCHANGED <<gph, gchg, gconn>>
  \* the client hangs up
  \/ /\ ~Busy /\ gph = "conn"
     /\ H([a |-> "EndConn"])
     /\ gph' = IF GenMode = "single" \/ gconn >= MaxConns THEN "done" ELSE "between"
     /\ UNCHANGED <<vars, gchg, gconn, gn>>
  \* reconfiguration between connections
  \/ /\ gph = "between" /\ gchg < MaxChanges
     /\ GChange /\ gchg' = gchg + 1 /\ UNCHANGED <<gph, gconn, gn>>
  \/ /\ gph = "between"
     /\ gph' = "open" /\ UNCHANGED <<vars, hist, gchg, gconn, gn>>

GenSpec == GenInit /\ [][GenNext]_gvars

Done == gph = "done"

\* pseudo-invariant: prints every finished behaviour as one JSON line
EmitTrace == Done => PrintT(ToJson([trace |-> hist]))
=============================================================================
