----------------------------- MODULE Gen_Server -----------------------------
(***************************************************************************)
(* Behaviour generator for Server.tla (C05).  Same actions, plus a history *)
(* variable `hist` recording every step with its arguments and - because   *)
(* the generator runs the specification with Permissive = FALSE, i.e. the  *)
(* intended design as a deterministic function of the inputs - the         *)
(* expected handshake outcome and dispatch decision.  GenNext restricts    *)
(* only the ORDER of Server's actions (phases), so every generated         *)
(* behaviour is a behaviour of Server:                                     *)
(*                                                                         *)
(*  GenMode "single": one connection: any first command (authenticated     *)
(*       path with every client kind / level / identity, raw path), then   *)
(*       follow-on commands up to MaxCmds.                                 *)
(*  GenMode "resume": connection 1 = fresh handshake for an authenticated  *)
(*       command (no follow-on); up to MaxChanges reconfigurations         *)
(*       (ChangePolicy, ChangeAuthorizer); connection 2 = ReconnectResume  *)
(*       of that session with any command, then follow-ons.                *)
(*  GenMode "two": two arbitrary connections with reconfigurations in      *)
(*       between (thorough tier / simulation).                             *)
(*                                                                         *)
(* The replayer feeds the INPUTS of each behaviour to a real server.Server *)
(* and records what really happened; that recorded trace is then judged by *)
(* TLC against the permissive specification (Server_Trace.tla).  The       *)
(* expectations printed here are compared too, but a difference from the   *)
(* intended design is a violation only if the permissive specification     *)
(* rejects the recorded trace.                                             *)
(***************************************************************************)
EXTENDS Server, Json

CONSTANTS GenMode, MaxChanges

VARIABLES hist, gph, gchg

gvars == <<vars, hist, gph, gchg>>

H(r) == hist' = Append(hist, r)

\* arguments worth distinguishing: identities matter for honest clients only;
\* raw / unregistered commands through the authenticated path with one client
GConnectArgs ==
  { <<cmd, kind, want, user>> \in AllCmds \X Kinds \X Wants \X Users :
      /\ (kind # "honest" => user = "alice")
      /\ (cmd \notin AuthCmds => (kind = "honest" /\ want = "weak" /\ user = "alice")) }

GConnect ==
  \E x \in GConnectArgs :
    LET out == Ideal(x[1], x[2], x[3]) IN
    /\ Connect(x[1], x[2], x[3], x[4], out)
    /\ H([a |-> "Connect", cmd |-> x[1], kind |-> x[2], want |-> x[3], user |-> x[4],
          exp |-> out, sid |-> IF out.ok THEN Len(sessions) + 1 ELSE 0])

GResume(sid) ==
  \E cmd \in AllCmds :
    LET out == [ok |-> TRUE, encReal |-> sessions[sid].keyed] IN
    /\ ReconnectResume(sid, cmd, out)
    /\ H([a |-> "Resume", sid |-> sid, cmd |-> cmd, exp |-> out,
          \* whether a key-less session may be resumed is C06's business
          either |-> ~sessions[sid].keyed])

GRaw ==
  \E cmd \in {"X", "R", "U"} :
    /\ RawCommand(cmd)
    /\ H([a |-> "Raw", cmd |-> cmd])

GFollowOn ==
  \E cmd \in AllCmds :
    /\ FollowOn(cmd)
    /\ H([a |-> "FollowOn", cmd |-> cmd])

GDispatch ==
  \/ Run    /\ H([a |-> "Dispatch", cmd |-> conn.pending, exp |-> "run", lacks |-> "nothing"])
  \/ RunRaw /\ H([a |-> "Dispatch", cmd |-> conn.pending, exp |-> "runraw", lacks |-> "nothing"])
  \/ Refuse /\ H([a |-> "Dispatch", cmd |-> conn.pending, exp |-> "refuse",
                  lacks |-> IF conn.via = "raw" THEN "registration" ELSE Lacks(conn.pending, conn.neg)])

GChange ==
  \/ \E t \in PolicyTabs : ChangePolicy(t) /\ H([a |-> "ChangePolicy", t |-> t])
  \/ \E t \in AuthzTabs : ChangeAuthorizer(t) /\ H([a |-> "ChangeAuthorizer", t |-> t])

GenInit ==
  /\ Init
  /\ hist = << [a |-> "Init", ptab |-> ptab, atab |-> atab] >>
  /\ gph = "open"
  /\ gchg = 0

Busy == conn.pending # None

\* a connection is open for business (a handler kept it alive)
Alive == conn.st = "open" /\ conn.pending = None

GenNext ==
  \/ /\ Busy /\ GDispatch /\ UNCHANGED <<gph, gchg>>
  \* first action of a connection
  \/ /\ ~Busy /\ gph = "open" /\ nconn = 0
     /\ \/ GConnect
        \/ (GenMode # "resume" /\ GRaw)
     /\ gph' = "conn" /\ UNCHANGED gchg
  \/ /\ ~Busy /\ gph = "open" /\ nconn = 1
     /\ \/ (GenMode = "two" /\ (GConnect \/ GRaw))
        \/ (Len(sessions) >= 1 /\ GResume(1))
     /\ gph' = "conn" /\ UNCHANGED gchg
  \* follow-on commands (not on connection 1 of mode "resume")
  \/ /\ ~Busy /\ gph = "conn" /\ Alive
     /\ ~(GenMode = "resume" /\ nconn = 1)
     /\ GFollowOn /\ UNCHANGED <<gph, gchg>>
  \* the client hangs up
  \/ /\ ~Busy /\ gph = "conn"
     /\ H([a |-> "EndConn"])
     /\ gph' = IF GenMode = "single" \/ nconn >= MaxConns \/ (GenMode = "resume" /\ Len(sessions) = 0)
               THEN "done" ELSE "between"
     /\ UNCHANGED <<vars, gchg>>
  \* reconfiguration between connections
  \/ /\ gph = "between" /\ gchg < MaxChanges
     /\ GChange /\ gchg' = gchg + 1 /\ UNCHANGED gph
  \/ /\ gph = "between"
     /\ gph' = "open" /\ UNCHANGED <<vars, hist, gchg>>

GenSpec == GenInit /\ [][GenNext]_gvars

Done == gph = "done"

\* pseudo-invariant: prints every finished behaviour as one JSON line
EmitTrace == Done => PrintT(ToJson([trace |-> hist]))
=============================================================================
