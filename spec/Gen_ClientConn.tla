--------------------------- MODULE Gen_ClientConn ---------------------------
(***************************************************************************)
(* Behaviour generator for ClientConn.                                     *)
(*                                                                         *)
(* Part C: `hist` has one entry per public call, written when the call     *)
(* returns (a blocked read also writes one when it starts, so that the     *)
(* script shows Close racing with it): the call, the environment the       *)
(* scripted peer is switched to before the call, the kind of context, and  *)
(* what the caller and the peer can see afterwards -- result class, how    *)
(* the call ended ("fast": at once / within the bound of the cancellation, *)
(* "timeout": only when the configured Timeout expired), IsConnected,      *)
(* GetSecurityNegotiation # nil, GetStream # nil, which of the sockets     *)
(* handed to the user are still open (seen by the peer: no EOF yet), how   *)
(* many other sockets are open.  The harness cancels a "during" context    *)
(* long before the Timeout, so the Timeout only ends a call whose context  *)
(* stays live or is ignored.                                               *)
(*                                                                         *)
(* Part S: the script is the sequence of ENVIRONMENT steps; before every   *)
(* step taken at rest (q = TRUE) the entry records the snapshot the        *)
(* harness must have seen by then; a step with q = FALSE is fired at once  *)
(* (cancellation racing with a dial or a command).  Every script ends with *)
(* the cancellation of the Serve context.                                  *)
(*                                                                         *)
(* Part T: the rows of the two tables.                                     *)
(***************************************************************************)
EXTENDS ClientConn, Json

CONSTANT MaxEnvS

VARIABLE hist
gvars == <<vars, hist>>
Log(r) == hist' = Append(hist, r)

Obs(c, e, x) ==
  [c |-> c, e |-> e, x |-> x, r |-> ret'.res, by |-> ret'.by, ic |-> IsConn', ng |-> neg',
   st |-> (cur' # 0), open |-> [i \in DOMAIN socks' |-> socks'[i].open], leak |-> leak']

Rest == UNCHANGED <<act, svars>>

\* nothing carries over from a failed ConnectAndAuthenticate (no client comes back) and
\* nothing can succeed over CCB without a Security config: such scripts end there
Over == (cl = "none" /\ ncalls >= 1) \/ (route = "ccb" /\ sec = "none" /\ ncalls >= 1)

GConnect(e, x) ==
  /\ ~Over
  /\ (Connect(e, x) \/ ConnectSwallow(e, x)) /\ Rest
  /\ IF pend'.op = "none" THEN Log(Obs("connect", e, x)) ELSE UNCHANGED hist
GCA(e, x) ==
  /\ ~Over
  /\ CA(e, x) /\ Rest
  /\ ~(e = "stall" /\ sec = "sec" /\ x = "live" /\ route # "ccb")   \* nothing would ever end that handshake
  /\ IF pend'.op = "none" THEN Log(Obs("ca", e, x)) ELSE UNCHANGED hist
GClose == Close /\ Rest /\ Log(Obs("close", "none", "none"))
GReadBegin == ReadBegin /\ Rest /\ Log([c |-> "read", e |-> "none", x |-> "none"])
GReadEnd == ReadEnd /\ Rest /\ Log(Obs("readend", "none", "none"))
GCallEnd == CallEnd /\ Rest /\ Log(Obs(pend.op, pend.e, pend.x))
GTimeout == EnvTimeout /\ (pend.x = "live" \/ (ctxc /\ CtxIgnored)) /\ UNCHANGED hist
GCancel == EnvCancel /\ UNCHANGED hist

GenNextC ==
  \/ \E e \in EnvsNew, x \in Ctxs : GConnect(e, x)
  \/ \E e \in EnvsCA, x \in Ctxs : GCA(e, x)
  \/ GClose \/ GReadBegin \/ GReadEnd \/ GCallEnd \/ GTimeout \/ GCancel

\* Security only matters to a NewClient client on the CCB route; the active bugs are none,
\* one, or all of Bug
GenInitC == /\ InitC /\ hist = <<>>
            /\ (how = "new" /\ route # "ccb" => sec = "none")
            /\ act \in {{}, Bug} \cup {{b} : b \in Bug}
GenSpecC == GenInitC /\ [][GenNextC]_gvars
DoneC == pend.op = "none" /\ (ncalls = MaxCalls \/ Over)
EmitC == DoneC => PrintT(ToJson([trace |-> hist, how |-> how, route |-> route, sec |-> sec, act |-> act]))

-----------------------------------------------------------------------------
IntStep == SInt /\ UNCHANGED <<act, cvars>>
AtRestS == ~ENABLED IntStep

Snap ==
  [srv |-> srv, cause |-> cause,
   lo |-> IF srv = "returned" THEN (IF lopen THEN "open" ELSE "free") ELSE "na",
   c |-> [i \in CI |-> [d |-> conns[i].st # "refused", h |-> conns[i].ran, x |-> conns[i].ctxd,
                        eof |-> conns[i].st \in {"closed", "refused"}]]]

EnvCount == Cardinality({i \in DOMAIN hist : hist[i].e \notin {"start", "cancel"}})
BudgetS == EnvCount < MaxEnvS
LastIs(S) == hist # <<>> /\ hist[Len(hist)].e \in S

SLog(e, i, k, q) == Log([e |-> e, i |-> i, k |-> k, q |-> q, obs |-> IF q THEN Snap ELSE [srv |-> "skip"]])

GenNextS ==
  \/ IntStep /\ UNCHANGED hist
  \/ /\ AtRestS /\ UNCHANGED <<act, cvars>>
     /\ \/ EStart /\ SLog("start", 0, "none", TRUE)
        \/ BudgetS /\ ~cancelled /\ EDial /\ SLog("dial", 0, "none", TRUE)
        \/ BudgetS /\ ~cancelled /\ EExtClose /\ SLog("extclose", 0, "none", TRUE)
        \/ BudgetS /\ ~cancelled /\ ETempErr /\ SLog("temperr", 0, "none", TRUE)
        \/ ECancel /\ SLog("cancel", 0, "none", TRUE)
        \/ \E i \in CI : BudgetS /\ ~cancelled /\
             \/ EHalf(i) /\ SLog("half", i, "none", TRUE)
             \/ ERelease(i) /\ SLog("release", i, "none", TRUE)
             \/ \E k \in Kinds : ESend(i, k) /\ SLog("send", i, k, TRUE)
  \/ /\ ~AtRestS /\ LastIs({"dial", "send"}) /\ UNCHANGED <<act, cvars>>      \* fired at once
     /\ ECancel /\ SLog("cancel", 0, "none", FALSE)

GenSpecS == InitS /\ hist = <<>> /\ [][GenNextS]_gvars
DoneS == cancelled /\ AtRestS
EmitS == DoneS => PrintT(ToJson([trace |-> hist, out |-> Snap, act |-> act]))

-----------------------------------------------------------------------------
GenSpecT == InitT /\ hist = <<>> /\ [][UNCHANGED gvars]_gvars
EmitT ==
  /\ \A in \in KAInputs : PrintT(ToJson([scn |-> [t |-> "ka", in |-> in, eff |-> KAEffB(act, in)]]))
  /\ \A a \in AddrInputs : PrintT(ToJson([scn |-> [t |-> "route", in |-> a, route |-> RouteOfB(act, a)]]))
=============================================================================
