\* C10 quick: all 256 level combinations x the rows of the pairwise cover (file named by C10_ROWS)
SPECIFICATION GenSpec
CONSTANTS
  CAuth = {"REQUIRED", "PREFERRED", "OPTIONAL", "NEVER"}
  SAuth = {"REQUIRED", "PREFERRED", "OPTIONAL", "NEVER"}
  CEnc = {"REQUIRED", "PREFERRED", "OPTIONAL", "NEVER"}
  SEnc = {"REQUIRED", "PREFERRED", "OPTIONAL", "NEVER"}
  CMethods <- Lists8
  SMethods <- Lists8
  CCiphers <- Ciphers4
  SCiphers <- Ciphers4
  CmdModes = {TRUE, FALSE}
  Shapes = {"full"}
  SameLists = FALSE
  RelayBudget = 0
  AllowAbort = FALSE
  Bug = {}
  GenMode = "c10rows"
INVARIANTS EmitTrace TypeOK FailsExactlyWhen DenialIsExplicit BothAgree FollowsTable CanTalkBothWays
CHECK_DEADLOCK FALSE
