---------------------------- MODULE ClaimSession ----------------------------
(***************************************************************************)
(* C16 - a minted claim id and its import yield one shared, working        *)
(* session.                                                                *)
(*                                                                         *)
(* Endpoint A (a startd) mints a claim id (security/claim_mint.go          *)
(* MintClaimSession) and registers the session it embeds in its cache;     *)
(* endpoint B (a schedd / shadow) imports the claim id                     *)
(* (security/claim_session.go ImportClaimSession,                          *)
(* ImportFileTransferSession) into its own cache; then either dials the    *)
(* other naming the session explicitly (SecurityConfig.SessionID) and the  *)
(* connection resumes that session without a fresh handshake.              *)
(*                                                                         *)
(* The claim id is modelled as TEXT: a sequence of tokens in which the     *)
(* grammar's delimiters ('#', '[', ']', ';', '=', ',', '.') are explicit   *)
(* and everything else is an atom, so that the sharp edges of the grammar  *)
(* (a sinful address that itself contains '#' or brackets; the session id  *)
(* containing '#'; cipher lists re-delimited with '.'; the expiry being an *)
(* integer in the text and a string in the policy) are visible to TLC:     *)
(*                                                                         *)
(*     <sinful> # bday # seq # [ name = value ; ... ] secret               *)
(*                                                                         *)
(* One behaviour = one configuration (chosen in Init) taken through        *)
(*     Mint -> Import -> ImportFT -> Connect(claim) -> Connect(filetrans)  *)
(*     -> ConnectByCommand for every listed command, from either end.      *)
(* Both ends also file the session in their COMMAND MAP under every        *)
(* command listed in the policy (mapClaimCommands), so that a dial for a   *)
(* listed command - naming only the command and the peer, no session id -  *)
(* finds the claim session and resumes it instead of negotiating afresh.   *)
(* Cryptography is symbolic: Kdf(secret) is a term; two keys are equal iff *)
(* derived from the same secret text with the same salt/info.              *)
(* Using the session must not change it: every resumed connection calls    *)
(* RenewLease on the entries of both ends (handleSessionResumption /       *)
(* resumeSession), which moves an entry's expiry to "now + lease" when its *)
(* lease is not 0.  Claim sessions carry the FIXED expiry embedded in the  *)
(* claim id, so both ends register them with lease 0; SameSession is       *)
(* required in every state, including after the connections.               *)
(***************************************************************************)
EXTENDS Integers, Sequences, FiniteSets, TLC

CONSTANTS
  Tier,       \* "all": every configuration; "quick": pairwise cover + all grammar-edge dimensions
  SecretRels, \* subset of {"same", "diff"}: does the importer hold the minted secret
  Bug

\* "pctescape": percent-escaped parameter values (alias a%2eb, socket name x%3dy,
\* a CCB contact with an escaped '#'); "pctverbs": a lone '%', "%%", and escapes
\* that happen to spell printf verbs - the address is DATA wherever it travels
AddrShapes  == <<"plain", "params", "hash", "ipv6", "sharedport", "pctescape", "pctverbs">>
Bools       == <<TRUE, FALSE>>
CipherLists == << <<"AES">>, <<"AES", "BLOWFISH">>, <<"AESGCM", "BLOWFISH", "3DES">> >>
\* command lists, with the boundary command integers: 0 (UPDATE_STARTD_AD is a
\* legitimate command), 1, the largest 32-bit value, a repeated entry
CmdLists    == << << >>, <<"c442">>, <<"c443", "c444", "c60010">>, <<"c0">>,
                  <<"c0", "c1", "c2147483647", "c1">> >>
Lifetimes   == <<0, 3600, 34560000>>          \* none, one hour, 400 days (seconds)
VerForms    == <<"none", "short", "long">>
Dirs        == <<"importerDials", "minterDials">>

Cfg(a, e, i, c, m, l, v, d) ==
  [addr |-> a, enc |-> e, integ |-> i, ciphers |-> c, cmds |-> m, life |-> l, ver |-> v, dir |-> d]

AllConfigs ==
  { Cfg(AddrShapes[a], Bools[e], Bools[i], CipherLists[c], CmdLists[m], Lifetimes[l], VerForms[v], Dirs[d]) :
      a \in 1..7, e \in 1..2, i \in 1..2, c \in 1..3, m \in 1..5, l \in 1..3, v \in 1..3, d \in 1..2 }

\* pairwise cover: orthogonal array OA(49, 8, 7, 2) - column k of row (i, j) is
\* (i + k*j) mod 7 for k = 0..6 and j for the last column - with each column
\* folded onto the number of levels of its dimension (folding keeps every pair).
Fold(x, n) == ((x % 7) % n) + 1
Row(i, j) ==
  Cfg(AddrShapes[Fold(i, 7)], Bools[Fold(i + j, 2)], Bools[Fold(i + (2 * j), 2)],
      CipherLists[Fold(i + (3 * j), 3)], CmdLists[Fold(i + (4 * j), 5)],
      Lifetimes[Fold(i + (5 * j), 3)], VerForms[Fold(i + (6 * j), 3)], Dirs[(j % 2) + 1])

Pairwise == { Row(i, j) : i \in 0..6, j \in 0..6 }

\* every combination of the dimensions that shape the TEXT of the claim id
GrammarEdges ==
  { Cfg(AddrShapes[a], TRUE, TRUE, CipherLists[c], CmdLists[m], 3600, VerForms[v], Dirs[((a + c + m + v) % 2) + 1]) :
      a \in 1..7, c \in 1..3, m \in 1..5, v \in 1..3 }
  \cup { Cfg(AddrShapes[a], Bools[e], Bools[e], <<"AES">>, << >>, Lifetimes[l], "none", Dirs[d]) :
      a \in 1..7, e \in 1..2, l \in 1..3, d \in 1..2 }

Configs == IF Tier = "all" THEN AllConfigs ELSE Pairwise \cup GrammarEdges

-----------------------------------------------------------------------------
(* text: token sequences                                                     *)

Delims == {"#", "[", "]", ";", "=", ",", "."}

AddrText(a) ==
  CASE a = "plain"  -> <<"<", "ip4:port", ">">>
    [] a = "params" -> <<"<", "ip4:port?addrs", "=", "ip4-port&alias", "=", "host&noUDP", ">">>
    [] a = "hash"   -> <<"<", "ip4:port?sock", "=", "startd_1_ab", "#", "cd&noUDP", ">">>
    [] a = "ipv6"   -> <<"<", "[", "::1", "]", ":port?noUDP", ">">>
    [] a = "pctescape" -> <<"<", "ip4:port?alias", "=", "a%2eb&sock", "=", "x%3dy&CCBID", "=", "ip4-port%23id7&noUDP", ">">>
    [] a = "pctverbs"  -> <<"<", "ip4:port?note", "=", "50%&a", "=", "%%&b", "=", "%s&c", "=", "%d&d", "=", "%!&e", "=", "%v", ">">>
    [] OTHER        -> <<"<", "ip4:port?sock", "=", "startd_1_abcd&addrs", "=", "ip4-port+", "[", "--1", "]", "-port&noUDP", ">">>

Join(list, d) ==           \* atoms separated by the delimiter d
  IF Len(list) = 0 THEN << >>
  ELSE [k \in 1..(2 * Len(list) - 1) |-> IF (k % 2) = 1 THEN list[(k + 1) \div 2] ELSE d]

RECURSIVE SplitOn(_, _)
SplitOn(s, d) ==           \* inverse of Join
  IF Len(s) = 0 THEN << >>
  ELSE LET idx == {k \in 1..Len(s) : s[k] = d} IN
       IF idx = {} THEN << s >>
       ELSE LET k == CHOOSE x \in idx : \A y \in idx : x <= y
            IN << SubSeq(s, 1, k - 1) >> \o SplitOn(SubSeq(s, k + 1, Len(s)), d)

Flat(parts) == [k \in 1..Len(parts) |-> parts[k][1]]   \* a list of one-atom pieces

Yes(b) == IF b THEN "YES" ELSE "NO"

\* the policy a configuration asks for; expires is the absolute time
Policy(c, now) ==
  [enc |-> Yes(c.enc), integ |-> Yes(c.integ), ciphers |-> c.ciphers, cmds |-> c.cmds,
   expires |-> IF c.life = 0 THEN "never" ELSE ToString(now + c.life),   \* text, as in the claim id
   ver |-> IF c.ver = "none" THEN "none" ELSE "25.4.0"]      \* long and short forms denote the same version

\* ExportSecSessionInfo: attributes in sorted order; a cipher list of more than
\* one method becomes the preferred method plus a '.'-delimited CryptoMethodsList;
\* SessionExpires is a bare integer; the version is exported in its short form
Q == "\""                                   \* string values are quoted, integers are bare
Attr(n, v) == <<n, "=", Q>> \o v \o <<Q, ";">>
Bare(n, v) == <<n, "=">> \o v \o <<";">>
Unquote(v) == IF Len(v) >= 2 /\ v[1] = Q /\ v[Len(v)] = Q THEN SubSeq(v, 2, Len(v) - 1) ELSE v
ExportInfo(p) ==
  <<"[">>
  \o Attr("CryptoMethods", << p.ciphers[1] >>)
  \o (IF Len(p.ciphers) > 1 THEN Attr("CryptoMethodsList", Join(p.ciphers, ".")) ELSE << >>)
  \o Attr("Encryption", << p.enc >>)
  \o Attr("Integrity", << p.integ >>)
  \o (IF p.expires # "never" THEN Bare("SessionExpires", << p.expires >>) ELSE << >>)
  \o (IF p.ver # "none" THEN Attr("ShortVersion", << p.ver >>) ELSE << >>)
  \o (IF Len(p.cmds) > 0 THEN Attr("ValidCommands", Join(p.cmds, ",")) ELSE << >>)
  \o <<"]">>

\* ImportSecSessionInfo: split on ';', then on the first '='; CryptoMethodsList
\* (with '.' turned back into the list) overrides CryptoMethods
ImportInfo(info) ==
  LET body  == SubSeq(info, 2, Len(info) - 1)
      items == SelectSeq(SplitOn(body, ";"), LAMBDA it : Len(it) >= 3 /\ it[2] = "=")
      Has(n) == \E k \in 1..Len(items) : items[k][1] = n
      Val(n) == LET k == CHOOSE x \in 1..Len(items) : items[x][1] = n
                IN Unquote(SubSeq(items[k], 3, Len(items[k])))
  IN [enc     |-> IF Has("Encryption") THEN Val("Encryption")[1] ELSE "absent",
      integ   |-> IF Has("Integrity") THEN Val("Integrity")[1] ELSE "absent",
      ciphers |-> IF Has("CryptoMethodsList") /\ "ListNotRestored" \notin Bug
                  THEN Flat(SplitOn(Val("CryptoMethodsList"), "."))
                  ELSE IF Has("CryptoMethods") THEN Flat(SplitOn(Val("CryptoMethods"), ".")) ELSE << >>,
      cmds    |-> IF Has("ValidCommands") THEN Flat(SplitOn(Val("ValidCommands"), ",")) ELSE << >>,
      expires |-> IF Has("SessionExpires") /\ "ExpiryDroppedOnImport" \notin Bug
                  THEN Val("SessionExpires")[1] ELSE "never",
      ver     |-> IF Has("ShortVersion") THEN Val("ShortVersion")[1] ELSE "none"]

SessionIdText(c) == AddrText(c.addr) \o <<"#", "bday", "#", "seq">>

ClaimText(c, p, secret) == SessionIdText(c) \o <<"#">> \o ExportInfo(p) \o << secret >>

Positions(s, d) == {k \in 1..Len(s) : s[k] = d}
MaxOf(S) == CHOOSE x \in S : \A y \in S : y <= x
MinOf(S) == CHOOSE x \in S : \A y \in S : x <= y

\* ParseClaimIDStrict: split on the LAST '#'; the info block is present only
\* when the character right after it is '[' and a ']' follows
ParseClaim(t) ==
  LET hs == Positions(t, "#") IN
  IF hs = {} THEN [sid |-> << >>, info |-> << >>, key |-> t]
  ELSE LET h  == IF "SplitFirstHash" \in Bug THEN MinOf(hs) ELSE MaxOf(hs)
           bs == {k \in Positions(t, "]") : k > h}
       IN IF h < Len(t) /\ t[h + 1] = "[" /\ bs # {}
          THEN [sid |-> SubSeq(t, 1, h - 1), info |-> SubSeq(t, h + 1, MaxOf(bs)),
                key |-> SubSeq(t, MaxOf(bs) + 1, Len(t))]
          ELSE [sid |-> << >>, info |-> << >>, key |-> SubSeq(t, h + 1, Len(t))]

\* PublicClaimID: everything up to the last '#', then "..."
PublicText(t) ==
  IF "PublicShowsSecret" \in Bug THEN t
  ELSE LET hs == Positions(t, "#") IN SubSeq(t, 1, MaxOf(hs)) \o <<"...">>

Kdf(secret, who) ==
  <<"hkdf-sha256", secret, "salt=htcondor",
    IF "DifferentKdfInfo" \in Bug /\ who = "importer" THEN "info=other" ELSE "info=keygen">>

-----------------------------------------------------------------------------
VARIABLES
  cfg, rel,     \* the configuration; whether the importer holds the minted secret
  phase,        \* "init" -> "minted" -> "imported" -> "ftimported" -> "claimconn" -> "done"
  claim,        \* the minted claim id (text)
  public,       \* its loggable form
  eA, eB,       \* the claim session's cache entry at the minter / importer (or NoEntry)
  fA, fB,       \* the derived file-transfer session's entries
  mA, mB,       \* command maps: the commands each end filed the claim session under
  results,      \* outcomes of the connections naming the session id
  todo, cmdres  \* connections by command still to make (<<cmd, dir>>), and their outcomes

vars == <<cfg, rel, phase, claim, public, eA, eB, fA, fB, mA, mB, results, todo, cmdres>>

Now == 1000000       \* the virtual time of minting
Minted == "secret-minted"
Other  == "secret-other"   \* the minted secret with one character changed
NoPolicy == [enc |-> "absent", integ |-> "absent", ciphers |-> << >>, cmds |-> << >>, expires |-> "never", ver |-> "none"]
NoEntry == [sid |-> << >>, key |-> << >>, policy |-> NoPolicy, expiry |-> "never", lease |-> 0, user |-> "none"]
Later == Now + 7     \* the virtual time of the connections

RECURSIVE Dedup(_)
Dedup(q) ==
  IF q = << >> THEN << >>
  ELSE LET r == Dedup(SubSeq(q, 1, Len(q) - 1)) x == q[Len(q)]
       IN IF \E k \in 1..Len(r) : r[k] = x THEN r ELSE Append(r, x)

\* every listed command from both ends when the importer holds the secret;
\* with a corrupted secret one such connection (it must not work)
Todo(c, r) ==
  LET d == Dedup(c.cmds) IN
  IF r = "same"
  THEN [k \in 1..(2 * Len(d)) |-> << d[(k + 1) \div 2], IF (k % 2) = 1 THEN "importerDials" ELSE "minterDials" >>]
  ELSE IF Len(d) = 0 THEN << >> ELSE << << d[1], c.dir >> >>

\* mapClaimCommands: one command-map entry per command listed in the policy
Range(q) == {q[k] : k \in 1..Len(q)}
MapOf(policy) == Range(policy.cmds) \ (IF "ZeroCommandUnmapped" \in Bug THEN {"c0"} ELSE {})

Init ==
  /\ cfg \in Configs
  /\ rel \in SecretRels
  /\ phase = "init"
  /\ claim = << >> /\ public = << >>
  /\ eA = NoEntry /\ eB = NoEntry /\ fA = NoEntry /\ fB = NoEntry
  /\ mA = {} /\ mB = {}
  /\ results = << >>
  /\ todo = Todo(cfg, rel) /\ cmdres = << >>

\* MintClaimSession: render the policy, assemble the claim id, and register the
\* session from a RE-IMPORT of the rendered policy (so both ends build it from the same text)
Mint ==
  /\ phase = "init"
  /\ LET p == Policy(cfg, Now)
         t == ClaimText(cfg, p, Minted)
         q == ImportInfo(ExportInfo(p))
     IN /\ claim' = t
        /\ public' = PublicText(t)
        /\ eA' = [sid |-> SessionIdText(cfg), key |-> Kdf(<< Minted >>, "minter"), policy |-> q,
                  expiry |-> q.expires,
                  \* a claim session's expiry is fixed by the claim id: no lease
                  lease |-> IF "MinterLeaseRenews" \in Bug THEN cfg.life ELSE 0,
                  user |-> "submit-side"]
        /\ mA' = MapOf(q)
  /\ phase' = "minted"
  /\ UNCHANGED <<cfg, rel, eB, fA, fB, mB, results, todo, cmdres>>

\* the text the importer holds: the claim id, possibly with one character of the secret changed
Held == IF rel = "same" THEN claim ELSE SubSeq(claim, 1, Len(claim) - 1) \o << Other >>

\* ImportClaimSession
Import ==
  /\ phase = "minted"
  /\ LET pc == ParseClaim(Held)
         q  == ImportInfo(pc.info)
     IN /\ eB' = IF pc.sid = << >> \/ pc.key = << >> THEN NoEntry
                 ELSE [sid |-> pc.sid, key |-> Kdf(pc.key, "importer"), policy |-> q,
                       expiry |-> q.expires, lease |-> 0, user |-> "execute-side"]
        /\ mB' = IF pc.sid = << >> \/ pc.key = << >> THEN {} ELSE MapOf(q)
  /\ phase' = "imported"
  /\ UNCHANGED <<cfg, rel, claim, public, eA, fA, fB, mA, results, todo, cmdres>>

\* ImportFileTransferSession on both ends: id = "filetrans." + session id, the SAME
\* secret, the importer's own fixed policy
FtPolicy == [enc |-> "YES", integ |-> "YES", ciphers |-> <<"AESGCM">>, cmds |-> << >>, expires |-> "never", ver |-> "none"]
ImportFT ==
  /\ phase = "imported"
  /\ LET pa == ParseClaim(claim)
         pb == ParseClaim(Held)
     IN /\ fA' = [sid |-> <<"filetrans.">> \o pa.sid, key |-> Kdf(pa.key, "minter"), policy |-> FtPolicy,
                  expiry |-> "never", lease |-> 0, user |-> "submit-side"]
        /\ fB' = IF pb.sid = << >> THEN NoEntry
                 ELSE [sid |-> <<"filetrans.">> \o pb.sid, key |-> Kdf(pb.key, "importer"), policy |-> FtPolicy,
                       expiry |-> "never", lease |-> 0, user |-> "execute-side"]
  /\ phase' = "ftimported"
  /\ UNCHANGED <<cfg, rel, claim, public, eA, eB, mA, mB, results, todo, cmdres>>

\* a connection naming the session explicitly: the dialling end looks the id up
\* in its own cache, the listening end in its; it resumes iff both know the id,
\* and application data flows iff both hold the same key
Outcome(which, cl, sv) ==
  [which |-> which, dir |-> cfg.dir,
   found |-> cl.sid # << >> /\ sv.sid = cl.sid,
   works |-> cl.sid # << >> /\ sv.sid = cl.sid /\ sv.key = cl.key,
   peer  |-> sv.user]

\* SessionEntry.RenewLease, called by both ends of every resumed connection
Renew(e) ==
  IF e.sid = << >> \/ e.lease = 0 THEN e ELSE [e EXCEPT !.expiry = ToString(Later + e.lease)]

Connect(which) ==
  /\ \/ (which = "claim" /\ phase = "ftimported" /\ phase' = "claimconn")
     \/ (which = "filetrans" /\ phase = "claimconn" /\ phase' = "done")
  /\ LET a == IF which = "claim" THEN eA ELSE fA
         b == IF which = "claim" THEN eB ELSE fB
         o == IF cfg.dir = "importerDials" THEN Outcome(which, b, a) ELSE Outcome(which, a, b)
     IN /\ results' = Append(results, o)
        \* both ends touch their entry once the listening end has found the id
        /\ IF which = "claim"
           THEN /\ eA' = (IF o.found THEN Renew(eA) ELSE eA)
                /\ eB' = (IF o.found THEN Renew(eB) ELSE eB)
                /\ UNCHANGED <<fA, fB>>
           ELSE /\ fA' = (IF o.found THEN Renew(fA) ELSE fA)
                /\ fB' = (IF o.found THEN Renew(fB) ELSE fB)
                /\ UNCHANGED <<eA, eB>>
  /\ UNCHANGED <<cfg, rel, claim, public, mA, mB, todo, cmdres>>

\* a dial that names only the command and the peer (ClientHandshake without
\* SessionID): the dialling end looks the command up in its command map; a hit
\* resumes the claim session exactly as above, a miss negotiates a fresh session
ConnectByCommand ==
  /\ phase = "done" /\ todo # << >>
  /\ LET cmd == todo[1][1]
         dir == todo[1][2]
         cl  == IF dir = "importerDials" THEN eB ELSE eA
         sv  == IF dir = "importerDials" THEN eA ELSE eB
         cm  == IF dir = "importerDials" THEN mB ELSE mA
         hit == cmd \in cm /\ cl.sid # << >>
         fnd == hit /\ sv.sid = cl.sid
     IN /\ cmdres' = Append(cmdres, [cmd |-> cmd, dir |-> dir, mapped |-> hit, found |-> fnd,
                                     works |-> fnd /\ sv.key = cl.key, peer |-> sv.user])
        /\ eA' = (IF fnd THEN Renew(eA) ELSE eA)
        /\ eB' = (IF fnd THEN Renew(eB) ELSE eB)
  /\ todo' = Tail(todo)
  /\ UNCHANGED <<cfg, rel, phase, claim, public, fA, fB, mA, mB, results>>

Next == Mint \/ Import \/ ImportFT \/ Connect("claim") \/ Connect("filetrans") \/ ConnectByCommand

Spec == Init /\ [][Next]_vars

-----------------------------------------------------------------------------
(* the property                                                              *)

After(ph) ==
  LET ord == [x \in {"init", "minted", "imported", "ftimported", "claimconn", "done"} |->
                CASE x = "init" -> 0 [] x = "minted" -> 1 [] x = "imported" -> 2
                  [] x = "ftimported" -> 3 [] x = "claimconn" -> 4 [] OTHER -> 5]
  IN ord[phase] >= ord[ph]

\* same id, key, policy, expiry and lease on both ends, and they are what was
\* asked for - in EVERY state from the import on, i.e. also after the session
\* has been used by a connection in either direction
SameSession ==
  (After("imported") /\ rel = "same") =>
     /\ eB.sid = eA.sid /\ eB.key = eA.key /\ eB.policy = eA.policy
     /\ eB.expiry = eA.expiry /\ eB.lease = eA.lease
     /\ eA.policy = Policy(cfg, Now)
     /\ eA.expiry = (IF cfg.life = 0 THEN "never" ELSE ToString(Now + cfg.life))
     /\ (After("ftimported") =>
           (fB.sid = fA.sid /\ fB.key = fA.key /\ fB.policy = fA.policy
            /\ fB.expiry = fA.expiry /\ fB.lease = fA.lease))

ResumesBothWays ==
  rel = "same" => \A k \in DOMAIN results : results[k].found /\ results[k].works

\* the session is filed under EVERY listed command at both ends, and a dial for a
\* listed command from either end resumes it (no fresh handshake)
ResumesByCommand ==
  rel = "same" =>
    /\ After("minted") => mA = Range(cfg.cmds)
    /\ After("imported") => mB = Range(cfg.cmds)
    /\ \A k \in DOMAIN cmdres : cmdres[k].mapped /\ cmdres[k].found /\ cmdres[k].works

WrongSecretFails ==
  rel = "diff" => /\ \A k \in DOMAIN results : ~results[k].works
                  /\ \A k \in DOMAIN cmdres : ~cmdres[k].works

PublicFormHidesSecret ==
  After("minted") => \A k \in DOMAIN public : public[k] # Minted

\* the policy text embedded in the identifier survives render -> parse (and the
\* claim id as a whole splits back into exactly the parts it was built from)
PolicyRoundTrips ==
  After("minted") =>
    LET p == Policy(cfg, Now) pc == ParseClaim(claim) IN
    /\ ImportInfo(ExportInfo(p)) = p
    /\ pc.sid = SessionIdText(cfg) /\ pc.info = ExportInfo(p) /\ pc.key = << Minted >>
    /\ ExportInfo(ImportInfo(pc.info)) = pc.info

TypeOK ==
  /\ phase \in {"init", "minted", "imported", "ftimported", "claimconn", "done"}
  /\ rel \in {"same", "diff"}
  /\ Len(results) <= 2
=============================================================================
