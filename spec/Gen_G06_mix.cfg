\* G06 generator (thorough): three daemon connections (5 representative scripts), two Accept calls, two Close calls
SPECIFICATION GenSpec
CONSTANTS
  Mode = "listener"
  Origins = {"listen"}
  MaxD = 3
  MaxAcc = 2
  MaxClose = 2
  Scripts <- MixScripts
  Shapes <- NoShapes
  ErrClasses = {}
  MaxEnv = 5
  Bug = {}
INVARIANT EmitTrace
CHECK_DEADLOCK FALSE
