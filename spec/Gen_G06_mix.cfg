\* G06 generator (thorough): two daemon connections (5 representative scripts), two Accept calls, two Close calls, up to five steps
SPECIFICATION GenSpec
CONSTANTS
  Mode = "listener"
  Origins = {"listen"}
  MaxD = 2
  MaxAcc = 2
  MaxClose = 2
  Scripts <- MixScripts
  Shapes <- NoShapes
  ErrClasses = {}
  MaxEnv = 5
  Bug = {}
INVARIANT EmitTrace
CHECK_DEADLOCK FALSE
