\* C04 behaviours: shape x method list x one relay action on each cleartext frame (plus the untouched run)
SPECIFICATION GenSpec
CONSTANTS
  CAuth = {"PREFERRED"}
  SAuth = {"PREFERRED"}
  CEnc = {"REQUIRED", "PREFERRED", "OPTIONAL"}
  SEnc = {"REQUIRED", "OPTIONAL"}
  CMethods <- ListsC04
  SMethods <- ListsC04
  CCiphers <- OnlyAES
  SCiphers <- OnlyAES
  CmdModes = {TRUE}
  Shapes = {"full", "resume", "resume1", "pre00", "pre10", "pre01", "pre11"}
  SameLists = TRUE
  RelayBudget = 1
  AllowAbort = FALSE
  Bug = {}
  GenMode = "c04"
INVARIANT EmitTrace
CHECK_DEADLOCK FALSE
