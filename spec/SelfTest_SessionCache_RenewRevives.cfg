\* non-vacuity: with the known wrong design RenewRevives TLC must report DeadStaysDead violated
SPECIFICATION Spec06
CONSTANTS
  Tags = {"none"}
  Addrs = {"s1"}
  Cmds = {"c1"}
  ValidCmds = {"c1"}
  MaxSid = 2
  MaxTime = 2
  Duration = 1
  Lease = 1
  ImportOn = FALSE
  MaxRec = 1
  Bug = {"RenewRevives"}
CONSTRAINT LegitOnly
INVARIANTS DeadStaysDead
CHECK_DEADLOCK FALSE
