----------------------------- MODULE SharedPort -----------------------------
(***************************************************************************)
(* Growth module G06: the shared-port endpoint and client                  *)
(*   client/sharedport/listener.go, endpoint_protocol.go, sharedport.go,   *)
(*   addresses/addresses.go, addresses/sinful.go, client/sharedport_hint.go*)
(*                                                                         *)
(* The module has three parts, selected by Mode.                           *)
(*                                                                         *)
(* Mode "listener": THE ENDPOINT.  sharedport.Listen(path) / AdoptFD(fd)   *)
(* own a unix-domain listening socket.  "A condor_shared_port daemon ...   *)
(* hands the connected client fd off over a Unix-domain socket using a     *)
(* SHARED_PORT_PASS_SOCK handshake followed by SCM_RIGHTS fd passing":     *)
(*   1. one CEDAR frame [flag][len=8][int 76] "terminated by an            *)
(*      end-of-message marker";                                            *)
(*   2. sendmsg of "a 1-byte iov plus an SCM_RIGHTS ancillary record       *)
(*      carrying the connected client fd";                                 *)
(*   3. no ack; the daemon closes the unix connection.                     *)
(* "Listener accepts those forwarded fds and exposes each one as a         *)
(* net.Conn" through Accept.  Per daemon connection one handler goroutine  *)
(* (handle): bounded by HandshakeTimeout it reads the header, receives the *)
(* fd ("extra fds ... are closed immediately to avoid descriptor leaks"),  *)
(* and hands the connection to "whoever's calling Accept().  If we shut    *)
(* down before a consumer takes it, close the conn ourselves so we don't   *)
(* leak the fd".  Close "stops accepting new fd-pass handshakes, unlinks   *)
(* the UDS file [Listen only: an adopted listener 'will NOT remove the     *)
(* underlying socket file'], unblocks any pending Accept calls, and waits  *)
(* for in-flight handler goroutines to finish before returning.  Safe to   *)
(* call multiple times."                                                   *)
(*                                                                         *)
(* Processes and actions:                                                  *)
(*   daemon (environment)  DConnect(d, script): connects and sends what    *)
(*                         its script says (header class h, fd class f),   *)
(*                         then closes its end or holds it open (e)        *)
(*   acceptLoop            LAccept(d)                                      *)
(*   handle                LHandshake(d) (header + recvmsg, or timeout),   *)
(*                         LHandoff(d, a), LDropQueued(d)                  *)
(*   application           AAccept(a), AAcceptErr(a) (Accept returns the   *)
(*                         terminal error), AClose(k), ACloseRet(k)        *)
(*                                                                         *)
(* WHAT A USER RELIES ON (invariants; named in the harness' signatures):   *)
(*   ExactlyOnce      a forwarded connection is returned by at most one    *)
(*                    Accept call, and an Accept call returns one          *)
(*   OnlyWellFormed   a malformed forward is never returned by Accept      *)
(*   NeverKills       only Close closes the listener: after any malformed  *)
(*                    forward later good ones are still delivered          *)
(*   AfterCloseErr    an Accept begun after a Close returned gets the      *)
(*                    error, never a connection                            *)
(*   ClosedClean      when a Close has returned no handler is left and no  *)
(*                    connection is queued                                 *)
(*   NoLeak           a connection that was received but not delivered is  *)
(*                    closed (the TCP peer sees EOF); extra descriptors    *)
(*                    are closed                                           *)
(*   SocketFile       Listen: the path is a socket while open and gone     *)
(*                    after Close; AdoptFD: the path is never removed      *)
(*   AcceptAnswered   (liveness) a pending Accept is eventually answered:  *)
(*   CloseReturns     with a connection or, once Close was called, with    *)
(*   ForwardSettles   the error; Close returns; every forward is settled   *)
(*                    (delivered / closed) or waits for an Accept          *)
(* PERMISSIVE: a header with another end flag than 1 and an fd that rides  *)
(* on the header bytes may be accepted or dropped; an Accept / forward     *)
(* racing with Close may go either way; nothing is said about the order in *)
(* which queued connections of DIFFERENT daemon connections are delivered  *)
(* (one daemon connection carries one forward; what follows it on the same *)
(* connection is never delivered before it -- here: never).                *)
(*                                                                         *)
(* Mode "route": THE CLIENT'S ROUTING.  An address is a sequence of tokens *)
(* (special characters and opaque words); ParseHT / ParseSinful /          *)
(* SplitCCB / ValidID transcribe addresses.ParseHTCondorAddress,           *)
(* ParseSinful, SplitCCBContact, IsValidSharedPortID from their            *)
(* documentation.  TLC enumerates a grid of address shapes (Shapes); one   *)
(* step Pick computes both parses, the route the client takes and the      *)
(* request it sends.  Invariants: InvalidNeverSent, ServerClean,           *)
(* SockIsParam, ParsersAgree (on canonical shapes), CCBLastHash,           *)
(* HostPortLastColon, RequestShape, CtxHonoured.                           *)
(*                                                                         *)
(* Mode "hint": annotateSharedPortReset as a decision table over address   *)
(* shape x error class: HintOnlyForResetOnSharedPort, NeverHides.          *)
(*                                                                         *)
(* Known wrong designs (members of Bug, for non-vacuity only):             *)
(*   listener: "DeliverMalformed" "DieOnMalformed" "DoubleDeliver"         *)
(*             "LeakOnClose" "LeakExtraFds" "AcceptIgnoresClose"           *)
(*             "CloseNoWait" "UnlinkAdopted" "KeepSocketFile"              *)
(*             "LateAccept" (TODAY'S LISTENER: acceptLoop may take a       *)
(*             connection out of the backlog while Close is under way and  *)
(*             register its handler after Close stopped waiting -- the     *)
(*             handler, and its logf, outlive Close; the harness reports   *)
(*             runs that show it as a known observation)                   *)
(*   route:    "SockSuffixMatch" "KeepBrackets" "NoValidate"               *)
(*             "SplitFirstHash" "FirstColonPort" "TwoFrames"               *)
(*             "IgnoreCtxOnSend"                                           *)
(*   hint:     "HintAlways" "HintAnyAddr" "HintHides"                      *)
(***************************************************************************)
EXTENDS Integers, Sequences, FiniteSets, TLC

CONSTANTS
  Mode,        \* "listener" | "route" | "hint"
  Origins,     \* subset of {"listen", "adopt"}
  MaxD,        \* daemon connections
  MaxAcc,      \* Accept calls
  MaxClose,    \* Close calls
  Scripts,     \* set of [h, f, e] daemon scripts
  Shapes,      \* set of address shapes (route / hint)
  ErrClasses,  \* hint part
  Bug

VARIABLES
  origin,      \* how the listener came to be
  closing,     \* the closed channel is closed / the listening socket is closed
  path,        \* "sock" | "gone": the socket file
  dc,          \* [1..MaxD -> [st, sc, held, extra]]
  acc,         \* [1..MaxAcc -> [st, conn, late]]
  cl,          \* [1..MaxClose -> {"idle","called","returned"}]
  row          \* route / hint result ([kind |-> "none"] until picked)

vars == <<origin, closing, path, dc, acc, cl, row>>

-----------------------------------------------------------------------------
(* listener part                                                           *)

HdrKinds == {"good", "flag", "badcmd", "len0", "lenshort", "lenlong", "lenhuge", "trunc", "none"}
FdKinds  == {"one", "two", "twice", "none", "byte", "nonsock", "onhdr"}
EndKinds == {"close", "hold"}

AllScripts == [h : HdrKinds, f : FdKinds, e : EndKinds]
NoScript == [h |-> "none", f |-> "none", e |-> "close"]
NoRow == [kind |-> "none"]
NoShapes == {}
Sc(h, f, e) == [h |-> h, f |-> f, e |-> e]
\* representatives for the interleaving-heavy configurations: a good forward (daemon hangs up /
\* holds on), a malformed one dropped at once, one the handler waits out, one that may go either way
MixScripts == {Sc("good", "one", "close"), Sc("good", "one", "hold"), Sc("badcmd", "one", "close"),
               Sc("trunc", "none", "hold"), Sc("flag", "one", "close")}
MixScriptsTwo == MixScripts \cup {Sc("good", "two", "close")}
QuickScripts == {Sc("good", "one", "close"), Sc("badcmd", "one", "close"), Sc("trunc", "none", "hold")}
TwoScripts == {Sc("good", "one", "close"), Sc("good", "none", "hold")}

\* "validates that it carries SHARED_PORT_PASS_SOCK ... Anything else (short read,
\* bad length, wrong command) returns a descriptive error so the caller can drop
\* the connection without engaging recvmsg"
HdrVerdict(h) == CASE h = "good" -> "ok" [] h = "flag" -> "either" [] OTHER -> "bad"
HdrWaits(h)   == h \in {"trunc", "none"}
\* "expecting a 1-byte data record and an SCM_RIGHTS ancillary message"
FdVerdict(f)  == CASE f \in {"one", "two", "twice"} -> "ok" [] f = "onhdr" -> "either" [] OTHER -> "bad"
FdWaits(f)    == f = "none"

Verdict(sc) ==
  IF HdrVerdict(sc.h) = "bad" \/ FdVerdict(sc.f) = "bad" THEN "drop"
  ELSE IF HdrVerdict(sc.h) = "ok" /\ FdVerdict(sc.f) = "ok" THEN "deliver"
  ELSE "either"
\* the handler sits until HandshakeTimeout (the daemon neither sends the rest nor hangs up)
Waits(sc) == sc.e = "hold" /\ (HdrWaits(sc.h) \/ (HdrVerdict(sc.h) # "bad" /\ FdWaits(sc.f)))

DIds == 1..MaxD
AIds == 1..MaxAcc
KIds == 1..MaxClose

Queued(d)   == dc[d].st = "queued"
Pending(a)  == acc[a].st = "pending"
Returned(a) == acc[a].st = "ret"
NoHandlers  == \A d \in DIds : dc[d].st \notin {"hs", "queued"}
CloseCalled == \E k \in KIds : cl[k] # "idle"
CloseDone   == \E k \in KIds : cl[k] = "returned"

LInit ==
  /\ origin \in Origins
  /\ closing = FALSE
  /\ path = "sock"
  /\ dc = [d \in DIds |-> [st |-> "idle", sc |-> NoScript, held |-> FALSE, extra |-> "na"]]
  /\ acc = [a \in AIds |-> [st |-> "idle", conn |-> 0, late |-> FALSE]]
  /\ cl = [k \in KIds |-> "idle"]
  /\ row = NoRow

\* the daemon connects and sends what its script says; connect fails once the listener is closed
DConnect(d, sc) ==
  /\ Mode = "listener" /\ dc[d].st = "idle"
  /\ (IF d = 1 THEN TRUE ELSE dc[d-1].st # "idle")
  /\ dc' = [dc EXCEPT ![d] = [@ EXCEPT !.st = IF closing THEN "refused" ELSE "backlog", !.sc = sc]]
  /\ UNCHANGED <<origin, closing, path, acc, cl, row>>

LAccept(d) ==
  /\ Mode = "listener" /\ dc[d].st = "backlog" /\ (~closing \/ "LateAccept" \in Bug)
  /\ dc' = [dc EXCEPT ![d].st = "hs"]
  /\ UNCHANGED <<origin, closing, path, acc, cl, row>>

\* header + recvmsg (or end of the daemon connection, or the handshake deadline)
LHandshake(d) ==
  /\ Mode = "listener" /\ dc[d].st = "hs"
  /\ LET sc == dc[d].sc
         v  == Verdict(sc)
         forced == "DeliverMalformed" \in Bug /\ HdrVerdict(sc.h) = "bad" /\ ~HdrWaits(sc.h) /\ FdVerdict(sc.f) = "ok"
     IN \E take \in BOOLEAN :
          /\ (v = "deliver" \/ forced) => take
          /\ (v = "drop" /\ ~forced) => ~take
          /\ dc' = [dc EXCEPT ![d] =
                      [@ EXCEPT !.st = IF take THEN "queued" ELSE "dropped",
                                !.held = take,
                                !.extra = IF take /\ sc.f = "two"
                                          THEN (IF "LeakExtraFds" \in Bug THEN "leaked" ELSE "closed")
                                          ELSE @]]
          /\ closing' = IF ~take /\ "DieOnMalformed" \in Bug THEN TRUE ELSE closing
  /\ UNCHANGED <<origin, path, acc, cl, row>>

\* "Hand off the forwarded conn to whoever's calling Accept()"
LHandoff(d, a) ==
  /\ Mode = "listener" /\ Queued(d) /\ Pending(a)
  /\ dc' = [dc EXCEPT ![d] = [@ EXCEPT !.st = IF "DoubleDeliver" \in Bug THEN "queued" ELSE "delivered", !.held = FALSE]]
  /\ acc' = [acc EXCEPT ![a] = [@ EXCEPT !.st = "ret", !.conn = d]]
  /\ UNCHANGED <<origin, closing, path, cl, row>>

\* "If we shut down before a consumer takes it, close the conn ourselves"
LDropQueued(d) ==
  /\ Mode = "listener" /\ Queued(d) /\ closing
  /\ dc' = [dc EXCEPT ![d] = [@ EXCEPT !.st = "dropped", !.held = ("LeakOnClose" \in Bug)]]
  /\ UNCHANGED <<origin, closing, path, acc, cl, row>>

AAccept(a) ==
  /\ Mode = "listener" /\ acc[a].st = "idle"
  /\ (IF a = 1 THEN TRUE ELSE acc[a-1].st # "idle")
  /\ acc' = [acc EXCEPT ![a] = [@ EXCEPT !.st = "pending", !.late = CloseDone]]
  /\ UNCHANGED <<origin, closing, path, dc, cl, row>>

AAcceptErr(a) ==
  /\ Mode = "listener" /\ Pending(a) /\ closing
  /\ "AcceptIgnoresClose" \notin Bug
  /\ acc' = [acc EXCEPT ![a] = [@ EXCEPT !.st = "ret", !.conn = 0]]
  /\ UNCHANGED <<origin, closing, path, dc, cl, row>>

\* close(closed); uln.Close() -- connections still in the accept backlog are reset by the
\* kernel (descriptors in flight are discarded); unlink the file if we own it
AClose(k) ==
  /\ Mode = "listener" /\ cl[k] = "idle"
  /\ (IF k = 1 THEN TRUE ELSE cl[k-1] # "idle")
  /\ cl' = [cl EXCEPT ![k] = "called"]
  /\ closing' = TRUE
  /\ dc' = IF "LateAccept" \in Bug THEN dc
           ELSE [d \in DIds |-> IF dc[d].st = "backlog" THEN [dc[d] EXCEPT !.st = "dropped"] ELSE dc[d]]
  /\ path' = CASE origin = "listen" /\ "KeepSocketFile" \notin Bug -> "gone"
               [] origin = "adopt" /\ "UnlinkAdopted" \in Bug -> "gone"
               [] OTHER -> path
  /\ UNCHANGED <<origin, acc, row>>

\* "waits for in-flight handler goroutines to finish before returning"
ACloseRet(k) ==
  /\ Mode = "listener" /\ cl[k] = "called"
  /\ NoHandlers \/ "CloseNoWait" \in Bug
  /\ cl' = [cl EXCEPT ![k] = "returned"]
  /\ UNCHANGED <<origin, closing, path, dc, acc, row>>

ListenerStep ==
  \/ \E d \in DIds : LAccept(d) \/ LHandshake(d) \/ LDropQueued(d)
  \/ \E d \in DIds, a \in AIds : LHandoff(d, a)
  \/ \E a \in AIds : AAcceptErr(a)
  \/ \E k \in KIds : ACloseRet(k)

EnvStep ==
  \/ \E d \in DIds, sc \in Scripts : DConnect(d, sc)
  \/ \E a \in AIds : AAccept(a)
  \/ \E k \in KIds : AClose(k)

\* nothing the listener can do on its own (the harness waits for this point)
Quiescent ==
  /\ \A d \in DIds : dc[d].st \notin {"backlog", "hs"}
  /\ ~(\E d \in DIds : Queued(d) /\ (closing \/ \E a \in AIds : Pending(a)))
  /\ ~(closing /\ \E a \in AIds : Pending(a))
  /\ ~(\E k \in KIds : cl[k] = "called")

----
ListenerTypeOK ==
  /\ origin \in {"listen", "adopt"} /\ closing \in BOOLEAN /\ path \in {"sock", "gone"}
  /\ \A d \in DIds : /\ dc[d].st \in {"idle", "backlog", "hs", "queued", "delivered", "dropped", "refused"}
                     /\ dc[d].held \in BOOLEAN /\ dc[d].extra \in {"na", "closed", "leaked"}
  /\ \A a \in AIds : acc[a].st \in {"idle", "pending", "ret"} /\ acc[a].conn \in 0..MaxD /\ acc[a].late \in BOOLEAN
  /\ \A k \in KIds : cl[k] \in {"idle", "called", "returned"}

ExactlyOnce ==
  /\ \A a1, a2 \in AIds : (a1 # a2 /\ Returned(a1) /\ Returned(a2) /\ acc[a1].conn # 0) => acc[a1].conn # acc[a2].conn
  /\ \A d \in DIds : (dc[d].st = "delivered") <=> (\E a \in AIds : Returned(a) /\ acc[a].conn = d)

OnlyWellFormed == \A a \in AIds : (Returned(a) /\ acc[a].conn # 0) => Verdict(dc[acc[a].conn].sc) # "drop"

NeverKills == closing => CloseCalled

AfterCloseErr == \A a \in AIds : (Returned(a) /\ acc[a].late) => acc[a].conn = 0

ClosedClean == CloseDone => \A d \in DIds : dc[d].st \notin {"backlog", "hs", "queued"}

NoLeak == \A d \in DIds : /\ (dc[d].st \in {"dropped", "delivered"} => ~dc[d].held)
                          /\ dc[d].extra # "leaked"

SocketFile ==
  /\ (origin = "listen" /\ ~CloseCalled) => path = "sock"
  /\ (origin = "listen" /\ CloseCalled) => path = "gone"
  /\ origin = "adopt" => path = "sock"

\* liveness (LiveSpec): the listener's own steps are fair, and the application eventually calls Close
AcceptAnswered == \A a \in AIds : Pending(a) ~> Returned(a)
PromptAfterClose == \A a \in AIds : (Pending(a) /\ closing) ~> Returned(a)
CloseReturns   == \A k \in KIds : (cl[k] = "called") ~> (cl[k] = "returned")
ForwardSettles == \A d \in DIds : (dc[d].st \in {"backlog", "hs"}) ~> (dc[d].st \in {"queued", "delivered", "dropped"})
QueuedServed   == \A d \in DIds : (Queued(d) /\ \E a \in AIds : Pending(a)) ~> (~Queued(d) \/ ~\E a \in AIds : Pending(a))

-----------------------------------------------------------------------------
(* route part: strings are sequences of tokens                             *)

Special == {"<", ">", "?", "&", ";", "=", "#", ":", " ", "+", "[", "]", "%2D", "%20", "%26", "%zz", "uni"}
\* opaque words made of [A-Za-z0-9._-]
SafeTok == {"host", "port", "h6", "n", "id", "id2", "sock", "SOCK", "xsock", "alias", "val", "ccbid", "noUDP", "PrivAddr", "addrs", "-"}

Min(S) == CHOOSE x \in S : \A y \in S : x <= y
Max(S) == CHOOSE x \in S : \A y \in S : x >= y
Hits(s, T) == {i \in 1..Len(s) : s[i] \in T}
IdxOf(s, T) == IF Hits(s, T) = {} THEN 0 ELSE Min(Hits(s, T))
LastIdxOf(s, T) == IF Hits(s, T) = {} THEN 0 ELSE Max(Hits(s, T))
Sub(s, a, b) == IF a > b THEN <<>> ELSE SubSeq(s, a, b)
From(s, a) == Sub(s, a, Len(s))
Keep(s, T) == {i \in 1..Len(s) : s[i] \notin T}
\* strings.Trim(s, cutset)
TrimSet(s, T) == IF Keep(s, T) = {} THEN <<>> ELSE Sub(s, Min(Keep(s, T)), Max(Keep(s, T)))
TrimSpace(s) == TrimSet(s, {" "})
HasPrefix(s, p) == Len(s) >= Len(p) /\ Sub(s, 1, Len(p)) = p

RECURSIVE SplitOn(_, _)
\* strings.Split: empty fields are kept
SplitOn(s, T) == LET i == IdxOf(s, T) IN
  IF i = 0 THEN <<s>> ELSE <<Sub(s, 1, i-1)>> \o SplitOn(From(s, i+1), T)
\* strings.FieldsFunc / strings.Fields: empty fields are dropped
FieldsOn(s, T) == SelectSeq(SplitOn(s, T), LAMBDA x : x # <<>>)

\* "The ID must contain only alphanumeric characters, dots, dashes, and underscores"
ValidID(id) == id # <<>> /\ \A i \in 1..Len(id) : id[i] \in SafeTok

\* ParseHTCondorAddress: "<host:port?sock=shared_port_id>" or without brackets; "other query
\* parameters ... should be stripped from the server address"
SockKey(p) ==
  IF "SockSuffixMatch" \in Bug
  THEN Len(p) >= 2 /\ p[1] \in {"sock", "xsock"} /\ p[2] = "="
  ELSE HasPrefix(p, <<"sock", "=">>)

ParseHT(addr) ==
  LET a == IF "KeepBrackets" \in Bug THEN addr ELSE TrimSet(addr, {"<", ">"})
      q == IdxOf(a, {"?"})
  IN IF q = 0 THEN [server |-> a, id |-> <<>>, sp |-> FALSE]
     ELSE LET server == Sub(a, 1, q-1)
              ps == SplitOn(From(a, q+1), {"&"})
              hit == {i \in 1..Len(ps) : SockKey(ps[i])}
              raw == IF hit = {} THEN <<>> ELSE From(ps[Min(hit)], 3)
              c == IdxOf(raw, {"?"})
              id == IF c = 0 THEN raw ELSE Sub(raw, 1, c-1)
          IN IF raw = <<>> THEN [server |-> server, id |-> <<>>, sp |-> FALSE]
             ELSE [server |-> server, id |-> id, sp |-> TRUE]

\* url.PathUnescape: %XX escapes; '+' stays
DecTok(t) == CASE t = "%2D" -> "-" [] t = "%20" -> " " [] t = "%26" -> "&" [] OTHER -> t
DecErr(s) == \E i \in 1..Len(s) : s[i] = "%zz"
Dec(s) == [i \in 1..Len(s) |-> DecTok(s[i])]

\* SplitCCBContact: "splits on the LAST '#'"; brackets stripped "only when they wrap the whole broker"
SplitCCB(c) ==
  LET s == TrimSpace(c)
      i == IF "SplitFirstHash" \in Bug THEN IdxOf(s, {"#"}) ELSE LastIdxOf(s, {"#"})
  IN IF i = 0 THEN [ok |-> FALSE, broker |-> <<>>, id |-> <<>>]
     ELSE LET b0 == TrimSpace(Sub(s, 1, i-1))
              id == TrimSpace(From(s, i+1))
              b == IF Len(b0) >= 2 /\ b0[1] = "<" /\ b0[Len(b0)] = ">" THEN Sub(b0, 2, Len(b0)-1) ELSE b0
          IN IF b = <<>> \/ id = <<>> THEN [ok |-> FALSE, broker |-> <<>>, id |-> <<>>]
             ELSE [ok |-> TRUE, broker |-> b, id |-> id]

PairKey(p) == LET i == IdxOf(p, {"="}) IN IF i = 0 THEN p ELSE Sub(p, 1, i-1)
PairVal(p) == LET i == IdxOf(p, {"="}) IN IF i = 0 THEN <<>> ELSE From(p, i+1)

\* ParseSinful: "<host:port?key1=value1&key2=value2&...> where keys and values are url-encoded
\* ... and pairs are delimited by '&' or ';'"; "If a key repeats, the last value wins";
\* "an error is returned only for malformed url-encoding"
ParseSinful(addr) ==
  LET s0 == TrimSpace(addr)
      s1 == IF Len(s0) > 0 /\ s0[1] = "<" THEN Tail(s0) ELSE s0
      s2 == IF Len(s1) > 0 /\ s1[Len(s1)] = ">" THEN Sub(s1, 1, Len(s1)-1) ELSE s1
      q == IdxOf(s2, {"?"})
      primary == IF q = 0 THEN s2 ELSE Sub(s2, 1, q-1)
      query == IF q = 0 THEN <<>> ELSE From(s2, q+1)
      c == IF "FirstColonPort" \in Bug THEN IdxOf(primary, {":"}) ELSE LastIdxOf(primary, {":"})
      host == IF c = 0 THEN <<>> ELSE Sub(primary, 1, c-1)
      port == IF c = 0 THEN <<>> ELSE From(primary, c+1)
      pairs == FieldsOn(query, {"&", ";"})
      bad == \E i \in 1..Len(pairs) : DecErr(pairs[i])
      Has(k) == {i \in 1..Len(pairs) : Dec(PairKey(pairs[i])) = k}
      Get(k) == IF Has(k) = {} THEN <<>> ELSE Dec(PairVal(pairs[Max(Has(k))]))
      contacts == LET cs == FieldsOn(Get(<<"ccbid">>), {" "})
                  IN SelectSeq([i \in 1..Len(cs) |-> SplitCCB(cs[i])], LAMBDA r : r.ok)
      keys == {Dec(PairKey(pairs[i])) : i \in 1..Len(pairs)}
  IN IF bad THEN [err |-> TRUE, primary |-> primary, host |-> host, port |-> port, sock |-> <<>>,
                  ccb |-> <<>>, alias |-> <<>>, priv |-> <<>>, noudp |-> FALSE, addrs |-> <<>>, nkeys |-> 0]
     ELSE [err |-> FALSE, primary |-> primary, host |-> host, port |-> port,
           sock |-> Get(<<"sock">>),
           ccb |-> [i \in 1..Len(contacts) |-> [broker |-> contacts[i].broker, id |-> contacts[i].id]],
           alias |-> Get(<<"alias">>),
           priv |-> Get(<<"PrivAddr">>),
           noudp |-> Has(<<"noUDP">>) # {},
           addrs |-> IF Get(<<"addrs">>) = <<>> THEN <<>> ELSE SplitOn(Get(<<"addrs">>), {"+"}),
           nkeys |-> Cardinality(keys)]

\* ---- the shape grid ------------------------------------------------------
BrKinds   == {"none", "both", "open", "close", "double"}
HostKinds == {"v4", "v6", "bare", "empty"}
ParamKinds == {"sock", "sockEmpty", "sockNoEq", "sockQ", "sockBad", "sockEsc", "sockEscBad", "sockUni",
               "sockUpper", "xsock", "sock2", "alias", "aliasEscAmp", "noUDP", "priv", "addrs",
               "ccb1", "ccb2", "ccbNested", "ccbNoHash", "ccbBrk", "ccbEmptyId"}

Contact1 == <<"host", ":", "port", "#", "n">>
ParamToks(p) ==
  CASE p = "sock"        -> <<"sock", "=", "id">>
    [] p = "sockEmpty"   -> <<"sock", "=">>
    [] p = "sockNoEq"    -> <<"sock">>
    [] p = "sockQ"       -> <<"sock", "=", "id", "?", "val">>
    [] p = "sockBad"     -> <<"sock", "=", "id", " ", "id">>
    [] p = "sockEsc"     -> <<"sock", "=", "id", "%2D", "id">>
    [] p = "sockEscBad"  -> <<"sock", "=", "id", "%zz">>
    [] p = "sockUni"     -> <<"sock", "=", "id", "uni">>
    [] p = "sockUpper"   -> <<"SOCK", "=", "id">>
    [] p = "xsock"       -> <<"xsock", "=", "id">>
    [] p = "sock2"       -> <<"sock", "=", "id2">>
    [] p = "alias"       -> <<"alias", "=", "val">>
    [] p = "aliasEscAmp" -> <<"alias", "=", "val", "%26", "sock", "=", "id2">>
    [] p = "noUDP"       -> <<"noUDP">>
    [] p = "priv"        -> <<"PrivAddr", "=", "<", "host", ":", "port", ">">>
    [] p = "addrs"       -> <<"addrs", "=", "host", "-", "port", "+", "[", "h6", "]", "-", "port">>
    [] p = "ccb1"        -> <<"ccbid", "=">> \o Contact1
    [] p = "ccb2"        -> <<"ccbid", "=">> \o Contact1 \o <<"%20">> \o Contact1
    [] p = "ccbNested"   -> <<"ccbid", "=">> \o Contact1 \o <<"#", "n">>
    [] p = "ccbNoHash"   -> <<"ccbid", "=", "host", ":", "port">>
    [] p = "ccbBrk"      -> <<"ccbid", "=", "<", "host", ":", "port", ">", "#", "n">>
    [] p = "ccbEmptyId"  -> <<"ccbid", "=", "host", ":", "port", "#">>

HostToks(h) ==
  CASE h = "v4" -> <<"host", ":", "port">>
    [] h = "v6" -> <<"[", "h6", ":", ":", "h6", "]", ":", "port">>
    [] h = "bare" -> <<"host">>
    [] h = "empty" -> <<>>

RECURSIVE JoinParams(_, _)
JoinParams(ps, sep) ==
  IF ps = <<>> THEN <<>>
  ELSE IF Len(ps) = 1 THEN ParamToks(ps[1])
  ELSE ParamToks(ps[1]) \o <<sep>> \o JoinParams(Tail(ps), sep)

Render(sh) ==
  LET pre == CASE sh.br \in {"both", "open"} -> <<"<">> [] sh.br = "double" -> <<"<", "<">> [] OTHER -> <<>>
      suf == CASE sh.br \in {"both", "close"} -> <<">">> [] sh.br = "double" -> <<">", ">">> [] OTHER -> <<>>
      lead == IF sh.sp THEN <<" ">> ELSE <<>>
      qs == IF sh.ps = <<>> THEN <<>> ELSE <<"?">> \o JoinParams(sh.ps, sh.sep)
  IN lead \o pre \o HostToks(sh.host) \o qs \o suf

ParamSeqs(n) == UNION {[1..k -> ParamKinds] : k \in 0..n}
\* frame grid: every bracket / host / leading-space form with at most one parameter
FrameShapes == [br : BrKinds, host : HostKinds, sp : BOOLEAN, sep : {"&"}, ps : ParamSeqs(1)]
\* parameter grid: lists of up to two (ParamShapes2) / three (ParamShapes3) parameters, both separators
ParamShapes2 == [br : {"none", "both"}, host : {"v4"}, sp : {FALSE}, sep : {"&", ";"}, ps : ParamSeqs(2)]
ParamShapes3 == [br : {"both"}, host : {"v4"}, sp : {FALSE}, sep : {"&", ";"}, ps : ParamSeqs(3)]
RouteShapesQuick == FrameShapes \cup ParamShapes2
RouteShapesThorough == FrameShapes \cup ParamShapes2 \cup ParamShapes3
SmallShapes == [br : {"none", "both"}, host : {"v4", "v6"}, sp : {FALSE}, sep : {"&"},
                ps : {<<>>, <<"sock">>, <<"sockBad">>, <<"alias", "sock">>, <<"aliasEscAmp">>, <<"sockEmpty">>}]

\* what HTCondor itself generates: '&' separators, no escapes in or around sock, one sock at most
CanonParams == {"sock", "alias", "noUDP", "addrs", "ccb1", "ccbNested", "ccbNoHash"}
Canonical(sh) ==
  /\ sh.br \in {"none", "both"} /\ ~sh.sp /\ sh.sep = "&"
  /\ \A i \in 1..Len(sh.ps) : sh.ps[i] \in CanonParams
  /\ Cardinality({i \in 1..Len(sh.ps) : sh.ps[i] = "sock"}) <= 1

\* the route of ConnectToHTCondorAddress / HTCondorClient.Connect:
\*   "ccb"    (Connect only) the sinful parse succeeded and carries contacts
\*   "sp"     dial the server, send SHARED_PORT_CONNECT with the id
\*   "reject" "invalid shared port ID": nothing is sent
\*   "direct" dial the server, send nothing
Via(ht) == IF ~ht.sp THEN "direct"
           ELSE IF ValidID(ht.id) \/ "NoValidate" \in Bug THEN "sp" ELSE "reject"

\* sendSharedPortRequest: command, id, client name, deadline, more_args = 0; ONE message
Request(id) == [frames |-> IF "TwoFrames" \in Bug THEN 2 ELSE 1,
                fields |-> <<"cmd75", "id", "name", "deadline", "zero">>, id |-> id]

\* "Send the deadline in seconds ... <= 0: -1 (No timeout)".  Where the text is silent (a
\* deadline that is not a whole number of seconds) rounding either way is admitted, and a
\* positive deadline below one second may also be sent as "no timeout".
DeadlineClasses == {"zero", "sub", "sec", "frac"}
DeadlineField(c) == CASE c = "zero" -> {"none"}
                      [] c = "sec" -> {"exact"}
                      [] c = "frac" -> {"floor", "ceil"}
                      [] c = "sub" -> {"none", "floor", "ceil"}
\* "clientName is used for debugging purposes"; an empty name becomes the built-in one; CEDAR
\* strings end at the first NUL
NameField == [default |-> "builtin", plain |-> "same", nul |-> "upToNul"]

RouteRow(sh) ==
  LET a == Render(sh)
      ht == ParseHT(a)
      sin == ParseSinful(a)
      via == Via(ht)
  IN [kind |-> "route", shape |-> sh, addr |-> a, ht |-> ht, sin |-> sin,
      valid |-> ValidID(ht.id), via |-> via,
      ccb |-> (~sin.err /\ sin.ccb # <<>>),
      canon |-> Canonical(sh),
      req |-> IF via = "sp" THEN Request(ht.id) ELSE Request(<<>>),
      dl |-> [c \in DeadlineClasses |-> DeadlineField(c)],
      nm |-> NameField]

Pick(sh) ==
  /\ Mode = "route" /\ row = NoRow
  /\ row' = RouteRow(sh)
  /\ UNCHANGED <<origin, closing, path, dc, acc, cl>>

\* "ctx: context for cancellation and timeouts ... deadline: connection timeout".  The context
\* ends before the call ("before"), while the request is being written to a daemon that does
\* not read ("send"), or while the TCP connection is being made ("dial").  The call returns an
\* error and leaves no connection behind; it returns when the context ends -- for the dial
\* phase the text also admits the connection timeout.
CtxPhases == {"before", "send", "dial"}
CtxRow(ph) == [kind |-> "ctx", phase |-> ph, result |-> "error", closed |-> TRUE,
               bound |-> CASE ph = "dial" -> {"ctx", "deadline"}
                           [] ph = "send" /\ "IgnoreCtxOnSend" \in Bug -> {"never"}
                           [] OTHER -> {"ctx"}]
PickCtx(ph) ==
  /\ Mode = "route" /\ row = NoRow
  /\ row' = CtxRow(ph)
  /\ UNCHANGED <<origin, closing, path, dc, acc, cl>>
CtxHonoured == row.kind = "ctx" => (row.result = "error" /\ row.closed /\ "never" \notin row.bound)

IsRoute == row.kind = "route"
InvalidNeverSent == IsRoute => (row.via = "sp" => ValidID(row.req.id))
ServerClean == (IsRoute /\ ~row.shape.sp /\ row.shape.br \in {"none", "both", "double"}) =>
                 \A i \in 1..Len(row.ht.server) : row.ht.server[i] \notin {"<", ">", "?"}
\* the id is (the start of) the value of a parameter whose key is exactly sock
SockIsParam == (IsRoute /\ row.ht.sp /\ row.shape.sep = "&") =>
  \E i \in 1..Len(row.shape.ps) :
     LET p == ParamToks(row.shape.ps[i]) IN
       /\ Len(p) >= 2 /\ p[1] = "sock" /\ p[2] = "="
       /\ HasPrefix(From(p, 3), row.ht.id)
ParsersAgree == (IsRoute /\ row.canon) =>
  /\ ~row.sin.err
  /\ row.ht.id = row.sin.sock
  /\ row.ht.server = row.sin.primary
  /\ row.ht.sp = (row.sin.sock # <<>>)
\* a nested contact keeps its inner hops in the broker part
CCBLastHash == (IsRoute /\ ~row.sin.err /\ row.shape.br \in {"none", "both"}) =>
  \A i \in 1..Len(row.sin.ccb) :
     /\ row.sin.ccb[i].id = <<"n">>
     /\ row.sin.ccb[i].broker # <<>>
     /\ row.sin.ccb[i].broker[1] # "<"
HostPortLastColon == (IsRoute /\ row.shape.host = "v6" /\ row.shape.br \in {"none", "both"} /\ ~row.shape.sp) =>
  row.sin.port = <<"port">> /\ row.sin.host = <<"[", "h6", ":", ":", "h6", "]">>
RequestShape == IsRoute => row.req.frames = 1

-----------------------------------------------------------------------------
(* hint part                                                               *)

\* "a TCP reset, a broken pipe, or an EOF / unexpected EOF while a read was still expecting data"
ResetClass == {"eof", "ueof", "rst", "epipe", "netclosed"}
AllErrClasses == ResetClass \cup {"protocol", "timeout"}
\* the classes the harness can provoke through the public API
HintErrClasses == AllErrClasses \ {"netclosed"}

HintRow(sh, e) ==
  LET ht == ParseHT(Render(sh))
      hinted == CASE "HintAlways" \in Bug -> ht.sp
                  [] "HintAnyAddr" \in Bug -> e \in ResetClass
                  [] OTHER -> ht.sp /\ e \in ResetClass
  IN [kind |-> "hint", shape |-> sh, addr |-> Render(sh), ht |-> ht, sp |-> ht.sp, err |-> e,
      via |-> Via(ht), hint |-> hinted,
      \* the chain errors.Is / Unwrap can walk
      chain |-> IF hinted /\ "HintHides" \in Bug THEN <<"hint">>
                ELSE IF hinted THEN <<"hint", e>> ELSE <<e>>]

PickHint(sh, e) ==
  /\ Mode = "hint" /\ row = NoRow
  /\ Via(ParseHT(Render(sh))) # "reject"     \* a rejected id never reaches the handshake
  /\ row' = HintRow(sh, e)
  /\ UNCHANGED <<origin, closing, path, dc, acc, cl>>

IsHint == row.kind = "hint"
HintOnlyForResetOnSharedPort == IsHint => (row.hint <=> (row.sp /\ row.err \in ResetClass))
NeverHides == IsHint => row.chain[Len(row.chain)] = row.err

-----------------------------------------------------------------------------
Init == LInit

\* (the guard stands outside the quantifiers: a picked row ends the behaviour)
RowStep ==
  /\ row = NoRow /\ Mode \in {"route", "hint"}
  /\ \/ \E sh \in Shapes : Pick(sh)
     \/ \E ph \in CtxPhases : PickCtx(ph)
     \/ \E sh \in Shapes, e \in ErrClasses : PickHint(sh, e)

Next ==
  \/ ListenerStep \/ EnvStep
  \/ RowStep

Spec == Init /\ [][Next]_vars

LiveSpec ==
  /\ Spec
  /\ \A d \in DIds : WF_vars(LAccept(d)) /\ WF_vars(LHandshake(d)) /\ WF_vars(LDropQueued(d))
  /\ \A d \in DIds : WF_vars(\E a \in AIds : LHandoff(d, a))
  /\ \A a \in AIds : WF_vars(AAcceptErr(a))
  /\ \A k \in KIds : WF_vars(ACloseRet(k))
  /\ WF_vars(AClose(1))
=============================================================================
