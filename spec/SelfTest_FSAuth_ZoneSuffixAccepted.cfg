\* non-vacuity: with Bug = {"ZoneSuffixAccepted"} TLC must report CreatedOnlyUnderBase violated
SPECIFICATION Spec
CONSTANTS
  MaxLen = 3
  ConnFams = {4, 6}
  Faults = {"none", "sendFail", "verdictLost"}
  Roles = {"client", "server"}
  Bug = {"ZoneSuffixAccepted"}
INVARIANTS CreatedOnlyUnderBase
CHECK_DEADLOCK FALSE
