\* TLC cross-check of the module proved by TLAPS (small constants)
SPECIFICATION Spec
CONSTANTS
  MaxCtr = 4
INVARIANTS IndInv NonceFresh
CONSTRAINT Bounded
CHECK_DEADLOCK FALSE
