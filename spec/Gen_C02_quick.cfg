SPECIFICATION GenSpec
CONSTANTS
  MaxMsgsAB = 2
  MaxMsgsBA = 0
  MaxFrames = 2
  MaxCtr = 100
  StartCtrs = {0}
  PreFrames = {0}
  BaseEncs = {TRUE}
  MaxFaults = 1
  MaxHandoffs = 0
  Bug = {}
  GenMode = "C02"
  GenDepth = 0
  HandoffEnds = {"a", "b"}
  ScriptIds = {0}
INVARIANT EmitTrace
CHECK_DEADLOCK FALSE
