\* non-vacuity: with the known wrong design "DotMeansReal" TLC must report ShortcutSound violated
SPECIFICATION Spec
CONSTANTS
  MaxLen = 5
  Bug = {"DotMeansReal"}
INVARIANTS ShortcutSound
CHECK_DEADLOCK FALSE
