SPECIFICATION GenSpec
CONSTANTS
  Tags = {"none"}
  Addrs = {"s1"}
  Cmds = {"c1"}
  ValidCmds = {"c1"}
  MaxSid = 2
  MaxTime = 2
  Duration = 2
  Lease = 1
  ImportOn = FALSE
  MaxRec = 1
  Bug = {}
  GenMode = "C06"
  GenDepth = 0
  LifeDepth = 3
  Canon = FALSE
VIEW GenView06
INVARIANT EmitTrace
CHECK_DEADLOCK FALSE
