\* non-vacuity: LittleEndian must violate LayoutExamples
SPECIFICATION Spec
CONSTANTS
  ValueNames = {"char_ff", "int_m256", "wide_max64", "dbl_1", "str_ab", "str_a0b", "str_empty"}
  MaxVals = 1
  MaxCuts = 1
  Encs = {TRUE, FALSE}
  Bug = {"LittleEndian"}
INVARIANTS LayoutExamples
CHECK_DEADLOCK FALSE
