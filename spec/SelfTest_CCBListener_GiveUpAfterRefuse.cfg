\* non-vacuity: with Bug = {"GiveUpAfterRefuse"} TLC must report NoWedge violated
SPECIFICATION Spec
CONSTANTS
  NB = 1
  MaxConn = 2
  MaxReq = 2
  MaxTick = 1
  MaxMsg = 1
  RegAnswers = {"fresh", "same", "refuse", "hangup"}
  Targets = {"accept", "refuse"}
  Msgs = {"malformed"}
  Bug = {"GiveUpAfterRefuse"}
INVARIANTS NoWedge
CHECK_DEADLOCK FALSE
