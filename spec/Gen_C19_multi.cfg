\* C19 generator for two calls on one connection: scripts of 2 steps
SPECIFICATION GenSpec
CONSTANTS
  Ns = {2}
  Modes = {"duplex", "reuse"}
  Bug = {}
INVARIANT EmitTrace
CHECK_DEADLOCK FALSE
