\* C17: concurrent handshakes sharing one configuration object, next to cache maintenance
SPECIFICATION Spec
CONSTANTS
  Gor = {"g1", "g2", "g3"}
  Nobody = Nobody
  Ids = {"i1"}
  MaxOps = 2
  MaxVer = 1
  OpsOf <- RolesHandshake
  InitKinds = {"dead"}
  StoreExp = {"live"}
  Bug = {}
INVARIANTS TypeOK LocksetDiscipline AccessRelationRespected NoTornExpiry NoLostInvalidate RefinesSeq Linearizable HandshakeUndisturbed
CHECK_DEADLOCK FALSE
