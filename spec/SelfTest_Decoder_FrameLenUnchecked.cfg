\* non-vacuity: with the known wrong design "FrameLenUnchecked" TLC must report Bounded violated
SPECIFICATION Spec
CONSTANTS
  Bug = {"FrameLenUnchecked"}
  Families = {"frame","pass"}
  Modes = {"plain","enc"}
  ExprMax = 1
  TokLen = 3
INVARIANTS TypeOK NoPanic Bounded CapHonoured CapFails
CHECK_DEADLOCK FALSE
