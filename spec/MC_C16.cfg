\* C16: every configuration x {importer holds the secret, importer holds a corrupted secret}
SPECIFICATION Spec
CONSTANTS
  Tier = "all"
  SecretRels = {"same", "diff"}
  Bug = {}
INVARIANTS TypeOK SameSession ResumesBothWays ResumesByCommand WrongSecretFails PublicFormHidesSecret PolicyRoundTrips
CHECK_DEADLOCK FALSE
