\* non-vacuity: with Bug = {"IgnoreCtxOnSend"} TLC must report CtxHonoured violated
SPECIFICATION Spec
CONSTANTS
  Mode = "route"
  Origins = {"listen"}
  MaxD = 1
  MaxAcc = 1
  MaxClose = 1
  Scripts <- QuickScripts
  Shapes <- SmallShapes
  ErrClasses = {}
  Bug = {"IgnoreCtxOnSend"}
INVARIANTS CtxHonoured
CHECK_DEADLOCK FALSE
