\* C05 generator (two; used with -simulate: seeded random walks): intended design (Permissive = FALSE), inputs + expected log
SPECIFICATION GenSpec
CONSTANTS
  MaxConns = 2
  MaxCmds = 3
  PolicyTabs = {1, 2}
  AuthzTabs = {0, 1, 2}
  InitAuthz = {0, 1, 2}
  InitPtab = {1, 2}
  Users = {"alice", "bob"}
  Permissive = FALSE
  Bug = {}
  GenMode = "two"
  FollowCmds = {"R", "W", "A", "I", "X", "U"}
  MaxChanges = 2
INVARIANT EmitTrace
CHECK_DEADLOCK FALSE
