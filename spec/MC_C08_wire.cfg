\* C08: ad shapes 0..3 attributes (public / private), default and NoTypes / IncludePrivate options,
\* three stream states, with and without type names, three frame-cut plans
SPECIFICATION Spec
CONSTANTS
  MaxAttrs = 3
  AttrClasses = {"pubA", "claimid"}
  Spellings = {"mixed"}
  OptWords = {0, 1, 32, 33}
  Whitelists = {"none"}
  Versions = {"unset"}
  StreamStates = {"nokey", "enc", "keyedClear"}
  TypeModes = {"both", "none"}
  CutPlans = {"one", "each", "split"}
  Bug = {}
INVARIANTS TypeOK CountIsItems SameConsumption MaxSizeAllOrNothing AttrSetPreserved ReceiverReassembles SecretsOnlyInsideEncryptedFrames
CHECK_DEADLOCK FALSE
