\* non-vacuity: with the known wrong design ExpiredStillRouted TLC must report NoRouteToDeadSession violated
SPECIFICATION Spec07
CONSTANTS
  Tags = {"none", "A", "B"}
  Addrs = {"s1", "s2"}
  Cmds = {"c1", "c2", "c3"}
  ValidCmds = {"c1", "c2"}
  MaxSid = 2
  MaxTime = 0
  Duration = 1
  Lease = 1
  ImportOn = FALSE
  MaxRec = 0
  Bug = {"ExpiredStillRouted"}
INVARIANTS NoRouteToDeadSession
CHECK_DEADLOCK FALSE
