---------------------------- MODULE FileTransfer ----------------------------
(***************************************************************************)
(* Growth module G02: file transfer over a CEDAR stream                    *)
(* (stream/stream.go PutFile / GetFile, after HTCondor's                   *)
(* ReliSock::put_file / get_file).                                         *)
(*                                                                         *)
(* Protocol, as the code and its comments state it:                        *)
(*   sender    "Send file size first (as 8-byte big-endian)" as one        *)
(*             message; "Send file data in chunks" of a 64 KiB buffer,     *)
(*             every chunk ONE complete single-frame message               *)
(*             (SendMessage); "Send end-of-file marker (666 as 4-byte      *)
(*             big-endian, per HTCondor)"; "Returns the number of bytes    *)
(*             sent".                                                      *)
(*   receiver  reads the size with the single-frame reader (ReceiveFrame), *)
(*             creates the file, reads frames until it holds `size` bytes, *)
(*             then "Receive and verify EOF marker"; "Returns the number   *)
(*             of bytes received".                                         *)
(* HTCondor's get_file reads at most the bytes still missing               *)
(* (MIN(sizeof(buf), bytes_to_receive - total)), so it never stores more   *)
(* than the announced size, and reports "only received X of Y" when the    *)
(* connection ends early.                                                  *)
(*                                                                         *)
(* A session is one stream (plain or AES-GCM keyed from the start) on      *)
(* which the sender performs the items of a plan ("msg" = an ordinary      *)
(* message, "file" = PutFile) and the receiver performs the matching calls *)
(* (ReceiveCompleteMessage / GetFile) in the same order.  The wire is a    *)
(* FIFO of frames.  Sizes are the real numbers (Chunk = 65536,             *)
(* Max = 1048576); content is abstract: a frame carries the segment        *)
(* (item, what, off, len) it was cut from, and the harness maps segments   *)
(* to concrete bytes.                                                      *)
(*                                                                         *)
(* One action per protocol step of a public call:                          *)
(*   sender    SendMsg = SendMessage / SendPartialMessage+SendMessage      *)
(*             PfOpen (size message), PfChunk, PfMarker  = PutFile         *)
(*   receiver  RecvMsg = ReceiveCompleteMessage                            *)
(*             GfSize, GfChunk, GfMarker                 = GetFile         *)
(*   network   CutNext(how): the connection is cut inside the next frame   *)
(*             ("hdr" / "body") or before it ("boundary"); CloseWire at    *)
(*             the end of the sender's run.                                *)
(* The peer may deviate in ONE file item (field dev of the item):          *)
(*   announceMore / announceFewer (by delta), negSize, wrongMarkerVal,     *)
(*   wrongMarkerLen, noMarker, splitSize, splitChunk, splitMarker,         *)
(*   emptyFrame.                                                           *)
(*                                                                         *)
(* Where the documentation is silent the receiver of the model follows the *)
(* implementation and flags the result `silent`: a chunk that arrives as   *)
(* two frames (the single-frame reader ignores the end flag) or an empty   *)
(* frame among the chunks may be accepted or refused; the binding accepts  *)
(* both outcomes there, the invariants below hold for both.                *)
(*                                                                         *)
(* Known wrong designs (members of Bug, for non-vacuity only):             *)
(*   "OvershootAccepted"   receiver stores a last frame that goes past the *)
(*                         announced size and reports success              *)
(*   "NegSizeAccepted"     a negative announced size is treated like 0     *)
(*   "MarkerUnchecked"     any 4-byte message ends the transfer            *)
(*   "MarkerSkipped"       receiver returns after the last chunk           *)
(*   "EOFIsEndOfFile"      end of connection among the chunks = success    *)
(*   "PreallocAnnounced"   receiver allocates the announced size           *)
(*   "HangOnClose"         receiver keeps waiting on a closed connection   *)
(*   "SenderNoMarker"      sender omits the marker                         *)
(*   "SenderMarkerOnlyIfEmpty" sender sends 666 only for an empty file     *)
(*                         (what HTCondor's put_file does; cedar's         *)
(*                         receiver always expects it)                     *)
(***************************************************************************)
EXTENDS Integers, Sequences, FiniteSets, TLC

CONSTANTS
  Chunk, Max, Tag, IVLen, MarkerVal,
  Encs,         \* subset of BOOLEAN
  Plans,        \* set of sequences over {"msg", "file"}
  Sizes,        \* sizes of the first file of a session
  LaterSizes,   \* sizes of the 2nd, 3rd ... file of a session
  MsgLens,      \* lengths of ordinary messages (never 4 or 8: not mistakable for marker / size)
  MsgSplits,    \* subset of BOOLEAN: may an ordinary message travel as two frames?
  Devs,         \* deviations the peer may use
  MoreDeltas, FewerDeltas,
  CutHows,      \* subset of {"boundary", "hdr", "body"}
  MaxFaults,    \* deviations + cuts per session
  Interleave,   \* TRUE: receiver runs concurrently with the sender
  Bug

VARIABLES
  enc, plan,
  phase,        \* "send" | "recv" | "done"
  items,        \* what the sender did / is doing, one record per started item
  spc,          \* "idle" | "chunks" | "marker"
  sOff,         \* bytes of the current file handed to the stream
  sres,         \* sender results, one per finished item: [ok, n]
  sStop,        \* the sender saw a write error and gave up
  wire,         \* Seq(Frame)
  closed,       \* no more bytes will ever arrive
  pendingCut,   \* "none" | how the next write is cut
  nFaults,
  rpc,          \* "idle" | "chunks" | "marker"
  rpos,         \* frames consumed
  rAnn, rTotal, rFile, rSilent,
  rres,         \* receiver results, one per finished call
  rStop,        \* the receiver saw an error and gave up (the stream is unusable)
  rAlloc        \* largest single allocation the receiver made

vars == <<enc, plan, phase, items, spc, sOff, sres, sStop, wire, closed, pendingCut, nFaults,
          rpc, rpos, rAnn, rTotal, rFile, rSilent, rres, rStop, rAlloc>>
sndVars == <<items, spc, sOff, sres, sStop, wire, closed, pendingCut, nFaults>>
rcvVars == <<rpc, rpos, rAnn, rTotal, rFile, rSilent, rres, rStop, rAlloc>>

\* plan sets for the configuration files (a .cfg cannot write tuples)
PlansOne  == {<<"file">>}
PlansMix  == {<<"file">>, <<"msg", "file", "msg">>, <<"file", "file">>}
PlansMulti == {<<"msg", "file", "msg">>, <<"file", "file">>, <<"msg", "file", "file", "msg">>}
PlansAll  == {<<"file">>, <<"msg", "file", "msg">>, <<"file", "file">>, <<"msg", "file", "file", "msg">>}

Min(a, b) == IF a < b THEN a ELSE b
MaxOf(a, b) == IF a > b THEN a ELSE b

-----------------------------------------------------------------------------
(* Content segments                                                        *)
Seg(i, w, o, l) == [item |-> i, what |-> w, off |-> o, len |-> l]

AppendSeg(s, g) ==
  IF g.len = 0 THEN s
  ELSE IF s # <<>> /\ s[Len(s)].item = g.item /\ s[Len(s)].what = g.what
                   /\ s[Len(s)].off + s[Len(s)].len = g.off
       THEN [s EXCEPT ![Len(s)].len = @ + g.len]
       ELSE Append(s, g)

Whole(i, w, l) == IF l = 0 THEN <<>> ELSE <<Seg(i, w, 0, l)>>

-----------------------------------------------------------------------------
(* Frames                                                                  *)
WireLen(n, first) == IF enc THEN n + Tag + (IF first THEN IVLen ELSE 0) ELSE n

\* a frame about to be appended at position pos of the wire
Fr(pos, what, i, off, n, val, end) ==
  [what |-> what, item |-> i, off |-> off, plen |-> n, val |-> val, end |-> end,
   wlen |-> WireLen(n, pos = 1), cut |-> "none"]

\* renumber wlen for a list of frames appended after the current wire
RECURSIVE Place(_, _)
Place(fs, pos) ==
  IF fs = <<>> THEN <<>>
  ELSE <<[Head(fs) EXCEPT !.wlen = WireLen(Head(fs).plen, pos = 1)]>> \o Place(Tail(fs), pos + 1)

F(what, i, off, n, val, end) == Fr(2, what, i, off, n, val, end)

-----------------------------------------------------------------------------
(* Sender                                                                  *)
CurItem == Len(items)
Cur == items[CurItem]

Announced(it) ==
  CASE it.dev = "announceMore"  -> it.size + it.delta
    [] it.dev = "announceFewer" -> it.size - it.delta
    [] it.dev = "negSize"       -> 0 - 1
    [] OTHER                    -> it.size

\* Emit: every write of the sender goes through here.  ok/fail are the
\* updates of the sender's own variables for the two outcomes.
Emit(fs, okUpd, failUpd) ==
  IF closed
  THEN /\ failUpd /\ UNCHANGED <<wire, closed, pendingCut>>
  ELSE IF pendingCut = "boundary"
  THEN /\ closed' = TRUE /\ pendingCut' = "none" /\ failUpd /\ UNCHANGED wire
  ELSE IF pendingCut # "none" /\ fs # <<>>
  THEN LET p == Place(fs, Len(wire) + 1) IN
       /\ wire' = Append(wire, [p[1] EXCEPT !.cut = pendingCut])
       /\ closed' = TRUE /\ pendingCut' = "none" /\ failUpd
  ELSE /\ wire' = wire \o Place(fs, Len(wire) + 1)
       /\ okUpd /\ UNCHANGED <<closed, pendingCut>>

Sending == phase = "send" /\ ~sStop

Fail(n) ==
  /\ sres' = Append(sres, [ok |-> FALSE, n |-> n])
  /\ sStop' = TRUE /\ spc' = "idle" /\ sOff' = 0

NthFile == Cardinality({j \in 1..Len(items) : items[j].kind = "file"}) + 1

SendMsg(n, split) ==
  /\ Sending /\ spc = "idle" /\ CurItem < Len(plan) /\ plan[CurItem + 1] = "msg"
  /\ split => n >= 2
  /\ LET i  == CurItem + 1
         h  == n \div 2
         fs == IF split THEN <<F("msg", i, 0, h, 0 - 1, 0), F("msg", i, h, n - h, 0 - 1, 1)>>
               ELSE <<F("msg", i, 0, n, 0 - 1, 1)>>
     IN /\ items' = Append(items, [kind |-> "msg", size |-> n, dev |-> "none", delta |-> 0, split |-> split])
        /\ Emit(fs,
                /\ sres' = Append(sres, [ok |-> TRUE, n |-> n]) /\ UNCHANGED <<sStop, spc, sOff>>,
                Fail(0))
  /\ UNCHANGED nFaults

DevOK(size, dev, delta) ==
  CASE dev = "none"          -> delta = 0
    [] dev = "announceMore"  -> delta \in MoreDeltas
    [] dev = "announceFewer" -> delta \in FewerDeltas /\ delta <= size
    [] dev = "splitChunk"    -> delta = 0 /\ size >= 2
    [] OTHER                 -> delta = 0

PfOpen(size, dev, delta) ==
  /\ Sending /\ spc = "idle" /\ CurItem < Len(plan) /\ plan[CurItem + 1] = "file"
  /\ IF NthFile > 1 THEN size \in LaterSizes ELSE size \in Sizes
  /\ DevOK(size, dev, delta)
  /\ dev # "none" => nFaults < MaxFaults
  /\ nFaults' = IF dev = "none" THEN nFaults ELSE nFaults + 1
  /\ LET i  == CurItem + 1
         it == [kind |-> "file", size |-> size, dev |-> dev, delta |-> delta, split |-> FALSE]
         a  == Announced(it)
         sz == IF dev = "splitSize" THEN <<F("size", i, 0, 4, 0 - 1, 0), F("size", i, 4, 4, 0 - 1, 1)>>
               ELSE <<F("size", i, 0, 8, a, 1)>>
         fs == IF dev = "emptyFrame" THEN Append(sz, F("empty", i, 0, 0, 0 - 1, 1)) ELSE sz
     IN /\ items' = Append(items, it)
        /\ Emit(fs,
                /\ spc' = IF size > 0 THEN "chunks" ELSE "marker"
                /\ sOff' = 0 /\ UNCHANGED <<sres, sStop>>,
                Fail(0))

PfChunk ==
  /\ Sending /\ spc = "chunks"
  /\ LET n  == Min(Chunk, Cur.size - sOff)
         h  == n \div 2
         fs == IF Cur.dev = "splitChunk" /\ sOff = 0
               THEN <<F("data", CurItem, 0, h, 0 - 1, 0), F("data", CurItem, h, n - h, 0 - 1, 1)>>
               ELSE <<F("data", CurItem, sOff, n, 0 - 1, 1)>>
     IN Emit(fs,
             /\ sOff' = sOff + n
             /\ spc' = IF sOff + n >= Cur.size THEN "marker" ELSE "chunks"
             /\ UNCHANGED <<sres, sStop>>,
             Fail(sOff))
  /\ UNCHANGED <<items, nFaults>>

SenderSkipsMarker ==
  \/ "SenderNoMarker" \in Bug
  \/ "SenderMarkerOnlyIfEmpty" \in Bug /\ Cur.size > 0

PfMarker ==
  /\ Sending /\ spc = "marker"
  /\ LET i  == CurItem
         fs == CASE Cur.dev = "noMarker" \/ SenderSkipsMarker -> <<>>
                 [] Cur.dev = "wrongMarkerVal" -> <<F("marker", i, 0, 4, MarkerVal + 1, 1)>>
                 [] Cur.dev = "wrongMarkerLen" -> <<F("marker", i, 0, 2, 0 - 1, 1)>>
                 [] Cur.dev = "splitMarker"    -> <<F("marker", i, 0, 2, 0 - 1, 0), F("marker", i, 2, 2, 0 - 1, 1)>>
                 [] OTHER -> <<F("marker", i, 0, 4, MarkerVal, 1)>>
     IN Emit(fs,
             /\ sres' = Append(sres, [ok |-> TRUE, n |-> sOff])
             /\ spc' = "idle" /\ sOff' = 0 /\ UNCHANGED sStop,
             Fail(sOff))
  /\ UNCHANGED <<items, nFaults>>

\* the network: the next write is cut
CutNext(how) ==
  /\ Sending /\ ~closed /\ pendingCut = "none" /\ nFaults < MaxFaults
  /\ spc # "idle" \/ CurItem < Len(plan)          \* there is a next write
  /\ pendingCut' = how /\ nFaults' = nFaults + 1
  /\ UNCHANGED <<items, spc, sOff, sres, sStop, wire, closed>>

SenderFinished == sStop \/ (spc = "idle" /\ CurItem = Len(plan))

CloseWire ==
  /\ phase = "send" /\ SenderFinished /\ pendingCut = "none"
  /\ closed' = TRUE
  /\ phase' = "recv"
  /\ UNCHANGED <<enc, plan, items, spc, sOff, sres, sStop, wire, pendingCut, nFaults, rcvVars>>

SenderStep ==
  /\ \/ \E n \in MsgLens, sp \in MsgSplits : SendMsg(n, sp)
     \/ \E s \in Sizes \cup LaterSizes, d \in Devs \cup {"none"}, dl \in MoreDeltas \cup FewerDeltas \cup {0} : PfOpen(s, d, dl)
     \/ PfChunk \/ PfMarker
     \/ \E h \in CutHows : CutNext(h)
  /\ UNCHANGED <<enc, plan, phase, rcvVars>>

-----------------------------------------------------------------------------
(* Receiver                                                                *)
Receiving == (Interleave \/ phase = "recv") /\ phase # "done" /\ ~rStop /\ Len(rres) < Len(plan)

RItem == Len(rres) + 1
HaveFrame == rpos < Len(wire)
NextF == wire[rpos + 1]
\* the read of the next frame fails: connection ended before / inside it
ReadFails == IF HaveFrame THEN NextF.cut # "none" ELSE closed
\* a read on a closed, drained connection returns (io.EOF) unless the design hangs
CanRead == HaveFrame \/ (closed /\ "HangOnClose" \notin Bug)

Alloc(f) == rAlloc' = MaxOf(rAlloc, f.wlen)

RFail ==
  /\ rres' = Append(rres, [ok |-> FALSE, n |-> rTotal, file |-> rFile, silent |-> rSilent])
  /\ rStop' = TRUE /\ rpc' = "idle"

FrameSeg(f) == Seg(f.item, f.what, f.off, f.plen)

\* ReceiveCompleteMessage: frames up to and including the first one with end = 1
RECURSIVE Pull(_, _)
Pull(pos, acc) ==
  IF pos >= Len(wire) THEN [pos |-> pos, acc |-> acc, st |-> IF closed THEN "eof" ELSE "block"]
  ELSE LET f == wire[pos + 1] IN
       IF f.cut # "none" THEN [pos |-> pos, acc |-> acc, st |-> "eof"]
       ELSE IF f.end = 1 THEN [pos |-> pos + 1, acc |-> AppendSeg(acc, FrameSeg(f)), st |-> "ok"]
       ELSE Pull(pos + 1, AppendSeg(acc, FrameSeg(f)))

RecvMsg ==
  /\ Receiving /\ rpc = "idle" /\ plan[RItem] = "msg"
  /\ LET r == Pull(rpos, <<>>) IN
     /\ r.st # "block"
     /\ r.st = "eof" => "HangOnClose" \notin Bug
     /\ rpos' = r.pos
     /\ rres' = Append(rres, [ok |-> r.st = "ok", n |-> 0, file |-> r.acc, silent |-> FALSE])
     /\ rStop' = (r.st # "ok")
  /\ UNCHANGED <<rpc, rAnn, rTotal, rFile, rSilent, rAlloc>>

GfSize ==
  /\ Receiving /\ rpc = "idle" /\ plan[RItem] = "file"
  /\ CanRead
  /\ rTotal' = 0 /\ rFile' = <<>> /\ rSilent' = FALSE
  /\ IF ReadFails
     THEN /\ rres' = Append(rres, [ok |-> FALSE, n |-> 0, file |-> <<>>, silent |-> FALSE])
          /\ rStop' = TRUE /\ UNCHANGED <<rpc, rpos, rAnn, rAlloc>>
     ELSE LET f == NextF IN
          /\ rpos' = rpos + 1
          /\ IF f.plen # 8 \/ (f.val < 0 /\ "NegSizeAccepted" \notin Bug)
             THEN /\ rres' = Append(rres, [ok |-> FALSE, n |-> 0, file |-> <<>>, silent |-> FALSE])
                  /\ rStop' = TRUE /\ Alloc(f) /\ UNCHANGED <<rpc, rAnn>>
             ELSE /\ rAnn' = f.val
                  /\ rpc' = IF f.val > 0 THEN "chunks" ELSE "marker"
                  /\ rAlloc' = MaxOf(rAlloc, IF "PreallocAnnounced" \in Bug THEN MaxOf(f.val, f.wlen) ELSE f.wlen)
                  /\ UNCHANGED <<rres, rStop>>

Succeed(total, file, silent) ==
  /\ rres' = Append(rres, [ok |-> TRUE, n |-> total, file |-> file, silent |-> silent])
  /\ rpc' = "idle" /\ UNCHANGED rStop

GfChunk ==
  /\ Receiving /\ rpc = "chunks"
  /\ CanRead
  /\ IF ReadFails
     THEN IF "EOFIsEndOfFile" \in Bug /\ ~HaveFrame
          THEN Succeed(rTotal, rFile, rSilent) /\ UNCHANGED <<rpos, rAnn, rTotal, rFile, rSilent, rAlloc>>
          ELSE RFail /\ UNCHANGED <<rpos, rAnn, rTotal, rFile, rSilent, rAlloc>>
     ELSE LET f  == NextF
              t  == rTotal + f.plen
              fl == AppendSeg(rFile, FrameSeg(f))
              sl == rSilent \/ f.end = 0 \/ f.plen = 0
          IN
          /\ rpos' = rpos + 1 /\ Alloc(f)
          /\ rTotal' = t /\ rFile' = fl /\ rSilent' = sl
          /\ UNCHANGED rAnn
          /\ IF t > rAnn /\ "OvershootAccepted" \notin Bug
             THEN /\ rres' = Append(rres, [ok |-> FALSE, n |-> t, file |-> fl, silent |-> sl])
                  /\ rStop' = TRUE /\ rpc' = "idle"
             ELSE IF t >= rAnn /\ "MarkerSkipped" \in Bug
             THEN Succeed(t, fl, sl)
             ELSE /\ rpc' = IF t >= rAnn THEN "marker" ELSE "chunks"
                  /\ UNCHANGED <<rres, rStop>>

GfMarker ==
  /\ Receiving /\ rpc = "marker"
  /\ CanRead
  /\ UNCHANGED <<rAnn, rTotal, rFile, rSilent>>
  /\ IF ReadFails
     THEN RFail /\ UNCHANGED <<rpos, rAlloc>>
     ELSE LET f == NextF IN
          /\ rpos' = rpos + 1 /\ Alloc(f)
          /\ IF f.plen # 4 \/ (f.val # MarkerVal /\ "MarkerUnchecked" \notin Bug)
             THEN RFail
             ELSE Succeed(rTotal, rFile, rSilent)

ReceiverStep ==
  /\ RecvMsg \/ GfSize \/ GfChunk \/ GfMarker
  /\ UNCHANGED <<enc, plan, phase, sndVars>>

ReceiverDone ==
  /\ phase = "recv"
  /\ rStop \/ Len(rres) = Len(plan)
  /\ phase' = "done"
  /\ UNCHANGED <<enc, plan, sndVars, rcvVars>>

-----------------------------------------------------------------------------
Init ==
  /\ enc \in Encs /\ plan \in Plans
  /\ phase = "send"
  /\ items = <<>> /\ spc = "idle" /\ sOff = 0 /\ sres = <<>> /\ sStop = FALSE
  /\ wire = <<>> /\ closed = FALSE /\ pendingCut = "none" /\ nFaults = 0
  /\ rpc = "idle" /\ rpos = 0 /\ rAnn = 0 /\ rTotal = 0 /\ rFile = <<>> /\ rSilent = FALSE
  /\ rres = <<>> /\ rStop = FALSE /\ rAlloc = 0

Next == SenderStep \/ CloseWire \/ ReceiverStep \/ ReceiverDone

Spec == Init /\ [][Next]_vars
FairSpec == Spec /\ WF_vars(Next)

-----------------------------------------------------------------------------
(* Properties                                                              *)
TypeOK ==
  /\ enc \in BOOLEAN /\ plan \in Plans
  /\ phase \in {"send", "recv", "done"}
  /\ spc \in {"idle", "chunks", "marker"} /\ rpc \in {"idle", "chunks", "marker"}
  /\ Len(items) <= Len(plan) /\ Len(sres) <= Len(items) /\ Len(rres) <= Len(plan)
  /\ rpos \in 0..Len(wire)
  /\ nFaults \in 0..MaxFaults
  /\ pendingCut \in {"none", "boundary", "hdr", "body"}
  /\ \A k \in 1..Len(wire) : wire[k].wlen <= Max /\ wire[k].end \in {0, 1}

\* item i was performed by an honest sender: no deviation, and every one of its
\* frames reached the wire whole
SentWhole(i) ==
  /\ i <= Len(sres) /\ sres[i].ok
  /\ \A k \in 1..Len(wire) : wire[k].item = i => wire[k].cut = "none"
Honest(i) == i <= Len(items) /\ items[i].dev = "none"
CleanUpTo(i) == \A j \in 1..i : Honest(j) /\ SentWhole(j)

ItemContent(i) ==
  IF items[i].kind = "file" THEN Whole(i, "data", items[i].size) ELSE Whole(i, "msg", items[i].size)

(* An honest transfer recreates the file exactly and returns the byte count
   on both ends, for every size class and both modes; and it leaves the stream
   positioned so that the next message / file is received correctly: EVERY item
   of a clean prefix is received exactly.                                      *)
HonestRoundTrip ==
  \A i \in 1..Len(rres) :
    CleanUpTo(i) =>
      /\ rres[i].ok
      /\ rres[i].file = ItemContent(i)
      /\ items[i].kind = "file" => rres[i].n = items[i].size /\ sres[i].n = items[i].size

(* Success of GetFile means: the peer announced exactly what it sent, every
   byte of it is in the file and nothing else (no silently truncated or
   over-long file), the byte count says so, and the marker was seen.          *)
SuccessIsExact ==
  \A i \in 1..Len(rres) :
    (rres[i].ok /\ plan[i] = "file") =>
      /\ i <= Len(items)
      /\ rres[i].file = Whole(i, "data", items[i].size)
      /\ rres[i].n = items[i].size
      /\ Announced(items[i]) = items[i].size
      /\ \E k \in 1..rpos : wire[k].item = i /\ wire[k].what = "marker" /\ wire[k].val = MarkerVal
                            /\ wire[k].cut = "none"

(* A message handed to the application is one the peer sent, whole.           *)
MessageIsExact ==
  \A i \in 1..Len(rres) :
    (rres[i].ok /\ plan[i] = "msg") => i <= Len(items) /\ rres[i].file = Whole(i, "msg", items[i].size)

(* A deviating peer yields an error.  (splitChunk / emptyFrame among the chunks
   are the cases the documentation is silent about: either outcome; emptyFrame
   in front of the marker of an empty file, and every other deviation: error.) *)
StrictDevs == {"announceMore", "announceFewer", "negSize", "wrongMarkerVal", "wrongMarkerLen",
               "noMarker", "splitSize", "splitMarker"}
DeviationYieldsError ==
  \A i \in 1..Len(rres) :
    (i <= Len(items) /\ items[i].dev \in StrictDevs) => ~rres[i].ok

(* A transfer whose bytes did not all arrive is not reported as success,
   on either end.                                                             *)
CutYieldsError ==
  /\ \A i \in 1..Len(rres) : rres[i].ok => \A k \in 1..Len(wire) : wire[k].item = i => wire[k].cut = "none"
  /\ \A i \in 1..Len(sres) : sres[i].ok => \A k \in 1..Len(wire) : wire[k].item = i => wire[k].cut = "none"

(* Once the connection is closed a pending call returns (with an error).      *)
NoHangAfterClose ==
  (closed /\ ~rStop /\ Len(rres) < Len(plan) /\ rpos = Len(wire) /\ (Interleave \/ phase = "recv"))
     => ENABLED ReceiverStep
Terminates == <>(phase = "done")

(* No allocation proportional to an announced size: the largest buffer is one
   frame, and a frame is at most Max on the wire.                             *)
BoundedAlloc == rAlloc <= Max

(* What an honest sender puts on the wire for a file (evaluated by the
   replayer on the REAL PutFile output as well): the size message, then chunks
   of at most Chunk bytes, each one complete frame, then the marker.          *)
FramesOf(i) == SelectSeq(wire, LAMBDA f : f.item = i)
HonestWire ==
  \A i \in 1..Len(sres) :
    (sres[i].ok /\ Honest(i) /\ items[i].kind = "file") =>
      LET fs == FramesOf(i) IN
        /\ Len(fs) >= 2
        /\ fs[1].what = "size" /\ fs[1].plen = 8 /\ fs[1].val = items[i].size /\ fs[1].end = 1
        /\ fs[Len(fs)].what = "marker" /\ fs[Len(fs)].plen = 4 /\ fs[Len(fs)].val = MarkerVal
        /\ \A k \in 2..(Len(fs) - 1) :
             fs[k].what = "data" /\ fs[k].end = 1 /\ fs[k].plen >= 1 /\ fs[k].plen <= Chunk
        /\ sres[i].n = items[i].size
=============================================================================
