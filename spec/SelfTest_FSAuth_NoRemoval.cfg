\* non-vacuity: with Bug = {"NoRemoval"} TLC must report RemovedWhenComplete violated
SPECIFICATION Spec
CONSTANTS
  MaxLen = 3
  ConnFams = {4, 6}
  Faults = {"none", "sendFail", "verdictLost"}
  Roles = {"client", "server"}
  Bug = {"NoRemoval"}
INVARIANTS RemovedWhenComplete
CHECK_DEADLOCK FALSE
