\* G07 generator, accept loop: 2 connections, 4 environment steps + cancellation
SPECIFICATION GenSpecS
CONSTANTS
  Hows = {"new"}
  Routes = {"direct"}
  Secs = {"none"}
  EnvsNew = {}
  EnvsCA = {}
  Ctxs = {}
  MaxCalls = 0
  MaxSock = 0
  MaxConn = 2
  Kinds = {"ok", "err", "panic", "block", "keepopen", "unknown"}
  MaxEnvS = 4
  Bug = {"TempAcceptFatal"}
INVARIANT EmitS
CHECK_DEADLOCK FALSE
