--------------------------- MODULE ConnLifecycle ---------------------------
(***************************************************************************)
(* Life cycle of ONE cedar connection end (one stream.Stream object) across *)
(* the layers: framing/crypto (stream), security handshake (security) and   *)
(* command dispatch (server).  It composes the per-layer specifications at  *)
(* the level of their observable events:                                    *)
(*     KeyInstall  - SetSymmetricKey / imported crypto state                *)
(*     Frame(dir, prot)  - a frame left or was accepted, protected or not   *)
(*     AuthRan(m, ok)    - an authentication exchange finished              *)
(*     HandshakeDone(d)  - ClientHandshake / ServerHandshake returned nil   *)
(*     Dispatch(x)       - the server is about to invoke a handler          *)
(* and states the cross-layer rules the listed properties imply:            *)
(*   L1 (C03) a handshake that ends with the stream protected installed the *)
(*      key BEFORE the post-authentication ad crossed the wire;             *)
(*   L2 (C03) once a handshake has returned to an endpoint whose policy     *)
(*      marks encryption or integrity REQUIRED, every later frame of that   *)
(*      stream is protected;                                                *)
(*   L3 (C05) a handler on the authenticated path runs only after a         *)
(*      server-side handshake succeeded on that stream, and a follow-on     *)
(*      dispatch only after an earlier dispatch;                            *)
(*   L4 (C03/C06) a handshake that reports encryption has a key installed.  *)
(* Per-event predicates (HandshakeOK, DispatchOK) come from HandshakeOutcome.*)
(***************************************************************************)
EXTENDS HandshakeOutcome

VARIABLES
  keyed,        \* a key has been installed on this stream
  hsDone,       \* number of handshakes that returned success on this stream
  srvHs,        \* a SERVER-side handshake succeeded on this stream
  mustProtect,  \* a handshake returned to an endpoint that REQUIRES enc/integrity
  lastSentProt, \* was the last frame this end sent protected?  "yes" / "no" ("none" before any)
  lastRecvProt, \* was the last frame this end accepted protected?
  dispatched,   \* number of handler dispatches on this stream
  ran           \* method whose exchange last completed successfully ("" if none)

lvars == <<keyed, hsDone, srvHs, mustProtect, lastSentProt, lastRecvProt, dispatched, ran>>

YN(b) == IF b THEN "yes" ELSE "no"

LInit ==
  /\ keyed = FALSE /\ hsDone = 0 /\ srvHs = FALSE /\ mustProtect = FALSE
  /\ lastSentProt = "none" /\ lastRecvProt = "none" /\ dispatched = 0 /\ ran = ""

\* Every action is split into its RULE (a predicate over the current state and
\* the event: what the properties demand) and its UPDATE (how the life-cycle
\* state moves).  Trace validation requires rule /\ update at every event; the
\* composed model CedarConn.tla performs the update and records the rule's
\* verdict in a monitor variable that its invariants inspect.

KeyInstallUpd ==
  /\ keyed' = TRUE
  /\ UNCHANGED <<hsDone, srvHs, mustProtect, lastSentProt, lastRecvProt, dispatched, ran>>
LKeyInstall == KeyInstallUpd

\* a frame was sent (dir = "out") or accepted (dir = "in"); prot = keyed /\ encrypting
FrameRule(dir, prot) ==
  /\ mustProtect => prot                                      \* L2
  /\ prot => keyed
FrameUpd(dir, prot) ==
  /\ IF dir = "out" THEN lastSentProt' = YN(prot) /\ UNCHANGED lastRecvProt
                    ELSE lastRecvProt' = YN(prot) /\ UNCHANGED lastSentProt
  /\ UNCHANGED <<keyed, hsDone, srvHs, mustProtect, dispatched, ran>>
LFrame(dir, prot) == FrameRule(dir, prot) /\ FrameUpd(dir, prot)

LAuthRan(m, ok) ==
  /\ ran' = IF ok /\ m # "NONE" THEN m ELSE ran
  /\ UNCHANGED <<keyed, hsDone, srvHs, mustProtect, lastSentProt, lastRecvProt, dispatched>>

\* d = HandshakeDone record
HandshakeRule(d) ==
  /\ HandshakeOK(d, ran)                                      \* per-event rules (C03)
  /\ d.streamEnc => keyed                                     \* L4
  \* L1: the last handshake message (post-auth ad / resumption reply) travelled
  \* protected iff the stream ended up protected.  The server SENDS it, the client
  \* RECEIVES it; a resumption without a requested reply has no such message.
  /\ IF d.full
     THEN IF d.client THEN (lastRecvProt # "none" => lastRecvProt = YN(d.streamEnc))
                      ELSE (lastSentProt # "none" => lastSentProt = YN(d.streamEnc))
     ELSE TRUE
HandshakeUpd(d) ==
  /\ hsDone' = hsDone + 1
  /\ srvHs' = (srvHs \/ ~d.client)
  /\ mustProtect' = (mustProtect \/ d.polEnc = "REQUIRED" \/ d.polInt = "REQUIRED")
  /\ ran' = ""
  /\ UNCHANGED <<keyed, lastSentProt, lastRecvProt, dispatched>>
LHandshakeDone(d) == HandshakeRule(d) /\ HandshakeUpd(d)

\* x = Dispatch record
DispatchRule(x) ==
  /\ DispatchOK(x)                                            \* per-event rules (C05)
  /\ (x.path = "auth" => srvHs)                               \* L3
  /\ (x.path = "raw" => hsDone = 0)                           \* raw handlers never ride a handshake
  /\ (x.followOn => dispatched > 0)
DispatchUpd(x) ==
  /\ dispatched' = dispatched + 1
  /\ UNCHANGED <<keyed, hsDone, srvHs, mustProtect, lastSentProt, lastRecvProt, ran>>
LDispatch(x) == DispatchRule(x) /\ DispatchUpd(x)
=============================================================================
