------------------------ MODULE Gen_InheritedSession ------------------------
(***************************************************************************)
(* Behaviour generator for InheritedSession (G05): the same actions plus a *)
(* history variable recording, for every step, the arguments and the       *)
(* projection of the specification's post-state the replayer compares with *)
(* the real code: the two TEXTS (token sequences the replayer renders to   *)
(* concrete strings), per item what the intent entails (class, the entry   *)
(* it stands for, the policy its session info denotes and its re-export),  *)
(* the parsed sessions, after every import the child's cache and command   *)
(* map, and the outcome of every connection.                               *)
(***************************************************************************)
EXTENDS InheritedSession, Json

VARIABLES hist
gvars == <<vars, hist>>

H(r) == hist' = Append(hist, r)

SetToSeq(S) == LET RECURSIVE F(_) F(T) == IF T = {} THEN << >> ELSE LET x == CHOOSE y \in T : TRUE IN << x >> \o F(T \ {x}) IN F(S)

Bracketed(it) == it.form \notin {"noinfo", "nohash", "unbracketed"}

ItemView(i) ==
  LET it == sc.items[i] IN
  [dims |-> it, text |-> ItemText(it), claim |-> ClaimText(it),
   sid |-> IdText(it), info |-> InfoText(it), key |-> KeyText(it),
   class |-> Class(it), yielded |-> Yielded(it), sole |-> Sole(i),
   expected |-> Expected(it), cmds |-> SetToSeq(IntentCmds(it)),
   attrs |-> AttrList(InfoText(it)),
   exported |-> ExportClaim(IdText(it), InfoText(it), KeyText(it)),
   policy |-> IF Bracketed(it) THEN PolicyOf(InfoText(it)) ELSE PolicyOf(<<"[", "]">>),
   reexport |-> IF Bracketed(it) THEN ExportInfo(PolicyOf(InfoText(it))) ELSE << >>]

ResExpect(i) ==
  LET it == sc.items[i] IN
  IF rel = "diff" THEN "fails"
  ELSE IF ~Sole(i) \/ Class(it) = "either" THEN "either"
  ELSE IF Class(it) = "wf" /\ it.exp # "past" THEN "works" ELSE "fails"

GParse ==
  /\ Parse
  /\ H([a |-> "Parse", pinh |-> pinh', parsed |-> parsed', envCleared |-> privEnv' = "unset"])
GImport ==
  /\ Import
  /\ H([a |-> "Import", k |-> k, sid |-> parsed[k].sid, kind |-> parsed[k].kind,
        entry |-> CreateEntry(parsed[k], "child"),
        cache |-> SetToSeq(cache'), cmap |-> SetToSeq(cmap')])
GResume ==
  /\ Resume
  /\ H([a |-> "Resume", res |-> results'[Len(results')], expect |-> ResExpect(k)])

GenInit ==
  /\ Init
  /\ hist = << [a |-> "Init", addr |-> sc.addr, ws |-> sc.ws, rel |-> rel, dm |-> dm,
                inherit |-> inherit, priv |-> priv,
                paddr |-> AddrText(sc.addr), naddr |-> NormAddrIntent(sc.addr),
                items |-> [i \in 1..Len(sc.items) |-> ItemView(i)]] >>
GenNext == GParse \/ GImport \/ GResume
GenSpec == GenInit /\ [][GenNext]_gvars

Done == phase = "done"
EmitTrace == Done => PrintT(ToJson([trace |-> hist]))
=============================================================================
