\* non-vacuity: with the known wrong design NoNotFoundReply TLC must report ToldWhenAsked violated
SPECIFICATION Spec06
CONSTANTS
  Tags = {"none"}
  Addrs = {"s1"}
  Cmds = {"c1"}
  ValidCmds = {"c1"}
  MaxSid = 2
  MaxTime = 2
  Duration = 1
  Lease = 1
  ImportOn = FALSE
  MaxRec = 1
  Bug = {"NoNotFoundReply"}
CONSTRAINT LegitOnly
INVARIANTS ToldWhenAsked
CHECK_DEADLOCK FALSE
