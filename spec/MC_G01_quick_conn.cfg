\* G01 quick (registration life cycle): 3 connections, 1 request, every answer / target / message kind (210 k states)
SPECIFICATION Spec
CONSTANTS
  NB = 1
  MaxConn = 3
  MaxReq = 1
  MaxTick = 0
  MaxMsg = 1
  RegAnswers = {"fresh", "same", "nocookie", "refuse", "hangup", "garbage"}
  Targets = {"accept", "refuse", "noaddr"}
  Msgs = {"alive", "unknown", "malformed"}
  Bug = {}
INVARIANTS TypeOK PresentsLastCookie ContactIsGrant HelloCarriesOwnId AtMostOneReply ReplyMatchesOutcome EveryRequestAnswered ReplyOnOwnOrLaterConn WritesSerialised NoWedge StoppedClean OneConnPerBroker

PROPERTY KeepsRegistration
CHECK_DEADLOCK FALSE
