SPECIFICATION GenSpec
CONSTANTS
  Tags = {"none"}
  Addrs = {"s1"}
  Cmds = {"c1"}
  ValidCmds = {"c1"}
  MaxSid = 2
  MaxTime = 3
  Duration = 2
  Lease = 1
  ImportOn = TRUE
  MaxRec = 2
  Bug = {}
  GenMode = "C06"
  GenDepth = 0
  LifeDepth = 4
  Canon = FALSE
VIEW GenView06
INVARIANT EmitTrace
CHECK_DEADLOCK FALSE
