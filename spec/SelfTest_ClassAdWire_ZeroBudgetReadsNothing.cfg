\* non-vacuity: with the known wrong design "ZeroBudgetReadsNothing" TLC must report MaxSizeAllOrNothing violated
SPECIFICATION Spec
CONSTANTS
  MaxAttrs = 2
  AttrClasses = {"pubA", "pubB", "stime", "prefix", "claimid"}
  Spellings = {"mixed"}
  OptWords = {0, 1, 2, 4, 32, 34, 36}
  Whitelists = {"none", "priv", "pub"}
  Versions = {"unset", "below", "atleast"}
  StreamStates = {"nokey", "enc", "keyedClear"}
  TypeModes = {"both"}
  CutPlans = {"one", "split"}
  Bug = {"ZeroBudgetReadsNothing"}
INVARIANTS MaxSizeAllOrNothing
CHECK_DEADLOCK FALSE
