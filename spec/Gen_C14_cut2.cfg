\* C14 thorough behaviours: sequences of <= 2 values, every pair of cuts
SPECIFICATION Spec
CONSTANTS
  ValueNames = {"char_A", "int_12345", "int_m1", "wide_min64", "dbl_m0375", "str_ab", "str_a0b", "str_empty", "str_euro"}
  MaxVals = 2
  MaxCuts = 2
  Encs = {TRUE, FALSE}
  Bug = {}
INVARIANT EmitTrace
CHECK_DEADLOCK FALSE
