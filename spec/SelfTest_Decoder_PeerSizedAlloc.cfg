\* non-vacuity: with the known wrong design "PeerSizedAlloc" TLC must report Bounded violated
SPECIFICATION Spec
CONSTANTS
  Bug = {"PeerSizedAlloc"}
  Families = {"typed","hs"}
  Modes = {"plain","enc"}
  ExprMax = 1
  TokLen = 3
INVARIANTS TypeOK NoPanic Bounded CapHonoured CapFails
CHECK_DEADLOCK FALSE
