\* G06: the hint decision table
SPECIFICATION Spec
CONSTANTS
  Mode = "hint"
  Origins = {"listen"}
  MaxD = 1
  MaxAcc = 1
  MaxClose = 1
  Scripts <- QuickScripts
  Shapes <- SmallShapes
  ErrClasses <- AllErrClasses
  Bug = {}
INVARIANTS HintOnlyForResetOnSharedPort NeverHides
CHECK_DEADLOCK FALSE
