\* C20 generator (standard mode, 2 broker(s), <= 1 rogue connections, <= 0 broker messages, <= 3 environment steps)
SPECIFICATION GenSpec
CONSTANTS
  NB = 2
  MaxRogue = 1
  RogueKinds = {"wrongId", "otherId", "badGreeting", "close"}
  MaxMsgs = 0
  Mode = "standard"
  MaxEnv = 3
  Bug = {}
INVARIANT EmitTrace
CHECK_DEADLOCK FALSE
