\* G01 generator, heartbeat: one ALIVE is waited for (>= 30 s of real time), before / after a reconnect and a request
SPECIFICATION GenSpec
CONSTANTS
  NB = 1
  MaxConn = 2
  MaxReq = 1
  MaxTick = 1
  MaxMsg = 0
  RegAnswers = {"fresh"}
  Targets = {"accept"}
  Msgs = {}
  MaxEnv = 4
  Bug = {}
INVARIANT EmitTrace
CHECK_DEADLOCK FALSE
