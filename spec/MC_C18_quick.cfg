\* C18 quick: every component sequence of length <= 3, both families, every fault
SPECIFICATION Spec
CONSTANTS
  MaxLen = 3
  ConnFams = {4, 6}
  Faults = {"none", "sendFail", "verdictLost"}
  Roles = {"client", "server"}
  Bug = {}
INVARIANTS TypeOK CreatedOnlyUnderBase AtMostOneCreated RemovedWhenComplete CleanFailure ResultMatchesEffect ServerAcceptsOnlyOwnerOnlyDir
CHECK_DEADLOCK FALSE
