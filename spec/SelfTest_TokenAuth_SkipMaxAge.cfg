\* non-vacuity self-test: with the known-wrong design "SkipMaxAge" TLC must report an invariant violated
SPECIFICATION Spec
CONSTANTS
  Bug = {"SkipMaxAge"}
  Kinds <- AllKinds
  VKinds <- AllVKinds
INVARIANTS TypeOK ServerOkImpliesClientKnewSig ServerOkImpliesTokenCurrent ServerIdentityIsSubject
           ClientOkImpliesServerKnewSig VerifyAcceptsExactly HonestRunSucceeds
CHECK_DEADLOCK FALSE
