\* G03 thorough generator: sessions of 2 connections over a log of <= 3 changes, <= 7 events emitted
SPECIFICATION GenSpec
CONSTANTS
  Mode = "stream"
  AdTypes = {"", "plain", "quoted"}
  Constraints = {"", "expr", "exprQuoted"}
  ByteVals = {"nil", "empty", "b1", "bnul"}
  Kinds <- KindsAll
  Damages = {"dropKind", "kindNotInt", "badKey", "badCursor", "dropType", "typeNotString", "keyNotString", "cursorNotString", "constraintNotString"}
  Keys = {1, 2}
  MaxLog = 3
  MaxConns = 2
  MaxCuts = 2
  MaxEmit = 7
  Bug = {}
INVARIANT EmitTrace
CHECK_DEADLOCK FALSE
