\* non-vacuity: with the known wrong design InheritedNeverExpires TLC must report DeadStaysDead violated
SPECIFICATION Spec06
CONSTANTS
  Tags = {"none"}
  Addrs = {"s1"}
  Cmds = {"c1"}
  ValidCmds = {"c1"}
  MaxSid = 2
  MaxTime = 3
  Duration = 2
  Lease = 1
  ImportOn = TRUE
  MaxRec = 1
  Bug = {"InheritedNeverExpires"}
CONSTRAINT LegitOnly
INVARIANTS DeadStaysDead
CHECK_DEADLOCK FALSE
