\* C19 thorough: script lengths 1..12, four context kinds
SPECIFICATION LiveSpec
CONSTANTS
  Ns = {1, 2, 3, 4, 5, 6, 7, 8, 9, 10, 11, 12}
  Kinds = {"cancel", "deadline", "derived", "background"}
  Bug = {}
INVARIANTS TypeOK CancelledReturnClosesConn ErrorIsContexts SuccessMeansAllDone BackgroundAddsNoFailure LiveCtxKeepsConnOpen
PROPERTIES CancelledLeadsToReturned EventuallyClosed NoStallReturns BackgroundReturns
CHECK_DEADLOCK FALSE
