\* C19 thorough: script lengths 1..8
SPECIFICATION LiveSpec
CONSTANTS
  Ns = {1, 2, 3, 4, 5, 6, 7, 8}
  Kinds = {"cancel", "deadline", "background"}
  Bug = {}
INVARIANTS TypeOK CancelledReturnClosesConn ErrorIsContexts SuccessMeansAllDone BackgroundAddsNoFailure LiveCtxKeepsConnOpen
PROPERTIES CancelledLeadsToReturned EventuallyClosed NoStallReturns BackgroundReturns
CHECK_DEADLOCK FALSE
