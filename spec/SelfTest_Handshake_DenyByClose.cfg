\* non-vacuity self-test: with Bug = {"DenyByClose"} TLC must report invariant DenialIsExplicit violated
SPECIFICATION Spec
CONSTANTS
  CAuth = {"REQUIRED", "PREFERRED", "OPTIONAL", "NEVER"}
  SAuth = {"REQUIRED", "PREFERRED", "OPTIONAL", "NEVER"}
  CEnc = {"OPTIONAL"}
  SEnc = {"OPTIONAL"}
  CMethods <- Lists8
  SMethods <- Lists8
  CCiphers <- OnlyAES
  SCiphers <- OnlyAES
  CmdModes = {TRUE}
  Shapes = {"full"}
  SameLists = FALSE
  RelayBudget = 0
  AllowAbort = FALSE
  Bug = {"DenyByClose"}
INVARIANTS DenialIsExplicit
CHECK_DEADLOCK FALSE
