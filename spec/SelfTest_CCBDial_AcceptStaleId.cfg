\* non-vacuity: with Bug = {"AcceptStaleId"} TLC must report ReturnedPresentedFreshId violated
SPECIFICATION Spec
CONSTANTS
  NB = 1
  MaxRogue = 1
  RogueKinds = {"wrongId", "emptyId", "staleId", "otherId", "garbage", "close"}
  MaxMsgs = 2
  Mode = "standard"
  Bug = {"AcceptStaleId"}
INVARIANTS ReturnedPresentedFreshId
CHECK_DEADLOCK FALSE
