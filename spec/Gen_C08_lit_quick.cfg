\* C08 generator: prints every text up to length 4 with its predicted class / branch
SPECIFICATION Spec
CONSTANTS
  MaxLen = 4
  Bug = {}
INVARIANTS EmitTrace
CHECK_DEADLOCK FALSE
