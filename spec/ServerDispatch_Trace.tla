------------------------ MODULE ServerDispatch_Trace ------------------------
(***************************************************************************)
(* C05, code -> spec on the repository's OWN tests.  With the build tag    *)
(* `verif` server.ServeConn emits one "Dispatch" event immediately before  *)
(* it invokes a registered handler (the actions Run / RunRaw of            *)
(* Server.tla), carrying the command's CURRENT policy, what the session    *)
(* reports, the stream's real encryption state and the current             *)
(* authorizer's answer.  The connections of those tests are not driven by  *)
(* the harness, so there is no Connect / FollowOn structure to replay;     *)
(* each event is judged on its own against the guard of Run / RunRaw:      *)
(* Server!Adequate with the event's own policy record.  (The event has no  *)
(* independent ground truth for "really authenticated": the reported flag  *)
(* is used for that conjunct; the harness-driven traces of Server_Trace    *)
(* cover it.)                                                              *)
(*                                                                         *)
(* Input: ndjson IOEnv.TRACE_FILE, one event per line, all fields present: *)
(*   path, registered, raw, reqAuth, reqEnc, reqInt, auth, streamEnc,      *)
(*   authorizer, authorizedNow, cmd, followOn, resumed.                    *)
(***************************************************************************)
EXTENDS Integers, Sequences, TLC, Json, IOUtils

Events == ndJsonDeserialize(IOEnv.TRACE_FILE)
N == Len(Events)

VARIABLES i, rejected
dvars == <<i, rejected>>

Lacks(ev) ==
  IF ev.path = "raw"
  THEN IF ev.registered /\ ev.raw THEN "nothing" ELSE "registration"
  ELSE IF ~ev.registered \/ ev.raw THEN "registration"
  ELSE IF ev.reqAuth = "REQUIRED" /\ ~ev.auth THEN "auth"
  ELSE IF (ev.reqEnc = "REQUIRED" \/ ev.reqInt = "REQUIRED") /\ ~ev.streamEnc THEN "enc"
  ELSE IF ev.authorizer /\ ~ev.authorizedNow THEN "authz"
  ELSE "nothing"

DInit == i = 1 /\ rejected = << >>
DNext ==
  /\ i <= N
  /\ i' = i + 1
  /\ rejected' = IF Lacks(Events[i]) = "nothing" THEN rejected
                 ELSE Append(rejected, [idx |-> i, lacks |-> Lacks(Events[i])])
DSpec == DInit /\ [][DNext]_dvars

EmitVerdict == (i > N) => PrintT(ToJson([trace |-> [n |-> N, rejected |-> rejected]]))
=============================================================================
