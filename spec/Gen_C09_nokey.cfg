\* C09 generator, part nokey: prints every row of the decision table of MC_C09.cfg for this stream state
SPECIFICATION GenSpec
CONSTANTS
  MaxAttrs = 1
  AttrClasses = {"pubA", "pubB", "prefix", "capability", "childclaimids", "claimid", "claimidlist", "claimids", "transferkey"}
  Spellings = {"lower", "upper", "mixed"}
  OptWords = {0,1,2,3,4,5,6,7,8,9,10,11,12,13,14,15,16,17,18,19,20,21,22,23,24,25,26,27,28,29,30,31,32,33,34,35,36,37,38,39,40,41,42,43,44,45,46,47,48,49,50,51,52,53,54,55,56,57,58,59,60,61,62,63}
  Whitelists = {"none", "priv", "pub"}
  Versions = {"unset", "below", "atleast"}
  StreamStates = {"nokey"}
  TypeModes = {"both"}
  CutPlans = {"one"}
  Bug = {}
INVARIANTS EmitTrace
CHECK_DEADLOCK FALSE
