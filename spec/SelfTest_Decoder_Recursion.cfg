\* non-vacuity: with the known wrong design "Recursion" TLC must report Bounded violated
SPECIFICATION Spec
CONSTANTS
  Bug = {"Recursion"}
  Families = {"frame"}
  Modes = {"plain","enc"}
  ExprMax = 1
  TokLen = 3
INVARIANTS TypeOK NoPanic Bounded CapHonoured CapFails
CHECK_DEADLOCK FALSE
