\* G06 quick: the endpoint listener, 2 daemon connections x the 5 representative scripts, 2 Accept calls, 2 Close calls, both origins
SPECIFICATION Spec
CONSTANTS
  Mode = "listener"
  Origins = {"listen", "adopt"}
  MaxD = 2
  MaxAcc = 2
  MaxClose = 2
  Scripts <- MixScripts
  Shapes <- NoShapes
  ErrClasses = {}
  Bug = {}
INVARIANTS ListenerTypeOK ExactlyOnce OnlyWellFormed NeverKills AfterCloseErr ClosedClean NoLeak SocketFile
CHECK_DEADLOCK FALSE
