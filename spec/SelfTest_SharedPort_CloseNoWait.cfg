\* non-vacuity: with Bug = {"CloseNoWait"} TLC must report ClosedClean violated
SPECIFICATION Spec
CONSTANTS
  Mode = "listener"
  Origins = {"listen", "adopt"}
  MaxD = 2
  MaxAcc = 2
  MaxClose = 2
  Scripts <- MixScriptsTwo
  Shapes <- NoShapes
  ErrClasses = {}
  Bug = {"CloseNoWait"}
INVARIANTS ClosedClean
CHECK_DEADLOCK FALSE
