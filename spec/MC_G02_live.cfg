\* G02 quick: single transfers, sender and receiver interleaved, with the liveness property
SPECIFICATION FairSpec
CONSTANTS
  Chunk = 65536
  Max = 1048576
  Tag = 16
  IVLen = 16
  MarkerVal = 666
  Encs = {TRUE, FALSE}
  Plans <- PlansOne
  Sizes = {0, 1, 65535, 65536, 65537, 131072, 196609}
  LaterSizes = {0}
  MsgLens = {10}
  MsgSplits = {FALSE}
  Devs = {"announceMore", "announceFewer", "negSize", "wrongMarkerVal", "wrongMarkerLen", "noMarker", "splitSize", "splitChunk", "splitMarker", "emptyFrame"}
  MoreDeltas = {1, 65536, 1073741824}
  FewerDeltas = {1, 65536}
  CutHows = {"boundary", "hdr", "body"}
  MaxFaults = 1
  Interleave = TRUE
  Bug = {}
INVARIANTS TypeOK HonestRoundTrip SuccessIsExact MessageIsExact DeviationYieldsError CutYieldsError NoHangAfterClose BoundedAlloc HonestWire
PROPERTY Terminates
CHECK_DEADLOCK FALSE
