\* non-vacuity: with Bug = {"NoWriteLock"} TLC must report WritesSerialised violated
SPECIFICATION Spec
CONSTANTS
  NB = 1
  MaxConn = 2
  MaxReq = 2
  MaxTick = 1
  MaxMsg = 1
  RegAnswers = {"fresh", "same", "refuse", "hangup"}
  Targets = {"accept", "refuse"}
  Msgs = {"malformed"}
  Bug = {"NoWriteLock"}
INVARIANTS WritesSerialised
CHECK_DEADLOCK FALSE
