\* C13 quick: every scenario of every family, invariants of the defensive decoder
SPECIFICATION Spec
CONSTANTS
  Bug = {}
  Families = {"frame","pass","typed","ad","hs","blob","text","watch"}
  Modes = {"plain","enc"}
  ExprMax = 1
  TokLen = 3
INVARIANTS TypeOK NoPanic Bounded CapHonoured CapFails
CHECK_DEADLOCK FALSE
