\* non-vacuity: with Bug = {"SecondWinnerAlsoReturned"} TLC must report AtMostOneReturned violated
SPECIFICATION Spec
CONSTANTS
  NB = 2
  MaxRogue = 1
  RogueKinds = {"wrongId", "emptyId", "staleId", "otherId", "garbage", "close"}
  MaxMsgs = 2
  Mode = "standard"
  Bug = {"SecondWinnerAlsoReturned"}
INVARIANTS AtMostOneReturned
CHECK_DEADLOCK FALSE
