-------------------------- MODULE Gen_HandshakeEvil --------------------------
(* Behaviour generator for C03: same Next as HandshakeEvil; every terminal   *)
(* state is printed once as JSON.  A terminal state carries the whole        *)
(* scenario (configuration, the peer's deviation switches) and E's final     *)
(* wire-level facts and reported outcome, so the set of lines sharing        *)
(* (cfg, devs) is the set of outcomes the specification allows E against     *)
(* that scripted peer.                                                       *)
EXTENDS HandshakeEvil, Json

EmitTrace ==
  phase = "done" =>
    PrintT(ToJson([scn |-> [cfg |-> cfg, devs |-> devs, ran |-> ran, keyE |-> keyE,
                            postAuth |-> postAuth, outcome |-> outcome]]))
=============================================================================
