------------------------- MODULE Gen_SecureChannel -------------------------
(***************************************************************************)
(* Behaviour generator for SecureChannel: the same actions, plus a history *)
(* variable `hist` that records every step with its arguments and the      *)
(* projection of the post-state the replayer compares with the real code.  *)
(* GenNext only restricts the ORDER in which SecureChannel's actions are   *)
(* taken (so every generated behaviour is a behaviour of SecureChannel):   *)
(*   mode "C02": a sends everything, the adversary acts at most MaxFaults  *)
(*               times, the wire is closed, b receives until it fails.     *)
(*   mode "script": a fixed script of sender / receiver steps chosen from  *)
(*               Scripts, with Handoff(e) attempts interleaved anywhere.   *)
(*   mode "free": any interleaving (used with -simulate).                  *)
(***************************************************************************)
EXTENDS SecureChannel, Json

CONSTANTS GenMode, GenDepth, ScriptIds,
          HandoffEnds   \* endpoints that attempt hand-offs in mode "script"

VARIABLES hist, gphase, script, pc

gvars == <<vars, hist, gphase, script, pc>>

Log(r) == hist' = Append(hist, r)

\* a send step was refused iff it put nothing on the wire (sndErr is sticky: a sender
\* refused once may go on to send unprotected frames, so it cannot be used here)
SendRefused(d) == wire'[d] = wire[d]
SendExp(d) == IF SendRefused(d) THEN "refused" ELSE "ok"
LastFrame(d) == LET f == wire'[d][Len(wire'[d])] IN
  [prot |-> f.prot, hasIV |-> f.hasIV, ctr |-> f.ctr, dig |-> f.dig, end |-> f.end, id |-> f.id]
SendRec(name, d) ==
  IF SendRefused(d) THEN [a |-> name, d |-> d, exp |-> "refused"]
  ELSE [a |-> name, d |-> d, exp |-> "ok", frame |-> LastFrame(d)]

RecvRec(d) ==
  [a |-> "RecvStep", d |-> d,
   st |-> IF rstate'[d] = "err" THEN "err"
          ELSE IF rstate'[d] = "inmsg" THEN "inmsg"
          ELSE IF rstate'[d] = "idle" THEN "msg" ELSE "more",
   msg |-> IF rstate'[d] = "idle" /\ Len(delivered'[d]) > Len(delivered[d])
           THEN delivered'[d][Len(delivered'[d])]
           ELSE IF rstate'[d] = "inmsg" THEN rpart'[d] ELSE <<>>]

\* A direction that started with a fresh key cannot be driven to the real 2^32-1
\* limit by a replay, so generated behaviours stop short of the model's MaxCtr there
\* (the limit is exercised by directions that start near it through imported state).
Lim(d) == (hist[1].ctr[d] = 0) => sCtr[d] < MaxCtr

GStartDirect(d) == StartDirect(d) /\ Log([a |-> "StartDirect", d |-> d])
GSendPartial(d) == Lim(d) /\ SendPartial(d) /\ Log(SendRec("SendPartial", d))
GSendFinal(d)   == Lim(d) /\ SendFinal(d)   /\ Log(SendRec("SendFinal", d))
GPutSecret(d)   == Lim(d) /\ PutSecret(d) /\ Log(SendRec("PutSecret", d))
GStartMsg(d)    == StartMsg(d)    /\ Log([a |-> "StartMsg", d |-> d])
GWriteBuf(d)    == WriteBuf(d)    /\ Log([a |-> "WriteBuf", d |-> d])
GWriteFlush(d)  == Lim(d) /\ WriteFlush(d)  /\ Log(SendRec("WriteFlush", d))
GEndMsg(d)      == Lim(d) /\ EndMsg(d)      /\ Log(SendRec("EndMsg", d))
GCloseWire(d)   == CloseWire(d)   /\ Log([a |-> "CloseWire", d |-> d])
GCallRecv(d, api) == CallRecv(d, api) /\ Log([a |-> "CallRecv", d |-> d, api |-> api])
GRecvStep(d)    == RecvStep(d)    /\ Log(RecvRec(d))
GEndRead(d)     == EndRead(d)     /\ Log([a |-> "EndRead", d |-> d, msg |-> rpart[d]])
GHandoff(e)     == Handoff(e) /\
                   Log([a |-> "Handoff", e |-> e,
                        exp |-> IF Clean(e) /\ MidMsgNoBuffer(e) THEN "either" ELSE lastHandoff'])

GHandoffBad(e, bf) == HandoffBadBlob(e, bf) /\
                   Log([a |-> "HandoffBad", e |-> e, fault |-> bf, exp |-> lastHandoff'])

GAdversary(d) ==
  \/ \E i \in 1..Len(wire[d]) :
       \/ AdvDrop(d, i) /\ Log([a |-> "Adv", op |-> "drop", d |-> d, i |-> i])
       \/ AdvDup(d, i) /\ Log([a |-> "Adv", op |-> "dup", d |-> d, i |-> i])
       \/ AdvSwap(d, i) /\ Log([a |-> "Adv", op |-> "swap", d |-> d, i |-> i])
       \/ AdvTruncate(d, i) /\ Log([a |-> "Adv", op |-> "trunc", d |-> d, i |-> i])
       \/ \E j \in 1..Len(wire[d]) : AdvReplay(d, i, j) /\ Log([a |-> "Adv", op |-> "replay", d |-> d, i |-> i, j |-> j])
       \/ \E fld \in FlipFields : AdvFlip(d, i, fld) /\ Log([a |-> "Adv", op |-> "flip", d |-> d, i |-> i, fld |-> fld])
  \/ \E i \in 1..(Len(wire[d]) + 1), lc \in LenClasses, e \in {0, 1} :
       AdvInject(d, i, lc, e) /\ Log([a |-> "Adv", op |-> "inject", d |-> d, i |-> i, lc |-> lc, end |-> e])

-----------------------------------------------------------------------------
(* scripts for mode "script": each step is <<action, dir/endpoint, api>>     *)
S(a, d) == [a |-> a, d |-> d, api |-> "none"]
R(d, api) == [a |-> "CallRecv", d |-> d, api |-> api]

\* one single-frame message each way (first frames exchanged), then mixed traffic
Script(id) ==
  CASE id = 1 ->
    << S("StartDirect","ab"), S("SendFinal","ab"), R("ab","complete"), S("RecvStep","ab"),
       S("StartDirect","ba"), S("SendFinal","ba"), R("ba","complete"), S("RecvStep","ba"),
       S("StartMsg","ab"), S("WriteBuf","ab"), S("EndMsg","ab"),
       R("ab","start"), S("RecvStep","ab"), S("EndRead","ab"),
       S("StartDirect","ba"), S("SendFinal","ba"), R("ba","complete"), S("RecvStep","ba") >>
    [] id = 2 ->   \* multi-frame messages, buffered with flush, start/end read on both sides
    << S("StartMsg","ab"), S("WriteFlush","ab"), S("WriteBuf","ab"), S("EndMsg","ab"),
       R("ab","start"), S("RecvStep","ab"), S("RecvStep","ab"), S("EndRead","ab"),
       S("StartMsg","ba"), S("WriteBuf","ba"), S("EndMsg","ba"),
       R("ba","start"), S("RecvStep","ba"), S("EndRead","ba"),
       S("StartDirect","ab"), S("SendPartial","ab"), S("SendFinal","ab"),
       R("ab","complete"), S("RecvStep","ab"), S("RecvStep","ab"),
       S("StartDirect","ba"), S("SendFinal","ba"), R("ba","complete"), S("RecvStep","ba") >>
    [] id = 3 ->   \* frames queue up unread while the other side hands off
    << S("StartDirect","ab"), S("SendFinal","ab"), S("StartDirect","ba"), S("SendFinal","ba"),
       R("ab","complete"), S("RecvStep","ab"), R("ba","complete"), S("RecvStep","ba"),
       S("StartDirect","ab"), S("SendFinal","ab"), S("StartDirect","ab"), S("SendFinal","ab"),
       R("ab","complete"), S("RecvStep","ab"),
       S("StartDirect","ba"), S("SendFinal","ba"),
       R("ab","start"), S("RecvStep","ab"), S("EndRead","ab"),
       R("ba","complete"), S("RecvStep","ba") >>
    [] id = 4 ->   \* keyed but not encrypting: cleartext frames and secrets alternate
    << S("StartDirect","ab"), S("SendFinal","ab"), R("ab","complete"), S("RecvStep","ab"),
       S("PutSecret","ab"), R("ab","secret"), S("RecvStep","ab"),
       S("PutSecret","ba"), R("ba","secret"), S("RecvStep","ba"),
       S("StartDirect","ba"), S("SendPartial","ba"), S("SendFinal","ba"),
       R("ba","complete"), S("RecvStep","ba"), S("RecvStep","ba"),
       S("PutSecret","ab"), R("ab","secret"), S("RecvStep","ab"),
       S("PutSecret","ab"), R("ab","secret"), S("RecvStep","ab") >>
    [] id = 5 ->   \* one direction talks a lot (drives a counter to its limit)
    << S("StartDirect","ab"), S("SendFinal","ab"), R("ab","complete"), S("RecvStep","ab"),
       S("StartDirect","ba"), S("SendFinal","ba"), R("ba","complete"), S("RecvStep","ba"),
       S("StartDirect","ab"), S("SendPartial","ab"), S("SendFinal","ab"),
       R("ab","complete"), S("RecvStep","ab"), S("RecvStep","ab"),
       S("StartMsg","ab"), S("WriteBuf","ab"), S("EndMsg","ab"), R("ab","complete"), S("RecvStep","ab"),
       S("StartDirect","ab"), S("SendFinal","ab"), R("ab","complete"), S("RecvStep","ab"),
       S("StartDirect","ba"), S("SendFinal","ba"), R("ba","complete"), S("RecvStep","ba") >>
    [] id = 6 ->   \* short ping-pong used for chains of hand-offs of one side
    << S("StartDirect","ab"), S("SendFinal","ab"), R("ab","complete"), S("RecvStep","ab"),
       S("StartDirect","ba"), S("SendFinal","ba"), R("ba","complete"), S("RecvStep","ba"),
       S("StartDirect","ab"), S("SendFinal","ab"), R("ab","complete"), S("RecvStep","ab"),
       S("StartDirect","ba"), S("SendFinal","ba"), R("ba","start"), S("RecvStep","ba"), S("EndRead","ba"),
       S("StartMsg","ab"), S("WriteBuf","ab"), S("EndMsg","ab"), R("ab","complete"), S("RecvStep","ab") >>
    [] id = 7 ->   \* a sender keeps trying after it was refused at the counter limit
    << S("StartDirect","ab"), S("SendFinal","ab"), S("StartDirect","ab"), S("SendFinal","ab"),
       S("StartDirect","ab"), S("SendFinal","ab"), S("StartDirect","ab"), S("SendPartial","ab"), S("SendFinal","ab"),
       S("StartMsg","ab"), S("WriteBuf","ab"), S("EndMsg","ab"),
       S("StartDirect","ba"), S("SendFinal","ba"), S("StartDirect","ba"), S("SendFinal","ba"),
       S("StartDirect","ba"), S("SendFinal","ba"),
       R("ab","complete"), S("RecvStep","ab"), R("ab","complete"), S("RecvStep","ab"),
       R("ba","complete"), S("RecvStep","ba"), R("ba","complete"), S("RecvStep","ba") >>
    [] OTHER -> << >>

DoStep(s) ==
  CASE s.a = "StartDirect" -> GStartDirect(s.d)
    [] s.a = "SendPartial" -> GSendPartial(s.d)
    [] s.a = "SendFinal"   -> GSendFinal(s.d)
    [] s.a = "PutSecret"   -> GPutSecret(s.d)
    [] s.a = "StartMsg"    -> GStartMsg(s.d)
    [] s.a = "WriteBuf"    -> GWriteBuf(s.d)
    [] s.a = "WriteFlush"  -> GWriteFlush(s.d)
    [] s.a = "EndMsg"      -> GEndMsg(s.d)
    [] s.a = "CallRecv"    -> GCallRecv(s.d, s.api)
    [] s.a = "RecvStep"    -> GRecvStep(s.d)
    [] s.a = "EndRead"     -> GEndRead(s.d)
    [] OTHER -> FALSE

-----------------------------------------------------------------------------
InitRec == [a |-> "Init", baseEnc |-> baseEnc, pre |-> pre, ctr |-> sCtr, maxCtr |-> MaxCtr]

GenInit ==
  /\ Init
  /\ hist = <<InitRec>>
  /\ gphase = "send"
  /\ script \in ScriptIds
  /\ pc = 1

C02Next ==
  \/ /\ gphase = "send"
     /\ \/ GStartDirect("ab") \/ GSendPartial("ab") \/ GSendFinal("ab") \/ GPutSecret("ab")
     /\ UNCHANGED <<gphase, script, pc>>
  \/ /\ gphase = "send" /\ cur["ab"] = None /\ Len(sentLog["ab"]) >= 1
     /\ gphase' = "adv" /\ UNCHANGED <<vars, hist, script, pc>>
  \/ /\ gphase = "adv" /\ GAdversary("ab") /\ UNCHANGED <<gphase, script, pc>>
  \/ /\ gphase = "adv" /\ GCloseWire("ab") /\ gphase' = "recv" /\ UNCHANGED <<script, pc>>
  \/ /\ gphase = "recv" /\ rstate["ab"] = "idle"
     /\ GCallRecv("ab", IF ExpectSecret("ab") THEN "secret" ELSE "complete")
     /\ UNCHANGED <<gphase, script, pc>>
  \/ /\ gphase = "recv" /\ GRecvStep("ab") /\ UNCHANGED <<gphase, script, pc>>

ScriptNext ==
  \/ /\ pc <= Len(Script(script))
     /\ DoStep(Script(script)[pc])
     /\ pc' = pc + 1
     /\ UNCHANGED <<gphase, script>>
  \/ /\ pc <= Len(Script(script)) + 1
     \* (damaged blobs only as the first hand-off attempt of a behaviour: keeps the count down)
     /\ \E e \in HandoffEnds : GHandoff(e) \/ (handoffs = 0 /\ \E bf \in BlobFaults : GHandoffBad(e, bf))
     /\ UNCHANGED <<gphase, script, pc>>

FreeNext ==
  /\ Len(hist) < GenDepth
  /\ \/ \E d \in Dir :
          \/ GStartDirect(d) \/ GSendPartial(d) \/ GSendFinal(d) \/ GPutSecret(d)
          \/ GStartMsg(d) \/ GWriteBuf(d) \/ GWriteFlush(d) \/ GEndMsg(d)
          \/ \E api \in Apis : /\ (api = "secret") = ExpectSecret(d)
                               /\ (wire[d] # <<>> \/ closed[d])
                               /\ GCallRecv(d, api)
          \/ (rstate[d] = "busy" /\ wire[d] # <<>> /\ GRecvStep(d))
          \/ GEndRead(d)
     \/ \E e \in End : GHandoff(e)
  /\ UNCHANGED <<gphase, script, pc>>

GenNext ==
  CASE GenMode = "C02" -> C02Next
    [] GenMode = "script" -> ScriptNext
    [] OTHER -> FreeNext

GenSpec == GenInit /\ [][GenNext]_gvars

Done ==
  CASE GenMode = "C02" -> gphase = "recv" /\ rstate["ab"] = "err"
    [] GenMode = "script" -> pc > Len(Script(script)) \/ ~ENABLED DoStep(Script(script)[pc])
    [] OTHER -> Len(hist) >= GenDepth

\* pseudo-invariant: prints every finished behaviour as one JSON line
EmitTrace == Done => PrintT(ToJson([trace |-> hist]))
=============================================================================
