\* self-test: with Bug = {TrustReportedEnc} TLC must report an invariant violated
SPECIFICATION Spec
CONSTANTS
  MaxConns = 2
  MaxCmds = 2
  PolicyTabs = {1, 2}
  AuthzTabs = {0, 1, 2}
  InitAuthz = {0, 1}
  InitPtab = {1}
  Users = {"alice", "bob"}
  Permissive = TRUE
  Bug = {"TrustReportedEnc"}
INVARIANTS TypeOK HandlerOnlyOnAdequateSession RawAuthSeparated RefusedClosesWithoutHandler
CHECK_DEADLOCK FALSE
