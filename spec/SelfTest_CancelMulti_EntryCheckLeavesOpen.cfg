\* non-vacuity: with Bug = {"EntryCheckLeavesOpen"} TLC must report ReuseFailsFast violated
SPECIFICATION LiveSpec
CONSTANTS
  Ns = {2}
  Modes = {"reuse"}
  Bug = {"EntryCheckLeavesOpen"}
PROPERTIES ReuseFailsFast
CHECK_DEADLOCK FALSE
