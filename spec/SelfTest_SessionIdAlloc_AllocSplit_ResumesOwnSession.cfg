\* non-vacuity: with Bug = {"AllocSplit"} TLC must report ResumesOwnSession violated
SPECIFICATION Spec
CONSTANTS
  H = {h1, h2, h3}
  Bug = {"AllocSplit"}
INVARIANTS ResumesOwnSession
CHECK_DEADLOCK FALSE
