\* non-vacuity: with Bug = {"ServeAfterCancel"} TLC must report NoLateHandler violated
SPECIFICATION SpecS
CONSTANTS
  Hows = {"new"}
  Routes = {"direct"}
  Secs = {"none"}
  EnvsNew = {}
  EnvsCA = {}
  Ctxs = {}
  MaxCalls = 0
  MaxSock = 0
  MaxConn = 2
  Kinds = {"ok", "err", "panic", "block", "keepopen", "unknown"}
  Bug = {"ServeAfterCancel"}
INVARIANTS NoLateHandler
CHECK_DEADLOCK FALSE
