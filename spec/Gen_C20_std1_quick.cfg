\* C20 generator (standard mode, 1 broker(s), <= 2 rogue connections, <= 0 broker messages, <= 4 environment steps)
SPECIFICATION GenSpec
CONSTANTS
  NB = 1
  MaxRogue = 2
  RogueKinds = {"wrongId", "emptyId", "staleId", "badGreeting", "garbage", "close", "stall"}
  MaxMsgs = 0
  Mode = "standard"
  MaxEnv = 4
  Bug = {}
INVARIANT EmitTrace
CHECK_DEADLOCK FALSE
