------------------------- MODULE Gen_FileTransfer -------------------------
(***************************************************************************)
(* Behaviour generator for FileTransfer (G02): the same actions plus a     *)
(* history variable naming every protocol step taken.  It runs with        *)
(* Interleave = FALSE (the sender finishes, the wire is closed, then the   *)
(* receiver runs), so GenNext only restricts the ORDER of FileTransfer's   *)
(* actions: every generated behaviour is a behaviour of FileTransfer.  A   *)
(* finished behaviour is printed with everything the replayer needs: the   *)
(* plan, the items the sender performed (size, deviation), the model's     *)
(* wire (the frames the reference codec reproduces, including the cut) and *)
(* the results the model expects on both ends.                             *)
(***************************************************************************)
EXTENDS FileTransfer, Json

VARIABLE hist

gvars == <<vars, hist>>

Log(r) == hist' = Append(hist, r)

GSender ==
  /\ UNCHANGED <<enc, plan, phase, rcvVars>>
  /\ \/ \E n \in MsgLens, sp \in MsgSplits : SendMsg(n, sp) /\ Log([a |-> "SendMsg", ok |-> ~sStop'])
     \/ \E s \in Sizes \cup LaterSizes, d \in Devs \cup {"none"}, dl \in MoreDeltas \cup FewerDeltas \cup {0} :
          PfOpen(s, d, dl) /\ Log([a |-> "PfOpen", ok |-> ~sStop'])
     \/ PfChunk /\ Log([a |-> "PfChunk", ok |-> ~sStop'])
     \/ PfMarker /\ Log([a |-> "PfMarker", ok |-> ~sStop'])
     \/ \E h \in CutHows : CutNext(h) /\ Log([a |-> "CutNext:" \o h, ok |-> TRUE])

GReceiver ==
  /\ UNCHANGED <<enc, plan, phase, sndVars>>
  /\ \/ RecvMsg  /\ Log([a |-> "RecvMsg",  ok |-> ~rStop'])
     \/ GfSize   /\ Log([a |-> "GfSize",   ok |-> ~rStop'])
     \/ GfChunk  /\ Log([a |-> "GfChunk",  ok |-> ~rStop'])
     \/ GfMarker /\ Log([a |-> "GfMarker", ok |-> ~rStop'])

GenInit == Init /\ hist = <<>>

GenNext ==
  \/ GSender
  \/ CloseWire /\ UNCHANGED hist
  \/ GReceiver
  \/ ReceiverDone /\ UNCHANGED hist

GenSpec == GenInit /\ [][GenNext]_gvars

Done == phase = "done"

EmitTrace ==
  Done => PrintT(ToJson([scn |-> [enc |-> enc, plan |-> plan, items |-> items, wire |-> wire,
                                  sres |-> sres, rres |-> rres, hist |-> hist]]))
=============================================================================
