\* non-vacuity: with Bug = {"EntryCheckLeavesOpen"} TLC must report CancelledReturnClosesConn violated
SPECIFICATION LiveSpec
CONSTANTS
  Ns = {1, 2, 3}
  Kinds = {"cancel", "deadline", "background"}
  Bug = {"EntryCheckLeavesOpen"}
INVARIANT CancelledReturnClosesConn
CHECK_DEADLOCK FALSE
