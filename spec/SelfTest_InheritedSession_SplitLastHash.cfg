\* self-test: with Bug = {SplitLastHash} TLC must report an invariant violated
SPECIFICATION Spec
CONSTANTS
  Tier = "quick"
  SecretRels = {"same", "diff"}
  Bug = {"SplitLastHash"}
INVARIANTS TypeOK ParseMatchesIntent RoundTrips NoPartialEntry KeyDerived IdentityRight ExpiryHonoured PolicyCopied EntryIsOneTriple MappingExact EnvCleared ResumeAsIntended
CHECK_DEADLOCK FALSE
