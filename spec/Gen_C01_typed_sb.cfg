\* C01 (i-sb): PutStringBytes of k x Max and k x (Max-32) content bytes (k = 1, 2) and their +-1 neighbours, alone or next to another value, then FinishMessage
SPECIFICATION GenSpec
CONSTANTS
  Max = 1048576
  FlushAt = 4096
  Target = 16384
  Tag = 16
  IVLen = 16
  Hdr = 5
  Encs = {TRUE, FALSE}
  SendApis = {"typed"}
  RecvApis = {"complete"}
  WriteSizes = {1}
  StrSizes = {}
  StrBytesSizes = {1048543, 1048544, 1048545, 1048575, 1048576, 1048577, 2097087, 2097088, 2097089, 2097151, 2097152, 2097153}
  ReadSizes = {0}
  MaxMsgs = 1
  MaxWrites = 2
  MaxReads = 1
  MaxLen = 3145800
  PairFirst = {1}
  TypedFlush = {FALSE}
  Interleave = FALSE
  MaxAbandon = 0
  Bug = {}
INVARIANT EmitTrace
CHECK_DEADLOCK FALSE
