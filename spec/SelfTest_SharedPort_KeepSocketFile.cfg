\* non-vacuity: with Bug = {"KeepSocketFile"} TLC must report SocketFile violated
SPECIFICATION Spec
CONSTANTS
  Mode = "listener"
  Origins = {"listen", "adopt"}
  MaxD = 2
  MaxAcc = 2
  MaxClose = 2
  Scripts <- MixScriptsTwo
  Shapes <- NoShapes
  ErrClasses = {}
  Bug = {"KeepSocketFile"}
INVARIANTS SocketFile
CHECK_DEADLOCK FALSE
