\* non-vacuity self-test: with Bug = {"FreezeEarly"} TLC must report invariant TamperedMeansNoAppData violated
SPECIFICATION Spec
CONSTANTS
  CAuth = {"PREFERRED"}
  SAuth = {"PREFERRED"}
  CEnc = {"REQUIRED"}
  SEnc = {"REQUIRED"}
  CMethods <- ListsC04
  SMethods <- ListsC04
  CCiphers <- OnlyAES
  SCiphers <- OnlyAES
  CmdModes = {TRUE}
  Shapes = {"full", "resume"}
  SameLists = TRUE
  RelayBudget = 1
  AllowAbort = FALSE
  Bug = {"FreezeEarly"}
INVARIANTS TamperedMeansNoAppData
CHECK_DEADLOCK FALSE
