---------------------------- MODULE Gen_Decoder ----------------------------
(***************************************************************************)
(* Behaviour generator for Decoder: the same Init / Next.  The scenario is *)
(* part of the state (chosen in Init), so every behaviour is identified by *)
(* its initial state and no history variable is needed.  When a behaviour  *)
(* is finished, EmitScn prints the scenario together with what the model's *)
(* defensive decoder did and the verdict class the replayer must observe   *)
(* on the real decoder:                                                    *)
(*    must-error | may-succeed | cap-exceeded-must-stop                    *)
(***************************************************************************)
EXTENDS Decoder, Json

GenSpec == Init /\ [][Next]_vars

EmitScn ==
  Done => PrintT(ToJson([scn |-> scn,
                         verdict |-> Verdict,
                         model |-> [status |-> status, strict |-> strict, capx |-> capx,
                                    consumed |-> consumed, alloc |-> alloc,
                                    steps |-> steps, depth |-> depth]]))
=============================================================================
