\* non-vacuity: with Bug = {"FirstColonPort"} TLC must report HostPortLastColon violated
SPECIFICATION Spec
CONSTANTS
  Mode = "route"
  Origins = {"listen"}
  MaxD = 1
  MaxAcc = 1
  MaxClose = 1
  Scripts <- QuickScripts
  Shapes <- RouteShapesQuick
  ErrClasses = {}
  Bug = {"FirstColonPort"}
INVARIANTS HostPortLastColon
CHECK_DEADLOCK FALSE
