package kit

import (
	"context"
	"os"
	"os/exec"
	"path/filepath"
	"regexp"
	"strconv"
	"time"

	"cedarverif/internal/core"
)

var reProved = regexp.MustCompile(`All (\d+) obligations? proved`)

// Prove runs the TLA+ proof system (tlapm) on a module of the spec directory in a
// scratch copy and returns the number of proof obligations discharged. A proof
// that does not go through is a machinery problem (Broken), never a violation:
// it says nothing about the real code.
func Prove(c *core.Ctx, module string) int {
	dir, err := os.MkdirTemp(c.Tmp, "tlapm-")
	if err != nil {
		c.Broken("tlapm scratch: %v", err)
		return 0
	}
	src, err := os.ReadFile(filepath.Join(c.SpecDir, module))
	if err != nil {
		c.Broken("tlapm: %v", err)
		return 0
	}
	if err := os.WriteFile(filepath.Join(dir, module), src, 0o644); err != nil {
		c.Broken("tlapm: %v", err)
		return 0
	}
	ctx, cancel := context.WithTimeout(context.Background(), 10*time.Minute)
	defer cancel()
	cmd := exec.CommandContext(ctx, "tlapm", "--threads", "8", module)
	cmd.Dir = dir
	out, err := cmd.CombinedOutput()
	m := reProved.FindSubmatch(out)
	if m == nil {
		c.Broken("tlapm %s: proof not completed (%v): %s", module, err, FirstLines(string(out), 12))
		return 0
	}
	n, _ := strconv.Atoi(string(m[1]))
	c.Add("proof_obligations_discharged", int64(n))
	return n
}
