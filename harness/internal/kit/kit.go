// Package kit holds helpers shared by the property drivers: running TLC model
// checks and behaviour generators with the bookkeeping the evidence file needs.
package kit

import (
	"crypto/sha256"
	"encoding/json"
	"fmt"
	"os"

	"cedarverif/internal/core"
	"cedarverif/internal/tlc"
)

// ModelCheck runs an exhaustive TLC configuration; a violated invariant in the
// model is a machinery error (the model does not depend on /repo), never a
// VIOLATION.
func ModelCheck(c *core.Ctx, module, cfg string, o tlc.Options) *tlc.Result {
	res, err := tlc.Run(c.SpecDir, c.Tmp, module, cfg, o)
	if err != nil {
		c.Broken("TLC %s/%s: %v", module, cfg, err)
		return nil
	}
	if !res.OK {
		c.Broken("TLC %s/%s: model violates %s: %s", module, cfg, res.Violated, FirstLines(res.ErrorText, 6))
		return nil
	}
	c.Add("states", res.Distinct)
	c.Add("transitions", res.Generated)
	c.Note(fmt.Sprintf("TLC %s %s: %d states generated, %d distinct, depth %d, %.1fs", module, cfg, res.Generated, res.Distinct, res.Depth, res.WallS))
	return res
}

func FirstLines(s string, n int) string {
	out := ""
	cnt := 0
	for _, r := range s {
		if r == '\n' {
			cnt++
			if cnt >= n {
				break
			}
		}
		out += string(r)
	}
	return out
}

// Generate runs a Gen_* configuration and returns the behaviours it printed
// (one JSON object per behaviour, see tlc.Run).
func Generate(c *core.Ctx, module, cfg string, o tlc.Options) []json.RawMessage {
	if o.Workers == 0 {
		o.Workers = 1
	}
	res, err := tlc.Run(c.SpecDir, c.Tmp, module, cfg, o)
	if err != nil {
		c.Broken("TLC %s/%s: %v", module, cfg, err)
		return nil
	}
	if !res.OK {
		c.Broken("TLC generator %s/%s failed: %s %s", module, cfg, res.Violated, FirstLines(res.ErrorText, 6))
		return nil
	}
	if len(res.Scenarios) == 0 {
		c.Broken("TLC generator %s/%s produced no behaviour", module, cfg)
	}
	c.Add("states", res.Distinct)
	c.Add("transitions", res.Generated)
	c.Add("behaviours_generated", int64(len(res.Scenarios)))
	c.Note(fmt.Sprintf("TLC %s %s: %d behaviours, %d distinct states, %.1fs", module, cfg, len(res.Scenarios), res.Distinct, res.WallS))
	return res.Scenarios
}

// Dedupe removes identical behaviours (TLC simulation prints some twice).
func Dedupe(raws []json.RawMessage) []json.RawMessage {
	seen := map[[32]byte]bool{}
	var out []json.RawMessage
	for _, r := range raws {
		h := sha256.Sum256(r)
		if !seen[h] {
			seen[h] = true
			out = append(out, r)
		}
	}
	return out
}

// ValidateTrace runs a *_Trace configuration on an ndjson trace file (passed to
// the spec as IOEnv.TRACE_FILE). It returns true iff TLC accepted the trace.
func ValidateTrace(c *core.Ctx, module, cfg, traceFile string, o tlc.Options) (bool, *tlc.Result) {
	if o.Workers == 0 {
		o.Workers = 1
	}
	o.Env = append(o.Env, "TRACE_FILE="+traceFile)
	res, err := tlc.Run(c.SpecDir, c.Tmp, module, cfg, o)
	if err != nil {
		c.Broken("TLC %s/%s: %v", module, cfg, err)
		return false, res
	}
	c.Add("states", res.Distinct)
	c.Add("transitions", res.Generated)
	return res.OK, res
}

func ReadFile(p string) ([]byte, error) { return os.ReadFile(p) }
