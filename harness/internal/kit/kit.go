// Package kit holds helpers shared by the property drivers: running TLC model
// checks and behaviour generators with the bookkeeping the evidence file needs.
package kit

import (
	"crypto/sha256"
	"encoding/json"
	"fmt"
	"os"

	"cedarverif/internal/core"
	"cedarverif/internal/tlc"
)

// ModelCheck runs an exhaustive TLC configuration; a violated invariant in the
// model is a machinery error (the model does not depend on /repo), never a
// VIOLATION.
func ModelCheck(c *core.Ctx, module, cfg string, o tlc.Options) *tlc.Result {
	res, err := tlc.Run(c.SpecDir, c.Tmp, module, cfg, o)
	if err != nil {
		c.Broken("TLC %s/%s: %v", module, cfg, err)
		return nil
	}
	if !res.OK {
		c.Broken("TLC %s/%s: model violates %s: %s", module, cfg, res.Violated, FirstLines(res.ErrorText, 6))
		return nil
	}
	c.Add("states", res.Distinct)
	c.Add("transitions", res.Generated)
	c.Note(fmt.Sprintf("TLC %s %s: %d states generated, %d distinct, depth %d, %.1fs", module, cfg, res.Generated, res.Distinct, res.Depth, res.WallS))
	return res
}

func FirstLines(s string, n int) string {
	out := ""
	cnt := 0
	for _, r := range s {
		if r == '\n' {
			cnt++
			if cnt >= n {
				break
			}
		}
		out += string(r)
	}
	return out
}

// Generate runs a Gen_* configuration and returns the behaviours it printed
// (one JSON object per behaviour, see tlc.Run).
func Generate(c *core.Ctx, module, cfg string, o tlc.Options) []json.RawMessage {
	if o.Workers == 0 {
		o.Workers = 1
	}
	res, err := tlc.Run(c.SpecDir, c.Tmp, module, cfg, o)
	if err != nil {
		c.Broken("TLC %s/%s: %v", module, cfg, err)
		return nil
	}
	if !res.OK {
		c.Broken("TLC generator %s/%s failed: %s %s", module, cfg, res.Violated, FirstLines(res.ErrorText, 6))
		return nil
	}
	if len(res.Scenarios) == 0 {
		c.Broken("TLC generator %s/%s produced no behaviour", module, cfg)
	}
	c.Add("states", res.Distinct)
	c.Add("transitions", res.Generated)
	c.Add("behaviours_generated", int64(len(res.Scenarios)))
	c.Note(fmt.Sprintf("TLC %s %s: %d behaviours, %d distinct states, %.1fs", module, cfg, len(res.Scenarios), res.Distinct, res.WallS))
	return res.Scenarios
}

// Dedupe removes identical behaviours (TLC simulation prints some twice).
func Dedupe(raws []json.RawMessage) []json.RawMessage {
	seen := map[[32]byte]bool{}
	var out []json.RawMessage
	for _, r := range raws {
		h := sha256.Sum256(r)
		if !seen[h] {
			seen[h] = true
			out = append(out, r)
		}
	}
	return out
}

// ValidateTrace runs a *_Trace configuration on an ndjson trace file (passed to
// the spec as IOEnv.TRACE_FILE). It returns true iff TLC accepted the trace.
func ValidateTrace(c *core.Ctx, module, cfg, traceFile string, o tlc.Options) (bool, *tlc.Result) {
	if o.Workers == 0 {
		o.Workers = 1
	}
	o.Env = append(o.Env, "TRACE_FILE="+traceFile)
	res, err := tlc.Run(c.SpecDir, c.Tmp, module, cfg, o)
	if err != nil {
		c.Broken("TLC %s/%s: %v", module, cfg, err)
		return false, res
	}
	c.Add("states", res.Distinct)
	c.Add("transitions", res.Generated)
	return res.OK, res
}

func ReadFile(p string) ([]byte, error) { return os.ReadFile(p) }

// TraceRejection is the first event of a group that TLC could not explain.
type TraceRejection struct {
	Group int // index into the groups slice passed to ValidateGroups
	Index int // index of the unexplained event in that group
}

// ValidateGroups has TLC validate groups of events (one object / connection
// each) against a trace specification whose TReset action consumes the
// {"ev":"Reset"} line written before every group. A rejected group is reported
// and removed, and the rest re-validated, so every group gets a verdict.
func ValidateGroups(c *core.Ctx, module, cfg string, groups [][]map[string]any, label string) (accepted int, rej []TraceRejection) {
	type ref struct{ g, i int }
	start := 0
	for round := 0; round < 20 && start < len(groups); round++ {
		var lines []any
		var index []ref
		for gi := start; gi < len(groups); gi++ {
			lines = append(lines, map[string]any{"ev": "Reset"})
			index = append(index, ref{gi, -1})
			for i, e := range groups[gi] {
				lines = append(lines, e)
				index = append(index, ref{gi, i})
			}
		}
		f := fmt.Sprintf("%s/trace-%s-%d.ndjson", c.Tmp, label, round)
		if err := tlc.WriteNDJSON(f, lines); err != nil {
			c.Broken("cannot write trace: %v", err)
			return
		}
		ok, res := ValidateTrace(c, module, cfg, f, tlc.Options{Timeout: 5 * 60e9})
		if res == nil {
			return
		}
		if ok {
			accepted += len(groups) - start
			return
		}
		if !res.PostFalse {
			c.Broken("trace validation %s: TLC failed: %s", label, FirstLines(res.ErrorText, 6))
			return
		}
		bad := res.Depth - 1
		if bad < 0 || bad >= len(index) {
			c.Broken("trace validation %s: cannot locate rejection (depth %d of %d lines)", label, res.Depth, len(lines))
			return
		}
		p := index[bad]
		i := p.i
		if i < 0 {
			i = 0
		}
		rej = append(rej, TraceRejection{Group: p.g, Index: i})
		accepted += p.g - start
		start = p.g + 1
	}
	return
}
