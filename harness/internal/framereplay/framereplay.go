// Package framereplay binds spec/Framing.tla to the real cedar code (C01).
//
// A behaviour printed by Gen_Framing (enc, sender API, receiver API, the public
// calls with their arguments and the model's expectation, the model's wire and
// delivered) is replayed three ways:
//
//	A  sender conformance: the real sender (stream.Stream / message.Message)
//	   performs the calls; what it wrote is parsed and, on protected streams,
//	   opened by the INDEPENDENT reference codec and checked against WireOK;
//	C  real -> real: the same bytes are fed to a real receiver which performs
//	   the model's receive calls; accept / reject and the returned bytes are
//	   compared with the model on both ends;
//	B  reference -> real: the reference codec builds exactly the model's
//	   frames (its cut points) and a fresh real receiver must return exactly
//	   the model's `delivered` through the same receive calls.
//
// Payload bytes are a deterministic pseudo-random function of (message,
// offset, salt); the model tracks (message, offset, length) segments.
package framereplay

import (
	"bytes"
	"context"
	"fmt"
	"net"

	"cedarverif/internal/refcodec"
	"cedarverif/internal/wire"

	"github.com/bbockelm/cedar/message"
	"github.com/bbockelm/cedar/stream"
)

const Max = 1048576

type Seg struct {
	Msg int `json:"msg"`
	Off int `json:"off"`
	Len int `json:"len"`
}

type Frame struct {
	End  int `json:"end"`
	Plen int `json:"plen"`
	Wlen int `json:"wlen"`
	Msg  int `json:"msg"`
	Off  int `json:"off"`
}

type Call struct {
	A    string `json:"a"`
	Kind string `json:"kind,omitempty"`
	N    int    `json:"n,omitempty"`
	K    int    `json:"k,omitempty"`
	OK   bool   `json:"ok"`
	Ret  []Seg  `json:"ret,omitempty"`
}

type Scenario struct {
	Enc       bool    `json:"enc"`
	Sapi      string  `json:"sapi"`
	Rapi      string  `json:"rapi"`
	Hist      []Call  `json:"hist"`
	Wire      []Frame `json:"wire"`
	Sent      []int   `json:"sent"`
	Delivered [][]Seg `json:"delivered"`
	SenderErr bool    `json:"senderErr"`
	RecvErr   bool    `json:"recvErr"`
}

type Variant struct {
	Salt    int `json:"salt"`
	Dribble int `json:"dribble"` // >0: the receiver's connection returns at most this many bytes per Read
}

// Diff is a difference between the model and the real code.
type Diff struct {
	Invariant string
	Action    string
	Layer     string // "stream" | "typed"
	Mode      string // "plain" | "encrypted"
	Class     string
	Pass      string
	Detail    string
	Broken    bool // harness / model inconsistency, not a finding
}

func (d *Diff) Error() string {
	return fmt.Sprintf("[pass %s] %s violated at %s (%s, %s, %s): %s", d.Pass, d.Invariant, d.Action, d.Layer, d.Mode, d.Class, d.Detail)
}

func Signature(d *Diff) map[string]string {
	return map[string]string{"spec": "Framing", "invariant": d.Invariant, "action": d.Action,
		"layer": d.Layer, "mode": d.Mode, "class": d.Class}
}

type Stats struct {
	RealCalls      int64
	FramesParsed   int64
	FramesOpened   int64
	RefFramesFed   int64
	Bytes          int64
	SenderStricter int64 // real stream-level sender refused a frame the model accepts (not demanded by the statement)
	SenderLenient  int64 // real sender accepted a frame the model refuses and the real receiver accepted it too
	ModelCutsMatch int64 // real sender cut its frames exactly where the model does (informational)
	// two real endpoints conform, but one of them differs from the reference codec
	// (the wire format changed on both sides alike): outside C01
	FormatDeviations int64
	MessagesChecked  int64
}

func (s *Stats) Add(o *Stats) {
	s.RealCalls += o.RealCalls
	s.FramesParsed += o.FramesParsed
	s.FramesOpened += o.FramesOpened
	s.RefFramesFed += o.RefFramesFed
	s.Bytes += o.Bytes
	s.SenderStricter += o.SenderStricter
	s.SenderLenient += o.SenderLenient
	s.ModelCutsMatch += o.ModelCutsMatch
	s.FormatDeviations += o.FormatDeviations
	s.MessagesChecked += o.MessagesChecked
}

var bg = context.Background()

// ---------------------------------------------------------------------------
// payload

type prng uint64

func (p *prng) next() uint64 {
	x := uint64(*p)
	x ^= x << 13
	x ^= x >> 7
	x ^= x << 17
	*p = prng(x)
	return x
}

func fill(b []byte, seed uint64) {
	p := prng(seed*0x9E3779B97F4A7C15 + 0x1234567)
	if p == 0 {
		p = 1
	}
	i := 0
	for ; i+8 <= len(b); i += 8 {
		x := p.next()
		b[i], b[i+1], b[i+2], b[i+3] = byte(x), byte(x>>8), byte(x>>16), byte(x>>24)
		b[i+4], b[i+5], b[i+6], b[i+7] = byte(x>>32), byte(x>>40), byte(x>>48), byte(x>>56)
	}
	if i < len(b) {
		x := p.next()
		for ; i < len(b); i++ {
			b[i] = byte(x)
			x >>= 8
		}
	}
}

func isSender(a string) bool {
	switch a {
	case "StartMsg", "ExplicitPartial", "SendWhole", "AppWrite", "EndMessage", "MsgPut", "MsgFlush", "MsgFinish", "Abandon":
		return true
	}
	return false
}

// write is the concrete argument of one sender call.
type write struct {
	data    []byte // bytes the call adds to the message (encoded form for strings)
	content []byte // PutString argument
}

// plan derives, from the history alone, the concrete data of every sender call
// and the intended content of every message.
func plan(sc *Scenario, v Variant) (writes []write, msgs [][]byte) {
	writes = make([]write, len(sc.Hist))
	cur := -1
	for i, c := range sc.Hist {
		if !isSender(c.A) {
			continue
		}
		switch c.A {
		case "StartMsg":
			msgs = append(msgs, nil)
			cur = len(msgs) - 1
		case "Abandon":
			// the draft is given up: the message consists of what is written from here on
			msgs[cur] = nil
		case "ExplicitPartial", "SendWhole", "AppWrite", "MsgPut":
			seed := uint64(v.Salt)<<32 ^ uint64(cur+1)<<20 ^ uint64(i)
			if c.Kind == "string" || c.Kind == "stringbytes" {
				content := make([]byte, c.N)
				fill(content, seed)
				for j := range content {
					content[j] = 0x21 + content[j]%0x5e // printable, NUL-free
				}
				writes[i] = write{data: refcodec.C14String(content, sc.Enc), content: content}
			} else {
				d := make([]byte, c.N)
				fill(d, seed)
				writes[i] = write{data: d}
			}
			msgs[cur] = append(msgs[cur], writes[i].data...)
		}
	}
	return
}

func segBytes(msgs [][]byte, segs []Seg) ([]byte, error) {
	var out []byte
	for _, s := range segs {
		if s.Msg < 1 || s.Msg > len(msgs) || s.Off < 0 || s.Off+s.Len > len(msgs[s.Msg-1]) {
			return nil, fmt.Errorf("segment %+v outside message", s)
		}
		out = append(out, msgs[s.Msg-1][s.Off:s.Off+s.Len]...)
	}
	return out, nil
}

func key(v Variant) []byte {
	k := make([]byte, 32)
	fill(k, uint64(v.Salt)+77)
	return k
}

func mode(enc bool) string {
	if enc {
		return "encrypted"
	}
	return "plain"
}

func layer(sapi string) string {
	if sapi == "typed" {
		return "typed"
	}
	return "stream"
}

func frameClass(plain, wlen int) string {
	switch {
	case wlen <= Max:
		return "wire<=Max"
	case plain <= Max:
		return "plain<=Max<wire"
	default:
		return "plain>Max"
	}
}

func sizeClass(n int) string {
	switch {
	case n <= Max-32:
		return "len<=Max-32"
	case n <= Max-16:
		return "Max-32<len<=Max-16"
	case n <= Max:
		return "Max-16<len<=Max"
	default:
		return "len>Max"
	}
}

// putClass: the argument class of a refused typed call; a refused flush
// (FlushFrame / FinishMessage) concerns the pending frame, not an argument.
func putClass(c Call) string {
	if c.Kind == "" {
		return "pending-frame"
	}
	return c.Kind + ":" + sizeClass(c.N)
}

func diffAt(a, b []byte) string {
	n := len(a)
	if len(b) < n {
		n = len(b)
	}
	for i := 0; i < n; i++ {
		if a[i] != b[i] {
			return fmt.Sprintf("first difference at byte %d (lengths %d vs %d)", i, len(a), len(b))
		}
	}
	return fmt.Sprintf("lengths %d vs %d", len(a), len(b))
}

// ---------------------------------------------------------------------------
// real sender

type sendResult struct {
	raw       []byte
	completed int  // messages the real sender finished without error
	strict    bool // real refused a call the model accepts (stream level)
	lenient   bool // real accepted a call the model refuses
	lenientA  string
	errText   string
}

func newStream(c net.Conn, sc *Scenario, v Variant) (*stream.Stream, error) {
	st := stream.NewStream(c)
	if sc.Enc {
		if err := st.SetSymmetricKey(key(v)); err != nil {
			return nil, err
		}
	}
	return st, nil
}

func runSender(sc *Scenario, v Variant, writes []write, stt *Stats) (*sendResult, *Diff) {
	conn := wire.NewBufConn("sender")
	st, err := newStream(conn, sc, v)
	if err != nil {
		return nil, &Diff{Broken: true, Detail: "SetSymmetricKey: " + err.Error()}
	}
	res := &sendResult{}
	var m *message.Message
	finish := func() error {
		switch sc.Sapi {
		case "frames":
			return st.SendMessage(bg, nil)
		case "buffered":
			return st.EndMessage(bg)
		default:
			return m.FinishMessage(bg)
		}
	}
	for i, c := range sc.Hist {
		if !isSender(c.A) {
			continue
		}
		var err error
		finishing := false
		stt.RealCalls++
		switch c.A {
		case "StartMsg", "Abandon":
			// Abandon: nothing of the draft has left; the application starts the message over
			switch sc.Sapi {
			case "buffered":
				st.StartMessage()
			case "typed":
				m = message.NewMessageForStream(st)
			}
			continue
		case "ExplicitPartial":
			err = st.SendPartialMessage(bg, writes[i].data)
		case "SendWhole":
			err = st.SendMessage(bg, writes[i].data)
			finishing = true
		case "AppWrite":
			err = st.WriteMessage(bg, writes[i].data)
		case "EndMessage":
			err = st.EndMessage(bg)
			finishing = true
		case "MsgPut":
			if c.Kind == "string" {
				err = m.PutString(bg, string(writes[i].content))
			} else if c.Kind == "stringbytes" {
				err = m.PutStringBytes(bg, writes[i].content)
			} else {
				err = m.PutBytes(bg, writes[i].data)
			}
		case "MsgFlush":
			err = m.FlushFrame(bg, false)
		case "MsgFinish":
			err = m.FinishMessage(bg)
			finishing = true
		}
		switch {
		case c.OK && err == nil:
			if finishing {
				res.completed++
			}
		case c.OK && err != nil:
			if sc.Sapi == "typed" {
				res.raw = conn.TakeOut()
				return res, &Diff{Invariant: "TypedLayerTotal", Action: c.A, Layer: "typed", Mode: mode(sc.Enc),
					Class: putClass(c), Pass: "A",
					Detail: fmt.Sprintf("typed layer refused %s of %d bytes (call %d): %v", c.A, c.N, i, err)}
			}
			res.strict = true
			res.errText = err.Error()
			res.raw = conn.TakeOut()
			return res, nil
		case !c.OK && err != nil:
			res.raw = conn.TakeOut()
			return res, nil
		case !c.OK && err == nil:
			// the model's sender refuses this frame (wire length > Max), the real one
			// took it: finish the message and let the real receiver decide.
			res.lenient = true
			res.lenientA = c.A
			if !finishing {
				stt.RealCalls++
				if err := finish(); err != nil {
					res.raw = conn.TakeOut()
					return res, nil
				}
			}
			res.completed++
			res.raw = conn.TakeOut()
			return res, nil
		}
	}
	res.raw = conn.TakeOut()
	return res, nil
}

// ---------------------------------------------------------------------------
// pass A: the reference codec reads what the real sender wrote

type parsed struct {
	plains    [][]byte
	ends      []byte
	wlens     []int
	oversize  int // index of the first frame whose wire length exceeds Max, or -1
	overClass string
}

func passA(sc *Scenario, v Variant, sr *sendResult, msgs [][]byte, stt *Stats) (*parsed, *Diff) {
	mk := func(class, detail string) *Diff {
		return &Diff{Invariant: "WireOK", Action: "Sender:" + sc.Sapi, Layer: layer(sc.Sapi), Mode: mode(sc.Enc), Class: class, Pass: "A", Detail: detail}
	}
	frames, rest := refcodec.ParseFrames(sr.raw)
	if len(rest) != 0 {
		return nil, mk("unparseable", fmt.Sprintf("%d trailing bytes do not form a frame", len(rest)))
	}
	p := &parsed{oversize: -1}
	var op *refcodec.Opener
	if sc.Enc {
		op = refcodec.NewOpener(key(v), [32]byte{}, [32]byte{})
	}
	for i, f := range frames {
		stt.FramesParsed++
		plain := f.Body
		if sc.Enc {
			pt, err := op.Open(f)
			if err != nil {
				return nil, mk("doesnotopen", fmt.Sprintf("frame %d (%d wire bytes) does not open with the reference decryptor: %v", i, len(f.Body), err))
			}
			stt.FramesOpened++
			plain = pt
		}
		if f.End > 1 {
			return nil, mk("endflag", fmt.Sprintf("frame %d carries end flag %d", i, f.End))
		}
		if len(f.Body) > Max && p.oversize < 0 {
			p.oversize = i
			p.overClass = frameClass(len(plain), len(f.Body))
		}
		p.plains = append(p.plains, plain)
		p.ends = append(p.ends, f.End)
		p.wlens = append(p.wlens, len(f.Body))
		stt.Bytes += int64(len(plain))
	}
	// per message: the frames concatenate to the message, only the last ends it
	mi := 0
	var acc []byte
	for i := range p.plains {
		acc = append(acc, p.plains[i]...)
		if p.ends[i] == 1 {
			if mi >= sr.completed {
				return nil, mk("endflag", fmt.Sprintf("frame %d ends message %d but the sender finished only %d", i, mi+1, sr.completed))
			}
			if !bytes.Equal(acc, msgs[mi]) {
				return nil, mk("content", fmt.Sprintf("frames of message %d do not concatenate to what was written: %s", mi+1, diffAt(acc, msgs[mi])))
			}
			mi++
			acc = nil
		}
	}
	if mi != sr.completed {
		return nil, mk("endflag", fmt.Sprintf("sender finished %d messages, the wire carries %d complete ones", sr.completed, mi))
	}
	if len(acc) > 0 && mi < len(msgs) && !bytes.HasPrefix(msgs[mi], acc) {
		return nil, mk("content", fmt.Sprintf("partial frames of unfinished message %d are not a prefix of what was written", mi+1))
	}
	if !sr.lenient && !sr.strict {
		// harness / model consistency
		for i := 0; i < sr.completed && i < len(sc.Sent); i++ {
			if len(msgs[i]) != sc.Sent[i] {
				return nil, &Diff{Broken: true, Detail: fmt.Sprintf("message %d: harness wrote %d bytes, model says %d", i+1, len(msgs[i]), sc.Sent[i])}
			}
		}
		if len(p.plains) == len(sc.Wire) {
			same := true
			for i := range p.plains {
				if len(p.plains[i]) != sc.Wire[i].Plen || p.wlens[i] != sc.Wire[i].Wlen || int(p.ends[i]) != sc.Wire[i].End {
					same = false
				}
			}
			if same {
				stt.ModelCutsMatch++
			}
		}
	}
	return p, nil
}

// ---------------------------------------------------------------------------
// receivers

// program returns the receive calls to perform. When the real sender and the
// model agree these are the model's calls; otherwise each message the real
// sender finished is read whole through the scenario's receive API.
func program(sc *Scenario, sr *sendResult, msgs [][]byte) []Call {
	if sr == nil || (!sr.lenient && !sr.strict) {
		var out []Call
		for _, c := range sc.Hist {
			if !isSender(c.A) {
				out = append(out, c)
			}
		}
		return out
	}
	var out []Call
	for i := 0; i < sr.completed; i++ {
		var whole []Seg
		if len(msgs[i]) > 0 {
			whole = []Seg{{Msg: i + 1, Off: 0, Len: len(msgs[i])}}
		}
		switch sc.Rapi {
		case "complete":
			out = append(out, Call{A: "RecvComplete", OK: true, Ret: whole})
		case "startread":
			out = append(out, Call{A: "StartRead", OK: true})
			if len(msgs[i]) > 0 {
				out = append(out, Call{A: "ReadBytes", K: len(msgs[i]), OK: true, Ret: whole})
			}
			out = append(out, Call{A: "EndRead", OK: true})
		default:
			out = append(out, Call{A: "NewReader", OK: true}, Call{A: "GetRemaining", OK: true, Ret: whole})
		}
	}
	return out
}

type rejectInfo struct {
	class string // class of the oversize frame the sender produced, "" if none
}

func runReceiver(sc *Scenario, v Variant, pass string, input []byte, prog []Call, msgs [][]byte, want [][]byte, rj rejectInfo, stt *Stats) *Diff {
	var conn net.Conn
	if v.Dribble > 0 {
		dc := wire.NewDribbleConn("receiver", v.Dribble)
		dc.Feed(input)
		conn = dc
	} else {
		bc := wire.NewBufConn("receiver")
		bc.Feed(input)
		conn = bc
	}
	rs, err := newStream(conn, sc, v)
	if err != nil {
		return &Diff{Broken: true, Detail: "SetSymmetricKey: " + err.Error()}
	}
	mk := func(inv, action, class, detail string) *Diff {
		return &Diff{Invariant: inv, Action: action, Layer: layer(sc.Sapi), Mode: mode(sc.Enc), Class: class, Pass: pass, Detail: detail}
	}
	rejected := func(c Call, err error) *Diff {
		class := "wire<=Max"
		if rj.class != "" {
			class = rj.class
		}
		return mk("AcceptedNeverRejected", "SendFrame/RecvFrame", class,
			fmt.Sprintf("the sender accepted every frame, the receiver's %s failed: %v", c.A, err))
	}
	var rm *message.Message
	var got [][]byte
	var cur []byte
	// What the application holds: every slice a receive call returned is kept
	// exactly as returned (no copy) and compared with the model only after the
	// whole behaviour has been read - later reads must not change earlier results.
	type heldSlice struct {
		call string
		msg  int
		data []byte
		exp  []byte
	}
	var held []heldSlice
	for _, c := range prog {
		stt.RealCalls++
		exp, serr := segBytes(msgs, c.Ret)
		if serr != nil {
			return &Diff{Broken: true, Detail: serr.Error()}
		}
		if !c.OK {
			return &Diff{Broken: true, Detail: "model behaviour contains a receiver error"}
		}
		switch c.A {
		case "RecvComplete":
			data, err := rs.ReceiveCompleteMessage(bg)
			if err != nil {
				return rejected(c, err)
			}
			if !bytes.Equal(data, exp) {
				return mk("DeliveredIsPrefixOfSent", c.A, "content", "ReceiveCompleteMessage returned other bytes than were sent: "+diffAt(data, exp))
			}
			held = append(held, heldSlice{c.A, len(got), data, exp})
			got = append(got, nil)
		case "StartRead":
			if err := rs.StartMessageRead(bg); err != nil {
				return rejected(c, err)
			}
			cur = nil
		case "ReadBytes":
			buf := make([]byte, c.K)
			n, err := rs.ReadMessageBytes(bg, buf)
			if err != nil {
				return rejected(c, err)
			}
			if n != c.K || !bytes.Equal(buf[:n], exp) {
				return mk("DeliveredIsPrefixOfSent", c.A, "content", fmt.Sprintf("ReadMessageBytes(%d) returned %d bytes: %s", c.K, n, diffAt(buf[:n], exp)))
			}
			cur = append(cur, buf[:n]...)
		case "EndRead":
			if err := rs.EndMessageRead(); err != nil {
				return mk("DeliveredIsPrefixOfSent", c.A, "boundary", "EndMessageRead after reading the whole message: "+err.Error())
			}
			got = append(got, cur)
			cur = nil
		case "NewReader":
			rm = message.NewMessageFromStream(rs)
			cur = nil
		case "GetBytes":
			data, err := rm.GetBytes(bg, c.K)
			if err != nil {
				return rejected(c, err)
			}
			if !bytes.Equal(data, exp) {
				return mk("DeliveredIsPrefixOfSent", c.A, "content", fmt.Sprintf("GetBytes(%d): %s", c.K, diffAt(data, exp)))
			}
			held = append(held, heldSlice{c.A, len(got), data, exp}) // kept as returned, no copy
		case "GetRemaining":
			data, err := rm.GetRemainingBytes(bg)
			if err != nil {
				return rejected(c, err)
			}
			if !bytes.Equal(data, exp) {
				return mk("DeliveredIsPrefixOfSent", c.A, "content", "GetRemainingBytes: "+diffAt(data, exp))
			}
			held = append(held, heldSlice{c.A, len(got), data, exp})
			got = append(got, nil) // assembled from the retained slices after the whole behaviour
		default:
			return &Diff{Broken: true, Detail: "unknown receiver call " + c.A}
		}
	}
	// NoSpuriousMessage: nothing more may be delivered
	stt.RealCalls++
	switch sc.Rapi {
	case "complete":
		if data, err := rs.ReceiveCompleteMessage(bg); err == nil {
			return mk("NoSpuriousMessage", "RecvComplete", "extra", fmt.Sprintf("a further message of %d bytes was delivered that the sender never finished", len(data)))
		}
	case "startread":
		if err := rs.StartMessageRead(bg); err == nil {
			return mk("NoSpuriousMessage", "StartRead", "extra", "a further message was started that the sender never finished")
		}
	default:
		if data, err := message.NewMessageFromStream(rs).GetRemainingBytes(bg); err == nil {
			return mk("NoSpuriousMessage", "GetRemaining", "extra", fmt.Sprintf("a further message of %d bytes was delivered that the sender never finished", len(data)))
		}
	}
	// the application still holds what it was given
	for _, h := range held {
		if !bytes.Equal(h.data, h.exp) {
			return mk("DeliveredIsPrefixOfSent", h.call, "changed-after-later-read",
				fmt.Sprintf("a value of message %d returned by %s was correct when returned and differs after later reads on the same stream: %s", h.msg+1, h.call, diffAt(h.data, h.exp)))
		}
		got[h.msg] = append(got[h.msg], h.data...)
	}
	// boundaries: exactly the expected messages, in order
	if len(got) != len(want) {
		return mk("DeliveredIsPrefixOfSent", "Receiver:"+sc.Rapi, "boundary", fmt.Sprintf("delivered %d messages, expected %d", len(got), len(want)))
	}
	for i := range got {
		if !bytes.Equal(got[i], want[i]) {
			return mk("DeliveredIsPrefixOfSent", "Receiver:"+sc.Rapi, "boundary", fmt.Sprintf("message %d: %s", i+1, diffAt(got[i], want[i])))
		}
		stt.MessagesChecked++
	}
	return nil
}

func wantFromModel(sc *Scenario, msgs [][]byte) ([][]byte, error) {
	var want [][]byte
	for _, d := range sc.Delivered {
		b, err := segBytes(msgs, d)
		if err != nil {
			return nil, err
		}
		want = append(want, b)
	}
	return want, nil
}

// refWire builds exactly the model's frames with the reference codec.
func refWire(sc *Scenario, v Variant, msgs [][]byte, stt *Stats) ([]byte, *Diff) {
	var sl *refcodec.Sealer
	if sc.Enc {
		var iv [16]byte
		fill(iv[:], uint64(v.Salt)+991)
		sl = refcodec.NewSealer(key(v), iv, [32]byte{}, [32]byte{})
	}
	var out []byte
	for i, f := range sc.Wire {
		plain, err := segBytes(msgs, []Seg{{Msg: f.Msg, Off: f.Off, Len: f.Plen}})
		if err != nil {
			return nil, &Diff{Broken: true, Detail: err.Error()}
		}
		var fr refcodec.Frame
		if sc.Enc {
			fr = sl.Seal(byte(f.End), plain)
		} else {
			fr = refcodec.Frame{End: byte(f.End), Body: plain}
		}
		if len(fr.Body) != f.Wlen {
			return nil, &Diff{Broken: true, Detail: fmt.Sprintf("frame %d: reference codec wire length %d, model WireLen %d", i, len(fr.Body), f.Wlen)}
		}
		out = append(out, fr.Encode()...)
		stt.RefFramesFed++
	}
	return out, nil
}

// Run replays one behaviour. nil = the real code conforms.
//
// The verdict is what the statement of C01 entails: the typed layer accepts any
// length, and what one REAL endpoint sends a REAL endpoint receives (pass C,
// compared with the model's predictions on both ends). Passes A and B compare
// each real side with the independent reference codec; a difference there that
// does not show between two real endpoints is a deviation from the reference
// wire format (both sides changed alike) - outside C01, counted and noted, not
// a violation. When pass C differs, A and B tell which side is at fault.
func Run(sc *Scenario, v Variant, stt *Stats) *Diff {
	if sc.RecvErr {
		return &Diff{Broken: true, Detail: "model behaviour with receiver error"}
	}
	writes, msgs := plan(sc, v)

	// pass B: reference -> real receiver (depends on the model only)
	wantModel, err := wantFromModel(sc, msgs)
	if err != nil {
		return &Diff{Broken: true, Detail: err.Error()}
	}
	refRaw, d := refWire(sc, v, msgs, stt)
	if d != nil {
		return d
	}
	dB := runReceiver(sc, v, "B", refRaw, program(sc, nil, msgs), msgs, wantModel, rejectInfo{}, stt)
	if dB != nil && dB.Broken {
		return dB
	}

	// pass A: real sender, read by the reference codec
	sr, d := runSender(sc, v, writes, stt)
	if d != nil {
		return d // TypedLayerTotal, observed on the real sender
	}
	if sr.strict {
		stt.SenderStricter++
	}
	p, dA := passA(sc, v, sr, msgs, stt)
	if dA != nil && dA.Broken {
		return dA
	}

	// pass C: real -> real
	want := wantModel
	if sr.lenient || sr.strict {
		want = nil
		for i := 0; i < sr.completed; i++ {
			want = append(want, msgs[i])
		}
	}
	rj := rejectInfo{}
	if p != nil && p.oversize >= 0 {
		rj.class = p.overClass
	}
	if dC := runReceiver(sc, v, "C", sr.raw, program(sc, sr, msgs), msgs, want, rj, stt); dC != nil {
		switch {
		case dC.Broken:
		case dA != nil:
			dC.Detail += "; sender side: " + dA.Detail
		case dB != nil:
			dC.Detail += "; receiver side (reference-built frames): " + dB.Detail
		}
		return dC
	}
	if dA != nil || dB != nil {
		stt.FormatDeviations++
		return nil
	}
	if sr.lenient {
		stt.SenderLenient++
	}
	return nil
}
