package decreplay

import (
	"bytes"
	"encoding/binary"
	"math"
	"math/rand"
	"strings"

	"cedarverif/internal/refcodec"
)

// Input is a concrete input for one real decoder call.
type Input struct {
	Wire     []byte // bytes the connection delivers (then EOF)
	Prefix   int    // leading bytes of Wire that are the scripted well-formed prefix (handshakes)
	Text     string // text parsers
	Blob     []byte // crypto-state blob
	Arg      int    // GetBytes argument
	Cap      int    // cap handed to a capped reader
	CapBound int64  // bytes of Wire a capped reader may consume at most; -1 = not capped
	Key      []byte // session key (enc mode)
	Attrs    [3]Item
	Size     int // bytes offered
}

var c13Key = []byte("0123456789abcdef0123456789abcdef")

const (
	dcAuthenticate = 60010
	bigNone        = 65536 + 3 // "big" for an uncapped string: crosses every frame threshold
	runFrames      = 5000      // a long run of partial frames
	maxFrame       = refcodec.MaxFrame
)

// op mirrors Decoder!Op.
type op struct {
	o, role string
	cap     int // real cap of a capped string (0 = none); for bytes: limit
}

func opsOf(ep string) []op {
	I := func(role string) op { return op{"int", role, 0} }
	S := func(cap int) op { return op{"str", "", cap} }
	B := func() op { return op{"bytes", "", 0} }
	switch ep {
	case "GetChar":
		return []op{I("char")}
	case "GetInt", "GetInt32", "GetInt64", "GetUint32", "SrvBitmask", "CliBitmaskReply", "SrvSSLStatus", "CliSSLStatus":
		return []op{I("any")}
	case "GetFloat", "GetDouble":
		return []op{I("any"), I("any")}
	case "GetString":
		return []op{S(0)}
	case "GetStringMax":
		return []op{S(64)}
	case "GetBytes":
		return []op{I("arg"), B()}
	case "GetRemaining":
		return []op{{"rest", "", 0}}
	case "SrvClaimToBe":
		return []op{I("flag"), S(1024)}
	case "CliClaimToBeAck":
		return []op{I("flag")}
	case "CliExchangeKey":
		return []op{I("flag"), I("any"), I("any"), I("any"), I("len"), B()}
	case "SrvSSLRecord", "CliSSLRecord":
		return []op{I("any"), I("len"), B()}
	case "SrvTokenStep1":
		return []op{I("flag"), I("len"), S(1024), S(65536), I("len"), B()}
	case "CliTokenStep2":
		return []op{I("flag"), I("len"), S(1024), I("len"), S(1024), I("len"), B()}
	}
	return nil
}

// adCap is the byte budget of a bounded ClassAd reader (0 = unbounded).
func adCap(ep string) int {
	switch ep {
	case "GetClassAdMax":
		return 64
	case "SrvFirst", "CliServerAd":
		return 4096
	}
	return 0
}

func isAd(ep string) bool {
	switch ep {
	case "GetClassAd", "GetClassAdMax", "GetClassAdRaw", "SkipClassAdRaw", "SrvFirst", "CliServerAd":
		return true
	}
	return false
}

func numVal(c string, cap int64) int64 {
	switch c {
	case "minInt":
		return math.MinInt64
	case "neg1":
		return -1
	case "zero":
		return 0
	case "one":
		return 1
	case "capM1":
		return cap - 1
	case "cap", "ok":
		return cap
	case "capP1":
		return cap + 1
	case "i32max":
		return math.MaxInt32
	case "two62":
		return 1 << 62
	}
	return 0
}

func sizeVal(n string, cap int) int {
	if cap == 0 {
		switch n {
		case "big":
			return bigNone
		}
		cap = 64
	}
	big := 64 * cap
	if cap >= 65536 {
		big = 8 * cap
	}
	switch n {
	case "zero", "none":
		return 0
	case "one":
		return 1
	case "small":
		return 6
	case "half":
		return cap/2 + 1
	case "p60": // fits the cap alone, two of them do not
		return cap * 3 / 5
	case "capM1":
		return cap - 1
	case "cap":
		return cap
	case "capP1":
		return cap + 1
	case "big":
		return big
	case "some":
		return 4
	}
	return 0
}

func fill(n int, lead string, b byte) []byte {
	out := make([]byte, n)
	for i := range out {
		out[i] = b
	}
	copy(out, lead)
	return out
}

// strBody renders the body of a string item (without terminator).
func strBody(it Item, cap int) []byte {
	n := sizeVal(it.N, cap)
	switch it.C {
	case "ok":
		if n <= 6 {
			return []byte("A = 1")
		}
		b := fill(n, `A = "`, 'x')
		b[n-1] = '"'
		return b
	case "noeq":
		return []byte("AAAAA")
	case "empty":
		return nil
	case "marker":
		return []byte("ZKM")
	case "type":
		return []byte("Machi")
	case "badtype":
		return []byte(`a="b"`)
	}
	return fill(n, "", 'x')
}

func encodeStr(it Item, cap int, enc bool, cut bool) []byte {
	body := strBody(it, cap)
	term := it.T != "F"
	total := len(body)
	if term {
		total++
	}
	if !enc {
		b := refcodec.C13StrPlain(body, term)
		if cut {
			b = b[:len(b)/2]
		}
		return b
	}
	var pfx int64
	switch it.P {
	case "minInt":
		pfx = math.MinInt64
	case "neg1":
		pfx = -1
	case "zero":
		pfx = 0
	case "short":
		pfx = int64(total - 1)
		if pfx < 0 {
			pfx = 0
		}
	case "over":
		pfx = int64(total + 1)
	case "i32max":
		pfx = math.MaxInt32
	case "two62":
		pfx = 1 << 62
	default:
		pfx = int64(total)
	}
	b := refcodec.C13StrEnc(pfx, body, term)
	if cut { // the prefix stays, half of the body goes
		b = b[:8+total/2]
	}
	return b
}

// progPayload renders the items of a prog-family scenario as the plaintext
// payload of one message and returns the item boundaries.
func progPayload(s *Scn) (payload []byte, bounds []int, arg int) {
	enc := s.Mode == "enc"
	n := len(s.Items)
	emit := func(b []byte) {
		payload = append(payload, b...)
		bounds = append(bounds, len(payload))
	}
	if isAd(s.Ep) {
		cap := adCap(s.Ep)
		// a "rep" item stands for repN units of one kind; "units" is the true count
		items, units := expandReps(s.Items)
		n = len(items)
		lastIsRep := len(s.Items) > 0 && s.Items[len(s.Items)-1].K == "rep"
		for i, it := range items {
			cut := s.Cut && i == n-1 && !lastIsRep
			switch it.K {
			case "int":
				if it.C == "units" {
					emit(refcodec.C13Int(int64(units)))
					continue
				}
				var v int64
				switch it.C {
				case "auth":
					v = dcAuthenticate
				case "other":
					v = dcAuthenticate + 1
				default:
					v = numVal(it.C, 2)
				}
				b := refcodec.C13Int(v)
				if cut {
					b = b[:3]
				}
				emit(b)
			default:
				emit(encodeStr(it, cap, enc, cut))
			}
		}
		return payload, bounds, 0
	}
	ops := opsOf(s.Ep)
	var lastInt int64
	for i, it := range s.Items {
		if i >= len(ops) {
			break
		}
		o := ops[i]
		cut := s.Cut && i == n-1
		switch o.o {
		case "int":
			var v int64
			switch o.role {
			case "char":
				if !cut {
					emit([]byte{'x'})
				} else {
					emit(nil)
				}
				continue
			case "arg":
				arg = int(numVal(it.C, 4))
				lastInt = int64(arg)
				bounds = append(bounds, len(payload))
				continue
			case "flag":
				cont := int64(1)
				if s.Ep == "SrvTokenStep1" || s.Ep == "CliTokenStep2" {
					cont = 0
				}
				switch it.C {
				case "ok":
					v = cont
				case "zero":
					v = 0
				case "one":
					v = 1
				case "neg1":
					v = -1
				}
			case "len":
				if it.C == "ok" {
					v = 4
					if i+1 < n && s.Items[i+1].K == "str" && i+1 < len(ops) {
						v = int64(len(strBody(s.Items[i+1], ops[i+1].cap)))
					}
				} else {
					v = numVal(it.C, 4)
				}
			default: // any
				switch s.Ep {
				case "SrvBitmask", "CliBitmaskReply":
					v = 2
				case "CliExchangeKey":
					v = []int64{1, 32, 3, 0, 0, 0}[i]
				}
			}
			lastInt = v
			b := refcodec.C13Int(v)
			if cut {
				b = b[:3]
			}
			emit(b)
		case "str":
			emit(encodeStr(it, o.cap, enc, cut))
		default: // bytes, rest
			k := 0
			switch it.N {
			case "some":
				k = 4
			case "big":
				k = bigNone
			case "exact":
				k = int(lastInt)
				if lastInt > 512 {
					k = 512
				}
				if lastInt < 0 {
					k = 0
				}
			}
			if cut {
				k /= 2
			}
			emit(fill(k, "", 0xA5))
		}
	}
	return payload, bounds, arg
}

const repN = 16

// expandReps replaces every "rep" item by repN units (marker + secret, or one
// expression) and counts the expression units of the result.
func expandReps(in []Item) (out []Item, units int) {
	for _, it := range in {
		switch {
		case it.K == "rep":
			for k := 0; k < repN; k++ {
				if it.C == "sec" {
					out = append(out, Item{K: "str", C: "marker", N: "small", T: "T", P: it.P})
				}
				out = append(out, Item{K: "str", C: "ok", N: it.N, T: "T", P: it.P})
				units++
			}
		default:
			out = append(out, it)
			if it.K == "str" && it.C != "marker" && it.C != "type" && it.C != "badtype" {
				units++
			}
		}
	}
	return out, units
}

// capNeed is the number of PAYLOAD bytes after which a capped reader must have
// stopped: the cap(s) plus the fixed-width fields around them.
func capNeed(s *Scn) int {
	enc := s.Mode == "enc"
	switch s.Ep {
	case "GetStringMax":
		if enc {
			return 8 + 64
		}
		return 64
	case "GetClassAdMax", "CliServerAd", "SrvFirst":
		c := adCap(s.Ep)
		if enc { // every string costs >= 1 byte of budget and carries an 8-byte prefix
			return 16 + 9*c + 16
		}
		return 16 + c + 16
	}
	// SrvClaimToBe, SrvTokenStep1, CliTokenStep2 read capped strings too, but after
	// a failed method the real endpoint goes on with its retry loop and reads
	// the next message from the same connection, so "bytes taken from the
	// connection by the whole handshake" says nothing about the capped reader
	// (which is bound directly as GetStringMax).
	return -1
}

// capBoundOf returns how many bytes of wire a capped reader may consume: up to
// the end of the frame in which `need` payload bytes (after the prefix) are
// reached -- the message layer reads whole frames. Universal: it is computed
// from the bytes alone, so it applies to mutated inputs as well.
func capBoundOf(wire []byte, prefix int, need int, enc bool, firstSealed bool) int64 {
	if need < 0 {
		return -1
	}
	off := prefix
	got := 0
	first := firstSealed
	for off+refcodec.HeaderSize <= len(wire) {
		n := int(binary.BigEndian.Uint32(wire[off+1 : off+5]))
		if n > maxFrame {
			return int64(off + refcodec.HeaderSize)
		}
		end := off + refcodec.HeaderSize + n
		if end > len(wire) {
			return int64(len(wire))
		}
		pay := n
		if enc {
			pay -= refcodec.TagSize
			if first {
				pay -= refcodec.IVSize
			}
			first = false
			if pay < 0 {
				return int64(end)
			}
		}
		got += pay
		off = end
		if got > need {
			return int64(off)
		}
		if wire[off-n-refcodec.HeaderSize] != 0 { // end of message: a reader never goes past it
			return int64(off)
		}
	}
	return int64(len(wire))
}

func newSealer() *refcodec.Sealer {
	var iv [16]byte
	copy(iv[:], "C13-base-iv-0001")
	return refcodec.NewSealer(c13Key, iv, [32]byte{}, [32]byte{})
}

// frameMessage lays a payload out in frames.
func frameMessage(payload []byte, bounds []int, layout int, enc bool, fin string) []byte {
	fr := &refcodec.C13Framer{}
	if enc {
		fr.Seal = newSealer()
	}
	lastEnd := byte(1)
	if fin == "eof" {
		lastEnd = 0
	}
	var cuts []int
	chunk := maxFrame - 64
	switch layout {
	case 1:
		cuts = bounds
	case 2:
		chunk = 509
	}
	wire, _, _ := fr.Message(payload, cuts, lastEnd, chunk)
	return wire
}

// frameWire renders a frame-family scenario.
func frameWire(s *Scn) []byte {
	enc := s.Mode == "enc"
	var seal *refcodec.Sealer
	if enc {
		seal = newSealer()
	}
	var wire []byte
	for _, it := range s.Items {
		if it.K == "run" {
			for i := 0; i < runFrames; i++ {
				if enc {
					wire = append(wire, seal.Seal(0, nil).Encode()...)
				} else {
					wire = append(wire, refcodec.Frame{End: 0}.Encode()...)
				}
			}
			if it.C == "e1" {
				if enc {
					wire = append(wire, seal.Seal(1, []byte("end")).Encode()...)
				} else {
					wire = append(wire, refcodec.Frame{End: 1, Body: []byte("end")}.Encode()...)
				}
			}
			continue
		}
		end := map[string]byte{"e0": 0, "e1": 1, "e2": 2, "e11": 11, "e255": 255}[it.C]
		ln := map[string]int{"zero": 0, "one": 1, "small": 6, "max": maxFrame, "maxP1": maxFrame + 1}[it.N]
		var frame []byte
		if enc && it.P == "sealed" {
			ovh := refcodec.TagSize
			if seal.Ctr == 0 {
				ovh += refcodec.IVSize
			}
			pay := ln
			if it.N == "max" || it.N == "maxP1" {
				pay = ln - ovh
			}
			frame = seal.Seal(end, fill(pay, "", 'p')).Encode()
		} else {
			frame = refcodec.Frame{End: end, Body: fill(ln, "", 'g')}.Encode()
		}
		body := len(frame) - refcodec.HeaderSize
		switch it.T {
		case "short":
			frame = frame[:refcodec.HeaderSize+body/2]
		case "none":
			frame = frame[:refcodec.HeaderSize]
		case "hdrcut":
			frame = frame[:3]
		}
		wire = append(wire, frame...)
	}
	return wire
}

func passWire(s *Scn) []byte {
	it := s.Items[0]
	ln := map[string]uint32{"zero": 0, "one": 1, "eight": 8, "c64": 64, "c65": 65, "max": maxFrame, "u32max": 0xFFFFFFFF}[it.N]
	supply := int(ln)
	if supply > 4096 {
		supply = 4096
	}
	body := fill(supply, "", 0)
	cmd := int64(76) // SHARED_PORT_PASS_SOCK
	if it.C == "other" {
		cmd = 77
	}
	if supply >= 8 {
		copy(body, refcodec.C13Int(cmd))
	}
	switch it.T {
	case "short":
		body = body[:len(body)/2]
	case "none":
		body = nil
	}
	w := refcodec.C13RawFrame(1, ln, body)
	if it.T == "hdrcut" {
		w = w[:3]
	}
	return w
}

func blobBytes(s *Scn) []byte {
	var b []byte
	stop := false
	for _, it := range s.Items {
		if stop {
			break
		}
		switch it.K {
		case "fix":
			good := refcodec.CryptoBlob{Flags: refcodec.FlagEncrypted | refcodec.FlagFinishedSendAAD | refcodec.FlagFinishedRecvAAD,
				Key: c13Key, EncCtr: 1, DecCtr: 1}.Encode()[:79]
			switch it.C {
			case "ok":
				b = append(b, good...)
			case "badmagic":
				good[0] = 'X'
				b = append(b, good...)
			case "badver":
				good[5] = 9
				b = append(b, good...)
			case "short":
				b = append(b, good[:40]...)
			case "empty":
			}
			if it.C != "ok" {
				stop = true
			}
		case "var":
			n := map[string]int{"zero": 0, "d32": 32, "u16max": 65535}[it.N]
			b = binary.BigEndian.AppendUint16(b, uint16(n))
			if it.T == "short" && n > 0 {
				b = append(b, fill(n/2, "", 7)...)
				stop = true // nothing follows a truncated field
			} else {
				b = append(b, fill(n, "", 7)...)
			}
		}
	}
	if s.Fin == "extra" && !stop && len(s.Items) == 4 {
		b = append(b, "trailer"...)
	}
	return b
}

var long64k = strings.Repeat("A", 65536)

// tokenMembers gives the concrete members of a token class for a parser.
func tokenMembers(ep, c string) []string {
	switch c {
	case "hash":
		return []string{"#"}
	case "lbr":
		return []string{"["}
	case "rbr":
		return []string{"]"}
	case "word":
		return []string{"abc", "Encryption"}
	case "quote":
		return []string{`"`}
	case "sp":
		return []string{" "}
	case "keytag":
		return []string{"SessionKey:", "FamilySessionKey:"}
	case "long":
		return []string{long64k}
	case "attr":
		return []string{`Encryption="YES";`, `A="`, `A=`, `=x;`, `CryptoMethodsList="AES.BLOWFISH";`}
	case "eq":
		return []string{"="}
	case "semi":
		return []string{";"}
	case "angle":
		return []string{"<", ">"}
	case "hostport":
		return []string{"127.0.0.1:9618", "[::1]:9618"}
	case "qm":
		return []string{"?"}
	case "amp":
		return []string{"&", ";"}
	case "param":
		return []string{"sock=abc", "ccbid=1.2.3.4:5#7", "sock=", "ccbid=#", "ccbid=<>#%20", "addrs=1.2.3.4-5+[--1]-6", "noUDP"}
	case "pct":
		return []string{"%41", "%00"}
	case "pctbad":
		return []string{"%zz", "%%", "%g1"} // stay malformed whatever follows
	case "vtag":
		return []string{"$CondorVersion:", "$"}
	case "num":
		return []string{"25", "0"}
	case "dot":
		return []string{"."}
	case "hugenum":
		return []string{"99999999999999999999", "-9223372036854775808"}
	}
	return []string{c}
}

// textOf renders a token sequence; member selects class members (mixed radix).
func textOf(s *Scn, member int) string {
	var sb strings.Builder
	m := member
	for _, it := range s.Items {
		ms := tokenMembers(s.Ep, it.C)
		sb.WriteString(ms[m%len(ms)])
		m /= len(ms)
	}
	return sb.String()
}

// Members is the number of concrete texts a token sequence stands for.
func Members(s *Scn) int {
	if s.Fam != "text" {
		return 1
	}
	n := 1
	for _, it := range s.Items {
		n *= len(tokenMembers(s.Ep, it.C))
		if n > 64 {
			return 64
		}
	}
	return n
}

// ---------------------------------------------------------------------------
// mutation

var hostileInts = []int64{-1, math.MinInt64, math.MaxInt32, 1 << 62, 1 << 32, 0, 1, math.MaxInt64, -2, 1 << 31, 65536}

// mutate applies 1..3 seeded byte-level edits. It never returns more than
// len(b)+64K bytes.
func mutate(b []byte, rng *rand.Rand) []byte {
	out := append([]byte(nil), b...)
	nops := 1 + rng.Intn(3)
	for k := 0; k < nops; k++ {
		if len(out) == 0 {
			out = append(out, byte(rng.Intn(256)))
			continue
		}
		switch rng.Intn(9) {
		case 0: // flip a bit
			i := rng.Intn(len(out))
			out[i] ^= 1 << uint(rng.Intn(8))
		case 1: // set a byte to an edge value
			i := rng.Intn(len(out))
			out[i] = []byte{0, 0xFF, 0x7F, 0x80, 1, 0xAD}[rng.Intn(6)]
		case 2: // overwrite an 8-byte window with a hostile integer
			if len(out) >= 8 {
				i := rng.Intn(len(out) - 7)
				if rng.Intn(2) == 0 {
					i -= i % 8
				}
				binary.BigEndian.PutUint64(out[i:], uint64(hostileInts[rng.Intn(len(hostileInts))]))
			}
		case 3: // truncate
			out = out[:rng.Intn(len(out)+1)]
		case 4: // duplicate a chunk
			i := rng.Intn(len(out))
			n := 1 + rng.Intn(minInt(len(out)-i, 4096))
			chunk := append([]byte(nil), out[i:i+n]...)
			out = append(out[:i+n], append(chunk, out[i+n:]...)...)
		case 5: // delete a chunk
			i := rng.Intn(len(out))
			n := 1 + rng.Intn(minInt(len(out)-i, 64))
			out = append(out[:i], out[i+n:]...)
		case 6: // overwrite a 4-byte window (frame length field sized) with a hostile value
			if len(out) >= 4 {
				i := rng.Intn(len(out) - 3)
				binary.BigEndian.PutUint32(out[i:], []uint32{0, 1, 0xFFFFFFFF, 0x7FFFFFFF, 1 << 20, 1<<20 + 1, 16, 32}[rng.Intn(8)])
			}
		case 7: // insert a few bytes
			i := rng.Intn(len(out) + 1)
			ins := make([]byte, 1+rng.Intn(9))
			for j := range ins {
				ins[j] = []byte{0, '"', '=', '#', '[', ']', 'Z', 0xFF, '%', ';'}[rng.Intn(10)]
			}
			out = append(out[:i], append(ins, out[i:]...)...)
		case 8: // replace a NUL (string terminator)
			st := rng.Intn(len(out))
			if i := bytes.IndexByte(out[st:], 0); i >= 0 {
				out[st+i] = 'N'
			}
		}
	}
	return out
}

func minInt(a, b int) int {
	if a < b {
		return a
	}
	return b
}

// Concretise builds the concrete input of a job.
func Concretise(j *Job) *Input {
	s := &j.B.Scn
	in := &Input{CapBound: -1}
	var rng *rand.Rand
	if j.Mut != 0 {
		rng = rand.New(rand.NewSource(j.Mut))
	}
	enc := s.Mode == "enc"
	if enc {
		in.Key = c13Key
	}
	switch s.Fam {
	case "frame":
		in.Wire = frameWire(s)
		if rng != nil {
			in.Wire = mutate(in.Wire, rng)
		}
	case "pass":
		in.Wire = passWire(s)
		if rng != nil {
			in.Wire = mutate(in.Wire, rng)
		}
	case "typed", "ad", "hs":
		payload, bounds, arg := progPayload(s)
		in.Arg = arg
		wireLevel := false
		if rng != nil {
			// mutate the plaintext payload (a hostile peer that holds the key) or,
			// half of the time on cleartext streams, the framed bytes
			if !enc && rng.Intn(2) == 0 {
				wireLevel = true
			} else {
				payload = mutate(payload, rng)
				if rng.Intn(4) == 0 {
					in.Arg = int(hostileInts[rng.Intn(len(hostileInts))])
				}
			}
		}
		msg := frameMessage(payload, bounds, j.Layout, enc, s.Fin)
		if wireLevel {
			msg = mutate(msg, rng)
		}
		if s.Fam == "hs" {
			pre := hsPrefix(s.Ep)
			in.Prefix = len(pre)
			in.Wire = append(append([]byte(nil), pre...), msg...)
		} else {
			in.Wire = msg
		}
		switch s.Ep {
		case "GetStringMax":
			in.Cap = 64
		case "GetClassAdMax":
			in.Cap = 64
		}
		in.CapBound = capBoundOf(in.Wire, in.Prefix, capNeed(s), enc, true)
	case "blob":
		in.Blob = blobBytes(s)
		if rng != nil {
			in.Blob = mutate(in.Blob, rng)
		}
	case "text":
		in.Text = textOf(s, j.Member)
		if rng != nil {
			in.Text = string(mutate([]byte(in.Text), rng))
		}
	case "watch":
		copy(in.Attrs[:], s.Items)
		if rng != nil {
			in.Text = string(mutate([]byte("QUJDRA=="), rng))
		}
	}
	in.Size = len(in.Wire) + len(in.Text) + len(in.Blob)
	return in
}
