package decreplay

// Handshake message readers (security/auth.go, fs_auth.go, ssl_auth.go,
// token_auth.go) are reached by running the REAL ClientHandshake /
// ServerHandshake against a connection that plays a scripted peer: every
// message of the peer up to the hostile one is well-formed (built with the
// reference codec), then comes the model-generated hostile message, then the
// connection ends. The real endpoint reads frame by frame and never reads
// ahead, so the whole peer byte stream can be supplied up front and the
// replay is single-threaded and deterministic; what the real endpoint writes
// is discarded.

import (
	"context"
	"crypto/hmac"
	"crypto/sha256"
	"encoding/base64"
	"fmt"
	"sync"

	"github.com/bbockelm/cedar/security"
	"github.com/bbockelm/cedar/stream"

	"cedarverif/internal/refcodec"
)

// adMessage renders "count, expressions, MyType, TargetType" as one cleartext
// message (optionally preceded by a command integer).
func adMessage(cmd int64, withCmd bool, exprs ...string) []byte {
	var p []byte
	if withCmd {
		p = append(p, refcodec.C13Int(cmd)...)
	}
	p = append(p, refcodec.C13Int(int64(len(exprs)))...)
	for _, e := range exprs {
		p = append(p, refcodec.C13StrPlain([]byte(e), true)...)
	}
	p = append(p, 0, 0) // empty MyType, TargetType
	return refcodec.Frame{End: 1, Body: p}.Encode()
}

func intMessage(vs ...int64) []byte {
	var p []byte
	for _, v := range vs {
		p = append(p, refcodec.C13Int(v)...)
	}
	return refcodec.Frame{End: 1, Body: p}.Encode()
}

func methodOf(ep string) (name string, bit int64) {
	switch ep {
	case "SrvSSLStatus", "SrvSSLRecord", "CliSSLStatus", "CliSSLRecord":
		return "SSL", 256
	case "SrvTokenStep1", "CliTokenStep2":
		return "TOKEN", 2048
	}
	return "CLAIMTOBE", 2
}

func clientAd(method string) []byte {
	return adMessage(dcAuthenticate, true,
		`AuthMethods = "`+method+`"`,
		`CryptoMethods = "AES"`,
		`Authentication = "REQUIRED"`,
		`Encryption = "NEVER"`,
		`Integrity = "NEVER"`,
		`Command = 60021`,
		`RemoteVersion = "$CondorVersion: 25.4.0 2025-10-31 $"`,
		`NewSession = "YES"`,
		`Enact = "NO"`,
	)
}

func serverAd(method string) []byte {
	return adMessage(0, false,
		`AuthMethods = "`+method+`"`,
		`AuthMethodsList = "`+method+`"`,
		`CryptoMethods = "AES"`,
		`Authentication = "YES"`,
		`Encryption = "NO"`,
		`Integrity = "NO"`,
		`RemoteVersion = "$CondorVersion: 25.4.0 2025-10-31 $"`,
		`Enact = "NO"`,
	)
}

var (
	prefixMu    sync.Mutex
	prefixCache = map[string][]byte{}
)

// hsPrefix is the well-formed part of the peer's byte stream that precedes the
// hostile message of an entry point.
func hsPrefix(ep string) []byte {
	prefixMu.Lock()
	defer prefixMu.Unlock()
	if p, ok := prefixCache[ep]; ok {
		return p
	}
	m, bit := methodOf(ep)
	var p []byte
	switch ep {
	case "SrvFirst", "CliServerAd":
	case "SrvBitmask":
		p = clientAd(m)
	case "SrvClaimToBe", "SrvSSLStatus", "SrvTokenStep1":
		p = append(clientAd(m), intMessage(bit)...)
	case "SrvSSLRecord":
		p = append(append(clientAd(m), intMessage(bit)...), intMessage(0)...)
	case "CliBitmaskReply":
		p = serverAd(m)
	case "CliClaimToBeAck", "CliSSLStatus", "CliTokenStep2":
		p = append(serverAd(m), intMessage(bit)...)
	case "CliExchangeKey":
		p = append(append(serverAd(m), intMessage(bit)...), intMessage(1)...)
	case "CliSSLRecord":
		p = append(append(serverAd(m), intMessage(bit)...), intMessage(0)...)
	}
	prefixCache[ep] = p
	return p
}

// testToken is an HMAC-signed JWT without issuer or expiry; the client side of
// TOKEN authentication only needs something that parses.
func testToken() string {
	enc := base64.RawURLEncoding.EncodeToString
	h := enc([]byte(`{"alg":"HS256","typ":"JWT","kid":"POOL"}`))
	p := enc([]byte(`{"sub":"alice@example.org","iat":1700000000,"jti":"0123456789abcdef"}`))
	mac := hmac.New(sha256.New, []byte("c13-signing-key-c13-signing-key!"))
	mac.Write([]byte(h + "." + p))
	return h + "." + p + "." + enc(mac.Sum(nil))
}

var theToken = testToken()

// runHandshake runs the real handshake of the role the entry point names.
func runHandshake(ep string, conn *feedConn) error {
	s := stream.NewStream(conn)
	m, _ := methodOf(ep)
	cfg := &security.SecurityConfig{
		AuthMethods:    []security.AuthMethod{security.AuthMethod(m)},
		Authentication: security.SecurityRequired,
		CryptoMethods:  []security.CryptoMethod{security.CryptoAES},
		Encryption:     security.SecurityOptional,
		Integrity:      security.SecurityOptional,
		SessionCache:   security.NewSessionCache(),
		Command:        60021,
		PeerName:       "<127.0.0.1:2222>",
		ServerName:     "localhost",
	}
	ctx := context.Background()
	if len(ep) >= 3 && ep[:3] == "Srv" {
		a := security.NewAuthenticator(cfg, s)
		_, err := a.ServerHandshake(ctx)
		return err
	}
	if m == "TOKEN" {
		cfg.Token = theToken
	}
	a := security.NewAuthenticator(cfg, s)
	_, err := a.ClientHandshake(ctx)
	return err
}

func init() {
	// make sure the prefixes are the lengths the cap oracle assumes
	for _, ep := range []string{"SrvBitmask", "CliBitmaskReply"} {
		if len(hsPrefix(ep)) == 0 {
			panic(fmt.Sprintf("empty prefix for %s", ep))
		}
	}
}
