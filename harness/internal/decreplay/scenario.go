// Package decreplay binds spec/Decoder.tla to the real decoders of cedar
// (property C13): TLC prints scenarios (entry point, mode, a short sequence of
// wire items whose fields are hostile classes, and the verdict class the
// model's defensive decoder obliges); this package concretises a scenario with
// the reference codec, runs the REAL decoder under recover / a time limit / a
// counting connection / allocation accounting / a stack-depth probe and
// compares with the model's obligations:
//
//	NoPanic      no panic, no fatal runtime error
//	Bounded      time <= limit, allocation <= a*received + b, stack depth <= d
//	CapHonoured  capped readers stop consuming at the end of the frame in
//	             which the cap (plus fixed-width slack) is reached
//	must-error / cap-exceeded-must-stop   the call returns an error
//
// The invariant is universal, so seeded byte-level mutations of every
// model-generated input are checked against the same oracle (without the
// must-error obligation, which is tied to the abstract class).
package decreplay

import (
	"encoding/json"
	"fmt"
	"strings"
)

// Item is one wire item of Decoder.tla (uniform record shape).
type Item struct {
	K string `json:"k"`
	C string `json:"c"`
	N string `json:"n"`
	T string `json:"t"`
	P string `json:"p"`
}

// Scn is the scenario chosen in Decoder!Init.
type Scn struct {
	Fam   string `json:"fam"`
	Ep    string `json:"ep"`
	Mode  string `json:"mode"`
	Items []Item `json:"items"`
	Fin   string `json:"fin"`
	Cut   bool   `json:"cut"`
}

// Behaviour is one line printed by Gen_Decoder!EmitScn.
type Behaviour struct {
	Scn     Scn             `json:"scn"`
	Verdict string          `json:"verdict"` // must-error | may-succeed | cap-exceeded-must-stop
	Model   json.RawMessage `json:"model,omitempty"`
}

// Job is one concrete execution: a behaviour, how it is laid out in frames,
// which member of an abstract class is used, and an optional byte mutation.
type Job struct {
	ID     int       `json:"id"`
	B      Behaviour `json:"b"`
	Layout int       `json:"layout"` // 0 one frame, 1 a frame per item, 2 small fixed-size frames
	Member int       `json:"member"` // member of a token class (text family)
	Mut    int64     `json:"mut"`    // 0 = the model-generated input itself, else mutation seed
}

// Result is what a worker reports for a job.
type Result struct {
	ID       int      `json:"id"`
	Skip     bool     `json:"skip,omitempty"`
	Kinds    []string `json:"kinds,omitempty"` // violated obligations (empty = conforms)
	Detail   string   `json:"detail,omitempty"`
	Err      string   `json:"err,omitempty"` // error text returned by the real decoder ("" = value)
	Panic    string   `json:"panic,omitempty"`
	Received int64    `json:"received"`
	Consumed int64    `json:"consumed"`
	CapBound int64    `json:"capBound,omitempty"`
	Alloc    int64    `json:"alloc"`
	Depth    int      `json:"depth"`
	Micros   int64    `json:"micros"`
	Input    int      `json:"input"` // bytes offered to the decoder
	Flaky    bool     `json:"flaky,omitempty"`
	Noise    string   `json:"noise,omitempty"` // a non-repeating time-limit hit (set by the parent)
	Fatal    string   `json:"fatal,omitempty"` // worker died / timed out: set by the parent
}

// Violation kinds.
const (
	KPanic     = "panic"
	KSpin      = "spin"      // did not return within the time limit
	KAlloc     = "alloc"     // allocation out of proportion to the bytes received
	KRecursion = "recursion" // stack depth grows with the input
	KCap       = "cap"       // consumed past the cap
	KNoError   = "no-error"  // malformed / over-cap input accepted
	KCrash     = "crash"     // fatal runtime error (stack overflow, out of memory)
)

func (it Item) label() string {
	switch it.K {
	case "int":
		return "int:" + it.C
	case "str":
		s := "str:" + it.C + ":" + it.N
		if it.T == "F" {
			s += ":unterminated"
		}
		if it.P != "-" && it.P != "match" && it.P != "" {
			s = "strlen:" + it.P
		}
		return s
	case "bytes":
		return "bytes:" + it.N
	case "frame":
		s := "frame:" + it.C + ":len=" + it.N + ":" + it.T
		if it.P != "-" {
			s += ":" + it.P
		}
		return s
	case "run":
		return "run:" + it.C
	case "rep":
		return it.C + "*16"
	case "pass":
		return "pass:" + it.C + ":len=" + it.N + ":" + it.T
	case "fix":
		return "fix:" + it.C
	case "var":
		return "var:" + it.N + ":" + it.T
	case "tok", "attr":
		return it.C
	}
	return it.K + ":" + it.C
}

// HostileClass is the stable abstract description of what is hostile in a
// scenario: the class of its most hostile item (a negative or huge length or
// count, an over-long value, a secret after the marker, ...), or of its last
// item if nothing stands out. How the input ends (cut, end of message or end of
// connection) is part of the scenario but not of the class. It never contains
// a seed or an offset.
func (s *Scn) HostileClass() string { return s.HostileClassFor("") }

// HostileClassFor names the class with the violated obligation in mind: a cap
// violation is about the over-long value, a spin / runaway allocation about the
// count or length that drives the loop.
func (s *Scn) HostileClassFor(kind string) string {
	n := len(s.Items)
	switch s.Fam {
	case "text", "watch":
		var l []string
		for _, it := range s.Items {
			l = append(l, it.label())
		}
		return strings.Join(l, " ")
	}
	if n == 0 {
		return "empty:" + s.Fin
	}
	if s.Fam != "typed" && s.Fam != "ad" && s.Fam != "hs" {
		return s.Items[n-1].label()
	}
	isAdEp := s.Fam == "ad" || s.Ep == "SrvFirst" || s.Ep == "CliServerAd"
	// budget accumulation: units of 0.6 x cap that fit one by one but not together
	hasSec, hasOrd, hasRep := false, false, false
	for i, it := range s.Items {
		switch {
		case it.K == "rep":
			hasRep = true
			if it.C == "sec" {
				hasSec = true
			} else {
				hasOrd = true
			}
		case it.K == "str" && it.N == "p60":
			if i > 0 && s.Items[i-1].K == "str" && s.Items[i-1].C == "marker" {
				hasSec = true
			} else {
				hasOrd = true
			}
		}
	}
	if hasSec || hasOrd {
		lab := "accum:"
		switch {
		case hasSec && hasOrd:
			lab += "secrets+expressions"
		case hasSec:
			lab += "secrets"
		default:
			lab += "expressions"
		}
		if hasRep {
			lab += "*16"
		}
		return lab
	}
	best, bestRank := "", 0
	sizeBonus, numBonus := 0, 0
	switch kind {
	case KCap:
		sizeBonus = 5
	case KSpin, KAlloc, KCrash:
		numBonus = 5
	}
	consider := func(rank int, lab string) {
		if rank >= bestRank && rank > 0 {
			best, bestRank = lab, rank
		}
	}
	hostileNum := func(c string) bool {
		return c == "i32max" || c == "two62" || c == "neg1" || c == "minInt"
	}
	for i, it := range s.Items {
		switch it.K {
		case "str":
			afterMarker := i > 0 && s.Items[i-1].K == "str" && s.Items[i-1].C == "marker" && it.C != "type" && it.C != "badtype"
			switch {
			case it.P == "neg1" || it.P == "minInt":
				consider(10, "strlen:"+it.P)
			case afterMarker && (it.N == "big" || it.P == "i32max" || it.P == "two62" || it.P == "over"):
				consider(9+sizeBonus, "secret:"+it.label())
			case it.P == "i32max" || it.P == "two62" || it.P == "over":
				consider(6, "strlen:"+it.P)
			case it.N == "big" || it.N == "capP1" || it.N == "cap":
				consider(5+sizeBonus, it.label())
			case it.P == "short" || it.P == "zero":
				consider(3, "strlen:"+it.P)
			case it.T == "F":
				consider(2, it.label())
			}
		case "int":
			if hostileNum(it.C) {
				if isAdEp {
					consider(8+numBonus, "count="+it.C)
				} else {
					consider(8+numBonus, "len="+it.C)
				}
			}
		}
	}
	if best != "" {
		return best
	}
	last := s.Items[n-1]
	lab := last.label()
	if last.K == "bytes" && n >= 2 {
		lab = "len=" + s.Items[n-2].C + "," + lab
	}
	if isAdEp {
		for _, it := range s.Items {
			if it.K == "int" && it.C != "auth" && it.C != "other" {
				lab = "count=" + it.C + "," + lab
				break
			}
		}
	}
	return lab
}

// Signature of a failure: spec, entry point, mode, violated obligation,
// hostile class. Mutated inputs are reported under class "mutated".
func Signature(j *Job, kind string) map[string]string {
	cls := j.B.Scn.HostileClassFor(kind)
	if j.Mut != 0 {
		cls = "mutated"
	}
	return map[string]string{"spec": "Decoder", "ep": j.B.Scn.Ep, "mode": j.B.Scn.Mode, "kind": kind, "class": cls}
}

func (j *Job) Key() string {
	b, _ := json.Marshal(j.B.Scn)
	return fmt.Sprintf("%s|%d|%d|%d", b, j.Layout, j.Member, j.Mut)
}
