package decreplay

import (
	"bufio"
	"bytes"
	"encoding/json"
	"fmt"
	"io"
	"log/slog"
	"os"
	"os/exec"
	"runtime"
	"runtime/debug"
	"runtime/metrics"
	"strings"
	"sync"
	"sync/atomic"
	"syscall"
	"time"
)

// Bounds of the property, fitted to the measured behaviour of the (repaired)
// tree with a wide margin (see the driver's evidence notes):
//
//	allocation <= AllocA * received + AllocB     bytes (cumulative, runtime TotalAlloc)
//	time       <= TimeLimit                      per input
//	depth      <= DepthLimit                     stack frames at a connection read
const (
	AllocA    = 128
	AllocB    = 16 << 20
	HardAlloc = 768 << 20 // a worker aborts the call beyond this (it would not stop by itself)
)

// TimeLimit per input, in CPU time of the worker process (a decoder that spins
// burns CPU; wall-clock time would depend on how busy the machine is). WallLimit
// catches a decoder that blocks instead.
var TimeLimit = 1 * time.Second

const WallLimit = 40 * time.Second

func cpuTime() time.Duration {
	var ru syscall.Rusage
	if err := syscall.Getrusage(syscall.RUSAGE_SELF, &ru); err != nil {
		return 0
	}
	return time.Duration(ru.Utime.Nano() + ru.Stime.Nano())
}

// threadCPU is the CPU time the kernel has accounted to one thread of this
// process (first field of /proc/self/task/<tid>/schedstat, nanoseconds); -1 if
// it cannot be read. The measured call runs on a locked OS thread, so this is
// the decoder's own CPU time, without the garbage collector or the watchdog.
func threadCPU(tid int32) time.Duration {
	b, err := os.ReadFile(fmt.Sprintf("/proc/self/task/%d/schedstat", tid))
	if err != nil {
		return -1
	}
	var ns int64
	if _, err := fmt.Sscan(string(b), &ns); err != nil {
		return -1
	}
	return time.Duration(ns)
}

const (
	envWorker = "CEDARVERIF_C13_WORKER"
	envTmp    = "CEDARVERIF_C13_TMP"
)

// IsWorker reports whether this process was started as a decoder worker.
func IsWorker() bool { return os.Getenv(envWorker) == "1" }

type measured struct {
	out     outcome
	panicV  string
	timeout bool
	alloc   int64
	micros  int64
}

var allocSample = []metrics.Sample{{Name: "/gc/heap/allocs:bytes"}}

func totalAlloc() int64 {
	metrics.Read(allocSample)
	return int64(allocSample[0].Value.Uint64())
}

// measure runs the real decoder once under recover and the time limit.
func measure(j *Job, in *Input, tmp string, abort func(kind, detail string)) measured {
	var m measured
	done := make(chan struct{})
	var ms0, ms1 runtime.MemStats
	runtime.ReadMemStats(&ms0)
	base := totalAlloc()
	t0 := time.Now()
	cpu0 := cpuTime()
	var tid int32
	var thr0 time.Duration = -1
	started := make(chan struct{})
	go func() {
		defer close(done)
		runtime.LockOSThread()
		defer runtime.UnlockOSThread()
		tid = int32(syscall.Gettid())
		thr0 = threadCPU(tid)
		close(started)
		defer func() {
			if r := recover(); r != nil {
				m.panicV = fmt.Sprint(r)
				if strings.HasPrefix(m.panicV, "harness:") {
					m.panicV = "HARNESS " + m.panicV
				}
			}
		}()
		m.out = execute(j, in, tmp)
	}()
	<-started
	timer := time.NewTimer(WallLimit)
	tick := time.NewTicker(5 * time.Millisecond)
	nTick := 0
	defer tick.Stop()
	defer timer.Stop()
loop:
	for {
		select {
		case <-done:
			break loop
		case <-timer.C:
			m.timeout = true
			break loop
		case <-tick.C:
			nTick++
			if nTick%8 == 0 {
				if thr0 >= 0 {
					if now := threadCPU(tid); now >= 0 && now-thr0 > TimeLimit {
						m.timeout = true
						break loop
					}
				}
				// whole-process CPU as a backstop (decoder work on other goroutines)
				if cpuTime()-cpu0 > 6*TimeLimit {
					m.timeout = true
					break loop
				}
			}
			if a := totalAlloc() - base; a > HardAlloc {
				m.alloc = a
				abort(KAlloc, fmt.Sprintf("allocated %d bytes and still running after %s (input %d bytes)", a, time.Since(t0).Round(time.Millisecond), in.Size))
			}
		}
	}
	m.micros = time.Since(t0).Microseconds()
	if m.timeout {
		m.alloc = totalAlloc() - base
		return m
	}
	runtime.ReadMemStats(&ms1)
	m.alloc = int64(ms1.TotalAlloc - ms0.TotalAlloc)
	return m
}

// judge compares one measured run with the obligations of the model.
func judge(j *Job, in *Input, m *measured) *Result {
	r := &Result{ID: j.ID, Received: m.out.received, Consumed: m.out.received, Alloc: m.alloc,
		Depth: m.out.depth, Micros: m.micros, Input: in.Size, CapBound: in.CapBound}
	if m.out.err != nil {
		r.Err = m.out.err.Error()
		if len(r.Err) > 300 {
			r.Err = r.Err[:300]
		}
		if r.Err == "" {
			r.Err = "(error with empty text)"
		}
	}
	add := func(kind, detail string) {
		r.Kinds = append(r.Kinds, kind)
		if r.Detail != "" {
			r.Detail += "; "
		}
		r.Detail += detail
	}
	if m.panicV != "" {
		r.Panic = m.panicV
		add(KPanic, "panic: "+m.panicV)
		return r
	}
	if m.timeout {
		add(KSpin, fmt.Sprintf("still running after %s of CPU time on %d input bytes (allocated %d so far)", TimeLimit, in.Size, m.alloc))
		return r
	}
	recv := m.out.received
	if lim := int64(AllocA)*recv + AllocB; m.alloc > lim {
		add(KAlloc, fmt.Sprintf("allocated %d bytes for %d bytes received (bound %d*received+%d = %d)", m.alloc, recv, AllocA, AllocB, lim))
	}
	if m.out.depth > DepthLimit {
		add(KRecursion, fmt.Sprintf("stack depth %d+ frames at a connection read (bound %d); input %d bytes", m.out.depth, DepthLimit, in.Size))
	}
	capped := in.CapBound >= 0 && !(j.Mut != 0 && j.B.Scn.Fam == "hs")
	if capped && recv > in.CapBound {
		add(KCap, fmt.Sprintf("capped reader consumed %d bytes, may consume at most %d (cap reached inside that frame); offered %d", recv, in.CapBound, len(in.Wire)))
	}
	if j.Mut == 0 && m.out.err == nil {
		switch j.B.Verdict {
		case "must-error":
			add(KNoError, "malformed input accepted without error")
		case "cap-exceeded-must-stop":
			add(KNoError, "input exceeding the cap accepted without error")
		}
	}
	return r
}

// sameViolation: a difference is reproduced if the second run violates the same
// obligations, or if both runs exhaust a resource (an input near a limit may
// be stopped by the time limit once and by the allocation bound the next time).
func sameViolation(a, b []string) bool {
	if strings.Join(a, ",") == strings.Join(b, ",") {
		return true
	}
	res := func(l []string) bool {
		if len(l) == 0 {
			return false
		}
		for _, k := range l {
			if k != KSpin && k != KAlloc && k != KCrash {
				return false
			}
		}
		return true
	}
	return res(a) && res(b)
}

// WorkerMain is the body of a worker process: jobs (JSON lines) on stdin,
// results (JSON lines) on fd 3. A call that does not return, or allocates
// beyond HardAlloc, is reported and the process exits (the goroutine cannot be
// stopped); the parent starts a new worker.
func WorkerMain() {
	slog.SetDefault(slog.New(slog.NewTextHandler(io.Discard, nil)))
	debug.SetMaxStack(256 << 20)
	if v := os.Getenv("CEDARVERIF_C13_LIMIT_MS"); v != "" {
		var ms int
		fmt.Sscan(v, &ms)
		if ms > 0 {
			TimeLimit = time.Duration(ms) * time.Millisecond
		}
	}
	tmp := os.Getenv(envTmp)
	out := os.NewFile(3, "results")
	if out == nil {
		os.Exit(4)
	}
	w := bufio.NewWriter(out)
	var wmu sync.Mutex
	emit := func(r *Result) {
		wmu.Lock()
		defer wmu.Unlock()
		b, _ := json.Marshal(r)
		w.Write(b)
		w.WriteByte('\n')
		w.Flush()
	}
	// stdout is not ours: the code under test prints to it
	if devnull, err := os.OpenFile(os.DevNull, os.O_WRONLY, 0); err == nil {
		os.Stdout = devnull
	}
	sc := bufio.NewScanner(os.Stdin)
	sc.Buffer(make([]byte, 1<<20), 1<<26)
	for sc.Scan() {
		var j Job
		if err := json.Unmarshal(sc.Bytes(), &j); err != nil {
			emit(&Result{ID: -1, Fatal: "bad job: " + err.Error()})
			os.Exit(5)
		}
		cur := &j
		abort := func(kind, detail string) {
			emit(&Result{ID: cur.ID, Kinds: []string{kind}, Detail: detail, Fatal: "aborted"})
			os.Exit(0)
		}
		in := Concretise(&j)
		m := measure(&j, in, tmp, abort)
		r := judge(&j, in, &m)
		if m.timeout {
			r.Fatal = "timeout"
			emit(r)
			os.Exit(0)
		}
		if len(r.Kinds) > 0 {
			// DESIGN section 5 (ii): a difference counts only if it reproduces at once
			in2 := Concretise(&j)
			m2 := measure(&j, in2, tmp, abort)
			r2 := judge(&j, in2, &m2)
			if m2.timeout {
				r2.Fatal = "timeout"
				emit(r2)
				os.Exit(0)
			}
			if !sameViolation(r.Kinds, r2.Kinds) {
				if len(r2.Kinds) == 0 && len(r.Kinds) == 1 && r.Kinds[0] == KAlloc {
					// an allocation within a few KB of the bound: the third run decides
					in3 := Concretise(&j)
					m3 := measure(&j, in3, tmp, abort)
					r3 := judge(&j, in3, &m3)
					if len(r3.Kinds) == 0 && !m3.timeout {
						r3.Noise = "allocation bound exceeded once in three runs (" + r.Detail + "); ignored"
						r = r3
					}
				} else {
					r.Flaky = true
					r.Detail = fmt.Sprintf("first run: %v (%s); second run: %v (%s)", r.Kinds, r.Detail, r2.Kinds, r2.Detail)
				}
			}
		}
		emit(r)
	}
	os.Exit(0)
}

// ---------------------------------------------------------------------------
// parent side

type child struct {
	cmd    *exec.Cmd
	stdin  io.WriteCloser
	res    *bufio.Reader
	resF   *os.File
	stderr *tailBuf
	lines  chan []byte
}

type tailBuf struct {
	mu sync.Mutex
	b  []byte
}

func (t *tailBuf) Write(p []byte) (int, error) {
	t.mu.Lock()
	defer t.mu.Unlock()
	t.b = append(t.b, p...)
	if len(t.b) > 1<<16 {
		t.b = t.b[:1<<15] // keep the head: a Go crash report starts with its reason
	}
	return len(p), nil
}
func (t *tailBuf) String() string { t.mu.Lock(); defer t.mu.Unlock(); return string(t.b) }

// Pool runs jobs on worker processes.
type Pool struct {
	Exe     string
	Args    []string
	Tmp     string
	Workers int
	Spawned int64
	// Skip, if set, is asked before a job is dispatched (used to stop paying the
	// time limit again and again for a class already confirmed to spin).
	Skip    func(j *Job) bool
	Skipped int64
}

func (p *Pool) spawn() (*child, error) {
	pr, pw, err := os.Pipe()
	if err != nil {
		return nil, err
	}
	cmd := exec.Command(p.Exe, p.Args...)
	cmd.Env = append(os.Environ(), envWorker+"=1", envTmp+"="+p.Tmp,
		fmt.Sprintf("CEDARVERIF_C13_LIMIT_MS=%d", TimeLimit.Milliseconds()))
	cmd.ExtraFiles = []*os.File{pw}
	tb := &tailBuf{}
	cmd.Stderr = tb
	cmd.Stdout = nil
	stdin, err := cmd.StdinPipe()
	if err != nil {
		return nil, err
	}
	if err := cmd.Start(); err != nil {
		return nil, err
	}
	pw.Close()
	atomic.AddInt64(&p.Spawned, 1)
	c := &child{cmd: cmd, stdin: stdin, resF: pr, stderr: tb, lines: make(chan []byte, 4)}
	go func() {
		rd := bufio.NewReaderSize(pr, 1<<16)
		for {
			line, err := rd.ReadBytes('\n')
			if len(line) > 0 {
				c.lines <- line
			}
			if err != nil {
				close(c.lines)
				return
			}
		}
	}()
	return c, nil
}

func (c *child) kill() {
	_ = c.stdin.Close()
	_ = c.cmd.Process.Kill()
	_, _ = c.cmd.Process.Wait()
	_ = c.resF.Close()
}

// fatalReason extracts the reason of a Go runtime crash from stderr.
func fatalReason(stderr string) string {
	for _, l := range strings.Split(stderr, "\n") {
		l = strings.TrimSpace(l)
		if strings.HasPrefix(l, "fatal error:") || strings.HasPrefix(l, "runtime: goroutine stack exceeds") ||
			strings.HasPrefix(l, "panic:") || strings.HasPrefix(l, "runtime: out of memory") {
			return l
		}
	}
	if len(stderr) > 200 {
		return stderr[:200]
	}
	return stderr
}

// one sends a job to a child and waits for its result. ok=false: the child is gone.
func (p *Pool) one(c *child, j *Job) (r *Result, alive bool) {
	b, _ := json.Marshal(j)
	b = append(b, '\n')
	if _, err := c.stdin.Write(b); err != nil {
		return &Result{ID: j.ID, Fatal: "crash", Kinds: []string{KCrash}, Detail: "worker gone before the job: " + fatalReason(c.stderr.String())}, false
	}
	hard := time.NewTimer(3 * WallLimit)
	defer hard.Stop()
	select {
	case line, ok := <-c.lines:
		if !ok {
			_, _ = c.cmd.Process.Wait()
			time.Sleep(5 * time.Millisecond)
			return &Result{ID: j.ID, Fatal: "crash", Kinds: []string{KCrash},
				Detail: "worker process died: " + fatalReason(c.stderr.String())}, false
		}
		var res Result
		if err := json.Unmarshal(bytes.TrimSpace(line), &res); err != nil {
			return &Result{ID: j.ID, Fatal: "protocol", Detail: "bad result line: " + err.Error()}, false
		}
		if res.Fatal != "" {
			return &res, false // the worker exits after reporting
		}
		return &res, true
	case <-hard.C:
		return &Result{ID: j.ID, Fatal: "hang", Kinds: []string{KSpin}, Detail: "worker did not answer (measured goroutine and watchdog both stuck)"}, false
	}
}

// Run executes all jobs and calls sink for every result (concurrently).
// A job that kills its worker (time limit, runaway allocation, fatal runtime
// error) is run a second time on a fresh worker; it counts only if the second
// run ends the same way (otherwise Flaky is set).
func (p *Pool) Run(jobs []*Job, sink func(j *Job, r *Result)) error {
	if p.Workers < 1 {
		p.Workers = 1
	}
	next := int64(-1)
	var wg sync.WaitGroup
	var firstErr atomic.Value
	for w := 0; w < p.Workers; w++ {
		wg.Add(1)
		go func() {
			defer wg.Done()
			var c *child
			defer func() {
				if c != nil {
					c.kill()
				}
			}()
			get := func() *child {
				if c == nil {
					nc, err := p.spawn()
					if err != nil {
						firstErr.Store(err)
						return nil
					}
					c = nc
				}
				return c
			}
			for {
				i := int(atomic.AddInt64(&next, 1))
				if i >= len(jobs) {
					return
				}
				j := jobs[i]
				if p.Skip != nil && p.Skip(j) {
					atomic.AddInt64(&p.Skipped, 1)
					continue
				}
				cc := get()
				if cc == nil {
					return
				}
				r, alive := p.one(cc, j)
				if !alive {
					c.kill()
					c = nil
				}
				if r.Fatal != "" && r.Fatal != "protocol" {
					// confirm on a fresh worker
					cc = get()
					if cc == nil {
						return
					}
					r2, alive2 := p.one(cc, j)
					if !alive2 {
						c.kill()
						c = nil
					}
					if !sameViolation(r.Kinds, r2.Kinds) {
						if len(r2.Kinds) == 0 && len(r.Kinds) == 1 && r.Kinds[0] == KSpin {
							// a time-limit hit that does not repeat: the third run decides
							// between a decoder near the limit and a busy machine
							cc = get()
							if cc == nil {
								return
							}
							r3, alive3 := p.one(cc, j)
							if !alive3 {
								c.kill()
								c = nil
							}
							if len(r3.Kinds) == 0 {
								r3.Noise = "time limit hit once in three runs (" + r.Detail + "); ignored"
								r = r3
							}
						} else {
							r.Flaky = true
							r.Detail = fmt.Sprintf("first run: %v %s; second run: %v %s", r.Kinds, r.Detail, r2.Kinds, r2.Detail)
						}
					}
				}
				sink(j, r)
			}
		}()
	}
	wg.Wait()
	if e := firstErr.Load(); e != nil {
		return e.(error)
	}
	return nil
}
