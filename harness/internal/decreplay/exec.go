package decreplay

import (
	"context"
	"errors"
	"fmt"
	"io"
	"math"
	"net"
	"os"
	"path/filepath"
	"runtime"
	"strings"
	"sync"
	"time"

	"github.com/PelicanPlatform/classad/classad"
	"github.com/bbockelm/cedar/addresses"
	"github.com/bbockelm/cedar/client/sharedport"
	"github.com/bbockelm/cedar/message"
	"github.com/bbockelm/cedar/security"
	"github.com/bbockelm/cedar/stream"
	"github.com/bbockelm/cedar/version"
	"github.com/bbockelm/cedar/watch"
)

// DepthLimit is the stack depth (frames at the time the decoder reads from the
// connection) above which the decoder is considered to recurse with its input.
// The deepest legitimate path (handshake -> crypto/tls -> record shim -> message
// -> stream) is about 40 frames.
const DepthLimit = 200

// feedConn delivers a fixed byte string and then EOF, counts what was taken,
// and records the deepest stack from which it was read.
type feedConn struct {
	data     []byte
	off      int
	maxDepth int
	pcs      []uintptr
	closed   bool
}

func newFeedConn(b []byte) *feedConn { return &feedConn{data: b, pcs: make([]uintptr, 1024)} }

func (c *feedConn) Read(p []byte) (int, error) {
	if c.maxDepth <= DepthLimit {
		if d := runtime.Callers(0, c.pcs); d > c.maxDepth {
			c.maxDepth = d
		}
	}
	if c.closed {
		return 0, net.ErrClosed
	}
	if c.off >= len(c.data) {
		return 0, io.EOF
	}
	n := copy(p, c.data[c.off:])
	c.off += n
	return n, nil
}
func (c *feedConn) Write(p []byte) (int, error)        { return len(p), nil }
func (c *feedConn) Close() error                       { c.closed = true; return nil }
func (c *feedConn) LocalAddr() net.Addr                { return memAddr("127.0.0.1:1111") }
func (c *feedConn) RemoteAddr() net.Addr               { return memAddr("127.0.0.1:2222") }
func (c *feedConn) SetDeadline(t time.Time) error      { return nil }
func (c *feedConn) SetReadDeadline(t time.Time) error  { return nil }
func (c *feedConn) SetWriteDeadline(t time.Time) error { return nil }

type memAddr string

func (a memAddr) Network() string { return "mem" }
func (a memAddr) String() string  { return string(a) }

// outcome of one call of the real decoder.
type outcome struct {
	err      error
	received int64 // bytes the decoder took from its input
	depth    int
	usesConn bool
}

var sockSerial int
var sockMu sync.Mutex

// execute calls the real entry point. It runs on the measured goroutine.
func execute(j *Job, in *Input, tmp string) outcome {
	s := &j.B.Scn
	ctx := context.Background()
	enc := s.Mode == "enc"
	mk := func() (*feedConn, *stream.Stream) {
		c := newFeedConn(in.Wire)
		st := stream.NewStream(c)
		if enc {
			if err := st.SetSymmetricKey(in.Key); err != nil {
				panic("harness: SetSymmetricKey: " + err.Error())
			}
		}
		return c, st
	}
	switch s.Fam {
	case "frame":
		c, st := mk()
		var err error
		switch s.Ep {
		case "ReceiveFrame":
			_, err = st.ReceiveFrame(ctx)
		case "ReceiveFrameWithEnd":
			_, _, err = st.ReceiveFrameWithEnd(ctx)
		case "ReceiveCompleteMessage":
			_, err = st.ReceiveCompleteMessage(ctx)
		case "StartMessageRead":
			err = st.StartMessageRead(ctx)
			if err == nil {
				buf := make([]byte, 4096)
				_, _ = st.ReadMessageBytes(ctx, buf)
			}
		case "GetSecret":
			_, err = st.GetSecret(ctx)
		default:
			panic("harness: unknown frame entry point " + s.Ep)
		}
		return outcome{err: err, received: int64(c.off), depth: c.maxDepth, usesConn: true}
	case "typed", "ad":
		c, st := mk()
		m := message.NewMessageFromStream(st)
		var err error
		switch s.Ep {
		case "GetChar":
			_, err = m.GetChar(ctx)
		case "GetInt":
			_, err = m.GetInt(ctx)
		case "GetInt32":
			_, err = m.GetInt32(ctx)
		case "GetInt64":
			_, err = m.GetInt64(ctx)
		case "GetUint32":
			_, err = m.GetUint32(ctx)
		case "GetFloat":
			_, err = m.GetFloat(ctx)
		case "GetDouble":
			_, err = m.GetDouble(ctx)
		case "GetString":
			_, err = m.GetString(ctx)
		case "GetStringMax":
			_, err = m.GetStringWithMaxSize(ctx, in.Cap)
		case "GetBytes":
			_, err = m.GetBytes(ctx, in.Arg)
		case "GetRemaining":
			_, err = m.GetRemainingBytes(ctx)
		case "GetClassAd":
			_, err = m.GetClassAd(ctx)
		case "GetClassAdMax":
			_, err = m.GetClassAdWithMaxSize(ctx, in.Cap)
		case "GetClassAdRaw":
			_, err = m.GetClassAdRaw(ctx)
		case "SkipClassAdRaw":
			err = m.SkipClassAdRaw(ctx)
		default:
			panic("harness: unknown message entry point " + s.Ep)
		}
		return outcome{err: err, received: int64(c.off), depth: c.maxDepth, usesConn: true}
	case "hs":
		c := newFeedConn(in.Wire)
		err := runHandshake(s.Ep, c)
		return outcome{err: err, received: int64(c.off), depth: c.maxDepth, usesConn: true}
	case "blob":
		c := newFeedConn(nil)
		st, err := stream.NewStreamWithCryptoState(c, in.Blob)
		if err == nil && st != nil {
			_ = st.IsEncrypted()
			_ = st.GetPeerAddr()
		}
		return outcome{err: err, received: int64(len(in.Blob))}
	case "text":
		return outcome{err: runText(s.Ep, in.Text), received: int64(len(in.Text))}
	case "watch":
		return runWatch(s.Ep, in)
	case "pass":
		return runPass(in, tmp)
	}
	panic("harness: unknown family " + s.Fam)
}

func runText(ep, t string) error {
	touch := func(c *security.ClaimID) {
		_ = c.Raw()
		_ = c.SecSessionID()
		_ = c.SecSessionInfo()
		_ = c.SecSessionKey()
		_ = c.PublicClaimID()
	}
	switch ep {
	case "ParseClaimIDStrict":
		c := security.ParseClaimIDStrict(t)
		touch(c)
		// the documented consumer of a strict claim id
		if info := c.SecSessionInfo(); info != "" {
			_, _ = security.ImportSecSessionInfo(info)
		}
		return nil
	case "ParseClaimID":
		touch(security.ParseClaimID(t))
		return nil
	case "ParseCondorPrivateInherit":
		for _, s := range security.ParseCondorPrivateInherit(t) {
			_, _ = security.ImportSessionInfoAttributes(s.SessionInfo)
		}
		return nil
	case "ImportSecSessionInfo":
		_, err := security.ImportSecSessionInfo(t)
		return err
	case "ImportSessionInfoAttributes":
		_, err := security.ImportSessionInfoAttributes(t)
		return err
	case "ParseSinful":
		_, err := addresses.ParseSinful(t)
		return err
	case "ParseHTCondorAddress":
		_ = addresses.ParseHTCondorAddress(t)
		return nil
	case "SplitCCBContact":
		_, _, _ = addresses.SplitCCBContact(t)
		return nil
	case "VersionParse":
		_, _ = version.Parse(t)
		return nil
	}
	panic("harness: unknown text entry point " + ep)
}

var longAttr = strings.Repeat("QUJD", 1<<18)

func runWatch(ep string, in *Input) outcome {
	ad := classad.New()
	var names [3]string
	if ep == "WatchDecodeRequest" {
		names = [3]string{watch.AttrAdType, watch.AttrConstraint, watch.AttrCursor}
	} else {
		names = [3]string{watch.AttrKind, watch.AttrKey, watch.AttrCursor}
	}
	var n int64
	for i, it := range in.Attrs {
		switch it.C {
		case "str":
			ad.InsertAttrString(names[i], "Machine")
			n += 7
		case "b64":
			v := "QUJDRA=="
			if in.Text != "" {
				v = in.Text
			}
			ad.InsertAttrString(names[i], v)
			n += int64(len(v))
		case "b64bad":
			ad.InsertAttrString(names[i], "!!!not base64!!!")
			n += 16
		case "int":
			ad.InsertAttr(names[i], 3)
			n += 8
		case "hugeint":
			ad.InsertAttr(names[i], math.MaxInt64)
			n += 8
		case "long":
			ad.InsertAttrString(names[i], longAttr)
			n += int64(len(longAttr))
		}
	}
	var err error
	if ep == "WatchDecodeRequest" {
		_, _, _, err = watch.DecodeRequest(ad)
	} else {
		var k watch.Kind
		k, _, _, err = watch.DecodeHeader(ad)
		_ = k.String()
		_ = k.HasAd()
	}
	return outcome{err: err, received: n}
}

// runPass feeds a hostile shared-port header to the public Listener and waits
// for the handler to finish. The header is "accepted" when the listener goes on
// to wait for the passed descriptor.
func runPass(in *Input, tmp string) outcome {
	sockMu.Lock()
	sockSerial++
	path := filepath.Join(tmp, fmt.Sprintf("c13-%d-%d.sock", os.Getpid(), sockSerial))
	sockMu.Unlock()
	var mu sync.Mutex
	var logs []string
	l, err := sharedport.Listen(path, sharedport.Options{HandshakeTimeout: 1500 * time.Millisecond,
		Logf: func(f string, a ...any) {
			mu.Lock()
			logs = append(logs, fmt.Sprintf(f, a...))
			mu.Unlock()
		}})
	if err != nil {
		panic("harness: sharedport.Listen: " + err.Error())
	}
	defer os.Remove(path)
	c, err := net.Dial("unix", path)
	if err != nil {
		_ = l.Close()
		panic("harness: dial: " + err.Error())
	}
	_, _ = c.Write(in.Wire)
	_ = c.(*net.UnixConn).CloseWrite()
	// the handler logs exactly once per rejected connection
	deadline := time.Now().Add(1400 * time.Millisecond)
	for time.Now().Before(deadline) {
		mu.Lock()
		n := len(logs)
		mu.Unlock()
		if n > 0 {
			break
		}
		time.Sleep(200 * time.Microsecond)
	}
	_ = c.Close()
	_ = l.Close() // waits for the handler
	mu.Lock()
	defer mu.Unlock()
	out := outcome{received: int64(len(in.Wire))}
	for _, m := range logs {
		if strings.Contains(m, "receive fd") {
			return out // header accepted
		}
	}
	if len(logs) == 0 {
		out.err = errors.New("no verdict from listener")
		return out
	}
	out.err = errors.New(logs[0])
	return out
}
