package c17drv

import (
	"bufio"
	"os"
	"path/filepath"
	"sort"
	"strings"
)

// RaceReport is one "WARNING: DATA RACE" block of a race-detector log.
type RaceReport struct {
	// FuncA / FuncB: innermost frame inside github.com/bbockelm/cedar of each of
	// the two conflicting accesses ("" if the stack has no cedar frame).
	FuncA, FuncB string
	KindA, KindB string // "read" | "write"
	LocA, LocB   string // file:line of those frames (detail only, not in the signature)
	TopA, TopB   string // innermost frame of each access whatever the package
	Text         string
}

const cedarMod = "github.com/bbockelm/cedar/"

// Pair returns the order-independent "<funcA>|<funcB>" signature.
func (r RaceReport) Pair() string {
	a, b := r.FuncA, r.FuncB
	if a == "" {
		a = "(outside cedar) " + r.TopA
	}
	if b == "" {
		b = "(outside cedar) " + r.TopB
	}
	s := []string{a, b}
	sort.Strings(s)
	return s[0] + "|" + s[1]
}

// InCedar reports whether at least one of the two accesses is in cedar code.
func (r RaceReport) InCedar() bool { return r.FuncA != "" || r.FuncB != "" }

// ParseRaceLogs reads every file <prefix>.* written by GORACE=log_path=<prefix>.
func ParseRaceLogs(prefix string) ([]RaceReport, error) {
	files, err := filepath.Glob(prefix + ".*")
	if err != nil {
		return nil, err
	}
	var out []RaceReport
	for _, f := range files {
		b, err := os.ReadFile(f)
		if err != nil {
			return nil, err
		}
		out = append(out, ParseRaceText(string(b))...)
	}
	return out, nil
}

func trimFunc(fn string) string {
	fn = strings.TrimSuffix(strings.TrimSpace(fn), "()")
	if i := strings.Index(fn, cedarMod); i >= 0 {
		fn = fn[i+len(cedarMod):]
	}
	// closures: security.NewAuthenticator.func1 -> keep the enclosing function
	for {
		j := strings.LastIndex(fn, ".func")
		if j < 0 {
			break
		}
		rest := fn[j+5:]
		if strings.Trim(rest, "0123456789.") != "" {
			break
		}
		fn = fn[:j]
	}
	return fn
}

// ParseRaceText parses the text of a race log.
func ParseRaceText(text string) []RaceReport {
	var out []RaceReport
	sc := bufio.NewScanner(strings.NewReader(text))
	sc.Buffer(make([]byte, 1<<20), 1<<26)
	var cur *RaceReport
	var body strings.Builder
	section := 0 // 0 none, 1 first access, 2 second access, 3 rest
	var prevFunc string
	flush := func() {
		if cur != nil {
			cur.Text = body.String()
			out = append(out, *cur)
		}
		cur = nil
		body.Reset()
		section = 0
	}
	for sc.Scan() {
		line := sc.Text()
		if strings.HasPrefix(line, "WARNING: DATA RACE") {
			flush()
			cur = &RaceReport{}
			body.WriteString(line + "\n")
			continue
		}
		if cur == nil {
			continue
		}
		if strings.HasPrefix(line, "==================") {
			flush()
			continue
		}
		if body.Len() < 6000 {
			body.WriteString(line + "\n")
		}
		low := strings.ToLower(line)
		switch {
		case strings.HasPrefix(line, "Read at ") || strings.HasPrefix(line, "Write at ") ||
			strings.HasPrefix(line, "Atomic read at ") || strings.HasPrefix(line, "Atomic write at "):
			section = 1
			cur.KindA = "read"
			if strings.Contains(low, "write") {
				cur.KindA = "write"
			}
			prevFunc = ""
			continue
		case strings.HasPrefix(line, "Previous "):
			section = 2
			cur.KindB = "read"
			if strings.Contains(low, "write") {
				cur.KindB = "write"
			}
			prevFunc = ""
			continue
		case strings.HasPrefix(line, "Goroutine "):
			section = 3
			continue
		}
		if section != 1 && section != 2 {
			continue
		}
		if strings.HasPrefix(line, "  ") && !strings.HasPrefix(line, "      ") {
			prevFunc = strings.TrimSpace(line)
			if section == 1 && cur.TopA == "" {
				cur.TopA = trimFunc(prevFunc)
			}
			if section == 2 && cur.TopB == "" {
				cur.TopB = trimFunc(prevFunc)
			}
			continue
		}
		if strings.HasPrefix(line, "      ") && prevFunc != "" {
			loc := strings.TrimSpace(line)
			if i := strings.Index(loc, " +0x"); i > 0 {
				loc = loc[:i]
			}
			if strings.Contains(prevFunc, cedarMod) {
				if section == 1 && cur.FuncA == "" {
					cur.FuncA, cur.LocA = trimFunc(prevFunc), loc
				}
				if section == 2 && cur.FuncB == "" {
					cur.FuncB, cur.LocB = trimFunc(prevFunc), loc
				}
			}
			prevFunc = ""
		}
	}
	flush()
	return out
}

// FirstCedarFunc returns the first cedar function named in a goroutine dump.
func FirstCedarFunc(dump string) string {
	for _, line := range strings.Split(dump, "\n") {
		if strings.HasPrefix(line, cedarMod) {
			fn := line
			if i := strings.LastIndex(fn, "("); i > 0 {
				fn = fn[:i]
			}
			return trimFunc(fn)
		}
	}
	return "unknown"
}
