package c17drv

import (
	"math/rand"
	"sync"
	"sync/atomic"
	"time"

	"github.com/bbockelm/cedar/security"
)

// Gated episodes: one interleaving of the lock model (SessionCacheLocks.tla) made
// a deterministic schedule of the real code. Goroutine 1 runs operation A and is
// held at its expiry check (the VerifGate hook at the start of
// SessionEntry.IsExpired, build tag verif); while it is held goroutine 2 runs
// operation B - to completion if the real code lets it, otherwise until a
// timeout, after which goroutine 1 is released. The recorded call/return
// history (true stamps: the gate only delays) is validated by TLC against the
// sequential cache specification like every other episode. On code whose
// critical sections are those of the lock model B simply waits for A; code that
// dropped the cache lock around the expiry check lets B complete inside A and
// the history shows whatever that breaks (a lost store, a resurrected entry).

// GatedScenario is one (setup, A, B) combination.
type GatedScenario struct {
	Setup  string `json:"setup"`  // "none" | "dead" | "live": the entry stored under id "a" beforehand
	A      string `json:"a"`      // operation of goroutine 1 (held at its expiry check)
	B      string `json:"b"`      // operation of goroutine 2
	BClass string `json:"bclass"` // expiry class when B is a Store
}

// GatedScenarios enumerates the schedules: every operation that reaches an
// expiry check, against every operation that conflicts with it in the lock model.
func GatedScenarios(pairs []Pair) []GatedScenario {
	reach := []string{"LookupNE", "Sweep", "LookupCmd", "Dump", "Lookup", "IsExpired"}
	others := []string{"Store", "Invalidate", "Renew", "Clear", "MapCmd", "Lookup", "LookupNE", "LookupCmd", "Sweep", "Size"}
	conflict := map[string]bool{}
	for _, p := range pairs {
		conflict[p.A+"|"+p.B] = true
		conflict[p.B+"|"+p.A] = true
	}
	var out []GatedScenario
	for _, setup := range []string{"dead", "live", "none"} {
		for _, a := range reach {
			for _, b := range others {
				// pairs the model calls conflicting, plus the read-only partners as controls
				if len(pairs) > 0 && !conflict[a+"|"+b] && b != "Lookup" && b != "Size" {
					continue
				}
				if b == "Store" {
					out = append(out, GatedScenario{setup, a, b, "live"}, GatedScenario{setup, a, b, "dead"})
				} else {
					out = append(out, GatedScenario{setup, a, b, ""})
				}
			}
		}
	}
	return out
}

// RecordGated runs one gated schedule and returns its history; held reports
// whether goroutine 1 reached the gate and overlapped whether B returned while
// goroutine 1 was still held there.
func RecordGated(seed int64, sc GatedScenario, wait time.Duration) (ep Episode, held, overlapped bool) {
	ids := []string{"a", "b"}
	w := newWorld(ids)
	w.ids = []string{"a"}
	h := &recorder{per: make([][]Event, 2)}
	var objs []Obj
	var omu sync.Mutex
	r1 := rand.New(rand.NewSource(seed))
	r2 := rand.New(rand.NewSource(seed + 1))
	var known1, known2 []*security.SessionEntry

	// setup (recorded, goroutine 1)
	if sc.Setup != "none" {
		w.forceClass = sc.Setup
		w.recorded(h, 1, "Store", r1, &known1, &objs, &omu)
		w.recorded(h, 1, "MapCmd", r1, &known1, &objs, &omu)
		known2 = append(known2, known1...)
	}
	w.forceClass = sc.BClass

	var armed int32 = 1
	hit := make(chan struct{})
	release := make(chan struct{})
	gate := func(point, id string) {
		if atomic.CompareAndSwapInt32(&armed, 1, 2) {
			close(hit)
			<-release
		}
	}
	security.VerifGate.Store(&gate)
	defer security.VerifGate.Store(nil)

	doneA := make(chan struct{})
	go func() {
		defer close(doneA)
		w.recorded(h, 1, sc.A, r1, &known1, &objs, &omu)
	}()
	select {
	case <-hit:
		held = true
	case <-doneA:
	}
	atomic.StoreInt32(&armed, 0) // B is never held
	doneB := make(chan struct{})
	go func() {
		defer close(doneB)
		w.recorded(h, 2, sc.B, r2, &known2, &objs, &omu)
	}()
	if held {
		select {
		case <-doneB:
			overlapped = true
		case <-time.After(wait):
		}
		close(release)
	}
	<-doneB
	<-doneA

	// quiescence: every lookup path, a dump and the size
	w.forceClass = ""
	for _, op := range []string{"Lookup", "LookupCmd", "LookupNE"} {
		w.recorded(h, 1, op, r1, &known1, &objs, &omu)
	}
	w.recorded(h, 1, "Dump", r1, &known1, &objs, &omu)
	w.recorded(h, 1, "Size", r1, &known1, &objs, &omu)

	var all []Event
	for _, p := range h.per {
		all = append(all, p...)
	}
	sortEvents(all)
	return Episode{Ng: 2, Ids: ids, Objs: append([]Obj{}, objs...), Ev: all, Seed: seed}, held, overlapped
}
