package c17drv

import (
	"fmt"
	"sync"

	"github.com/bbockelm/cedar/security"
)

// AllocStats is the outcome of the session-id allocation hammer (binding of
// spec/SessionIdAlloc.tla: UniqueIds and NoForeignReplace on the real code).
type AllocStats struct {
	Goroutines int    `json:"goroutines"`
	Calls      int64  `json:"calls"`       // GetNextSessionCounter calls
	DupValues  int64  `json:"dup_values"`  // counter values handed to more than one caller
	DupExample string `json:"dup_example"` // one of them
	Minted     int    `json:"minted"`      // sessions minted (GenerateSessionID(GetNextSessionCounter())) and stored concurrently
	Stored     int    `json:"stored"`      // what the cache holds afterwards
	DupIDs     int    `json:"dup_ids"`     // minted ids handed out more than once
}

// AllocHammer: g goroutines call security.GetNextSessionCounter perG times each,
// all at once; every value must have been handed to exactly one caller. Then
// the same goroutines mint mintPerG session ids the way the server handshake
// does and Store one entry per id in one cache; the cache must hold them all.
// The goroutines share nothing but the code under test (values are collected
// in goroutine-local slices).
func AllocHammer(g, perG, mintPerG int) AllocStats {
	st := AllocStats{Goroutines: g}
	vals := make([][]int, g)
	var wg sync.WaitGroup
	start := make(chan struct{})
	for i := 0; i < g; i++ {
		wg.Add(1)
		go func(i int) {
			defer wg.Done()
			v := make([]int, perG)
			<-start
			for k := range v {
				v[k] = security.GetNextSessionCounter()
			}
			vals[i] = v
		}(i)
	}
	close(start)
	wg.Wait()
	lo, hi := int(^uint(0)>>1), 0
	for _, v := range vals {
		for _, x := range v {
			if x < lo {
				lo = x
			}
			if x > hi {
				hi = x
			}
		}
	}
	st.Calls = int64(g) * int64(perG)
	if hi >= lo && hi-lo < 64*g*perG+1024 {
		cnt := make([]uint8, hi-lo+1)
		for _, v := range vals {
			for _, x := range v {
				if cnt[x-lo] < 255 {
					cnt[x-lo]++
				}
				if cnt[x-lo] == 2 {
					st.DupValues++
					if st.DupExample == "" {
						st.DupExample = fmt.Sprint(x)
					}
				}
			}
		}
	} else { // values far apart (should not happen): fall back to a map
		seen := map[int]int{}
		for _, v := range vals {
			for _, x := range v {
				seen[x]++
				if seen[x] == 2 {
					st.DupValues++
					if st.DupExample == "" {
						st.DupExample = fmt.Sprint(x)
					}
				}
			}
		}
	}

	// mint + Store, as storeSession does at the end of every full server handshake
	cache := security.NewSessionCache()
	ids := make([][]string, g)
	start2 := make(chan struct{})
	for i := 0; i < g; i++ {
		wg.Add(1)
		go func(i int) {
			defer wg.Done()
			l := make([]string, 0, mintPerG)
			<-start2
			for k := 0; k < mintPerG; k++ {
				id := security.GenerateSessionID(security.GetNextSessionCounter())
				cache.Store(security.NewSessionEntry(id, fmt.Sprintf("hs-%d-%d", i, k), nil, nil, expiryOf("live"), lease, ""))
				l = append(l, id)
			}
			ids[i] = l
		}(i)
	}
	close(start2)
	wg.Wait()
	seen := map[string]bool{}
	for _, l := range ids {
		for _, id := range l {
			st.Minted++
			if seen[id] {
				st.DupIDs++
				if st.DupExample == "" {
					st.DupExample = id
				}
			}
			seen[id] = true
		}
	}
	st.Stored = cache.Size()
	return st
}
